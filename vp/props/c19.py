"""C19 — ray tracing obeys Snell's law and keeps rays on surfaces.

What is observed: the real `prysm.x.raytracing.spencer_and_murty.raytrace` (and, in direct calls, `intersect`,
`reflect`, `refract`, `transform_to_local_coords`, `transform_to_global_coords`) on generated prescriptions built with
the real `Surface.plane / sphere / conic / off_axis_conic` constructors and a harness-built Q-type `Surface` whose
`FFp` is `Q2d_and_der` + `surface_normal_from_cylindrical_derivatives` (the only route the library offers).

Oracle (vp/refmodels/rayphysics.py, no prysm import): every surface pass (P_j, S_j) -> (P_j+1, S_j+1) of the position /
direction history is taken into the surface frame with *my own* rotation algebra (R, R^T written out component-wise);
the surface normal is obtained by differentiating the library's *sag* numerically (central differences with
Richardson extrapolation; cross-checked by the complex-step derivative of the textbook conic formula where one exists)
— never from the library's normal; the clauses of the statement are then evaluated one by one:

  hit.on-ray          P_j+1 lies on the line (P_j, S_j)                                   (frame free)
  hit.on-surface      z_local = sag(x_local, y_local)
  out.unit-length     |S_j+1| = 1
  reflect.law         S' = S - 2 (S.n) n
  refract.snell / .coplanar / .side      n sin i = n' sin i', S' in the plane of (S, n), S'.n has the sign of S.n
  trace.finite        a ray for which my bracketing root finder (no derivative) finds an intersection inside the
                      aperture must not come back NaN (vertex hit / Newton non-convergence)
  rigid.*             contracts on every call of transform_to_local/global_coords (also the internal ones) against
                      R (X - P) and R X + P, round trip, preserved distances and dot products, det R = +1

Hardening pass (blind-spot classes of HARDENING.md).  The frame-transform contracts judge against copies of their arguments
taken before the call.
  B histories      a Surface object is traced, then a public attribute is changed on the *same object* (R reassigned / edited in
                   place / set to None / set from None, P reassigned / edited in place, R and P, typ + n, n, params['c','k','dx',
                   'dy']) or the trace arguments change (wavelength with a dispersive index, n_ambient), or it is simply traced
                   many times; the later trace is judged by the full pass oracle with the new attributes and must equal the trace
                   through a fresh Surface built with the same attributes
  A repeat         the same ray arrays passed again, rays as F-ordered / strided / read-only arrays; the history
                   arrays of an earlier trace edited by the caller; intersect / reflect / refract called twice with the same
                   arrays; one position vector handed to two Surface constructors
  C configuration  config.precision = 32 (surfaces store P and R as float32) with float32 and float64 rays, float32 rays under
                   precision 64 (single-precision thresholds, 3 decades above measured round-off), then the same prescription
                   rebuilt and traced under precision 64 at full tolerance (keys carry /precision=32, /float32-rays,
                   /after-precision-32)
  D regimes        prescriptions of 5..8 surfaces, |k| up to 10, strongly curved (R 4..25) and nearly flat (R 1e4..1e6) surfaces

Hardening pass 2 (HARDENING2.md).
  E argument forms  rays as nested lists / tuples / mixed list+ndarray / F-ordered / read-only, P and S in every float32 / float64
                   combination, one ray as (3,) / list of 3 / (1,3), batches of 2 and 3 (row i must be traced like row i of the
                   full batch); surfaces as tuple / object ndarray; wvl and n_ambient as python / numpy scalars and 0-d arrays,
                   keyword vs positional, n_ambient omitted after a trace in another medium; Surface constructors with typ in
                   every accepted spelling / the STYPE integer, P as scalar / [z] / [y,z] / [x,y,z] in list / tuple / ndarray /
                   numpy-scalar form, R as list vs tuple of angles, padded angles, make_rotation_matrix(angles), matrices in other
                   memory layouts, positional vs keyword (see FORMS_NOTE for what is out of domain)
    eval surfaces  one non-bending surface (plane / conic / off-axis conic; untilted, decentred, tilted by angles or matrix) first,
                   in the middle or last in a refracting prescription: judged pass by pass, and the prescription must trace the
                   other surfaces exactly as it does without the eval surface
    mixed batches  1..20 hitting rays interleaved with 1..5 rays that start outside the sag domain / leave it during the iteration /
                   run parallel to the vertex plane / arrive as NaN: each hitting ray equals its solo trace
  F foreign traffic make_rotation_matrix results edited in place (and the matrix of another Surface built from the same angles),
                   Q-polynomial sequences of other orders, the same routines under precision 32, polar grids edited in place; then
                   a surface is built and traced and judged as usual

Hardening pass 3 (HARDENING3.md).
  K batch orders    on a concave conic (sag domain of finite radius): a ray along the axis (converges in the first Newton iteration), slow
                   skew rays, a ray whose vertex-plane crossing is outside the sag domain (NaN from iteration 0) and a ray that crosses
                   the vertex plane inside the domain but leaves it (NaN only from iteration >= 1; labelled by a Newton iteration
                   written out in the harness) -- every permutation of a 4-ray and of a 5-ray batch, sampled orders of 3, 6, 7, 8 rays,
                   and a batch of 400 (thorough 4000) rays; every hitting ray equals its solo trace through intersect and raytrace
  G scaled systems  every length of a one- or two-surface system (curvature radius, decentre, Q-type normalisation radius and
                   coefficients, vertex, ray origins) times 1e-3, 1e-2, 1e2, 1e3: intersections scale, directions are identical, and the
                   scaled system is judged by the ordinary pass oracle
  H special rays    exactly along the axis (from whole distances, from the vertex plane itself, from 1e-3 and 1e3 away), axis-parallel
                   exactly on the coordinate axes / diagonals at the edge of the aperture, meridional rays with one direction cosine
                   exactly 0, normal incidence away from the vertex (pass oracle; keys carry /special:axis-edge-normal-incidence);
                   incidence of 75..89.9 degrees on a plane mirror in any frame, decided by the closed form

Violation keys are `C19/<stage>/<clause>/<class labels>`; the class labels are computed from the failing rays
(normal class: axial / sloped / unit; frame class; surface family; NaN class by geometric predicate).
"""
import math

import numpy as np

from ..contracts import attach, detach_all
from ..core import Ctx
from ..refmodels import rayphysics as rp

RULE = ('one case = one prescription (1-4 surfaces) + one ray bundle; surface family x interaction (reflect, refract '
        'n<n\', refract n>n\') x frame (none, decentred, Euler angles, explicit matrix) are enumerated, parameters '
        '(curvature, conic constant k in [-3,2], off-axis distance, Q coefficients, position, tilt, indices, wavelength) '
        'are random; every bundle contains the exactly on-axis ray, axis-parallel rays, skew rays through the vertex, a '
        'collimated grid, random skew rays and steep rays (30-40 deg); rays are aimed at points inside the aperture so '
        'they geometrically hit; a case is non-trivial when at least one ray was decided by a law monitor; '
        'distinct = distinct descriptor (classes + parameters + sub-seed).  Hardening workloads: surface histories (13 kinds of '
        'change x 5 families, second trace aimed at the surface in its new frame), ray forms (6 forms x 5 families), '
        'configuration (4 phases per prescription), regimes (long prescriptions, extreme curvature / conic constant).  Argument forms '
        '(hardening pass 2): per (family, interaction, frame) case ~60 forms of the rays (containers, dtype mixes, single ray vs '
        'batches of 1, 2, 3), of the trace arguments (surfaces container, wvl, n_ambient, call syntax) and of the Surface constructor '
        'arguments (typ spellings, P forms, R forms), plus single-vs-batch forms of intersect / reflect / refract / the frame '
        'transforms; eval surfaces: 3 positions x 4 frames x 3 families; mixed batches: 5 families x 3 interactions x 1..20 hitting '
        'and 1..5 untraceable rays; foreign traffic: 4 kinds x 5 families.  Hardening pass 3: batch orders (per concave conic 24 + 120 '
        'permutations and 24..160 sampled orders of batches of 3..8 rays drawn from {axis, slow, NaN at iteration 0, NaN from iteration >= 1}, '
        'one large random batch; non-trivial when a hitting ray was compared with its solo trace); scaled systems (60 class combinations x 4 '
        'factors x one / two surfaces); special rays (60 class combinations: ~30 special rays each, plus 12 grazing rays per plane mirror)')
ASSUMPTIONS = ['the surface is the graph z = sag(x,y) of the library\'s own sag routine in the surface frame; for plane / '
               'sphere / conic / off-axis conic that sag is additionally required to equal the textbook conic formula '
               'c s/(1+sqrt(1-(1+k)c^2 s)), s=(x+dx)^2+(y+dy)^2',
               'the surface frame is X_local = R (X - P) with R the matrix stored on the Surface (any proper rotation)',
               'the oracle normal (Richardson-extrapolated central differences of the sag, 4 levels) is exact to 1e-10; '
               'points where its own error estimate or its disagreement with the complex-step normal exceeds that are '
               'excluded and counted',
               'refraction is in domain for incidence on the +z side of the local normal (S.n > 0), below 0.95 of the '
               'critical angle; grazing incidence (cos i < 0.3) is excluded and counted',
               'the index of the medium before a surface is n_ambient or n(wvl) of the last refracting surface',
               'P, R, typ, n and params of a Surface are public attributes read by raytrace at trace time: after a change the '
               'surface must trace like a fresh Surface built with the same attributes; raytrace is a deterministic function of '
               'the values of its arguments and must accept read-only arrays',
               'single precision (float32 rays, or any trace while config.precision is 32: surfaces then hold float32 P and R): '
               'thresholds 1e-3 (x scale) for positions, unit length and the laws, 1e-4 for frame transforms and stored '
               'rotations, measured round-off 8e-8..1e-6; a hit within 1e-5 x aperture of the local origin counts as the vertex '
               'ray there',
               'argument forms (FORMS_NOTE): a form is demanded only when the current tree traces it like the canonical form; P of '
               'integer dtype is documented as unsupported; rows of a batch are independent rays (raytrace docstring), so a ray must be '
               'traced alike alone, in a batch of any size and next to rays that cannot be traced; an eval surface changes neither '
               'direction nor the rays the other surfaces receive; a float32 wavelength makes the index callable of the harness single precision (1e-3 for '
               'that form only)',
               'a matrix make_rotation_matrix returned (and the R a Surface stores) belongs to the caller: editing it in place must not '
               'change Surfaces built later from the same angles',
               'batch orders: which rays are NaN from which Newton iteration is a *label* obtained from a Newton iteration written out in '
               'the harness with the library\'s sag_normal; the verdict only compares each hitting ray of a batch with the same ray traced '
               'alone by the same routine (1e-9 x scale), rays lost when alone are excluded and counted',
               'scaled systems: ray tracing is covariant under a change of the unit of length; the law is judged on rays that are finite in '
               'both systems (a ray finite in one and lost in the other -- the known r = 0 singularity of Q-type surfaces is hit exactly in '
               'one system and missed by 1e-16 in the other -- is left to the pass oracle of the scaled system); tolerance 1e-9 x scale x factor',
               'grazing incidence stays outside the pass oracle (cos i < 0.3 excluded, as before); for a plane mirror the intersection and the '
               'mirrored direction have a closed form in the surface frame (own rotation algebra), which decides 75..89.9 degrees at 1e-9 x '
               '(scale incl. path length)']
REQUIRED = ['hit.on-ray', 'hit.on-surface', 'out.unit-length', 'reflect.law', 'refract.snell', 'refract.coplanar',
            'refract.side', 'trace.finite', 'surface.sag-definition', 'rigid.to_local', 'rigid.to_global',
            'rigid.roundtrip', 'rigid.R-proper', 'direct.intersect', 'direct.reflect', 'direct.refract',
            'multi-surface.pass', 'history.vs-fresh-surface', 'repeat.same-rays', 'repeat.direct', 'repeat.shared-P',
            'precision32.cases', 'float32-rays.cases', 'precision32-then-64.cases', 'regime.long-prescription',
            'regime.extreme-shape', 'form.rays', 'form.ray-dtypes', 'form.call-syntax', 'form.surface-args', 'form.direct', 'eval.pass',
            'eval.unchanged', 'eval.transparent', 'batch.vs-solo', 'foreign.cases',
            'batch.order', 'batch.large', 'scale.system', 'special.rays', 'special.grazing-plane-mirror']

CTX = None
WVL = 0.6328

TOL_POS = 1e-9      # x scale (>= 1): on-ray, on-surface         (round-off observed <= 4e-14 x scale)
TOL_UNIT = 1e-10    # | |S'| - 1 |                               (observed <= 1e-15)
TOL_LAW = 1e-9      # reflection vector law, Snell, coplanarity  (observed <= 1e-13)
TOL_INPUT = 1e-13   # | |S_j| - 1 | of the ray entering a pass (else the pass is downstream of an earlier deviation: excluded)
TOL_ORACLE = 1e-10  # oracle self-consistency (else excluded)
TOL_RIGID = 1e-12   # x scale, frame transforms vs own algebra   (observed <= 2e-16 x scale)
LONG_PATH = 32.0    # path from the local vertex plane to the hit beyond which ulp(s) approaches the default 100 eps
TOL_RPROPER = 1e-13  # orthonormality / det of a stored rotation
TOL_EVAL = 1e-13     # | S' - S | across a non-bending surface (R^T R S differs from S by round-off only)
KEYSUF = ''          # class label appended to the contract keys by the configuration workloads

VERTEX_TOL = 1e-12   # x aperture: a hit this close to the local origin is 'the ray through the vertex'
TOL64 = dict(TOL_POS=1e-9, TOL_UNIT=1e-10, TOL_LAW=1e-9, TOL_INPUT=1e-13, TOL_RIGID=1e-12, TOL_RPROPER=1e-13, VERTEX_TOL=1e-12, TOL_EVAL=1e-13)
# single precision (float32 rays, or anything while prysm.conf.config.precision is 32: surfaces then store P and R as float32):
# measured over 300 prescriptions x 64 rays: on-ray 8e-8 x scale, on-surface 1e-6 x scale, | |S'|-1 | 3e-7, laws 3e-7,
# frame transforms 1e-7 x scale, stored rotation orthonormal to 1e-7; thresholds 3 decades above
# (a float32 ray aimed at the vertex lands 1e-7..1e-6 from it: VERTEX_TOL 1e-5 keeps the mechanism label of the r=0 singularity)
TOL32 = dict(TOL_POS=1e-3, TOL_UNIT=1e-3, TOL_LAW=1e-3, TOL_INPUT=1e-5, TOL_RIGID=1e-4, TOL_RPROPER=1e-4, VERTEX_TOL=1e-5, TOL_EVAL=1e-4)


class tolerances:
    """with tolerances(TOL32, '/precision=32'): the clause thresholds (module globals read at call time) and the key suffix of
    the frame-transform contracts are swapped for the block."""

    def __init__(self, tols, suffix=''):
        self.tols, self.suffix = tols, suffix

    def __enter__(self):
        g = globals()
        self.old = {k: g[k] for k in self.tols}
        self.oldsuf = g['KEYSUF']
        g.update(self.tols)
        g['KEYSUF'] = self.suffix

    def __exit__(self, *a):
        g = globals()
        g.update(self.old)
        g['KEYSUF'] = self.oldsuf


class Tagged:
    """View of the run context that appends a class label to every violation key raised through it."""

    def __init__(self, ctx, suffix):
        self._ctx = ctx
        self._suffix = suffix

    def __getattr__(self, k):
        return getattr(self._ctx, k)

    # mechanisms that do not depend on the configuration keep their plain key (they are ledger entries)
    PLAIN = ('C19/vertex-hit-nan/qtype', 'C19/newton-nonconvergence/start-outside-sag-domain')

    def violation(self, key, what, desc=None, **detail):
        self._ctx.violation(key if key in self.PLAIN else key + self._suffix, what, desc, **detail)

    close = Ctx.close
    equal = Ctx.equal
    require = Ctx.require
    guard = Ctx.guard


# ================================================================================================ surfaces
class Spec:
    """One surface: what is passed to prysm and what the oracle knows about it."""

    def __init__(self, family, typ, P_arg, R_arg, n_after=None, **par):
        self.family = family          # plane | conic | off-axis-conic | qtype:k=0 | qtype:k!=0
        self.typ = typ                # refl | refr | eval
        self.P_arg = P_arg
        self.R_arg = R_arg
        self.n_after = n_after        # float (the library gets a callable of the wavelength)
        self.par = par
        self.a = par['a']             # aperture radius (local), rays are in domain when they hit inside it
        self.wvl = WVL
        self.surf = None
        self.V = None
        self.R = None

    def frame_class(self):
        if self.R_arg is None:
            v = np.atleast_1d(np.asarray(self.P_arg, dtype=float))
            return 'frame:none' if (v.size == 1 or not np.any(v[:-1])) else 'frame:decentred'
        return 'frame:tilted'

    def describe(self):
        R = self.R_arg
        d = {'family': self.family, 'typ': self.typ, 'P': self.P_arg,
             'R': None if R is None else (list(R) if isinstance(R, tuple) else np.asarray(R).tolist()),
             'R_form': 'none' if R is None else ('angles' if isinstance(R, tuple) else 'matrix')}
        d.update({k: v for k, v in self.par.items()})
        if self.n_after is not None:
            d['n_after'] = self.n_after
        return d

    def own_sag(self):
        """Textbook sag (complex capable) or None."""
        p = self.par
        if self.family == 'plane':
            return lambda x, y: 0.0 * (x + y)
        if self.family == 'conic':
            return lambda x, y: rp.conic_sag(p['c'], p['k'], x, y)
        if self.family == 'off-axis-conic':
            return lambda x, y: rp.conic_sag(p['c'], p['k'], x, y, p.get('dx', 0.0), p.get('dy', 0.0))
        return None


WAVELENGTHS = [0.6328, 0.55, 1.064, 0.4]


def _index_fn(n_at, wvl0):
    # mild dispersion; the index is exactly n_at at the wavelength of the case (the oracle uses n_at only)
    def n(wvl):
        return n_at + 0.004 * (1.0 / (wvl * wvl) - 1.0 / (wvl0 * wvl0))
    return n


def qtype_ffp(cm0, ams, bms, nr, c, k, dx, dy):
    """Harness FFp for a Q-type freeform: the library's evaluator and its polar->Cartesian conversion.

    Coordinates are passed as (N,1) columns because Q2d_and_der meshes 1-D inputs into a grid."""
    from prysm.x.raytracing.surfaces import Q2d_and_der, surface_normal_from_cylindrical_derivatives
    from prysm.coordinates import cart_to_polar

    def FFp(x, y):
        xc = np.asarray(x)[:, None]
        yc = np.asarray(y)[:, None]
        z, dr, dt = Q2d_and_der(cm0, ams, bms, xc, yc, nr, c, k, dx, dy)
        r, t = cart_to_polar(xc, yc, vec_to_grid=False)
        ddx, ddy = surface_normal_from_cylindrical_derivatives(dr, dt, r, t)
        return z[:, 0], ddx[:, 0], ddy[:, 0]
    return FFp


def build(spec):
    """Construct the real prysm Surface for a Spec and record its frame (vertex V, rotation R) as data."""
    from prysm.x.raytracing.surfaces import Surface
    p = spec.par
    typ = {'refl': 'refl', 'refr': 'refr', 'eval': 'eval'}[spec.typ]
    n = _index_fn(spec.n_after, spec.wvl) if spec.typ == 'refr' else None
    R = spec.R_arg
    if spec.family == 'plane':
        s = Surface.plane(typ, spec.P_arg, n=n, R=R)
    elif spec.family == 'conic':
        if p.get('ctor') == 'sphere':
            s = Surface.sphere(p['c'], typ, spec.P_arg, n, R=R)
        else:
            s = Surface.conic(p['c'], p['k'], typ, spec.P_arg, n=n, R=R)
    elif spec.family == 'off-axis-conic':
        s = Surface.off_axis_conic(p['c'], p['k'], typ, spec.P_arg, dy=p.get('dy', 0), dx=p.get('dx', 0), n=n, R=R)
    else:
        ffp = qtype_ffp(p['cm0'], p['ams'], p['bms'], p['nr'], p['c'], p['k'], p.get('dx', 0), p.get('dy', 0))
        s = Surface(typ, spec.P_arg, n, ffp, R=R)
    spec.surf = s
    spec.V = np.array(s.P, dtype=float)
    spec.R = None if s.R is None else np.array(s.R, dtype=float)
    return s


def lib_sag(spec):
    ffp = spec.surf.FFp

    def sag(x, y):
        x = np.asarray(x, dtype=float)
        y = np.asarray(y, dtype=float)
        shp = x.shape
        with np.errstate(all='ignore'):
            z = ffp(x.ravel(), y.ravel())[0]
        return np.asarray(z, dtype=float).reshape(shp)
    return sag


def lib_gradient(spec, x, y):
    """(dz/dx, dz/dy) as the library's own normal Surface.sag_normal -> (-Fx, -Fy, Fz) states it (labelling only)."""
    with np.errstate(all='ignore'):
        z, der = spec.surf.sag_normal(np.asarray(x, dtype=float), np.asarray(y, dtype=float))
        der = np.asarray(der, dtype=float)
        return -der[:, 0] / der[:, 2], -der[:, 1] / der[:, 2]


# ---------------------------------------------------------------------------------------- random parameters
def rand_frame(rng, form, gentle=False):
    """(P_arg, R_arg) for frame form none|decentred|angles|matrix."""
    if form == 'none':
        return float(np.round(rng.uniform(-20, 20), 3)), None
    if form == 'decentred':
        P = [float(v) for v in np.round(rng.uniform(-15, 15, 3), 3)]
        if rng.integers(3) == 0:
            P = P[1:]           # [Y, Z]
        return P, None
    P = [float(v) for v in np.round(rng.uniform(-15, 15, 3), 3)]
    lim = 25 if gentle else 180
    ang = [float(v) for v in np.round(rng.uniform(-lim, lim, 3), 2)]
    if form == 'angles':
        k = int(rng.integers(4))
        if k == 0:
            ang = ang[:1]
        elif k == 1:
            ang = ang[:2]
        return P, tuple(ang)
    return P, rp.rotation_from_angles(*ang)


def rand_shape(rng, family, regime=None):
    """Shape parameters of one surface + aperture radius a (all rays are aimed inside it).  regime: None (R 25..400,
    k in [-3,2]) | 'strong-curvature' (R 4..25) | 'nearly-flat' (R 1e4..1e6) | 'extreme-conic' (k in [-10,-3] or [2,8])."""
    if family == 'plane':
        return {'a': float(rng.uniform(5, 40))}
    sign = -1.0 if rng.integers(2) else 1.0
    Rc = float(np.round(rng.uniform(25, 400), 2))
    if regime == 'strong-curvature':
        Rc = float(np.round(rng.uniform(4, 25), 2))
    elif regime == 'nearly-flat':
        Rc = float(np.round(10 ** rng.uniform(4, 6), 0))
    c = sign / Rc
    k = float([0.0, -1.0, float(np.round(rng.uniform(-3, 2), 3)), float(np.round(rng.uniform(-3, 2), 3))][int(rng.integers(4))])
    if regime == 'extreme-conic':
        k = float(np.round(rng.uniform(-10, -3) if rng.integers(2) else rng.uniform(2, 8), 3))
    reach = min(0.6 * Rc, 0.6 * Rc / math.sqrt(max(1.0 + k, 1e-12)), 60.0)   # slope <= 0.75, phi >= 0.8
    if family == 'conic':
        ctor = 'conic'
        if rng.integers(5) == 0:
            ctor, k = 'sphere', 0.0
            reach = min(0.6 * Rc, 60.0)
        a = float(np.round(rng.uniform(0.3, 1.0) * min(reach, 30.0), 3))
        return {'c': c, 'k': k, 'a': a, 'ctor': ctor}
    if family == 'off-axis-conic':
        d = float(np.round(rng.uniform(0.25, 0.7) * reach, 3)) * (-1.0 if rng.integers(2) else 1.0)
        a = float(np.round(rng.uniform(0.3, 1.0) * min(reach - abs(d), 30.0), 3))
        if rng.integers(2):
            return {'c': c, 'k': k, 'a': a, 'dx': d, 'dy': 0.0}
        return {'c': c, 'k': k, 'a': a, 'dx': 0.0, 'dy': d}
    # Q-type: dense rectangular coefficient sets with >= 2 radial terms (ragged / length-1 sets are C10's subject)
    nterm = int(rng.integers(2, 5))
    mmax = int(rng.integers(1, 4))
    nr = float(np.round(rng.uniform(8, 30), 2))
    amp = 2e-3 * nr
    cm0 = [float(v) for v in np.round(rng.uniform(-1, 1, nterm) * amp, 6)]
    ams = [[float(v) for v in np.round(rng.uniform(-1, 1, nterm) * amp * 0.3, 6)] for _ in range(mmax)]
    bms = [[float(v) for v in np.round(rng.uniform(-1, 1, nterm) * amp * 0.3, 6)] for _ in range(mmax)]
    if family == 'qtype:k=0':
        k = 0.0
        if rng.integers(4) == 0:
            c = 0.0
    else:
        k = float(np.round(rng.uniform(-3, 2), 3))
        if abs(k) < 0.05:
            k = -0.8
    reach = 1e9 if c == 0 else min(0.6 / abs(c), 0.6 / abs(c) / math.sqrt(max(1.0 + k, 1e-12)))
    dx = dy = 0.0
    if c != 0 and rng.integers(3) == 0:
        d = float(np.round(rng.uniform(0.2, 0.5) * min(reach, 60.0), 3)) * (-1.0 if rng.integers(2) else 1.0)
        if rng.integers(2):
            dx = d
        else:
            dy = d
    a = float(np.round(min(0.85 * nr, 0.9 * (reach - abs(dx + dy))), 3))
    return {'c': c, 'k': k, 'a': a, 'dx': dx, 'dy': dy, 'cm0': cm0, 'ams': ams, 'bms': bms, 'nr': nr}


def pick_index(rng, n_before, way):
    """n' for a refracting surface: way = 'in' (n < n') or 'out' (n > n')."""
    if way == 'in':
        return float(np.round(n_before + rng.uniform(0.2, 0.9), 4))
    lo = max(1.0, n_before - 0.9)
    return float(np.round(rng.uniform(lo, n_before - 0.15), 4)) if n_before - 0.15 > lo else 1.0


# ================================================================================================ rays
RAY_CLASSES = ['on-axis', 'axis-parallel', 'through-vertex', 'grid', 'skew', 'steep']


def local_bundle(rng, spec, n_grid, n_rand, sag):
    """Rays in the surface frame, aimed at targets inside the aperture.  Returns (P_l, S_l, class index)."""
    a = spec.a

    def dirs(n, lo, hi):
        ang = np.radians(rng.uniform(lo, hi, n))
        az = rng.uniform(0, 2 * np.pi, n)
        return np.stack([np.sin(ang) * np.cos(az), np.sin(ang) * np.sin(az), np.cos(ang)], 1)

    T, S, C = [], [], []
    # exactly on-axis
    T.append(np.zeros((1, 2))); S.append(np.array([[0.0, 0.0, 1.0]])); C += [0]
    # axis-parallel
    m = 4
    r = a * np.sqrt(rng.uniform(0.0, 1.0, m)); th = rng.uniform(0, 2 * np.pi, m)
    T.append(np.stack([r * np.cos(th), r * np.sin(th)], 1)); S.append(np.tile([0.0, 0.0, 1.0], (m, 1))); C += [1] * m
    # skew rays through the vertex
    T.append(np.zeros((2, 2))); S.append(dirs(2, 1, 35)); C += [2, 2]
    # collimated grid (contains the vertex and points on the x / y axes)
    g = np.linspace(-0.7 * a, 0.7 * a, n_grid)
    gx, gy = np.meshgrid(g, g)
    T.append(np.stack([gx.ravel(), gy.ravel()], 1)); S.append(np.tile(dirs(1, 0, 25), (gx.size, 1))); C += [3] * gx.size
    # random skew
    r = a * np.sqrt(rng.uniform(0.0, 1.0, n_rand)); th = rng.uniform(0, 2 * np.pi, n_rand)
    T.append(np.stack([r * np.cos(th), r * np.sin(th)], 1)); S.append(dirs(n_rand, 0, 30)); C += [4] * n_rand
    # steep
    m = max(4, n_rand // 3)
    r = a * np.sqrt(rng.uniform(0.0, 1.0, m)); th = rng.uniform(0, 2 * np.pi, m)
    T.append(np.stack([r * np.cos(th), r * np.sin(th)], 1)); S.append(dirs(m, 30, 40)); C += [5] * m
    T = np.concatenate(T); S = np.concatenate(S); C = np.array(C)
    z = sag(T[:, 0], T[:, 1])
    T3 = np.stack([T[:, 0], T[:, 1], z], 1)
    d = rng.uniform(5.0, 60.0, len(T3))
    d[C == 0] = float(np.round(rng.uniform(5, 60)))      # on-axis ray starts at an exactly representable point
    P = T3 - d[:, None] * S
    P[C == 0, :2] = 0.0
    ok = np.isfinite(P).all(1)
    return P[ok], S[ok], C[ok], T3[ok]


# ================================================================================================ the oracle
def _worst(err, mask):
    e = np.where(mask, err, -1.0)
    e = np.where(np.isnan(e), np.inf, e)
    i = int(np.argmax(e))
    return i, float(e[i])


def _first(mask):
    return int(np.nonzero(mask)[0][0])


def check_pass(ctx, spec, Pin, Sin, Pout, Sout, n1, desc, stage='raytrace', j=0):
    """Decide every clause of the statement for one surface pass of a bundle.  Returns the number of decided rays."""
    V, R, a = spec.V, spec.R, spec.a
    fam = spec.family
    frame = spec.frame_class()
    sag = lib_sag(spec)
    N = Pin.shape[0]
    Pin = np.asarray(Pin, dtype=float); Sin = np.asarray(Sin, dtype=float)
    Pout = np.asarray(Pout, dtype=float); Sout = np.asarray(Sout, dtype=float)

    def wit(i, **kw):
        d = {'surface_index': j, 'ray_P': Pin[i], 'ray_S': Sin[i], 'lib_P': Pout[i], 'lib_S': Sout[i], 'n_before': n1}
        d.update(kw)
        return d

    # ---- 0. inputs of this pass must be a valid ray (otherwise we are downstream of an earlier violation / NaN)
    valid = np.isfinite(Pin).all(1) & np.isfinite(Sin).all(1)
    with np.errstate(invalid='ignore'):
        # the input must be unit at round-off level, 3 decades below the output tolerance: an upstream error just
        # under TOL_UNIT must not be charged to this surface
        valid &= np.abs(rp.norm(Sin) - 1.0) <= TOL_INPUT
    if (~valid).any():
        ctx.skip('pass input not a finite unit ray (downstream of an earlier NaN / violation)', int((~valid).sum()))
    if not valid.any():
        return 0
    # ---- 1. own frame, own intersection (domain decision)
    Pl0, Sl0 = rp.to_local(Pin, Sin, V, R)
    Plo, Slo = rp.to_local(Pout, Sout, V, R)
    with np.errstate(all='ignore'):
        mz = Sl0[:, 2]
        dom = valid & (np.abs(mz) >= 0.3)
    if (valid & ~dom).any():
        ctx.skip('ray nearly perpendicular to the local axis (|m| < 0.3): out of domain', int((valid & ~dom).sum()))
    # bound of |sag| over the aperture (sampled), used for the scan range
    tt = np.linspace(0, 2 * np.pi, 25)[:-1]
    rr = np.array([0.0, 0.5, 1.0, 1.02])[:, None] * a
    zs = sag((rr * np.cos(tt)).ravel(), (rr * np.sin(tt)).ravel())
    zb = float(np.nanmax(np.abs(zs))) if np.isfinite(zs).any() else 0.0
    zb = 1.25 * zb + 1e-3 * a + 1e-6
    mzs = np.where(dom, mz, 1.0)
    s1 = (-zb - Pl0[:, 2]) / mzs
    s2 = (zb - Pl0[:, 2]) / mzs
    slo, shi = np.minimum(s1, s2), np.maximum(s1, s2)
    qt = fam.startswith('qtype')
    Pl0d = np.where(dom[:, None], Pl0, 0.0)
    Sl0d = np.where(dom[:, None], Sl0, np.array([0.0, 0.0, 1.0]))
    sroot, found = rp.ray_surface_roots(sag, Pl0d, Sl0d, slo, shi, nscan=32 if qt else 96, iters=42 if qt else 52)
    Xr = Pl0d + np.where(found, sroot, 0.0)[:, None] * Sl0d
    r_root = np.hypot(Xr[:, 0], Xr[:, 1])
    hit = dom & found & (r_root <= a)
    if (dom & ~hit).any():
        ctx.skip('no bracketed intersection inside the aperture (miss / tangential): out of domain', int((dom & ~hit).sum()))
    if not hit.any():
        return 0
    scale = max(1.0, float(np.max(np.abs(Pin[hit]))), float(np.max(np.abs(V))), float(np.max(np.abs(Xr[hit]))))
    # geometric predicates for the NaN classes
    s0 = -Pl0d[:, 2] / Sl0d[:, 2]
    X0 = Pl0d + s0[:, None] * Sl0d
    start_outside = ~np.isfinite(sag(X0[:, 0], X0[:, 1]))
    gx0, gy0 = lib_gradient(spec, X0[:, 0], X0[:, 1])
    start_normal_nan = ~start_outside & ~(np.isfinite(gx0) & np.isfinite(gy0))   # sag real there, library normal is not
    long_path = np.abs(sroot - s0) >= LONG_PATH
    vertex_hit = r_root <= VERTEX_TOL * max(a, 1.0)
    # oracle normal at the oracle's own intersection (used for TIR/grazing decisions when the library is NaN)
    h = 0.02 * a
    zxr, zyr, errr = rp.gradient_richardson(sag, Xr[:, 0], Xr[:, 1], h, levels=4)
    n_root = rp.normal_from_gradient(zxr, zyr)
    cos_root = rp.dot(Sl0d, n_root)
    refr = spec.typ == 'refr'
    n2 = spec.n_after if refr else None
    with np.errstate(invalid='ignore'):
        grazing = hit & ~(cos_root >= 0.3)
        nearcrit = np.zeros(N, dtype=bool)
        if refr:
            nearcrit = hit & ((n1 / n2) * rp.sin_between(Sl0d, n_root) > 0.95)
    if grazing.any():
        ctx.skip('grazing or backward incidence on the local normal (cos i < 0.3): excluded', int(grazing.sum()))
    if (nearcrit & ~grazing).any():
        ctx.skip('total internal reflection or within 5% of the critical angle: out of domain', int((nearcrit & ~grazing).sum()))
    live = hit & ~grazing & ~nearcrit
    if not live.any():
        return 0

    # ---- 2. the library must not lose the ray
    pos_nan = ~np.isfinite(Pout).all(1)
    dir_nan = ~np.isfinite(Sout).all(1)
    ctx.observe('trace.finite', int(live.sum()))
    lost = live & pos_nan
    if lost.any():
        groups = [('vertex-hit-nan', lost & vertex_hit, f'C19/vertex-hit-nan/{fam.split(":")[0]}',
                   'a ray through the local origin of the surface (e.g. the ray along the axis of symmetry) comes back NaN'),
                  ('start-outside', lost & ~vertex_hit & start_outside, 'C19/newton-nonconvergence/start-outside-sag-domain',
                   'ray hits the surface inside the aperture but crosses the local vertex plane where the sag is not real: NaN'),
                  ('start-normal-nan', lost & ~vertex_hit & start_normal_nan, f'C19/newton-nonconvergence/normal-nan-at-start/{fam}',
                   'ray hits the surface inside the aperture; at its vertex-plane crossing (where the Newton iteration starts) the '
                   'sag is real but the library normal is NaN, so the ray is lost'),
                  ('long-path', lost & ~vertex_hit & ~start_outside & ~start_normal_nan & long_path, 'C19/newton-nonconvergence/long-path',
                   f'ray hits the surface inside the aperture, >= {LONG_PATH:g} units from the local vertex plane: the Newton '
                   'iteration never meets its absolute 100*eps step tolerance and the ray is marked NaN')]
        rest = lost.copy()
        for name, msk, key, what in groups:
            rest &= ~msk
            if msk.any():
                i = _first(msk)
                ctx.violation(key, what, desc, count=int(msk.sum()),
                              **wit(i, oracle_hit_local=Xr[i], path_from_vertex_plane=float(abs(sroot[i] - s0[i]))))
        if rest.any():
            i = _first(rest)
            ctx.violation(f'C19/newton-nonconvergence/regular/{fam}',
                          'ray hits the surface inside the aperture (bracketing root finder) but the library marks it NaN',
                          desc, count=int(rest.sum()), **wit(i, oracle_hit_local=Xr[i], ray_class='regular'))
    live &= ~pos_nan
    lostdir = live & dir_nan
    if lostdir.any():
        i = _first(lostdir)
        ctx.violation(f'C19/{spec.typ}/direction-nan/{fam}', 'intersection found but the outgoing direction is NaN below the critical angle',
                      desc, count=int(lostdir.sum()), **wit(i))
    live &= ~dir_nan
    if not live.any():
        return 0

    # ---- 3. the hit: on the ray (frame free), on the surface (own frame)
    with np.errstate(all='ignore'):
        e_ray = rp.point_line_distance(Pout, Pin, Sin)
        z_here = sag(Plo[:, 0], Plo[:, 1])
        e_surf = np.abs(Plo[:, 2] - z_here)
    ctx.observe('hit.on-ray', int(live.sum()))
    bad = live & ~(e_ray <= TOL_POS * scale)
    if bad.any():
        i, e = _worst(e_ray, bad)
        ctx.violation(f'C19/hit/off-ray/{frame}', 'the traced intersection point does not lie on the incident ray', desc,
                      err=e, tol=TOL_POS * scale, count=int(bad.sum()), **wit(_first(bad)))
    ctx.observe('hit.on-surface', int(live.sum()))
    bad2 = live & ~(e_surf <= TOL_POS * scale)
    if bad2.any():
        i, e = _worst(e_surf, bad2)
        ctx.violation(f'C19/hit/off-surface/{frame}/{fam}', 'the traced intersection point does not lie on the surface z = sag(x,y)',
                      desc, err=e, tol=TOL_POS * scale, count=int(bad2.sum()), **wit(_first(bad2), local_point=Plo[_first(bad2)]))
    live &= ~(bad | bad2)
    r_here = np.hypot(Plo[:, 0], Plo[:, 1])
    far = live & ~(r_here <= 1.02 * a)
    if far.any():
        ctx.skip('library converged to another intersection outside the aperture: laws not evaluated there', int(far.sum()))
    live &= ~far
    if not live.any():
        return 0
    # sag definition (families with a textbook formula)
    own = spec.own_sag()
    if own is not None:
        with np.errstate(all='ignore'):
            e_def = np.abs(z_here - np.real(own(Plo[:, 0], Plo[:, 1])))
        ctx.observe('surface.sag-definition', int(live.sum()))
        bd = live & ~(e_def <= TOL_POS * scale)
        if bd.any():
            i, e = _worst(e_def, bd)
            ctx.violation(f'C19/surface/sag-differs-from-conic-definition/{fam}',
                          'the library sag differs from c s/(1+sqrt(1-(1+k)c^2 s))', desc, err=e, count=int(bd.sum()),
                          **wit(_first(bd), local_point=Plo[_first(bd)]))
            live &= ~bd

    # ---- 4. oracle normal at the library's hit point, from the sag only
    x, y = np.where(live, Plo[:, 0], 0.0), np.where(live, Plo[:, 1], 0.0)
    zx, zy, err = rp.gradient_richardson(sag, x, y, h, levels=4)
    okn = np.isfinite(zx) & np.isfinite(zy) & (err <= TOL_ORACLE)
    if own is not None:
        zx2, zy2 = rp.gradient_complex_step(own, x, y)
        with np.errstate(invalid='ignore'):
            okn &= (np.abs(zx - zx2) <= TOL_ORACLE) & (np.abs(zy - zy2) <= TOL_ORACLE)
    if (live & ~okn).any():
        ctx.skip('oracle normal ill-conditioned (Richardson error estimate / complex-step disagreement > 1e-10)', int((live & ~okn).sum()))
    live &= okn
    if not live.any():
        return 0
    nrm = rp.normal_from_gradient(np.where(live, zx, 0.0), np.where(live, zy, 0.0))
    slope = np.hypot(zx, zy)
    ncls = np.where(slope <= 1e-9, 'axial-normal', 'sloped-normal')
    cosi = rp.dot(Sl0, nrm)
    with np.errstate(invalid='ignore'):
        live &= cosi >= 0.3
        if refr:
            live &= (n1 / n2) * rp.sin_between(Sl0, nrm) <= 0.95
    if not live.any():
        return 0

    # library normal direction, only used to *label* a failed law (normal bug vs law bug)
    def wrong_normal(msk, errv):
        # the library's own normal at its hit point deviates from the normal of its sag by an amount that explains
        # the failed clause (a NaN gradient at the exact origin explains nothing: the library evaluated it elsewhere)
        fx, fy = lib_gradient(spec, x, y)
        nl = rp.normal_from_gradient(fx, fy)
        with np.errstate(invalid='ignore'):
            dn = rp.norm(nl - nrm)
            return msk & np.isfinite(dn) & (dn > 1e-11) & (dn > 0.05 * np.where(np.isfinite(errv), errv, np.inf))

    def report(monitor, errv, tol, stagek, clause, what):
        ctx.observe(monitor, int(live.sum()))
        with np.errstate(invalid='ignore'):
            badm = live & ~(errv <= tol)
        if not badm.any():
            return
        wn = wrong_normal(badm, errv)
        if wn.any():
            i = _first(wn)
            fx, fy = lib_gradient(spec, x[i:i + 1], y[i:i + 1])
            ctx.violation(f'C19/normal/not-true-normal/{fam}',
                          'the normal the library uses at the intersection is not the normal of its own sag, so the ray is '
                          f'bent about a wrong normal ({clause} fails)', desc, count=int(wn.sum()), clause=f'{stagek}/{clause}',
                          **wit(i, local_point=Plo[i], lib_gradient=[float(fx[0]), float(fy[0])], oracle_gradient=[float(zx[i]), float(zy[i])]))
        badm &= ~wn
        for cls in ('axial-normal', 'sloped-normal'):
            mk = badm & (ncls == cls)
            if mk.any():
                i, e = _worst(errv, mk)
                f = _first(mk)
                ctx.violation(f'C19/{stagek}/{clause}/{cls}', what, desc, err=e, tol=tol, count=int(mk.sum()),
                              **wit(f, local_point=Plo[f], oracle_normal=nrm[f], n_after=n2))

    # ---- 5. unit length
    with np.errstate(invalid='ignore'):
        e_unit = np.abs(rp.norm(Sout) - 1.0)
    stagek = {'refl': 'reflect', 'refr': 'refract', 'eval': 'eval'}[spec.typ]
    report('out.unit-length', e_unit, TOL_UNIT, stagek, 'unit-length', 'outgoing direction cosines do not have unit length')
    # ---- 6. the law
    if spec.typ == 'refl':
        ref = rp.reflect_law(Sl0, nrm)
        report('reflect.law', rp.norm(Slo - ref), TOL_LAW, 'reflect', 'law',
               'reflected direction is not S - 2 (S.n) n about the true surface normal')
    elif spec.typ == 'refr':
        report('refract.snell', np.abs(rp.snell_residual(n1, n2, Sl0, Slo, nrm)), TOL_LAW, 'refract', 'snell',
               "n sin(i) != n' sin(i') about the true surface normal")
        report('refract.coplanar', rp.coplanarity(Sl0, Slo, nrm), TOL_LAW, 'refract', 'coplanar',
               'refracted ray is not in the plane of incidence')
        with np.errstate(invalid='ignore'):
            side = np.where(rp.dot(Slo, nrm) * cosi > 0, 0.0, 1.0)
        report('refract.side', side, 0.5, 'refract', 'wrong-side', 'refracted ray leaves on the incident side of the surface')
    else:
        report('eval.unchanged', rp.norm(Sout - Sin), TOL_EVAL, 'eval', 'direction-changed', 'an eval surface changed the ray direction')
    return int(live.sum())


# ================================================================================================ contracts
def _pre_rigid(args, kwargs):
    """Copies of the array arguments taken before the call (a transform that writes into its inputs must not drag the
    oracle along)."""
    a = dict(zip(['XYZ', 'P', 'S', 'R'], args)); a.update(kwargs)
    return {k: (None if v is None else np.array(v)) for k, v in a.items()}


def _rigid_tol(*arrays):
    """float32 operands (rays or a surface stored under precision 32) get the single-precision threshold."""
    if any(getattr(v, 'dtype', None) == np.float32 for v in arrays if v is not None):
        return max(TOL_RIGID, TOL32['TOL_RIGID'])
    return TOL_RIGID


def _post_local(token, args, kwargs, result):
    a = token
    tolr = _rigid_tol(a['XYZ'], a['P'], a['S'], a.get('R'))
    XYZ, P, S, R = np.asarray(a['XYZ'], dtype=float), np.asarray(a['P'], dtype=float), np.asarray(a['S'], dtype=float), a.get('R')
    if not (np.isfinite(XYZ).all() and np.isfinite(S).all()):
        return
    Pl, Sl = rp.to_local(np.atleast_2d(XYZ) if R is not None else XYZ, np.atleast_2d(S) if R is not None else S, P,
                         None if R is None else np.asarray(R, dtype=float))
    sc = max(1.0, float(np.max(np.abs(XYZ))), float(np.max(np.abs(P))))
    cls = 'R=None' if R is None else 'R'
    d = {'fn': 'transform_to_local_coords', 'shape': list(XYZ.shape), 'class': cls}
    CTX.close('rigid.to_local', result[0], Pl, f'C19/rigid/to_local/position/{cls}' + KEYSUF, 'transform_to_local_coords != R (X - P)', d,
              rtol=0, atol=tolr * sc)
    CTX.close('rigid.to_local', result[1], Sl, f'C19/rigid/to_local/direction/{cls}' + KEYSUF, 'transform_to_local_coords: S != R S', d,
              rtol=0, atol=tolr)


def _post_global(token, args, kwargs, result):
    a = token
    tolr = _rigid_tol(a['XYZ'], a['P'], a['S'], a.get('R'))
    XYZ, P, S, R = np.asarray(a['XYZ'], dtype=float), np.asarray(a['P'], dtype=float), np.asarray(a['S'], dtype=float), a.get('R')
    if not (np.isfinite(XYZ).all() and np.isfinite(S).all()):
        return
    if R is None:
        Pg, Sg = XYZ + P, S
    else:
        Rm = np.asarray(R, dtype=float)
        Pg, Sg = rp.apply(Rm, np.atleast_2d(XYZ)) + P, rp.apply(Rm, np.atleast_2d(S))
    sc = max(1.0, float(np.max(np.abs(XYZ))), float(np.max(np.abs(P))))
    cls = 'R=None' if R is None else 'R'
    d = {'fn': 'transform_to_global_coords', 'shape': list(XYZ.shape), 'class': cls}
    CTX.close('rigid.to_global', result[0], Pg, f'C19/rigid/to_global/position/{cls}' + KEYSUF, 'transform_to_global_coords != R X + P', d,
              rtol=0, atol=tolr * sc)
    CTX.close('rigid.to_global', result[1], Sg, f'C19/rigid/to_global/direction/{cls}' + KEYSUF, 'transform_to_global_coords: S != R S', d,
              rtol=0, atol=tolr)


COUNTERS = {'intersect': [0], 'reflect': [0], 'refract': [0]}


def install():
    from prysm.x.raytracing import spencer_and_murty as sm
    attach(sm, 'transform_to_local_coords', pre=_pre_rigid, post=_post_local)
    attach(sm, 'transform_to_global_coords', pre=_pre_rigid, post=_post_global)
    for k in COUNTERS:
        COUNTERS[k][0] = 0
        attach(sm, k, counter=COUNTERS[k])


# ================================================================================================ workloads
FAMILIES = ['plane', 'conic', 'off-axis-conic', 'qtype:k=0', 'qtype:k!=0']
WAYS = ['refl', 'refr-in', 'refr-out']
FORMS = ['none', 'decentred', 'angles', 'matrix']


def make_spec(rng, family, way, form, n_before, gentle=False, frame=None, regime=None):
    shape = rand_shape(rng, family, regime) if regime else rand_shape(rng, family)
    P_arg, R_arg = frame if frame is not None else rand_frame(rng, form, gentle)
    typ = 'refl' if way == 'refl' else ('eval' if way == 'eval' else 'refr')
    n_after = pick_index(rng, n_before, 'in' if way == 'refr-in' else 'out') if typ == 'refr' else None
    return Spec(family, typ, P_arg, R_arg, n_after, **shape)


_RAISED = object()


def lib_call(ctx, key, desc, fn, *a, **k):
    """Call into prysm under ctx.guard: an exception escaping prysm is the violation key/raises:<Type>; returns _RAISED then.
    Oracle code is never run under the guard (an exception there is a harness error, i.e. inconclusive, not a verdict)."""
    out = [_RAISED]
    with ctx.guard(key, desc):
        out[0] = fn(*a, **k)
    return out[0]


def check_R(ctx, spec, desc):
    if spec.R is None:
        return True
    e, det = rp.orthonormality(spec.R)
    form = 'angles' if isinstance(spec.R_arg, tuple) else 'matrix'
    return ctx.require('rigid.R-proper', e <= TOL_RPROPER and abs(det - 1.0) <= TOL_RPROPER, f'C19/rigid/R-not-a-proper-rotation/{form}',
                       'the rotation stored on the Surface is not orthonormal with det +1', desc, orth_err=e, det=det)


def single_surface_case(ctx, idx, family, way, form, regime=None):
    from prysm.x.raytracing import spencer_and_murty as sm
    rng = ctx.rng('single' if regime is None else 'single:' + regime, idx)
    n_amb = 1.0 if way != 'refr-out' else float(np.round(rng.uniform(1.45, 1.9), 4))
    if way == 'refr-in' and rng.integers(4) == 0:
        n_amb = 1.33
    spec = make_spec(rng, family, way, form, n_amb, regime=regime)
    if regime:
        ctx.observe('regime.extreme-shape')
    shape_form = 'single-ray' if idx % 7 == 3 else ('one-row' if idx % 7 == 5 else 'batch')   # 7 is coprime to the 60 class combinations
    spec.wvl = wvl = WAVELENGTHS[idx % len(WAVELENGTHS)] if idx % 3 == 0 else WVL
    desc = {'wl': 'single-surface', 'surface': spec.describe(), 'n_ambient': n_amb, 'wvl': wvl, 'rays': shape_form, 'sub': idx,
            'class': f'{family}|{way}|{form}|{shape_form}' + (f'|{regime}' if regime else '')}
    # only calls into prysm are guarded (an exception there is a violation); an exception in the oracle is a harness error
    built = False
    gkey = f'C19/raytrace/{spec.typ}/{shape_form}/{"R=None" if spec.R_arg is None else "R"}'
    with ctx.guard(f'C19/build/{family}', desc):
        build(spec)
        built = True
    if not built or not check_R(ctx, spec, desc):
        ctx.case(desc)
        return
    sag = lib_sag(spec)
    ng = ctx.pick(5, 7)
    Pl, Sl, C, _ = local_bundle(rng, spec, ng, ctx.pick(24, 60) if not family.startswith('qtype') else ctx.pick(12, 30), sag)
    if shape_form != 'batch':
        pickray = int(rng.integers(len(Pl)))
        Pl, Sl, C = Pl[pickray:pickray + 1], Sl[pickray:pickray + 1], C[pickray:pickray + 1]
    # with R None the x, y of the vertex are added to exact zeros, so the on-axis ray stays exactly on the axis
    P, S = rp.to_global(Pl, Sl, spec.V, spec.R)
    Pa, Sa = (P[0], S[0]) if shape_form == 'single-ray' else (P, S)
    res = None
    with ctx.guard(gkey, desc):
        res = sm.raytrace([spec.surf], Pa, Sa, wvl, n_ambient=n_amb)
    if res is None:
        ctx.case(desc)
        return
    ph = np.asarray(res[0]).reshape(2, -1, 3)
    sh = np.asarray(res[1]).reshape(2, -1, 3)
    ok = ctx.require('raytrace.history-shape', np.array_equal(ph[0], P, equal_nan=True) and np.array_equal(sh[0], S, equal_nan=True),
                     'C19/raytrace/history[0]-is-not-the-input', 'P_hist[0], S_hist[0] are not the input rays', desc)
    decided = check_pass(ctx, spec, P, S, ph[1], sh[1], n_amb, desc) if ok else 0
    ctx.case(desc, nontrivial=decided > 0)


def direct_calls_case(ctx, idx, family, form):
    """intersect / reflect / refract called directly in the surface frame."""
    from prysm.x.raytracing import spencer_and_murty as sm
    rng = ctx.rng('direct', idx)
    spec = make_spec(rng, family, 'refl', form, 1.0)
    desc = {'wl': 'direct-calls', 'surface': spec.describe(), 'sub': idx, 'class': f'direct|{family}'}
    if lib_call(ctx, f'C19/direct/{family}', desc, build, spec) is _RAISED:
        ctx.case(desc)
        return
    sag = lib_sag(spec)
    Pl, Sl, C, T = local_bundle(rng, spec, 4, 16, sag)
    # skip the exact vertex rays here (their NaN is decided in the raytrace workload)
    keep = (C >= 3) & (np.hypot(T[:, 0], T[:, 1]) > 1e-6 * spec.a)
    Pl, Sl = Pl[keep], Sl[keep]
    if len(Pl) == 0:
        ctx.case(desc, nontrivial=False)
        return
    res = lib_call(ctx, f'C19/direct/{family}', desc, sm.intersect, Pl, Sl, spec.surf.sag_normal)
    if res is _RAISED:
        ctx.case(desc)
        return
    Pj, r = res
    fin = np.isfinite(Pj).all(1) & np.isfinite(r).all(1)
    # reuse the pass oracle in the local frame: a surface at the origin without rotation
    loc = Spec(spec.family, 'refl', 0.0, None, None, **spec.par)
    loc.surf, loc.V, loc.R = spec.surf, np.zeros(3), None
    # (a) intersect + reflect
    Sp = np.full_like(Sl, np.nan)
    if fin.any():
        res = lib_call(ctx, f'C19/direct/{family}', desc, sm.reflect, Sl[fin], r[fin])
        if res is _RAISED:
            ctx.case(desc)
            return
        Sp[fin] = res
    ctx.observe('direct.intersect', int(fin.sum()))
    check_pass(ctx, loc, Pl, Sl, Pj, Sp, 1.0, desc, stage='direct')
    if not fin.any():
        ctx.case(desc)
        return
    Sl, r, Pj = Sl[fin], r[fin], Pj[fin]
    rhat = rp.unit(r)
    want = rp.reflect_law(Sl, rhat)
    # (b) reflect is invariant to the length of the normal it is given
    for cls, rr in (('sloped-normal', r), ('unit-normal', rhat), ('scaled-normal', r * rng.uniform(0.2, 5.0, (len(r), 1)))):
        got = lib_call(ctx, f'C19/direct/{family}', desc, sm.reflect, Sl, rr)
        if got is _RAISED:
            continue
        ctx.observe('direct.reflect', len(r))
        e = rp.norm(got - want)
        if not (np.nanmax(e) <= TOL_LAW) or not np.isfinite(got).all():
            ctx.violation(f'C19/reflect/law/{cls}', 'reflect(S, r) is not the mirror image of S about r/|r|', desc,
                          err=float(np.nanmax(e)), S=Sl[int(np.nanargmax(e))], r=rr[int(np.nanargmax(e))])
    # (c) refract with the normal in the documented (Fx, Fy, 1) form and pre-normalised
    for (na, nb) in ((1.0, float(np.round(rng.uniform(1.3, 1.9), 3))), (float(np.round(rng.uniform(1.3, 1.9), 3)), 1.0)):
        ci = rp.dot(Sl, rhat)
        dom = (ci >= 0.3) & ((na / nb) * rp.sin_between(Sl, rhat) <= 0.95)
        if not dom.any():
            continue
        want, _ = rp.refract_law(na, nb, Sl[dom], rhat[dom])
        slope = np.hypot(r[dom][:, 0] / r[dom][:, 2], r[dom][:, 1] / r[dom][:, 2])
        for form_, rr in (('gradient', r[dom]), ('unit', rhat[dom])):
            got = lib_call(ctx, f'C19/direct/{family}', desc, sm.refract, na, nb, Sl[dom], rr)
            if got is _RAISED:
                continue
            ctx.observe('direct.refract', int(dom.sum()))
            cl = np.where(slope <= 1e-9, 'axial-normal', 'sloped-normal') if form_ == 'gradient' else np.full(len(slope), 'unit-normal')
            eu = np.abs(rp.norm(got) - 1.0)
            es = np.abs(rp.snell_residual(na, nb, Sl[dom], got, rhat[dom]))
            ec = rp.coplanarity(Sl[dom], got, rhat[dom])
            sd = np.where(rp.dot(got, rhat[dom]) > 0, 0.0, 1.0)
            for clause, ev, tol in (('unit-length', eu, TOL_UNIT), ('snell', es, TOL_LAW), ('coplanar', ec, TOL_LAW), ('wrong-side', sd, 0.5)):
                for c_ in np.unique(cl):
                    mk = (cl == c_) & ~(ev <= tol)
                    if mk.any():
                        i = _first(mk)
                        ctx.violation(f'C19/refract/{clause}/{c_}', f'refract(n, n\', S, r): {clause} clause fails', desc,
                                      err=float(np.nanmax(np.where(mk, ev, 0))), n=na, nprime=nb, S=Sl[dom][i], r=rr[i],
                                      got=got[i], want=want[i])
    # (d) backward incidence is outside the stated domain; recorded as an event only
    back = -Sl
    got = lib_call(ctx, f'C19/direct/{family}', desc, sm.refract, 1.0, 1.5, back, r)
    if got is not _RAISED:
        with np.errstate(invalid='ignore'):
            wrong = (rp.dot(got, rhat) * rp.dot(back, rhat) < 0)
        ctx.event('refract: ray incident against the (Fx,Fy,1) normal leaves on the incident side (out of stated domain)', int(wrong.sum()))
    ctx.case(desc)


def rigid_case(ctx, idx):
    from prysm.x.raytracing import spencer_and_murty as sm
    from prysm.coordinates import make_rotation_matrix
    rng = ctx.rng('rigid', idx)
    kind = idx % 4
    ang = tuple(float(v) for v in np.round(rng.uniform(-180, 180, 3), 2))
    if kind == 0:
        R = lib_call(ctx, 'C19/rigid', {'angles': ang}, make_rotation_matrix, ang); cls = 'angles'
    elif kind == 1:
        R = lib_call(ctx, 'C19/rigid', {'angles': ang[:2]}, make_rotation_matrix, ang[:2]); cls = 'angles-short'
    elif kind == 2:
        R = rp.rotation_from_angles(*ang); cls = 'matrix'
    else:
        R = None; cls = 'none'
    if R is _RAISED:
        return
    mag = [1.0, 1e3, 1e-3, 50.0][int(rng.integers(4))]
    n = [1, 2, 5, 64][int(rng.integers(4))]
    single = (idx % 5 == 0)
    X = rng.standard_normal((n, 3)) * mag
    S = rp.unit(rng.standard_normal((n, 3)))
    Pt = rng.standard_normal(3) * mag
    desc = {'wl': 'rigid', 'angles': ang, 'R': cls, 'n': n, 'mag': mag, 'single': single, 'sub': idx, 'class': f'rigid|{cls}|{"single" if single else "batch"}'}
    ctx.case(desc)
    if True:
        if R is not None:
            e, det = rp.orthonormality(np.asarray(R, dtype=float))
            ctx.require('rigid.R-proper', e <= 1e-13 and abs(det - 1.0) <= 1e-13, f'C19/rigid/R-not-a-proper-rotation/{cls}',
                        'make_rotation_matrix does not return an orthonormal matrix with det +1', desc, orth_err=e, det=det)
        Xa, Sa = (X[0], S[0]) if single else (X, S)
        res = lib_call(ctx, 'C19/rigid', desc, sm.transform_to_local_coords, Xa, Pt, Sa, R)
        if res is _RAISED:
            return
        Xl, Sl = res
        res = lib_call(ctx, 'C19/rigid', desc, sm.transform_to_global_coords, Xl, Pt, Sl, None if R is None else R.T)
        if res is _RAISED:
            return
        Xg, Sg = res
        sc = max(1.0, mag)
        Xl2, Sl2, Xg2, Sg2 = (np.atleast_2d(v) for v in (Xl, Sl, Xg, Sg))
        m = len(Xl2)
        ctx.close('rigid.roundtrip', Xg2, X[:m], f'C19/rigid/roundtrip/position/{cls}', 'to_global(to_local(P)) != P', desc, rtol=0, atol=1e-12 * sc * 10)
        ctx.close('rigid.roundtrip', Sg2, S[:m], f'C19/rigid/roundtrip/direction/{cls}', 'to_global(to_local(S)) != S', desc, rtol=0, atol=1e-13)
        if m >= 2:
            d0 = rp.norm(X[:m, None, :] - X[None, :m, :])
            d1 = rp.norm(Xl2[:, None, :] - Xl2[None, :, :])
            ctx.close('rigid.distances', d1, d0, f'C19/rigid/distances-not-preserved/{cls}', 'pairwise distances change under the frame transform', desc,
                      rtol=0, atol=1e-12 * sc * 10)
            g0 = rp.dot(S[:m, None, :], S[None, :m, :])
            g1 = rp.dot(Sl2[:, None, :], Sl2[None, :, :])
            ctx.close('rigid.angles', g1, g0, f'C19/rigid/angles-not-preserved/{cls}', 'dot products of directions change under the frame transform', desc,
                      rtol=0, atol=1e-13)
        ctx.close('rigid.angles', rp.norm(Sl2), np.ones(m), f'C19/rigid/direction-length/{cls}', '|S| changes under the frame transform', desc, rtol=0, atol=1e-13)


def oracle_chief(spec, Pc, Sc, n1):
    """Own trace of one ray through one built surface (generation only).  Returns (hit, S') or None."""
    sag = lib_sag(spec)
    Pl, Sl = rp.to_local(Pc[None, :], Sc[None, :], spec.V, spec.R)
    if abs(Sl[0, 2]) < 0.5:
        return None
    zb = 0.6 * spec.a + 1.0
    tt = np.linspace(0, 2 * np.pi, 13)[:-1]
    zs = sag(spec.a * np.cos(tt), spec.a * np.sin(tt))
    z0 = sag(np.zeros(1), np.zeros(1))
    if np.isfinite(zs).any():
        zb = 1.3 * max(float(np.nanmax(np.abs(zs))), float(np.abs(z0[0])) if np.isfinite(z0[0]) else 0.0) + 1e-3 * spec.a + 1e-6
    s1 = (-zb - Pl[0, 2]) / Sl[0, 2]
    s2 = (zb - Pl[0, 2]) / Sl[0, 2]
    s, found = rp.ray_surface_roots(sag, Pl, Sl, min(s1, s2), max(s1, s2), nscan=32, iters=40)
    if not found[0]:
        return None
    X = Pl + s[:, None] * Sl
    if np.hypot(X[0, 0], X[0, 1]) > 0.5 * spec.a:
        return None
    zx, zy, err = rp.gradient_richardson(sag, X[:, 0], X[:, 1], 0.02 * spec.a, levels=4)
    n = rp.normal_from_gradient(zx, zy)
    if not np.isfinite(n).all() or rp.dot(Sl, n)[0] < 0.5:
        return None
    if spec.typ == 'refl':
        So = rp.reflect_law(Sl, n)
    elif spec.typ == 'refr':
        So, tir = rp.refract_law(n1, spec.n_after, Sl, n)
        if tir[0] or (n1 / spec.n_after) * rp.sin_between(Sl, n)[0] > 0.8:
            return None
    else:
        So = Sl
    Xg, Sg = rp.to_global(X, So, spec.V, spec.R)
    return Xg[0], Sg[0]


def multi_surface_case(ctx, idx, nsurf=None):
    from prysm.x.raytracing import spencer_and_murty as sm
    rng = ctx.rng('multi' if nsurf is None else 'multi-long', idx)
    nsurf = int(2 + idx % 3) if nsurf is None else int(nsurf)
    wvl = WAVELENGTHS[idx % len(WAVELENGTHS)] if idx % 3 == 1 else WVL
    n_amb = [1.0, 1.0, 1.33][int(rng.integers(3))]
    # chief ray
    Pc = np.round(rng.uniform(-5, 5, 3), 3)
    Sc = rp.unit(np.array([rng.uniform(-0.3, 0.3), rng.uniform(-0.3, 0.3), 1.0]))
    if idx % 4 == 0:
        Sc = np.array([0.0, 0.0, 1.0])
    P0, S0 = Pc.copy(), Sc.copy()
    specs, ns = [], []
    n_cur = n_amb
    allrefl = (idx % 3 == 0)
    for j in range(nsurf):
        for attempt in range(6):
            fam = FAMILIES[int(rng.integers(len(FAMILIES)))]
            if attempt >= 4:
                fam = 'plane'
            if allrefl:
                way = 'refl'
            else:
                way = ['refl', 'refr-in', 'refr-out'][int(rng.integers(3))]
                if way == 'refr-out' and n_cur < 1.2:
                    way = 'refr-in'
                if way == 'refr-in' and n_cur > 1.6:
                    way = 'refr-out'
            if j == nsurf - 1 and rng.integers(4) == 0:
                fam, way = 'plane', 'eval'
            shape = rand_shape(rng, fam)
            t = float(rng.uniform(15, 120))
            Vt = Pc + t * Sc
            tilt = rp.rotation_from_angles(*(rng.uniform(-12, 12, 3)))
            if j == 0 and idx % 4 == 0 and rng.integers(2):
                R_arg = None
            else:
                R_arg = rp.matmul3(tilt, rp.frame_with_axis(Sc, float(rng.uniform(0, 6.28))))
            # decentre in the surface plane; off-axis parents are hit near their local origin anyway
            dec = rng.uniform(-0.15, 0.15, 2) * shape['a']
            if R_arg is not None:
                Vt = Vt + dec[0] * R_arg[0] + dec[1] * R_arg[1]
            P_arg = [float(v) for v in Vt]
            typ = 'refl' if way == 'refl' else ('eval' if way == 'eval' else 'refr')
            n_after = pick_index(rng, n_cur, 'in' if way == 'refr-in' else 'out') if typ == 'refr' else None
            spec = Spec(fam, typ, P_arg, R_arg, n_after, **shape)
            spec.wvl = wvl
            if lib_call(ctx, 'C19/raytrace/multi-surface', {'surface': spec.describe()}, build, spec) is _RAISED:
                res = None
                continue
            # own trace of the chief ray (generation only): retry when it misses / is near critical / grazing
            res = oracle_chief(spec, Pc, Sc, n_cur)
            if res is not None:
                break
        if res is None:
            break
        specs.append(spec)
        ns.append(n_cur)
        if typ == 'refr':
            n_cur = n_after
        Pc, Sc = res
    if len(specs) < 2:
        ctx.skip('multi-surface generator could not place a second surface on the chief ray')
        return
    # bundle around the chief ray
    a0 = specs[0].a
    nray = ctx.pick(40, 120)
    if any(s.family.startswith('qtype') for s in specs):
        nray = ctx.pick(24, 60)
    e1 = rp.frame_with_axis(S0)[0]
    e2 = rp.frame_with_axis(S0)[1]
    rad = 0.35 * a0 * np.sqrt(rng.uniform(0, 1, nray)); th = rng.uniform(0, 2 * np.pi, nray)
    rad[0] = 0.0
    P = P0 + (rad * np.cos(th))[:, None] * e1 + (rad * np.sin(th))[:, None] * e2
    kind = ['collimated', 'diverging', 'random'][int(rng.integers(3))]
    if kind == 'collimated':
        S = np.tile(S0, (nray, 1))
    elif kind == 'diverging':
        src = P0 - float(rng.uniform(40, 200)) * S0
        S = rp.unit(P - src)
    else:
        S = rp.unit(S0 + rng.uniform(-0.05, 0.05, (nray, 3)))
    seq = '>'.join(f'{s.family}:{s.typ}' for s in specs)
    desc = {'wl': 'multi-surface', 'surfaces': [s.describe() for s in specs], 'n_ambient': n_amb, 'wvl': wvl, 'bundle': kind, 'sub': idx,
            'class': f'multi|{len(specs)}|{seq}'}
    decided = 0
    if len(specs) >= 5:
        ctx.observe('regime.long-prescription')
    for s_ in specs:
        check_R(ctx, s_, desc)
    res = lib_call(ctx, 'C19/raytrace/multi-surface', desc, sm.raytrace, [s_.surf for s_ in specs], P, S, wvl, n_ambient=n_amb)
    if res is _RAISED:
        ctx.case(desc)
        return
    ph, sh = res
    for j, s_ in enumerate(specs):
        dj = check_pass(ctx, s_, ph[j], sh[j], ph[j + 1], sh[j + 1], ns[j], desc, j=j)
        decided += dj
        if j >= 1 and dj:
            ctx.observe('multi-surface.pass', dj)
    ctx.case(desc, nontrivial=decided > 0)


def hostile_case(ctx, idx):
    """Rays that geometrically hit but sit in a corner of the Newton iteration: long paths, start outside the sag domain."""
    from prysm.x.raytracing import spencer_and_murty as sm
    rng = ctx.rng('hostile', idx)
    kind = ['long-path', 'start-outside-sag-domain', 'raygen-fan'][idx % 3]
    n = ctx.pick(60, 200)
    if kind == 'long-path':
        Rc = float(np.round(rng.uniform(3000, 9000)))
        k = float([-1.0, 0.0, -0.6][int(rng.integers(3))])
        a = float(np.round(0.33 * Rc))
        spec = Spec('conic', 'refl', 0.0, None, None, c=(-1.0 if rng.integers(2) else 1.0) / Rc, k=k, a=a, ctor='conic')
        build(spec)
        r = a * np.sqrt(rng.uniform(0.25, 1, n)); th = rng.uniform(0, 2 * np.pi, n)
        x, y = r * np.cos(th), r * np.sin(th)
        ang = np.radians(rng.uniform(0, 25, n)); az = rng.uniform(0, 2 * np.pi, n)
    elif kind == 'start-outside-sag-domain':
        Rc = float(np.round(rng.uniform(8, 40), 1))
        spec = Spec('conic', 'refl', 0.0, None, None, c=1.0 / Rc, k=0.0, a=0.86 * Rc, ctor='conic')
        build(spec)
        r = Rc * rng.uniform(0.78, 0.85, n); th = rng.uniform(0, 2 * np.pi, n)
        x, y = r * np.cos(th), r * np.sin(th)
        ang = np.radians(rng.uniform(33, 40, n)); az = th + np.pi + rng.uniform(-0.2, 0.2, n)   # travelling inwards
    else:
        from prysm.x.raytracing.raygen import generate_collimated_ray_fan
        Rc = float(np.round(rng.uniform(15, 80), 1))
        spec = Spec('conic', 'refl', float(np.round(rng.uniform(2, 9))), None, None, c=-1.0 / Rc, k=0.0, a=0.3 * Rc, ctor='sphere')
        build(spec)
        nr_ = int(2 * rng.integers(2, 6) + 1)     # odd: the fan contains the axis ray
        res = lib_call(ctx, 'C19/raygen', {'nrays': nr_}, generate_collimated_ray_fan, nr_, 0.25 * Rc, z=0, yangle=float([0, 0, 5][int(rng.integers(3))]))
        if res is _RAISED:
            return
        P, S = res
        P = np.array(P, dtype=float); S = np.array(S, dtype=float)
    desc = {'wl': 'hostile', 'kind': kind, 'surface': spec.describe(), 'sub': idx, 'class': f'hostile|{kind}'}
    if kind != 'raygen-fan':
        Sl = np.stack([np.sin(ang) * np.cos(az), np.sin(ang) * np.sin(az), np.cos(ang)], 1)
        z = lib_sag(spec)(x, y)
        T = np.stack([x, y, z], 1)
        P = T - rng.uniform(2, 30, n)[:, None] * Sl * (Rc / 40 if kind == 'long-path' else 1.0)
        S = Sl
        if kind == 'start-outside-sag-domain':
            # decide only the rays whose vertex-plane crossing really is outside the sphere's sag domain
            X0 = P - (P[:, 2] / S[:, 2])[:, None] * S
            sel = np.hypot(X0[:, 0], X0[:, 1]) > Rc * (1 + 1e-6)
            ctx.skip('hostile deep-sphere ray whose vertex-plane crossing is inside the sag domain: not traced', int((~sel).sum()))
            P, S = P[sel], S[sel]
            if len(P) == 0:
                ctx.case(desc, nontrivial=False)
                return
    res = lib_call(ctx, f'C19/raytrace/{kind}', desc, sm.raytrace, [spec.surf], P, S, WVL)
    if res is not _RAISED:
        check_pass(ctx, spec, P, S, res[0][1], res[1][1], 1.0, desc)
    ctx.case(desc)


# ================================================================================================ hardening workloads
def _trace_one(ctx, spec, rng, n_amb, wvl, desc, gkey, nrand=16, ngrid=3, dtype=np.float64):
    """One bundle aimed at `spec` in its *current* frame, traced through the real Surface object and judged pass by pass.
    Returns (P, S, P_hist[1], S_hist[1], decided) or None."""
    from prysm.x.raytracing import spencer_and_murty as sm
    sag = lib_sag(spec)
    Pl, Sl, C, _ = local_bundle(rng, spec, ngrid, nrand, sag)
    P, S = rp.to_global(Pl, Sl, spec.V, spec.R)
    P, S = P.astype(dtype), S.astype(dtype)
    res = lib_call(ctx, gkey, desc, sm.raytrace, [spec.surf], P, S, wvl, n_ambient=n_amb)
    if res is _RAISED:
        return None
    ph = np.asarray(res[0]).reshape(2, -1, 3)
    sh = np.asarray(res[1]).reshape(2, -1, 3)
    decided = check_pass(ctx, spec, P.astype(float), S.astype(float), ph[1], sh[1], n_amb, desc)
    return P, S, ph[1], sh[1], decided


def fresh_copy(spec, wvl):
    """A new Surface built from scratch with the attributes `spec` has *now* (frame as data: vertex vector, rotation matrix)."""
    f = Spec(spec.family, spec.typ, [float(v) for v in spec.V], None if spec.R is None else np.array(spec.R, dtype=float),
             spec.n_after, **{k: (list(v) if isinstance(v, list) else v) for k, v in spec.par.items()})
    f.wvl = wvl
    build(f)
    return f


HIST_CHANGES = ['R-reassigned', 'R-modified-in-place', 'R-to-None', 'None-to-R', 'P-reassigned', 'P-modified-in-place', 'R-and-P',
                'typ-and-n', 'n-reassigned', 'wavelength-changed', 'n_ambient-changed', 'params-changed', 'traced-many-times']


def history_case(ctx, idx, family, change):
    """A Surface object is traced, one of its public attributes is changed (or the trace arguments are), and it is traced
    again: the later trace is judged by the full pass oracle with the new attributes and against a fresh Surface."""
    from prysm.x.raytracing import spencer_and_murty as sm
    from prysm.x.raytracing.surfaces import STYPE_REFRACT
    rng = ctx.rng('history', idx)
    needs_refr = change in ('n-reassigned', 'wavelength-changed', 'n_ambient-changed')
    way = 'refr-in' if needs_refr else ['refl', 'refr-in', 'refr-out', 'refl'][idx % 4]
    if change == 'typ-and-n':
        way = 'refl'
    if change == 'params-changed' and family.startswith('qtype'):
        change = 'R-reassigned'            # a harness-built Q-type Surface has no params to change
    if change == 'params-changed' and family == 'plane':
        family = 'conic'
    form = 'decentred' if change == 'None-to-R' else ['matrix', 'angles'][idx % 2]
    n_amb = 1.0 if way != 'refr-out' else float(np.round(rng.uniform(1.45, 1.9), 4))
    spec = make_spec(rng, family, way, form, n_amb)
    wvl = WAVELENGTHS[idx % len(WAVELENGTHS)]
    spec.wvl = wvl
    desc = {'wl': 'surface-history', 'change': change, 'surface': spec.describe(), 'n_ambient': n_amb, 'wvl': wvl, 'sub': idx,
            'class': f'history|{change}|{family}|{way}'}
    gkey = f'C19/history/{change}/raytrace'
    if lib_call(ctx, f'C19/build/{family}', desc, build, spec) is _RAISED or not check_R(ctx, spec, desc):
        ctx.case(desc)
        return
    surf = spec.surf
    first = _trace_one(ctx, spec, rng, n_amb, wvl, desc, gkey)
    if first is None:
        ctx.case(desc)
        return
    # ---- the change
    newR = rp.rotation_from_angles(*[float(v) for v in np.round(rng.uniform(-180, 180, 3), 2)])
    newP = np.array([float(v) for v in np.round(rng.uniform(-15, 15, 3), 3)])
    wvl2, n_amb2 = wvl, n_amb
    reps = 1
    if change == 'R-reassigned':
        surf.R = newR.copy(); spec.R = newR
    elif change == 'R-modified-in-place':
        surf.R = np.array(surf.R, dtype=float)        # the surface owns a writable matrix (angles form returns one too)
        spec.R = np.array(surf.R, dtype=float)
        second0 = _trace_one(ctx, spec, rng, n_amb, wvl, desc, gkey)      # traced once more with the matrix it will edit
        try:
            surf.R[...] = newR
        except (ValueError, TypeError):     # a read-only stored matrix cannot be edited in place: reassigned instead, counted
            ctx.skip('history: stored rotation matrix is not writable in place (reassigned instead)')
            surf.R = newR.copy()
        spec.R = newR
        del second0
    elif change == 'R-to-None':
        surf.R = None; spec.R = None
    elif change == 'None-to-R':
        surf.R = newR.copy(); spec.R = newR
    elif change == 'P-reassigned':
        surf.P = newP.copy(); spec.V = newP
    elif change == 'P-modified-in-place':
        try:
            surf.P[...] = newP
        except (ValueError, TypeError):
            ctx.skip('history: stored position vector is not writable in place (reassigned instead)')
            surf.P = newP.copy()
        spec.V = newP
    elif change == 'R-and-P':
        surf.R = newR.copy(); surf.P = newP.copy(); spec.R = newR; spec.V = newP
    elif change == 'typ-and-n':
        n2 = pick_index(rng, n_amb, 'in')
        surf.typ = STYPE_REFRACT; surf.n = _index_fn(n2, wvl)
        spec.typ = 'refr'; spec.n_after = n2
    elif change == 'n-reassigned':
        n2 = pick_index(rng, n_amb, 'in')
        surf.n = _index_fn(n2, wvl); spec.n_after = n2
    elif change == 'wavelength-changed':
        wvl2 = [w for w in WAVELENGTHS if w != wvl][idx % 3]
        spec.n_after = float(_index_fn(spec.n_after, wvl)(wvl2)); spec.wvl = wvl2
    elif change == 'n_ambient-changed':
        n_amb2 = 1.33 if n_amb == 1.0 else 1.0
        if spec.n_after - n_amb2 < 0.1:
            n_amb2 = n_amb
    elif change == 'params-changed':
        shp = rand_shape(rng, spec.family)
        params = getattr(surf, 'params', None)
        if not isinstance(params, dict) or not all(k in params for k in ('c', 'k')):
            ctx.skip('history: the Surface exposes no params dict to edit (params-changed not applicable)')
        else:
            old_par = dict(spec.par)
            for k in ('c', 'k', 'dx', 'dy'):
                if k in shp and k in params:
                    params[k] = shp[k]
            # which surface is it now?  The statement speaks about the surface the object *is* (its sag); an implementation
            # may read params at trace time (then it is the new conic) or have bound them at construction (then it still is
            # the old one, and must behave like it in every respect); anything else is neither
            probe = Spec(spec.family, spec.typ, 0.0, None, None, **shp)
            xs = np.array([0.11, -0.23, 0.31]) * min(shp['a'], old_par['a'])
            ys = np.array([0.17, 0.05, -0.29]) * min(shp['a'], old_par['a'])
            zl = lib_sag(spec)(xs, ys)
            z_new = np.real(probe.own_sag()(xs, ys))
            z_old = np.real(spec.own_sag()(xs, ys))
            if np.allclose(zl, z_new, rtol=0, atol=1e-12 * max(1.0, float(np.max(np.abs(z_new))))):
                spec.par = dict(shp); spec.a = shp['a']
            elif np.allclose(zl, z_old, rtol=0, atol=1e-12 * max(1.0, float(np.max(np.abs(z_old))))):
                ctx.skip('history: the Surface bound its shape parameters at construction (params edits have no effect); judged as the old surface')
            else:
                ctx.violation('C19/history/params-changed/sag-is-neither-old-nor-new-conic',
                              'after editing Surface.params the sag is neither the conic of the new nor of the old parameters', desc,
                              lib=zl, new=z_new, old=z_old)
                spec.par = dict(shp); spec.a = shp['a']
    elif change == 'traced-many-times':
        reps = ctx.pick(6, 40)
    desc2 = dict(desc, after={'V': spec.V, 'R': spec.R, 'typ': spec.typ, 'n_after': spec.n_after, 'wvl': wvl2, 'n_ambient': n_amb2})
    decided = first[4]
    for rep in range(reps):
        second = _trace_one(ctx, spec, rng, n_amb2, wvl2, desc2, gkey)
        if second is None:
            break
        P, S, ph1, sh1, dec = second
        decided += dec
        # a fresh Surface with the same attributes traces the same rays to the same place
        fr = None
        with ctx.guard(f'C19/build/{family}', desc2):
            fr = fresh_copy(spec, wvl2)
        if fr is None:
            break
        res = lib_call(ctx, gkey, desc2, sm.raytrace, [fr.surf], P.copy(), S.copy(), wvl2, n_ambient=n_amb2)
        if res is _RAISED:
            break
        sc = max(1.0, float(np.nanmax(np.abs(P))), float(np.max(np.abs(spec.V))))
        ctx.close('history.vs-fresh-surface', ph1, np.asarray(res[0])[1], f'C19/history/{change}/position-differs-from-fresh-surface',
                  'a Surface that was traced before and then had a public attribute changed sends the rays elsewhere than a fresh '
                  'Surface with the same attributes (intersection points)', desc2, rtol=0, atol=1e-10 * sc)
        ctx.close('history.vs-fresh-surface', sh1, np.asarray(res[1])[1], f'C19/history/{change}/direction-differs-from-fresh-surface',
                  'a Surface that was traced before and then had a public attribute changed sends the rays elsewhere than a fresh '
                  'Surface with the same attributes (outgoing directions)', desc2, rtol=0, atol=1e-10)
    ctx.case(desc, nontrivial=decided > 0)


# (the documented type of P and S is ndarray: lists / tuples are accepted today through np.asarray but are not demanded)
RAY_FORMS = ['same-objects-again', 'F-order', 'strided-view', 'read-only', 'result-edited-by-caller', 'shared-P-array-two-surfaces']


def _ray_form(P, form):
    if form == 'F-order':
        return np.asfortranarray(P)
    if form == 'strided-view':
        big = np.zeros((P.shape[0], 7))
        big[:, 1::2] = P
        return big[:, 1::2]
    if form == 'list':
        return P.tolist()
    if form == 'tuple-of-rows':
        return tuple(tuple(float(v) for v in row) for row in P)
    if form == 'read-only':
        Q = P.copy()
        Q.setflags(write=False)
        return Q
    return P


def repeat_case(ctx, idx, family, form_ray):
    """Class A: the same ray arrays passed again (same call, direct routines), other memory layouts / containers of the same
    rays, read-only arrays, results edited by the caller, one position array shared by two Surface constructors."""
    from prysm.x.raytracing import spencer_and_murty as sm
    rng = ctx.rng('repeat', idx)
    way = WAYS[idx % 3]
    n_amb = 1.0 if way != 'refr-out' else float(np.round(rng.uniform(1.45, 1.9), 4))
    spec = make_spec(rng, family, way, ['matrix', 'none', 'angles', 'decentred'][idx % 4], n_amb)
    desc = {'wl': 'ray-forms', 'form': form_ray, 'surface': spec.describe(), 'n_ambient': n_amb, 'sub': idx,
            'class': f'ray-form|{form_ray}|{family}|{way}'}
    gkey = f'C19/raytrace/ray-form/{form_ray}'
    if form_ray == 'shared-P-array-two-surfaces':
        # the caller's position vector is handed to two constructors; the first surface is traced in between
        Parr = np.array([float(v) for v in np.round(rng.uniform(-15, 15, 3), 3)])
        keep = Parr.copy()
        spec.P_arg = Parr
        other = make_spec(rng, 'plane', 'refl', 'none', 1.0)
        other.P_arg = Parr
        if lib_call(ctx, f'C19/build/{family}', desc, build, other) is _RAISED:
            ctx.case(desc)
            return
        o1 = _trace_one(ctx, other, rng, 1.0, WVL, desc, gkey)
        spec.P_arg = Parr
        if lib_call(ctx, f'C19/build/{family}', desc, build, spec) is _RAISED or o1 is None:
            ctx.case(desc)
            return
        spec.V = keep.copy()                   # the oracle's frame: the vector the caller wrote down
        ctx.observe('repeat.shared-P')
        r1 = _trace_one(ctx, spec, rng, n_amb, WVL, desc, gkey)
        ctx.case(desc, nontrivial=bool(r1 and r1[4]))
        return
    if lib_call(ctx, f'C19/build/{family}', desc, build, spec) is _RAISED or not check_R(ctx, spec, desc):
        ctx.case(desc)
        return
    sag = lib_sag(spec)
    Pl, Sl, C, _ = local_bundle(rng, spec, 3, 16, sag)
    P, S = rp.to_global(Pl, Sl, spec.V, spec.R)
    P0, S0 = P.copy(), S.copy()
    base = lib_call(ctx, gkey, desc, sm.raytrace, [spec.surf], P, S, WVL, n_ambient=n_amb)
    if base is _RAISED:
        ctx.case(desc)
        return
    bph, bsh = np.array(base[0], dtype=float), np.array(base[1], dtype=float)
    sc = max(1.0, float(np.max(np.abs(P0))), float(np.max(np.abs(spec.V))))
    if form_ray == 'result-edited-by-caller':
        base[0][...] = 0.0
        base[1][...] = 7.0
    Pa, Sa = (P, S) if form_ray in ('same-objects-again', 'result-edited-by-caller') else (_ray_form(P0, form_ray), _ray_form(S0, form_ray))
    res = lib_call(ctx, gkey, desc, sm.raytrace, [spec.surf], Pa, Sa, WVL, n_ambient=n_amb)
    if res is _RAISED:
        ctx.case(desc)
        return
    ph, sh = np.asarray(res[0], dtype=float), np.asarray(res[1], dtype=float)
    ctx.close('repeat.same-rays', ph, bph, f'C19/raytrace/ray-form/{form_ray}/positions-differ',
              'raytrace gives other intersection points for the same rays passed again / in another container or memory layout', desc,
              rtol=0, atol=1e-12 * sc)
    ctx.close('repeat.same-rays', sh, bsh, f'C19/raytrace/ray-form/{form_ray}/directions-differ',
              'raytrace gives other directions for the same rays passed again / in another container or memory layout', desc,
              rtol=0, atol=1e-12)
    # the later call judged by the oracle against the rays as they were written down
    decided = check_pass(ctx, spec, P0, S0, ph[1], sh[1], n_amb, desc) if ph.shape == bph.shape else 0
    # direct routines with the same local arrays, twice
    Pl2, Sl2 = rp.to_local(P0, S0, spec.V, spec.R)
    keep = (C >= 3)
    Pl2, Sl2 = np.ascontiguousarray(Pl2[keep]), np.ascontiguousarray(Sl2[keep])
    if len(Pl2):
        i1 = lib_call(ctx, f'C19/direct/{family}', desc, sm.intersect, Pl2, Sl2, spec.surf.sag_normal)
        i2 = lib_call(ctx, f'C19/direct/{family}', desc, sm.intersect, Pl2, Sl2, spec.surf.sag_normal)
        if i1 is not _RAISED and i2 is not _RAISED:
            ctx.close('repeat.direct', i2[0], np.asarray(i1[0]), 'C19/intersect/repeat/same-argument-objects',
                      'intersect called twice with the same arrays gives two answers', desc, rtol=0, atol=1e-12 * sc)
            r = np.asarray(i1[1], dtype=float)
            fin = np.isfinite(r).all(1)
            if fin.any():
                Sf, rf = np.ascontiguousarray(Sl2[fin]), np.ascontiguousarray(r[fin])
                a1 = lib_call(ctx, f'C19/direct/{family}', desc, sm.reflect, Sf, rf)
                a2 = lib_call(ctx, f'C19/direct/{family}', desc, sm.reflect, Sf, rf)
                b1 = lib_call(ctx, f'C19/direct/{family}', desc, sm.refract, 1.0, 1.5, Sf, rf)
                b2 = lib_call(ctx, f'C19/direct/{family}', desc, sm.refract, 1.0, 1.5, Sf, rf)
                a3 = lib_call(ctx, f'C19/direct/{family}', desc, sm.reflect, Sf, rf)
                if not any(v is _RAISED for v in (a1, a2, a3, b1, b2)):
                    want = rp.reflect_law(Sl2[fin], rp.unit(r[fin]))
                    ctx.close('repeat.direct', a3, want, 'C19/reflect/repeat/after-refract-of-the-same-arrays',
                              'reflect(S, r) after reflect and refract were called with the same arrays is not the mirror image of S',
                              desc, rtol=0, atol=TOL_LAW)
                    ctx.close('repeat.direct', b2, np.asarray(b1), 'C19/refract/repeat/same-argument-objects',
                              'refract called twice with the same arrays gives two answers', desc, rtol=0, atol=1e-12)
    ctx.case(desc, nontrivial=decided > 0)


def precision_case(ctx, idx, family, way, form):
    """prysm.conf.config.precision = 32 (surfaces store P and R in single precision) with float32 and float64 rays, float32
    rays under precision 64, then the same prescription rebuilt and traced under precision 64 at full tolerance."""
    from ..util import precision
    n_amb = 1.0 if way != 'refr-out' else 1.7
    wvl = WAVELENGTHS[idx % len(WAVELENGTHS)]
    phases = [('precision=32', 32, np.float32, TOL32), ('precision=32', 32, np.float64, TOL32),
              ('float32-rays', 64, np.float32, TOL32), ('after-precision-32', 64, np.float64, TOL64)]
    for phase, bits, dtype, tols in phases:
        rng = ctx.rng('precision', idx)           # the same prescription in every phase
        spec = make_spec(rng, family, way, form, n_amb)
        spec.wvl = wvl
        desc = {'wl': 'precision', 'phase': phase, 'rays': np.dtype(dtype).name, 'surface': spec.describe(), 'n_ambient': n_amb,
                'wvl': wvl, 'sub': idx, 'class': f'{phase}|{np.dtype(dtype).name}|{family}|{way}|{form}'}
        t = Tagged(ctx, '/' + phase)
        ctx.observe({'precision=32': 'precision32.cases', 'float32-rays': 'float32-rays.cases',
                     'after-precision-32': 'precision32-then-64.cases'}[phase])
        with precision(bits), tolerances(tols, '/' + phase):
            global CTX
            old = CTX
            CTX = t
            try:
                if lib_call(t, f'C19/build/{family}', desc, build, spec) is _RAISED or not check_R(t, spec, desc):
                    ctx.case(desc)
                    continue
                r1 = _trace_one(t, spec, rng, n_amb, wvl, desc, f'C19/raytrace/{spec.typ}/batch', dtype=dtype)
            finally:
                CTX = old
        ctx.case(desc, nontrivial=bool(r1 and r1[4]))


# ================================================================================================ class E: argument forms
FORMS_NOTE = ('accepted forms established by running the current tree (/repo @ faa8443): raytrace takes P, S as float ndarrays, '
              'nested lists / tuples of floats, any mix of float32 / float64 (the histories have the dtype of P: single-precision '
              'thresholds when P is float32), a single (3,) ray or an (N,3) batch, surfaces as list / tuple / object ndarray (a '
              'generator raises), wvl and n_ambient as python int / float, numpy scalars or 0-d arrays; Surface constructors take typ '
              'as refl / reflect / refr / refract / eval in any case or the STYPE integer (a numpy integer raises), P as scalar z / '
              '[z] / [y, z] / [x, y, z] in list / tuple / ndarray form or a numpy scalar (a 0-d array raises), R as None / list or '
              'tuple of 1..3 angles / 3x3 ndarray (a nested list raises, an ndarray of angles is stored as if it were a matrix: out '
              'of domain), n as a callable (a number is not callable: raises at trace time, out of domain).  Integer-typed P is '
              'documented as unsupported ("any float dtype") and truncates today: out of domain')
RAY_CONTAINER_FORMS = ['list', 'tuple-of-rows', 'P-list+S-ndarray', 'P-ndarray+S-list', 'F-order', 'read-only']
RAY_DTYPE_FORMS = ['P-float32+S-float64', 'P-float64+S-float32', 'P-float32+S-float32']
WVL_FORMS = ['numpy-float64', '0d-float64', 'numpy-float32']
TYP_FORMS = {'refl': ['refl', 'reflect', 'REFL', 'Reflect', 'stype-int'], 'refr': ['refr', 'refract', 'REFR', 'Refract', 'stype-int'],
             'eval': ['eval', 'EVAL', 'Eval', 'stype-int']}


def _build_variant(spec, typ=None, P=None, R='same', positional=False):
    """A fresh real Surface like `spec` with one constructor argument given in another form."""
    from prysm.x.raytracing import surfaces as sf
    from prysm.x.raytracing.surfaces import Surface
    p = spec.par
    if typ is None:
        typ = spec.typ
    elif typ == 'stype-int':
        typ = {'refl': sf.STYPE_REFLECT, 'refr': sf.STYPE_REFRACT, 'eval': sf.STYPE_EVAL}[spec.typ]
    n = _index_fn(spec.n_after, spec.wvl) if spec.typ == 'refr' else None
    P = spec.P_arg if P is None else P
    R = spec.R_arg if isinstance(R, str) else R
    if spec.family == 'plane':
        return Surface.plane(typ, P, n, R) if positional else Surface.plane(typ=typ, P=P, n=n, R=R)
    if spec.family == 'conic':
        if p.get('ctor') == 'sphere':
            return Surface.sphere(p['c'], typ, P, n, R) if positional else Surface.sphere(c=p['c'], typ=typ, P=P, n=n, R=R)
        return Surface.conic(p['c'], p['k'], typ, P, n, R) if positional else Surface.conic(c=p['c'], k=p['k'], typ=typ, P=P, n=n, R=R)
    if spec.family == 'off-axis-conic':
        if positional:
            return Surface.off_axis_conic(p['c'], p['k'], typ, P, p.get('dy', 0), p.get('dx', 0), n, R)
        return Surface.off_axis_conic(c=p['c'], k=p['k'], typ=typ, P=P, dy=p.get('dy', 0), dx=p.get('dx', 0), n=n, R=R)
    ffp = qtype_ffp(p['cm0'], p['ams'], p['bms'], p['nr'], p['c'], p['k'], p.get('dx', 0), p.get('dy', 0))
    return Surface(typ, P, n, ffp, R) if positional else Surface(typ=typ, P=P, n=n, FFp=ffp, R=R)


def _P_forms(P_arg):
    """The same vertex position written in the other accepted forms."""
    out = {}
    if not hasattr(P_arg, '__iter__'):
        z = float(P_arg)
        out = {'[z]': [z], '[0,0,z]': [0.0, 0.0, z], 'numpy-float64': np.float64(z), 'tuple': (z,), 'ndarray': np.array([0.0, 0.0, z])}
        if z == int(z):
            out['python-int'] = int(z)
        return out
    v = [float(t) for t in P_arg]
    full = [0.0] * (3 - len(v)) + v
    out = {'tuple': tuple(v), 'ndarray': np.array(v), 'list-of-numpy-scalars': [np.float64(t) for t in v], 'read-only-ndarray': None,
           'padded-[x,y,z]': full}
    ro = np.array(v)
    ro.setflags(write=False)
    out['read-only-ndarray'] = ro
    return out


def _R_forms(R_arg):
    if R_arg is None:
        return {}
    if isinstance(R_arg, tuple):
        ang = list(R_arg)
        pad = tuple(ang + [0.0] * (3 - len(ang)))
        out = {'list': list(ang), 'padded-3-angles': pad, 'tuple-of-numpy-scalars': tuple(np.float64(a) for a in ang)}
        return out
    M = np.asarray(R_arg, dtype=float)
    ro = M.copy()
    ro.setflags(write=False)
    return {'F-order': np.asfortranarray(M), 'read-only': ro, 'transposed-view': np.ascontiguousarray(M.T).T}


def _same_trace(ctx, monitor, res, base, key, what, desc, sc, tol=1e-12, vertex=None):
    """Histories of one trace against the canonical trace of the same rays.  `vertex(points) -> bool mask` marks hits at the
    local vertex of the surface: there a ray may be lost in one form and not in the other (the r = 0 singularity of the ledger is
    decided by round-off), so a NaN on one side only is excluded and counted for such rays and a violation for every other ray."""
    ph, sh = np.asarray(res[0], dtype=float), np.asarray(res[1], dtype=float)
    bph, bsh = base
    if ph.shape != bph.shape and ph.size == bph.size:
        ph, sh = ph.reshape(bph.shape), sh.reshape(bsh.shape)
    if ph.shape != bph.shape:
        ctx.observe(monitor)
        ctx.violation(key + '/shape', what + f': histories of shape {ph.shape}, expected {bph.shape}', desc)
        return False
    p2, s2, b2, t2 = (v.reshape(v.shape[0], -1, 3) for v in (ph, sh, bph, bsh))
    fin_f = np.isfinite(p2).all((0, 2)) & np.isfinite(s2).all((0, 2))
    fin_b = np.isfinite(b2).all((0, 2)) & np.isfinite(t2).all((0, 2))
    both = fin_f & fin_b
    one = fin_f ^ fin_b
    if one.any():
        at_vertex = np.zeros(one.shape, dtype=bool)
        if vertex is not None:
            hit = np.where(fin_b[:, None], b2[-1], p2[-1])
            at_vertex = vertex(hit)
        if (one & ~at_vertex).any():
            ctx.observe(monitor)
            ctx.violation(key + '/ray-lost-in-one-form-only', what + ' (a ray is traced in one form and NaN in the other)', desc,
                          rows=[int(i) for i in np.nonzero(one & ~at_vertex)[0][:8]])
            return False
        ctx.skip('argument forms: ray through the local vertex lost in one form only (r = 0 singularity, decided by round-off)', int(one.sum()))
    if not both.any():
        return True
    ok = ctx.close(monitor, p2[:, both], b2[:, both], key + '/positions-differ', what + ' (intersection points)', desc, rtol=0, atol=tol * sc)
    ok &= ctx.close(monitor, s2[:, both], t2[:, both], key + '/directions-differ', what + ' (directions)', desc, rtol=0, atol=tol)
    return ok


def ray_forms_case(ctx, idx, family, way, form):
    from prysm.x.raytracing import spencer_and_murty as sm
    rng = ctx.rng('forms', idx)
    n_amb = 1.0 if way != 'refr-out' else float(np.round(rng.uniform(1.45, 1.9), 4))
    spec = make_spec(rng, family, way, form, n_amb)
    spec.wvl = wvl = WAVELENGTHS[idx % len(WAVELENGTHS)]
    desc = {'wl': 'argument-forms', 'surface': spec.describe(), 'n_ambient': n_amb, 'wvl': wvl, 'sub': idx,
            'class': f'forms|{family}|{way}|{form}'}
    if lib_call(ctx, f'C19/build/{family}', desc, build, spec) is _RAISED or not check_R(ctx, spec, desc):
        ctx.case(desc)
        return
    sag = lib_sag(spec)
    Pl, Sl, C, _ = local_bundle(rng, spec, 3, 10, sag)
    P, S = rp.to_global(Pl, Sl, spec.V, spec.R)
    P0, S0 = P.copy(), S.copy()
    gkey = 'C19/raytrace/form'
    base = lib_call(ctx, gkey, desc, sm.raytrace, [spec.surf], P, S, wvl, n_ambient=n_amb)
    if base is _RAISED:
        ctx.case(desc)
        return
    bph, bsh = np.array(base[0], dtype=float), np.array(base[1], dtype=float)
    sc = max(1.0, float(np.max(np.abs(P0))), float(np.max(np.abs(spec.V))))
    decided = check_pass(ctx, spec, P0, S0, bph[1], bsh[1], n_amb, desc)

    def vertex(points):
        with np.errstate(invalid='ignore'):
            loc = rp.to_local(np.where(np.isfinite(points), points, 1e300), np.zeros_like(points), spec.V, spec.R)[0]
            return np.hypot(loc[:, 0], loc[:, 1]) <= 1e-6 * max(spec.a, 1.0)

    def trace(label, Pa, Sa, surfaces=None, w=wvl, tol=1e-12, rows=None, **kw):
        d2 = dict(desc, form=label)
        k = f'C19/raytrace/form:{label}'
        kw.setdefault('n_ambient', n_amb)
        res = lib_call(ctx, k, d2, sm.raytrace, surfaces if surfaces is not None else [spec.surf], Pa, Sa, w, **kw)
        if res is _RAISED:
            return None
        b = (bph, bsh) if rows is None else (bph[:, rows], bsh[:, rows])
        _same_trace(ctx, 'form.rays', res, b, k, f'raytrace with {label} differs from the trace of the same rays as float64 (N,3) ndarrays',
                    d2, sc, tol, vertex=vertex)
        return res

    # ---- containers and memory layouts of the same float64 rays
    for f in RAY_CONTAINER_FORMS:
        Pa = {'list': P0.tolist(), 'tuple-of-rows': _ray_form(P0, 'tuple-of-rows'), 'P-list+S-ndarray': P0.tolist(), 'P-ndarray+S-list': P0.copy(),
              'F-order': np.asfortranarray(P0), 'read-only': _ray_form(P0, 'read-only')}[f]
        Sa = {'list': S0.tolist(), 'tuple-of-rows': _ray_form(S0, 'tuple-of-rows'), 'P-list+S-ndarray': S0.copy(), 'P-ndarray+S-list': S0.tolist(),
              'F-order': np.asfortranarray(S0), 'read-only': _ray_form(S0, 'read-only')}[f]
        trace(f'rays={f}', Pa, Sa)
    # ---- dtype kinds (single-precision thresholds as soon as one of the arrays is float32; judged by the pass oracle too)
    for f in RAY_DTYPE_FORMS:
        pd, sd = (np.float32 if 'P-float32' in f else np.float64), (np.float32 if 'S-float32' in f else np.float64)
        Pa, Sa = P0.astype(pd), S0.astype(sd)
        d2 = dict(desc, form=f)
        t = Tagged(ctx, f'/form:rays={f}')
        with tolerances(TOL32, f'/form:rays={f}'):
            global CTX
            old = CTX
            CTX = t
            try:
                res = lib_call(t, 'C19/raytrace', d2, sm.raytrace, [spec.surf], Pa, Sa, wvl, n_ambient=n_amb)
                if res is not _RAISED:
                    ph, sh = np.asarray(res[0], dtype=float), np.asarray(res[1], dtype=float)
                    ctx.observe('form.ray-dtypes')
                    check_pass(t, spec, Pa.astype(float), Sa.astype(float), ph[1], sh[1], n_amb, d2)
            finally:
                CTX = old
    # ---- one ray as (3,), as a list of three floats, as (1,3); batches of 2 and 3 rows: row i is traced like row i of the batch
    pick = sorted(set([0, len(P0) - 1] + [int(v) for v in rng.integers(0, len(P0), 3)]))
    for i in pick:
        trace('rays=single-(3,)', P0[i].copy(), S0[i].copy(), rows=i)
        trace('rays=single-list-of-3', [float(v) for v in P0[i]], [float(v) for v in S0[i]], rows=i)
        trace('rays=batch-of-1', P0[i:i + 1].copy(), S0[i:i + 1].copy(), rows=slice(i, i + 1))
    for nb in (2, 3):
        rows = [int(v) for v in rng.choice(len(P0), size=nb, replace=False)]
        trace(f'rays=batch-of-{nb}', P0[rows].copy(), S0[rows].copy(), rows=rows)
    # ---- trace arguments: surfaces container, wvl / n_ambient forms, keyword / positional, omitted default
    trace('surfaces=tuple', P0, S0, surfaces=(spec.surf,))
    arr = np.empty(1, dtype=object)
    arr[0] = spec.surf
    trace('surfaces=object-ndarray', P0, S0, surfaces=arr)
    for f in WVL_FORMS:
        w = {'numpy-float64': np.float64(wvl), '0d-float64': np.array(wvl), 'numpy-float32': np.float32(wvl)}[f]
        # a float32 wavelength makes the harness's own index callable n(wvl) compute in single precision (index off by ~1e-7, amplified
        # near the critical angle): single-precision threshold for that form
        trace(f'wvl={f}', P0, S0, w=w, tol=TOL32['TOL_LAW'] if 'float32' in f else 1e-12)
    for f, na in (('numpy-float64', np.float64(n_amb)), ('0d-float64', np.array(n_amb))) + ((('python-int', 1),) if n_amb == 1.0 else ()):
        trace(f'n_ambient={f}', P0, S0, n_ambient=na)
    d2 = dict(desc, form='call-syntax')
    res = lib_call(ctx, 'C19/raytrace/form:call=all-keywords', d2, lambda: sm.raytrace(surfaces=[spec.surf], P=P0, S=S0, wvl=wvl, n_ambient=n_amb))
    if res is not _RAISED:
        _same_trace(ctx, 'form.call-syntax', res, (bph, bsh), 'C19/raytrace/form:call=all-keywords',
                    'raytrace with every argument by keyword differs from the usual call', d2, sc, vertex=vertex)
    res = lib_call(ctx, 'C19/raytrace/form:call=all-positional', d2, sm.raytrace, [spec.surf], P0, S0, wvl, n_amb)
    if res is not _RAISED:
        _same_trace(ctx, 'form.call-syntax', res, (bph, bsh), 'C19/raytrace/form:call=all-positional',
                    'raytrace with n_ambient passed positionally differs from the keyword form', d2, sc, vertex=vertex)
    if n_amb == 1.0:
        # n_ambient omitted == 1 (documented default), also right after a trace in another medium
        lib_call(ctx, gkey, d2, sm.raytrace, [spec.surf], P0, S0, wvl, n_ambient=1.33)
        res = lib_call(ctx, 'C19/raytrace/form:n_ambient=omitted', d2, sm.raytrace, [spec.surf], P0, S0, wvl)
        if res is not _RAISED:
            _same_trace(ctx, 'form.call-syntax', res, (bph, bsh), 'C19/raytrace/form:n_ambient=omitted',
                        'raytrace without n_ambient differs from n_ambient=1 (the documented default) after a trace with n_ambient=1.33', d2, sc, vertex=vertex)
    # ---- the step routines called directly: a single (3,) ray, a (1,3) batch and rows of a batch are the same rays
    Pl0, Sl0 = rp.to_local(P0, S0, spec.V, spec.R)
    Pl0, Sl0 = np.ascontiguousarray(Pl0), np.ascontiguousarray(Sl0)
    d2 = dict(desc, form='direct-single-vs-batch')
    full = lib_call(ctx, 'C19/intersect/form', d2, sm.intersect, Pl0, Sl0, spec.surf.sag_normal)
    if full is not _RAISED:
        Pj, rn = np.asarray(full[0], dtype=float), np.asarray(full[1], dtype=float)
        fin = np.isfinite(Pj).all(1) & np.isfinite(rn).all(1)
        rows = [int(i) for i in np.nonzero(fin)[0][:4]]
        na, nb = (1.0, 1.5) if idx % 2 else (1.6, 1.2)
        if rows:
            bat_refl = lib_call(ctx, 'C19/reflect/form', d2, sm.reflect, Sl0[fin], rn[fin])
            bat_refr = lib_call(ctx, 'C19/refract/form', d2, sm.refract, na, nb, Sl0[fin], rn[fin])
            pos = {i: k for k, i in enumerate(np.nonzero(fin)[0])}
            for i in rows:
                for lab, Pa, Sa, ra in (('single-(3,)', Pl0[i].copy(), Sl0[i].copy(), rn[i].copy()),
                                        ('batch-of-1', Pl0[i:i + 1].copy(), Sl0[i:i + 1].copy(), rn[i:i + 1].copy())):
                    one = lib_call(ctx, f'C19/intersect/form:rays={lab}', d2, sm.intersect, Pa, Sa, spec.surf.sag_normal)
                    if one is not _RAISED:
                        ctx.close('form.direct', np.asarray(one[0], dtype=float).reshape(-1), Pj[i], f'C19/intersect/form:rays={lab}',
                                  f'intersect of one ray given as {lab} differs from the same ray as a row of a batch', d2, rtol=0, atol=1e-12 * sc)
                        ctx.close('form.direct', np.asarray(one[1], dtype=float).reshape(-1), rn[i], f'C19/intersect/form:rays={lab}/normal',
                                  f'intersect of one ray given as {lab} returns another normal than for the same ray as a row of a batch', d2,
                                  rtol=0, atol=1e-10 * max(1.0, float(np.max(np.abs(rn[i])))))
                    if bat_refl is not _RAISED:
                        one = lib_call(ctx, f'C19/reflect/form:rays={lab}', d2, sm.reflect, Sa, ra)
                        if one is not _RAISED:
                            ctx.close('form.direct', np.asarray(one, dtype=float).reshape(-1), np.asarray(bat_refl)[pos[i]],
                                      f'C19/reflect/form:rays={lab}', f'reflect of one ray given as {lab} differs from the same ray as a row of a '
                                      'batch', d2, rtol=0, atol=1e-12)
                    if bat_refr is not _RAISED:
                        one = lib_call(ctx, f'C19/refract/form:rays={lab}', d2, sm.refract, na, nb, Sa, ra)
                        if one is not _RAISED:
                            ctx.close('form.direct', np.asarray(one, dtype=float).reshape(-1), np.asarray(bat_refr)[pos[i]],
                                      f'C19/refract/form:rays={lab}', f'refract of one ray given as {lab} differs from the same ray as a row of a '
                                      'batch', d2, rtol=0, atol=1e-12)
                for lab, fn in (('to_local', sm.transform_to_local_coords), ('to_global', sm.transform_to_global_coords)):
                    Rm = spec.R
                    bat = lib_call(ctx, f'C19/rigid/{lab}/form', d2, fn, P0, spec.V, S0, Rm)
                    one = lib_call(ctx, f'C19/rigid/{lab}/form', d2, fn, P0[i].copy(), spec.V, S0[i].copy(), Rm)
                    if bat is not _RAISED and one is not _RAISED:
                        ctx.close('form.direct', np.asarray(one[0], dtype=float).reshape(-1), np.asarray(bat[0], dtype=float)[i],
                                  f'C19/rigid/{lab}/form:rays=single-(3,)', f'transform_{lab}_coords of one (3,) point differs from the same point as '
                                  'a row of a batch', d2, rtol=0, atol=1e-12 * sc)
                        ctx.close('form.direct', np.asarray(one[1], dtype=float).reshape(-1), np.asarray(bat[1], dtype=float)[i],
                                  f'C19/rigid/{lab}/form:rays=single-(3,)', f'transform_{lab}_coords of one (3,) direction differs from the same '
                                  'direction as a row of a batch', d2, rtol=0, atol=1e-12)
    # ---- constructor argument forms: a fresh Surface built from another form of the same argument traces the same
    variants = [(f'typ={f}', dict(typ=f)) for f in TYP_FORMS[spec.typ]]
    variants += [(f'P={f}', dict(P=v)) for f, v in _P_forms(spec.P_arg).items()]
    variants += [(f'R={f}', dict(R=v)) for f, v in _R_forms(spec.R_arg).items()]
    variants += [('call=all-positional', dict(positional=True))]
    if isinstance(spec.R_arg, tuple):
        from prysm.coordinates import make_rotation_matrix
        variants.append(('R=make_rotation_matrix(angles)', dict(R=make_rotation_matrix(spec.R_arg))))
    for label, kw in variants:
        d2 = dict(desc, form=label)
        k = f'C19/surface/form:{label}'
        s2 = lib_call(ctx, k, d2, _build_variant, spec, **kw)
        if s2 is _RAISED:
            continue
        res = lib_call(ctx, k, d2, sm.raytrace, [s2], P0, S0, wvl, n_ambient=n_amb)
        if res is not _RAISED:
            _same_trace(ctx, 'form.surface-args', res, (bph, bsh), k, f'a Surface built with {label} traces differently from the one built '
                        'with the canonical form of the same argument', d2, sc, vertex=vertex)
    ctx.case(desc, nontrivial=decided > 0)


# ---- eval (non-bending) surfaces at every position of a prescription, with and without tilt --------------------------------
EVAL_POSITIONS = ['first', 'middle', 'last']
EVAL_FRAMES = ['none', 'decentred', 'tilted-angles', 'tilted-matrix']


def eval_case(ctx, idx, pos, frame, family):
    """A prescription of refracting surfaces along +z with one eval surface at `pos`: every pass is judged by the pass oracle
    (eval: direction unchanged, hit on ray and surface), and the surfaces after the eval surface must receive exactly the
    rays they receive when the eval surface is left out."""
    from prysm.x.raytracing import spencer_and_murty as sm
    rng = ctx.rng('eval', idx)
    nreal = 2 if pos != 'middle' or idx % 2 else 3
    wvl = WAVELENGTHS[idx % len(WAVELENGTHS)]
    n_amb = 1.0
    z = float(np.round(rng.uniform(5, 20), 2))
    specs, ns, n_cur = [], [], n_amb
    order = ['real'] * nreal
    order.insert({'first': 0, 'middle': 1 + (idx // 2) % (nreal - 1), 'last': nreal}[pos], 'eval')
    for kind in order:
        fam = family if kind == 'eval' else ['plane', 'conic', 'conic', 'off-axis-conic'][int(rng.integers(4))]
        shape = rand_shape(rng, fam)
        shape['a'] = max(shape['a'], 12.0) if fam == 'plane' else shape['a']
        fr = frame if kind == 'eval' else ['none', 'decentred', 'tilted-matrix'][int(rng.integers(3))]
        V = [float(np.round(rng.uniform(-1, 1), 3)) if fr != 'none' else 0.0, float(np.round(rng.uniform(-1, 1), 3)) if fr != 'none' else 0.0, z]
        ang = tuple(float(v) for v in np.round(rng.uniform(-8, 8, 3), 2))
        R_arg = None if fr in ('none', 'decentred') else (ang if fr == 'tilted-angles' else rp.rotation_from_angles(*ang))
        P_arg = z if fr == 'none' else V
        if kind == 'eval':
            typ, n_after = 'eval', None
        else:
            typ = 'refr'
            n_after = pick_index(rng, n_cur, 'in' if n_cur < 1.3 else 'out')
        sp = Spec(fam, typ, P_arg, R_arg, n_after, **shape)
        sp.wvl = wvl
        if lib_call(ctx, f'C19/build/{fam}', {'surface': sp.describe()}, build, sp) is _RAISED:
            return
        specs.append(sp)
        ns.append(n_cur)
        if typ == 'refr':
            n_cur = n_after
        z += float(np.round(rng.uniform(8, 25), 2))
    je = order.index('eval')
    a0 = min(s.a for s in specs)
    nray = ctx.pick(24, 60)
    r = 0.3 * a0 * np.sqrt(rng.uniform(0, 1, nray)); th = rng.uniform(0, 2 * np.pi, nray)
    r[0] = 0.0
    P = np.stack([r * np.cos(th), r * np.sin(th), np.full(nray, -float(np.round(rng.uniform(5, 30))))], 1)
    tilt = np.radians(rng.uniform(0, 6, nray)); az = rng.uniform(0, 2 * np.pi, nray)
    tilt[0] = 0.0
    S = np.stack([np.sin(tilt) * np.cos(az), np.sin(tilt) * np.sin(az), np.cos(tilt)], 1)
    desc = {'wl': 'eval-in-prescription', 'eval_position': pos, 'eval_frame': frame, 'surfaces': [s.describe() for s in specs], 'wvl': wvl,
            'sub': idx, 'class': f'eval|{pos}|{frame}|{family}|{len(specs)}-surfaces'}
    for s_ in specs:
        check_R(ctx, s_, desc)
    gkey = f'C19/raytrace/eval-surface/{pos}/{"R=None" if specs[je].R_arg is None else "R"}'
    res = lib_call(ctx, gkey, desc, sm.raytrace, [s_.surf for s_ in specs], P, S, wvl, n_ambient=n_amb)
    if res is _RAISED:
        ctx.case(desc)
        return
    ph, sh = np.asarray(res[0], dtype=float), np.asarray(res[1], dtype=float)
    decided = 0
    for j, s_ in enumerate(specs):
        dj = check_pass(ctx, s_, ph[j], sh[j], ph[j + 1], sh[j + 1], ns[j], desc, j=j)
        decided += dj
        if j == je:
            ctx.observe('eval.pass', dj)
    # the same prescription without the eval surface: everything downstream is unchanged
    rest = [s_.surf for j, s_ in enumerate(specs) if j != je]
    res2 = lib_call(ctx, gkey, desc, sm.raytrace, rest, P, S, wvl, n_ambient=n_amb)
    if res2 is not _RAISED:
        ph2, sh2 = np.asarray(res2[0], dtype=float), np.asarray(res2[1], dtype=float)
        keep = [j for j in range(len(specs) + 1) if j != je + 1]
        fin = np.isfinite(ph[je + 1]).all(1) & np.isfinite(ph2).all((0, 2)) & np.isfinite(ph).all((0, 2))
        ctx.skip('eval: ray lost somewhere in the prescription (downstream comparison not made)', int((~fin).sum()))
        if fin.any():
            sc = max(1.0, float(np.max(np.abs(ph2[:, fin]))))
            fr_cls = 'R=None' if specs[je].R_arg is None else 'R'
            ctx.close('eval.transparent', ph[keep][:, fin], ph2[:, fin], f'C19/eval/not-transparent/{pos}/{fr_cls}/positions',
                      'inserting an eval (non-bending) surface changes where the rays hit the other surfaces', desc, rtol=0, atol=1e-9 * sc)
            ctx.close('eval.transparent', sh[keep][:, fin], sh2[:, fin], f'C19/eval/not-transparent/{pos}/{fr_cls}/directions',
                      'inserting an eval (non-bending) surface changes the directions at the other surfaces', desc, rtol=0, atol=1e-9)
    ctx.case(desc, nontrivial=decided > 0)


# ---- batches that mix hitting, missing and late-NaN rays ----------------------------------------------------------------
MISS_KINDS = ['outside-sag-domain', 'leaves-sag-domain', 'parallel-to-vertex-plane', 'nan-input']


def mixed_batch_case(ctx, idx, family, way):
    """Hitting rays interleaved with rays that cannot be traced (start outside the sag domain, walk out of it during the
    iteration, run parallel to the vertex plane, arrive as NaN): every hitting ray must come out as it does when traced
    alone ('there is no reason all rows of P and S must belong to the same ray bundle'), and the batch is judged pass by pass."""
    from prysm.x.raytracing import spencer_and_murty as sm
    rng = ctx.rng('mixed', idx)
    n_amb = 1.0 if way != 'refr-out' else float(np.round(rng.uniform(1.45, 1.9), 4))
    regime = 'strong-curvature' if family in ('conic', 'off-axis-conic') and idx % 2 == 0 else None
    spec = make_spec(rng, family, way, FORMS[idx % 4], n_amb, regime=regime)
    if family == 'conic' and idx % 3 == 0:
        spec.par['k'] = 0.0            # a sphere: the sag is not real beyond r = |R|
    desc = {'wl': 'mixed-batch', 'surface': spec.describe(), 'n_ambient': n_amb, 'sub': idx, 'class': f'mixed-batch|{family}|{way}'}
    if lib_call(ctx, f'C19/build/{family}', desc, build, spec) is _RAISED or not check_R(ctx, spec, desc):
        ctx.case(desc)
        return
    sag = lib_sag(spec)
    nh = [1, 2, 3, 8, 20][idx % 5]
    Pl, Sl, C, _ = local_bundle(rng, spec, 2, 12, sag)
    sel = rng.choice(len(Pl), size=min(nh, len(Pl)), replace=False)
    Pl, Sl = Pl[sel], Sl[sel]
    # the rays that cannot be traced
    c = spec.par.get('c', 0.0)
    k = spec.par.get('k', 0.0)
    Rdom = (1.0 / abs(c) / math.sqrt(1.0 + k)) if c and (1.0 + k) > 1e-9 else None
    bad_P, bad_S, kinds = [], [], []
    nm = [1, 2, 5][idx % 3]
    for q in range(nm):
        kind = MISS_KINDS[(idx + q) % len(MISS_KINDS)]
        th = float(rng.uniform(0, 2 * np.pi))
        if kind == 'outside-sag-domain' and Rdom is not None and not family.startswith('off'):
            rr_ = Rdom * float(rng.uniform(1.2, 2.0))
            bad_P.append([rr_ * math.cos(th), rr_ * math.sin(th), -float(rng.uniform(5, 30))]); bad_S.append([0.0, 0.0, 1.0])
        elif kind == 'leaves-sag-domain' and Rdom is not None and not family.startswith('off') and c > 0:
            # crosses the vertex plane inside the domain heading outwards so steeply that it leaves the domain before it could
            # reach the (concave-up) surface
            rr_ = Rdom * float(rng.uniform(0.9, 0.98))
            el = math.radians(float(rng.uniform(70, 80)))
            d = np.array([math.sin(el) * math.cos(th), math.sin(el) * math.sin(th), math.cos(el)])
            p0 = np.array([rr_ * math.cos(th), rr_ * math.sin(th), 0.0])
            bad_P.append(list(p0 - 0.1 * Rdom * d)); bad_S.append(list(d))
        elif kind == 'parallel-to-vertex-plane':
            bad_P.append([-50.0, float(rng.uniform(-1, 1)), float(rng.uniform(1, 5)) * (1 if c >= 0 else -1) + 1e3 * (0 if family != 'plane' else 1)])
            bad_S.append([1.0, 0.0, 0.0])
        else:
            bad_P.append([np.nan, np.nan, np.nan]); bad_S.append([0.0, 0.0, 1.0]); kind = 'nan-input'
        kinds.append(kind)
    desc['untraceable'] = kinds
    desc['n_hitting'] = int(len(Pl))
    Pm, Sm = np.array(bad_P, dtype=float).reshape(-1, 3), np.array(bad_S, dtype=float).reshape(-1, 3)
    allP = np.concatenate([Pl, Pm]); allS = np.concatenate([Sl, Sm])
    perm = rng.permutation(len(allP))
    hit_rows = np.nonzero(perm < len(Pl))[0]
    P, S = rp.to_global(allP[perm], allS[perm], spec.V, spec.R)
    gkey = 'C19/raytrace/mixed-batch'
    with np.errstate(all='ignore'):
        res = lib_call(ctx, gkey, desc, sm.raytrace, [spec.surf], P.copy(), S.copy(), WVL, n_ambient=n_amb)
    if res is _RAISED:
        ctx.case(desc)
        return
    ph, sh = np.asarray(res[0], dtype=float), np.asarray(res[1], dtype=float)
    decided = check_pass(ctx, spec, P, S, ph[1], sh[1], n_amb, desc)
    sc = max(1.0, float(np.nanmax(np.abs(P[hit_rows]))), float(np.max(np.abs(spec.V))))
    for i in hit_rows:
        solo = lib_call(ctx, gkey, desc, sm.raytrace, [spec.surf], P[i:i + 1].copy(), S[i:i + 1].copy(), WVL, n_ambient=n_amb)
        if solo is _RAISED:
            continue
        sp_, ss_ = np.asarray(solo[0], dtype=float)[1, 0], np.asarray(solo[1], dtype=float)[1, 0]
        if not (np.isfinite(sp_).all() and np.isfinite(ss_).all()):
            ctx.skip('mixed batch: the ray is lost when traced alone too (decided by the pass oracle, not by this law)')
            continue
        ctx.close('batch.vs-solo', ph[1, i], sp_, 'C19/raytrace/mixed-batch/hitting-ray-differs-from-solo-trace/position',
                  'a ray that hits is traced to another point (or lost) when untraceable rays share its batch', desc, rtol=0, atol=1e-9 * sc,
                  row=int(i))
        ctx.close('batch.vs-solo', sh[1, i], ss_, 'C19/raytrace/mixed-batch/hitting-ray-differs-from-solo-trace/direction',
                  'a ray that hits leaves in another direction (or is lost) when untraceable rays share its batch', desc, rtol=0, atol=1e-9,
                  row=int(i))
    ctx.case(desc, nontrivial=decided > 0)


# ================================================================================================ hardening pass 3 (HARDENING3.md)
# K  batches mixing good and bad rays in every relative order: {ray along the axis (converges in the first Newton iteration), slow
#    skew rays, a ray whose vertex-plane crossing is outside the sag domain (NaN in iteration 0), a ray that crosses the vertex plane
#    inside the domain but leaves it (NaN only from iteration >= 1)} -- all permutations of 4- and 5-ray batches, sampled permutations of
#    6..8 rays, and large random batches; every ray that hits equals its solo trace, through intersect and through raytrace.
# G  the same system in other units (every length x 1e-3 ... 1e3): intersections scale, directions are identical.
# H  rays exactly along the axis (also starting on the vertex plane), exactly on the coordinate axes at the aperture edge, meridional
#    rays with an exactly zero direction cosine, normal incidence away from the vertex; grazing incidence (75..89.9 deg) on a plane
#    mirror, decided by the closed form.
def _newton_profile(surf, Pl, Sl, maxiter=40):
    """Labels only (never a verdict): per ray the iteration in which a Newton iteration written out here (with the library's
    sag_normal) converges (-1: never) and the first iteration whose iterate is NaN (-1: never)."""
    Pl = np.asarray(Pl, dtype=float); Sl = np.asarray(Sl, dtype=float)
    n = len(Pl)
    conv = -np.ones(n, dtype=int); nan_at = -np.ones(n, dtype=int)
    with np.errstate(all='ignore'):
        P1 = Pl + (-Pl[:, 2] / Sl[:, 2])[:, None] * Sl
        sj = np.zeros(n)
        for j in range(maxiter):
            Pj = P1 + sj[:, None] * Sl
            z, r = surf.sag_normal(Pj[:, 0], Pj[:, 1])
            F = Pj[:, 2] - np.asarray(z, dtype=float)
            Fp = np.einsum('ij,ij->i', Sl, np.asarray(r, dtype=float))
            s1 = sj - F / Fp
            open_ = (conv < 0) & (nan_at < 0)
            nan_at[open_ & ~np.isfinite(s1)] = j
            open_ = (conv < 0) & (nan_at < 0)
            conv[open_ & (np.abs(s1 - sj) < 2.3e-14 * np.maximum(1, np.abs(s1)))] = j
            sj = np.where((conv >= 0) & (conv < j), sj, s1)
    return conv, nan_at


def batch_order_case(ctx, idx):
    import itertools
    from prysm.x.raytracing import spencer_and_murty as sm
    rng = ctx.rng('batch-order', idx)
    way = ['refl', 'refr-in'][idx % 2]
    Rc = float(np.round(rng.uniform(8, 60), 1))
    k = [0.0, float(np.round(rng.uniform(-0.8, 1.0), 2)), 0.0][idx % 3]
    Rdom = Rc / math.sqrt(1.0 + k)
    P_arg, R_arg = rand_frame(rng, FORMS[idx % 4], gentle=True)
    spec = Spec('conic', 'refl' if way == 'refl' else 'refr', P_arg, R_arg, 1.52 if way != 'refl' else None,
                c=1.0 / Rc, k=k, a=float(np.round(0.55 * Rdom, 3)), ctor='conic' if idx % 5 else 'sphere')
    if spec.par['ctor'] == 'sphere':
        spec.par['k'] = 0.0
        Rdom = Rc
    desc = {'wl': 'batch-order', 'surface': spec.describe(), 'sub': idx, 'class': f'batch-order|conic|{way}|{FORMS[idx % 4]}'}
    if lib_call(ctx, 'C19/build/conic', desc, build, spec) is _RAISED or not check_R(ctx, spec, desc):
        ctx.case(desc)
        return
    sag = lib_sag(spec)
    # ---- the pool, in the surface frame
    Pl, Sl, C, _ = local_bundle(rng, spec, 2, ctx.pick(40, 200), sag)
    conv, nan_at = _newton_profile(spec.surf, Pl, Sl)
    slow = np.nonzero((conv >= 2) & (C >= 2))[0]
    axis = np.nonzero((C == 0) & (conv == 0))[0]
    n_try = 60
    th = rng.uniform(0, 2 * np.pi, n_try)
    rr_ = Rdom * rng.uniform(0.80, 0.985, n_try)
    el = np.radians(rng.uniform(35, 82, n_try))
    d_ = np.stack([np.sin(el) * np.cos(th), np.sin(el) * np.sin(th), np.cos(el)], 1)
    p0 = np.stack([rr_ * np.cos(th), rr_ * np.sin(th), np.zeros(n_try)], 1)
    Pl_late, Sl_late = p0 - (0.1 * Rdom) * d_, d_
    c2, n2_ = _newton_profile(spec.surf, Pl_late, Sl_late)
    late = np.nonzero((n2_ >= 1) & (c2 < 0))[0]
    th = rng.uniform(0, 2 * np.pi, 6)
    rr_ = Rdom * rng.uniform(1.1, 2.0, 6)
    Pl_early = np.stack([rr_ * np.cos(th), rr_ * np.sin(th), -rng.uniform(5, 30, 6)], 1)
    Sl_early = np.tile([0.0, 0.0, 1.0], (6, 1))
    if len(slow) < 3 or len(axis) < 1 or len(late) < 2:
        ctx.skip('batch order: the pool lacks a slow / axis / late-NaN ray for this surface (not generated)')
        ctx.case(desc, nontrivial=False)
        return
    desc['late_nan_first_iteration'] = sorted(set(int(v) for v in n2_[late]))[:6]
    desc['slow_ray_iterations'] = sorted(set(int(v) for v in conv[slow]))[:6]

    def ray(kind, j):
        if kind == 'A':
            return Pl[axis[0]] + np.array([0.0, 0.0, -float(j)]), Sl[axis[0]]
        if kind == 'S':
            return Pl[slow[j % len(slow)]], Sl[slow[j % len(slow)]]
        if kind == 'L':
            return Pl_late[late[j % len(late)]], Sl_late[late[j % len(late)]]
        return Pl_early[j % 6], Sl_early[j % 6]

    solo_cache = {}
    n_amb = 1.0
    sc = max(1.0, float(np.max(np.abs(spec.V))), 3 * Rdom)
    decided = [0]

    def solo(routine, key, pl, sl, pg, sg):
        if (routine, key) not in solo_cache:
            with np.errstate(all='ignore'):
                if routine == 'intersect':
                    out = lib_call(ctx, 'C19/intersect/batch-order', desc, sm.intersect, pl[None, :].copy(), sl[None, :].copy(), spec.surf.sag_normal)
                    solo_cache[(routine, key)] = None if out is _RAISED else (np.asarray(out[0], dtype=float)[0], np.asarray(out[1], dtype=float)[0])
                else:
                    out = lib_call(ctx, 'C19/raytrace/batch-order', desc, sm.raytrace, [spec.surf], pg[None, :].copy(), sg[None, :].copy(), WVL, n_ambient=n_amb)
                    solo_cache[(routine, key)] = None if out is _RAISED else (np.asarray(out[0], dtype=float)[1, 0], np.asarray(out[1], dtype=float)[1, 0])
        return solo_cache[(routine, key)]

    def judge(members, order, routines, label):
        """members: list of (kind, j); order: permutation of range(len(members))."""
        rows = [members[q] for q in order]
        pl = np.array([ray(*m)[0] for m in rows]); sl = np.array([ray(*m)[1] for m in rows])
        pg, sg = rp.to_global(pl, sl, spec.V, spec.R)
        for routine in routines:
            with np.errstate(all='ignore'):
                if routine == 'intersect':
                    out = lib_call(ctx, 'C19/intersect/batch-order', desc, sm.intersect, pl.copy(), sl.copy(), spec.surf.sag_normal)
                    got = None if out is _RAISED else (np.asarray(out[0], dtype=float), np.asarray(out[1], dtype=float))
                else:
                    out = lib_call(ctx, 'C19/raytrace/batch-order', desc, sm.raytrace, [spec.surf], pg.copy(), sg.copy(), WVL, n_ambient=n_amb)
                    got = None if out is _RAISED else (np.asarray(out[0], dtype=float)[1], np.asarray(out[1], dtype=float)[1])
            if got is None:
                continue
            for row, m in enumerate(rows):
                if m[0] not in ('A', 'S'):
                    continue
                ref = solo(routine, m, pl[row], sl[row], pg[row], sg[row])
                if ref is None or not (np.isfinite(ref[0]).all() and np.isfinite(ref[1]).all()):
                    ctx.skip('batch order: the ray is lost when traced alone too (decided by the pass oracle, not by this law)')
                    continue
                decided[0] += 1
                d2 = dict(desc, batch=[f'{a_}{b_}' for a_, b_ in rows], row=row, workload=label)
                vs = max(1.0, float(np.max(np.abs(ref[1]))))
                ok = ctx.close('batch.order', got[0][row], ref[0], f'C19/{routine}/batch-order/hitting-ray-differs-from-solo-trace',
                               'a ray that hits the surface is traced to another point (or lost) depending on which other rays share '
                               'its batch and in which order', d2, rtol=0, atol=1e-9 * sc)
                ok2 = ctx.close('batch.order', got[1][row], ref[1], f'C19/{routine}/batch-order/hitting-ray-differs-from-solo-trace',
                                'a ray that hits the surface gets another normal / outgoing direction depending on which other rays '
                                'share its batch and in which order', d2, rtol=0, atol=1e-9 * vs)
                if not (ok and ok2):
                    return False
        return True

    four = [('A', 5), ('S', 0), ('S', 1), ('L', 0)]
    five = [('A', 7), ('S', 2), ('E', 0), ('L', 1), ('S', 0)]
    fine = True
    for order in itertools.permutations(range(4)):
        fine = fine and judge(four, order, ('intersect', 'raytrace'), 'all-permutations-of-4')
        if not fine:
            break
    if fine:
        perms5 = list(itertools.permutations(range(5)))
        pick5 = set(int(v) for v in rng.choice(len(perms5), size=ctx.pick(24, 120), replace=False))
        for q, order in enumerate(perms5):
            fine = fine and judge(five, order, ('intersect', 'raytrace') if q in pick5 else ('intersect',), 'all-permutations-of-5')
            if not fine:
                break
    if fine:
        for nb in (3, 6, 7, 8):
            for rep in range(ctx.pick(6, 40)):
                members = [('A', int(rng.integers(1, 40)))] if nb > 3 or rng.integers(2) else []
                while len(members) < nb:
                    kind = 'SSLLE'[int(rng.integers(5))]
                    members.append((kind, int(rng.integers(0, 12))))
                order = [int(v) for v in rng.permutation(nb)]
                if not judge(members, order, ('intersect', 'raytrace'), f'random-order-of-{nb}'):
                    fine = False
                    break
            if not fine:
                break
    # ---- a large random batch: hitting rays against the trace of the hitting rays alone and a few solo traces
    if fine:
        nbig = ctx.pick(400, 4000)
        kinds = rng.choice(np.array(['S', 'S', 'S', 'A', 'L', 'L', 'E']), size=nbig)
        members = [(str(kd), int(rng.integers(0, 10 ** 6))) for kd in kinds]
        pl = np.array([ray(*m)[0] for m in members]); sl = np.array([ray(*m)[1] for m in members])
        good = np.array([m[0] in ('A', 'S') for m in members])
        with np.errstate(all='ignore'):
            full = lib_call(ctx, 'C19/intersect/batch-order', desc, sm.intersect, pl.copy(), sl.copy(), spec.surf.sag_normal)
            only = lib_call(ctx, 'C19/intersect/batch-order', desc, sm.intersect, pl[good].copy(), sl[good].copy(), spec.surf.sag_normal)
        if full is not _RAISED and only is not _RAISED:
            ref_ok = np.isfinite(np.asarray(only[0], dtype=float)).all(1)
            d2 = dict(desc, workload='large-random-batch', n=int(nbig))
            ctx.close('batch.large', np.asarray(full[0], dtype=float)[good][ref_ok], np.asarray(only[0], dtype=float)[ref_ok],
                      'C19/intersect/batch-order/hitting-ray-differs-from-solo-trace', 'in a large batch that also holds untraceable rays the '
                      'hitting rays are traced to other points than in a batch of the hitting rays alone', d2, rtol=0, atol=1e-9 * sc)
            pg, sg = rp.to_global(pl, sl, spec.V, spec.R)
            with np.errstate(all='ignore'):
                fullr = lib_call(ctx, 'C19/raytrace/batch-order', desc, sm.raytrace, [spec.surf], pg.copy(), sg.copy(), WVL, n_ambient=n_amb)
                onlyr = lib_call(ctx, 'C19/raytrace/batch-order', desc, sm.raytrace, [spec.surf], pg[good].copy(), sg[good].copy(), WVL, n_ambient=n_amb)
            if fullr is not _RAISED and onlyr is not _RAISED:
                okr = np.isfinite(np.asarray(onlyr[0], dtype=float)[1]).all(1) & np.isfinite(np.asarray(onlyr[1], dtype=float)[1]).all(1)
                ctx.close('batch.large', np.asarray(fullr[0], dtype=float)[1][good][okr], np.asarray(onlyr[0], dtype=float)[1][okr],
                          'C19/raytrace/batch-order/hitting-ray-differs-from-solo-trace', 'in a large batch that also holds untraceable rays '
                          'the hitting rays are traced to other points than in a batch of the hitting rays alone', d2, rtol=0, atol=1e-9 * sc)
                ctx.close('batch.large', np.asarray(fullr[1], dtype=float)[1][good][okr], np.asarray(onlyr[1], dtype=float)[1][okr],
                          'C19/raytrace/batch-order/hitting-ray-differs-from-solo-trace', 'in a large batch that also holds untraceable rays '
                          'the hitting rays leave in other directions than in a batch of the hitting rays alone', d2, rtol=0, atol=1e-9)
                # the hitting rays of the large batch, judged by the pass oracle as well
                check_pass(ctx, spec, pg[good], sg[good], np.asarray(fullr[0], dtype=float)[1][good], np.asarray(fullr[1], dtype=float)[1][good],
                           n_amb, d2)
    ctx.case(desc, nontrivial=decided[0] > 0)


SYSTEM_SCALES = [1e-3, 1e-2, 1e2, 1e3]


def _scaled_spec(spec, f):
    par = {}
    for k_, v in spec.par.items():
        if k_ == 'c':
            par[k_] = v / f
        elif k_ in ('a', 'dx', 'dy', 'nr'):
            par[k_] = v * f
        elif k_ == 'cm0':
            par[k_] = [c_ * f for c_ in v]
        elif k_ in ('ams', 'bms'):
            par[k_] = [[c_ * f for c_ in row] for row in v]
        else:
            par[k_] = v
    P = spec.P_arg
    P2 = float(P) * f if np.isscalar(P) else [float(v) * f for v in P]
    R = spec.R_arg
    out = Spec(spec.family, spec.typ, P2, R if (R is None or isinstance(R, tuple)) else np.array(R, dtype=float), spec.n_after, **par)
    out.wvl = spec.wvl
    return out


def scaled_system_case(ctx, idx, family, way, form):
    """The same single surface / two-surface system in other units: every length (curvature radius, decentre, aperture, Q-type
    normalisation radius and coefficients, vertex position, ray origins) times f.  Intersections times f, directions identical;
    the scaled trace is also judged by the ordinary pass oracle."""
    from prysm.x.raytracing import spencer_and_murty as sm
    rng = ctx.rng('scaled', idx)
    n_amb = 1.0 if way != 'refr-out' else float(np.round(rng.uniform(1.45, 1.9), 4))
    spec = make_spec(rng, family, way, form, n_amb, gentle=True)
    f = SYSTEM_SCALES[idx % len(SYSTEM_SCALES)]
    two = (idx // 4) % 2 == 1 and way != 'refl'
    desc = {'wl': 'scaled-system', 'surface': spec.describe(), 'n_ambient': n_amb, 'factor': f, 'surfaces': 2 if two else 1, 'sub': idx,
            'class': f'scale|{family}|{way}|{form}|x{f:g}|{"two-surfaces" if two else "one-surface"}'}
    spk = _scaled_spec(spec, f)
    if lib_call(ctx, f'C19/build/{family}', desc, build, spec) is _RAISED or lib_call(ctx, f'C19/build/{family}', desc, build, spk) is _RAISED \
            or not check_R(ctx, spec, desc):
        ctx.case(desc)
        return
    sag = lib_sag(spec)
    Pl, Sl, C, _ = local_bundle(rng, spec, 3, 16 if not family.startswith('qtype') else 8, sag)
    P, S = rp.to_global(Pl, Sl, spec.V, spec.R)
    surfs, surfs_k, specs_k = [spec.surf], [spk.surf], [spk]
    if two:
        # a plane exit face a little downstream along the local axis (refracting back into the ambient medium)
        ax = np.array([0.0, 0.0, 1.0]) if spec.R is None else np.asarray(spec.R)[2]
        t = float(np.round(rng.uniform(2, 8), 2))
        V2 = spec.V + t * ax
        s2 = Spec('plane', 'refr', [float(v) for v in V2], None if spec.R is None else np.array(spec.R, dtype=float), n_amb, a=3 * spec.a)
        s2k = _scaled_spec(s2, f)
        if lib_call(ctx, 'C19/build/plane', desc, build, s2) is _RAISED or lib_call(ctx, 'C19/build/plane', desc, build, s2k) is _RAISED:
            ctx.case(desc)
            return
        surfs.append(s2.surf); surfs_k.append(s2k.surf); specs_k.append(s2k)
    gkey = 'C19/raytrace/scale'
    with np.errstate(all='ignore'):
        base = lib_call(ctx, gkey, desc, sm.raytrace, surfs, P.copy(), S.copy(), WVL, n_ambient=n_amb)
        scaled = lib_call(ctx, gkey, desc, sm.raytrace, surfs_k, (P * f).copy(), S.copy(), WVL, n_ambient=n_amb)
    if base is _RAISED or scaled is _RAISED:
        ctx.case(desc)
        return
    ph, sh = np.asarray(base[0], dtype=float), np.asarray(base[1], dtype=float)
    pk, sk = np.asarray(scaled[0], dtype=float), np.asarray(scaled[1], dtype=float)
    sc = max(1.0, float(np.nanmax(np.abs(P))), float(np.max(np.abs(spec.V))))
    decided = 0
    for j in range(1, ph.shape[0]):
        ok = np.isfinite(ph[j]).all(1) & np.isfinite(sh[j]).all(1)
        # a ray lost in one of the two systems is the business of the pass oracle below (it labels the known losses: the r = 0
        # singularity of a Q-type surface is hit exactly in one system and missed by 1e-16 in the other)
        lost = ok & ~(np.isfinite(pk[j]).all(1) & np.isfinite(sk[j]).all(1))
        if lost.any():
            ctx.skip('scaled system: ray finite in one system and lost in the other (left to the pass oracle of the scaled system)', int(lost.sum()))
        ok &= ~lost
        if not ok.any():
            continue
        decided += int(ok.sum())
        lab = 'down' if f < 1 else 'up'
        ctx.close('scale.system', pk[j][ok], f * ph[j][ok], f'C19/raytrace/scale:{lab}/position', 'the same system described in other units '
                  '(every length multiplied by one factor) is not traced to the scaled intersection points', dict(desc, surface_index=j - 1),
                  rtol=0, atol=1e-9 * sc * f)
        ctx.close('scale.system', sk[j][ok], sh[j][ok], f'C19/raytrace/scale:{lab}/direction', 'the same system described in other units '
                  'sends the rays in other directions', dict(desc, surface_index=j - 1), rtol=0, atol=1e-9)
    # ordinary oracle on the scaled system
    n_cur = n_amb
    for j, sp_ in enumerate(specs_k):
        check_pass(ctx, sp_, pk[j], sk[j], pk[j + 1], sk[j + 1], n_cur, desc, j=j)
        if sp_.typ == 'refr':
            n_cur = sp_.n_after
    ctx.case(desc, nontrivial=decided > 0)


def special_rays_case(ctx, idx, family, way, form):
    from prysm.x.raytracing import spencer_and_murty as sm
    rng = ctx.rng('special-rays', idx)
    n_amb = 1.0 if way != 'refr-out' else float(np.round(rng.uniform(1.45, 1.9), 4))
    spec = make_spec(rng, family, way, form, n_amb, gentle=True)
    desc = {'wl': 'special-rays', 'surface': spec.describe(), 'n_ambient': n_amb, 'sub': idx, 'class': f'special|{family}|{way}|{form}'}
    if lib_call(ctx, f'C19/build/{family}', desc, build, spec) is _RAISED or not check_R(ctx, spec, desc):
        ctx.case(desc)
        return
    sag = lib_sag(spec)
    a = float(np.round(0.97 * spec.a, 3))      # the edge of the aperture the rays are aimed in (3 % inside the oracle's own bound, which is inclusive only to rounding)
    T, Sd, dist = [], [], []
    zax = [0.0, 0.0, 1.0]
    # exactly along the axis: from whole distances, from the vertex plane itself, from very near and very far
    for d_ in (float(int(rng.integers(1, 60))), 0.0, 1e-3, 1e3):
        T.append([0.0, 0.0]); Sd.append(zax); dist.append(d_)
    # axis-parallel rays exactly on the coordinate axes / diagonals at the aperture edge
    q = a / math.sqrt(2.0)
    for tx, ty in ((a, 0.0), (-a, 0.0), (0.0, a), (0.0, -a), (q, q), (-q, q), (q, -q), (-q, -q)):
        T.append([tx, ty]); Sd.append(zax); dist.append(float(np.round(rng.uniform(5, 60), 1)))
    # meridional rays (one direction cosine exactly zero) aimed at edge points and at the vertex
    for ang in (-25.0, -10.0, 10.0, 25.0):
        t_ = math.radians(ang)
        T.append([a, 0.0]); Sd.append([math.sin(t_), 0.0, math.cos(t_)]); dist.append(float(np.round(rng.uniform(5, 40), 1)))
        T.append([0.0, -a]); Sd.append([0.0, math.sin(t_), math.cos(t_)]); dist.append(float(np.round(rng.uniform(5, 40), 1)))
        T.append([0.0, 0.0]); Sd.append([math.sin(t_), 0.0, math.cos(t_)]); dist.append(float(np.round(rng.uniform(5, 40), 1)))
    # normal incidence away from the vertex (the ray travels along the surface normal at its target)
    for _ in range(6):
        rr_ = a * math.sqrt(float(rng.uniform(0.05, 1.0))); th = float(rng.uniform(0, 2 * np.pi))
        tx, ty = rr_ * math.cos(th), rr_ * math.sin(th)
        zx, zy, err = rp.gradient_richardson(sag, np.array([tx]), np.array([ty]), 0.02 * a, levels=4)
        if not (np.isfinite(zx[0]) and np.isfinite(zy[0])):
            continue
        nrm = rp.normal_from_gradient(zx, zy)[0]
        T.append([tx, ty]); Sd.append([float(v) for v in nrm * (1.0 if nrm[2] > 0 else -1.0)]); dist.append(float(np.round(rng.uniform(5, 40), 1)))
    T = np.array(T); Sl = np.array(Sd); dist = np.array(dist)
    z = sag(T[:, 0], T[:, 1])
    Pl = np.stack([T[:, 0], T[:, 1], z], 1) - dist[:, None] * Sl
    keep = np.isfinite(Pl).all(1)
    Pl, Sl = Pl[keep], Sl[keep]
    P, S = rp.to_global(Pl, Sl, spec.V, spec.R)
    t = Tagged(ctx, '/special:axis-edge-normal-incidence')
    with np.errstate(all='ignore'):
        res = lib_call(t, f'C19/raytrace/{spec.typ}/batch', desc, sm.raytrace, [spec.surf], P.copy(), S.copy(), WVL, n_ambient=n_amb)
    decided = 0
    if res is not _RAISED:
        ph = np.asarray(res[0], dtype=float); sh = np.asarray(res[1], dtype=float)
        decided = check_pass(t, spec, P, S, ph[1], sh[1], n_amb, desc)
        ctx.observe('special.rays', decided)
    # grazing incidence on a plane mirror: decided by the closed form (the pass oracle excludes cos i < 0.3)
    if family == 'plane' and way == 'refl':
        ng = 12
        inc = np.radians(np.concatenate([rng.uniform(75, 89, ng - 4), [89.5, 89.9, 80.0, 85.0]]))
        az = rng.uniform(0, 2 * np.pi, ng)
        az[-2:] = [0.0, np.pi / 2]                     # exactly in a coordinate plane
        Sg = np.stack([np.sin(inc) * np.cos(az), np.sin(inc) * np.sin(az), np.cos(inc)], 1)
        Sg[-2, 1] = 0.0
        Sg[-1, 0] = 0.0
        Sg = rp.unit(Sg)
        tgt = np.stack([rng.uniform(-0.5, 0.5, ng) * a, rng.uniform(-0.5, 0.5, ng) * a, np.zeros(ng)], 1)
        Pg_l = tgt - rng.uniform(2, 20, ng)[:, None] * Sg
        Pg, Sgg = rp.to_global(Pg_l, Sg, spec.V, spec.R)
        with np.errstate(all='ignore'):
            res = lib_call(ctx, 'C19/raytrace/refl/special:grazing', desc, sm.raytrace, [spec.surf], Pg.copy(), Sgg.copy(), WVL, n_ambient=n_amb)
        if res is not _RAISED:
            want_l = Pg_l + (-Pg_l[:, 2] / Sg[:, 2])[:, None] * Sg
            want_P, want_S = rp.to_global(want_l, Sg * np.array([1.0, 1.0, -1.0]), spec.V, spec.R)
            path = np.abs(Pg_l[:, 2] / Sg[:, 2])
            scg = max(1.0, float(np.max(np.abs(Pg))), float(np.max(path)), float(np.max(np.abs(spec.V))))
            d2 = dict(desc, incidence_deg=[float(v) for v in np.degrees(inc)])
            ctx.close('special.grazing-plane-mirror', np.asarray(res[0], dtype=float)[1], want_P, 'C19/hit/special:grazing/plane',
                      'a ray at grazing incidence (75..89.9 deg) on a plane mirror is not traced to its intersection with the plane', d2,
                      rtol=0, atol=1e-9 * scg)
            ctx.close('special.grazing-plane-mirror', np.asarray(res[1], dtype=float)[1], want_S, 'C19/reflect/special:grazing/plane',
                      'a ray at grazing incidence on a plane mirror is not mirrored about the plane normal', d2, rtol=0, atol=1e-9)
            decided += ng
    ctx.case(desc, nontrivial=decided > 0)


# ================================================================================================ class F: foreign traffic
FOREIGN_KINDS = ['rotation-matrices-edited-in-place', 'qpoly-other-orders', 'precision-32-consumers', 'polar-grids-edited']


def foreign_case(ctx, idx, kind, family):
    """Other consumers of the helpers the ray tracer shares with the rest of the library (make_rotation_matrix, cart_to_polar,
    the Q-polynomial recurrences, config.precision) run first with hostile arguments; then a surface is built and traced."""
    from prysm import coordinates
    from ..util import precision
    rng = ctx.rng('foreign', idx)
    way = WAYS[idx % 3]
    n_amb = 1.0 if way != 'refr-out' else float(np.round(rng.uniform(1.45, 1.9), 4))
    form = 'angles' if kind == 'rotation-matrices-edited-in-place' else FORMS[idx % 4]
    spec = make_spec(rng, family, way, form, n_amb)
    desc = {'wl': 'foreign', 'prelude': kind, 'surface': spec.describe(), 'n_ambient': n_amb, 'sub': idx,
            'class': f'foreign|{kind}|{family}|{way}'}
    ctx.observe('foreign.cases')
    try:
        with np.errstate(all='ignore'):
            if kind == 'rotation-matrices-edited-in-place':
                ang = spec.R_arg
                for a in (ang, tuple(ang), list(ang)):
                    M = coordinates.make_rotation_matrix(a)
                    M[...] = 7.0
                    M = coordinates.make_rotation_matrix(tuple(np.radians(a)), radians=True)
                    M *= 0.0
                coordinates.promote_3d_transformation_to_homography(coordinates.make_rotation_matrix(ang))[...] = 3.0
                first = make_spec(ctx.rng('foreign-first', idx), 'plane', 'refl', 'none', 1.0)
                first.R_arg = ang
                build(first)
                if first.surf.R is not None and getattr(first.surf.R, 'flags', None) is not None and first.surf.R.flags.writeable:
                    first.surf.R[...] = 0.5         # the caller edits the matrix of ITS surface; another surface with the same angles follows
            elif kind == 'qpoly-other-orders':
                from prysm.polynomials import Q2d_seq, Qbfs_seq, Qcon_seq
                from prysm.x.raytracing.surfaces import Q2d_and_der
                r_ = np.linspace(0, 1, 17); t_ = np.linspace(0, 2 * np.pi, 17)
                list(Qbfs_seq(range(0, 12), r_)); list(Qcon_seq(range(0, 9), r_))
                for m in list(Q2d_seq([(n_, m_) for n_ in range(6) for m_ in (-3, 0, 2, 5)], r_, t_)):
                    m *= 0.0
                Q2d_and_der([0.1] * 9, [[0.01] * 7] * 5, [[0.02] * 7] * 5, np.linspace(-1, 1, 9)[:, None], np.linspace(-1, 1, 9)[:, None], 2.0, 0.05, -1.0)
            elif kind == 'precision-32-consumers':
                with precision(32):
                    other = make_spec(ctx.rng('foreign-first', idx), family, way, form, n_amb)
                    build(other)
                    from prysm.x.raytracing import spencer_and_murty as sm
                    Pl, Sl, _, _ = local_bundle(ctx.rng('foreign-rays', idx), other, 2, 6, lib_sag(other))
                    Pg, Sg = rp.to_global(Pl, Sl, other.V, other.R)
                    sm.raytrace([other.surf], Pg.astype(np.float32), Sg.astype(np.float32), WVL, n_ambient=n_amb)
                    coordinates.make_rotation_matrix((1.0, 2.0, 3.0))
            else:
                x, y = coordinates.make_xy_grid(33, diameter=2 * spec.a)
                rr_, tt_ = coordinates.cart_to_polar(x, y)
                rr_[...] = 0.0
                tt_[...] = 0.0
                rr_, tt_ = coordinates.cart_to_polar(x[16], y[:, 16], vec_to_grid=False)
                rr_ *= 0.0
                xx_, yy_ = coordinates.polar_to_cart(np.hypot(x, y), np.arctan2(y, x))
                xx_[...] = 1.0
    except Exception as e:
        ctx.skip(f'foreign prelude raised {type(e).__name__}')
    t = Tagged(ctx, f'/after-foreign:{kind}')
    global CTX
    old = CTX
    CTX = t
    try:
        with tolerances(TOL64, f'/after-foreign:{kind}'):
            if lib_call(t, f'C19/build/{family}', desc, build, spec) is _RAISED or not check_R(t, spec, desc):
                ctx.case(desc)
                return
            r1 = _trace_one(t, spec, rng, n_amb, WVL, desc, f'C19/raytrace/{spec.typ}/batch', nrand=12, ngrid=3)
    finally:
        CTX = old
    ctx.case(desc, nontrivial=bool(r1 and r1[4]))


def install_monitors(ctx):
    """For vp/pytest_monitors.py: the frame-transform contracts on the repository's own test traffic."""
    global CTX
    CTX = ctx
    install()


def run(ctx):
    global CTX
    CTX = ctx
    install()
    try:
        _run(ctx)
    finally:
        detach_all()
    for k, v in COUNTERS.items():
        ctx.note(f'calls_seen.{k}', v[0])


def _run(ctx):
    # configuration first: its 32-bit phase must precede every 64-bit use of the same prescriptions in this process
    combos = [(f, w, fo) for f in FAMILIES for w in WAYS for fo in FORMS]
    for i in range(ctx.pick(40, 2000)):
        if ctx.mine(i):
            f, w, fo = combos[(i * 7) % len(combos)]
            precision_case(ctx, i, f, w, fo)
    i = -1
    for rep in range(ctx.pick(1, 60)):
        for change in HIST_CHANGES:
            for f in FAMILIES:
                i += 1
                if ctx.mine(i):
                    history_case(ctx, i, f, change)
    i = -1
    for rep in range(ctx.pick(1, 50)):
        for form_ray in RAY_FORMS:
            for f in FAMILIES:
                i += 1
                if ctx.mine(i):
                    repeat_case(ctx, i, f, form_ray)
    # hardening pass 2: argument forms, eval surfaces inside prescriptions, mixed batches, foreign traffic
    combos = [(f, w, fo) for f in FAMILIES for w in WAYS for fo in FORMS]
    for i in range(ctx.pick(60, 1800)):
        if ctx.mine(i):
            f, w, fo = combos[(i * 7) % len(combos)] if i >= 15 else (FAMILIES[i % 5], ['refl', 'refr-in', 'eval'][i // 5], FORMS[(i + 1) % 4])
            ray_forms_case(ctx, i, f, w, fo)
    i = -1
    for rep in range(ctx.pick(1, 40)):
        for pos in EVAL_POSITIONS:
            for frame in EVAL_FRAMES:
                for fam in ('plane', 'conic', 'off-axis-conic'):
                    i += 1
                    if ctx.mine(i):
                        eval_case(ctx, i, pos, frame, fam)
    i = -1
    for rep in range(ctx.pick(2, 60)):
        for fam in FAMILIES:
            for w in WAYS:
                i += 1
                if ctx.mine(i):
                    mixed_batch_case(ctx, i, fam, w)
    i = -1
    for rep in range(ctx.pick(1, 30)):
        for kind in FOREIGN_KINDS:
            for fam in FAMILIES:
                i += 1
                if ctx.mine(i):
                    foreign_case(ctx, i, kind, fam)
    # hardening pass 3: batch orders (class K), scaled systems (class G), special rays (class H)
    for i in range(ctx.pick(8, 320)):
        if ctx.mine(i):
            batch_order_case(ctx, i)
    combos = [(f, w, fo) for f in FAMILIES for w in WAYS for fo in FORMS]
    for i in range(ctx.pick(40, 2400)):
        if ctx.mine(i):
            f, w, fo = combos[(i * 7) % len(combos)]
            scaled_system_case(ctx, i, f, w, fo)
    for i in range(ctx.pick(40, 2400)):
        if ctx.mine(i):
            f, w, fo = combos[(i * 11 + 3) % len(combos)] if i >= 8 else ('plane', 'refl', FORMS[i % 4])
            special_rays_case(ctx, i, f, w, fo)
    reps = ctx.pick(8, 150)
    combos = [(f, w, fo) for f in FAMILIES for w in WAYS for fo in FORMS]
    i = -1
    for rep in range(reps):
        for (f, w, fo) in combos:
            i += 1
            if ctx.mine(i):
                single_surface_case(ctx, i, f, w, fo)
    i = -1
    for rep in range(ctx.pick(6, 80)):
        for f in FAMILIES:
            for fo in ('none', 'matrix'):
                i += 1
                if ctx.mine(i):
                    direct_calls_case(ctx, i, f, fo)
    for i in range(ctx.pick(80, 4000)):
        if ctx.mine(i):
            rigid_case(ctx, i)
    for i in range(ctx.pick(200, 6000)):
        if ctx.mine(i):
            multi_surface_case(ctx, i)
    for i in range(ctx.pick(24, 400)):
        if ctx.mine(i):
            hostile_case(ctx, i)
    # numeric regimes: extreme curvature / conic constant, prescriptions of 5..8 surfaces
    curved = [f for f in FAMILIES if f != 'plane' and not f.startswith('qtype')]
    i = -1
    for rep in range(ctx.pick(1, 80)):
        for regime in ('strong-curvature', 'nearly-flat', 'extreme-conic'):
            for f in curved:
                for w in WAYS:
                    i += 1
                    if ctx.mine(i):
                        single_surface_case(ctx, i, f, w, FORMS[i % 4], regime=regime)
    for i in range(ctx.pick(24, 1500)):
        if ctx.mine(i):
            multi_surface_case(ctx, i, nsurf=5 + i % 4)


def replay(ctx, rec):
    run(ctx)
