"""C01 -- FFT, matrix-DFT and chirp-Z propagation compute the same transform, independent of call history.

Monitors (contracts attached in place to the real callables, so nested calls made by prysm are seen too):

  M1  engine.textbook-dft     MatrixDFTExecutor.dft2/idft2, ChirpZTransformExecutor.czt2/iczt2: result equals the
                              textbook DFT sum (vp/refmodels/dft.py) -- complex when shift == 0, in modulus otherwise
      fft-route.textbook-dft  propagation.focus / unfocus: equals the same model with Q_eff = out_len / in_len per axis
      fixed-sampling.physical-Q  focus_fixed_sampling / unfocus_fixed_sampling on square pupil and square output:
                              equals the model with Q = lambda z / (N dx_in dx_out), shift / dx_out
  M2  engine.history-independence  every call on an executor (incl. the *_backprop methods) is repeated on a brand-new
                              executor instance in the current precision: equal dtype, |shared - fresh| <= 10 eps scale

Workloads: shape-class grid (all parity combinations, square / non-square / 1xN), Q kinds, shift kinds, real /
complex input, both directions, both engines, both precisions; FFT route for every shape <= 9x9 and integer and
non-integer Q; fixed-sampling wrappers and Wavefront methods; generated histories over the shared executors
(transforms, backprops, clear(), precision switches, argument-spelling aliases).
"""
import itertools
import math

import numpy as np

from ..contracts import attach, detach_all
from ..core import parity
from ..refmodels.dft import ref_dft, pair

RULE = ('cases are (input shape, output shape, Q kind, shift kind, dtype, direction, engine, precision) drawn by class: '
        'every parity combination in->out per axis, square / non-square / 1xN input, Q in {1, real scalar, per-axis pair}, '
        'shift in {none, integer, fractional}; arrays are seeded gaussian (real or complex).  Histories are sequences over '
        '{dft2, idft2, dft2_backprop, idft2_backprop, czt2, iczt2, clear(), precision=32|64, alias spellings of Q/shift/'
        'samples} on the shared executors.  A case is non-trivial when the input has >= 2 non-zero samples (histories: >= 1 '
        'transform op); distinct = distinct descriptor')
ASSUMPTIONS = [
    'reference = textbook DFT sum with origin at index n//2 on every axis, Q[0]->axis 0, shift[0]->axis 1, coordinate - shift, '
    'normalisation 1/sqrt(Na Q0 Ma Q1) (vp/refmodels/dft.py, long-double phases, no prysm code)',
    'with a shift only the modulus is compared (the statement allows a pure phase)',
    'error scale is ||a||_1 / sqrt(Na Q0 Ma Q1), the bound on every output sample; rtol = max(1e-9 (float64) / 1e-3 (float32), 1000 eps phi) with phi '
    'the largest kernel / chirp phase of the call (observed round-off <= 0.5 eps phi); calls whose tolerance would exceed 3e-2 are excluded and counted',
    'samples_out / shift passed as list (unhashable cache key) and numpy-integer Q are treated as out of domain',
    'which Q a non-square pupil should get in *_fixed_sampling is C03/C05 business: the physical-Q monitor is applied to '
    'square pupil + square output only; for the rest the nested engine call is checked against the Q prysm passed',
    'single-threaded BLAS/FFT (the orchestrator pins thread counts) so a fresh executor reproduces a call bit-for-bit',
]
REQUIRED = ['engine.textbook-dft/mdft', 'engine.textbook-dft/czt', 'fft-route.textbook-dft', 'fixed-sampling.physical-Q',
            'engine.history-independence/mdft', 'engine.history-independence/czt', 'history.ops']

CTX = None
CUR = {'desc': None}           # descriptor of the case being driven (set by the workloads)

KEY_SWAP = 'C01/czt/row-col-chirp-constants-swapped'
KEY_START = 'C01/czt/even-in->odd-out/start-offset'
KEY_AMBIG = 'C01/czt/chirp-swap-or-start-offset/indistinguishable-in-modulus'
KEY_STALE = 'C01/mdft/history/basis-of-other-precision-reused'
KEY_QSPELL = 'C01/history/float32/cache-entry-shared-between-python-and-numpy-scalar-Q'


class HarnessError(BaseException):
    """A bug in a monitor: must never be mistaken for an exception escaping prysm."""


def _safe(fn):
    def wrapped(*a, **k):
        try:
            return fn(*a, **k)
        except HarnessError:
            raise
        except Exception as e:  # noqa
            import traceback
            raise HarnessError('monitor failed: ' + ''.join(traceback.format_exception(type(e), e, e.__traceback__))[-1500:])
    return wrapped


# ------------------------------------------------------------------------------------------ helpers
def shape_kind(shape):
    shape = tuple(int(s) for s in shape)
    if shape == (1, 1):
        return 'one'
    if 1 in shape:
        return 'line'
    return 'sq' if shape[0] == shape[1] else 'nonsq'


def axes_class(ishape, oshape):
    return ','.join(f'{parity(i)}->{parity(o)}' for i, o in zip(ishape, oshape))


def shift_class(shift):
    sx, sy = shift
    if sx == 0 and sy == 0:
        return 'none'
    if float(sx).is_integer() and float(sy).is_integer():
        return 'int'
    return 'frac'


def is_single(dt):
    return np.dtype(dt) in (np.dtype(np.float32), np.dtype(np.complex64))


def conf_bits():
    from prysm.conf import config
    return 32 if config.precision is np.float32 else 64


def norm_args(Q, samples_out, shift):
    """(Q0,Q1), (Nb,Mb), (sx,sy) as plain numbers, or None when outside the model's domain."""
    try:
        Qp = tuple(float(q) for q in pair(Q))
        out = tuple(int(s) for s in pair(samples_out))
        sh = tuple(float(s) for s in pair(shift))
    except Exception:
        return None
    if not all(q > 0 and math.isfinite(q) for q in Qp) or not all(o >= 1 for o in out) or not all(math.isfinite(s) for s in sh):
        return None
    return Qp, out, sh


def kernel_phase(engine, ishape, Qp, out, sh):
    """Largest phase (rad) the engine has to represent: the DFT kernel 2 pi x u / (n Q) for mdft, the Bluestein chirps
    pi j^2 / (n Q) with j up to in + out + |shift| for czt.  Round-off of a transform is ~ eps * this (measured: <= 0.5 eps phi
    for mdft, <= 0.15 eps phi for czt in float32 over 30 000 random cases)."""
    phi = 0.0
    for n, q, o, s in zip(ishape, Qp, out, (sh[1], sh[0])):
        if engine == 'czt':
            phi += math.pi * (n + o + abs(s)) ** 2 / (n * q)
        else:
            phi += 2 * math.pi * (n / 2 + 1) * (o / 2 + 1 + abs(s)) / (n * q)
    return phi


def rtol_for(engine, single, ishape, Qp, out, sh):
    """Relative tolerance: the global floor (1e-9 / 1e-3), raised to 1000 eps phi where the kernel phase is large (>= 3 decades
    above the round-off that phase implies).  None = ill-conditioned in this precision (tolerance would exceed 3e-2): skip + count."""
    eps = float(np.finfo(np.float32 if single else np.float64).eps)
    r = max(RTOL32 if single else RTOL64, 1000 * eps * kernel_phase(engine, ishape, Qp, out, sh))
    return None if r > 3e-2 else r


def err_scale(ary, Qp):
    Na, Ma = ary.shape
    return float(np.abs(ary).sum()) / math.sqrt(Na * Qp[0] * Ma * Qp[1])


RTOL64, RTOL32 = 1e-9, 1e-3     # observed round-off: <= 1e-14 / 1e-6 of the scale (>= 3 decades of head-room)
STATS = {}      # label -> largest observed error / tolerance among the comparisons that held (round-off head-room)


def mismatch(got, ref, tol, modulus_only, label=None):
    """None when got matches ref; else 'modulus' or 'phase' (modulus right, complex value wrong)."""
    got = np.asarray(got)
    if not np.isfinite(got).all():
        return 'modulus'
    em = float(np.max(np.abs(np.abs(got) - np.abs(ref)))) if got.size else 0.0
    if em > tol:
        return 'modulus'
    e = em
    if not modulus_only:
        ec = float(np.max(np.abs(got - ref))) if got.size else 0.0
        if ec > tol:
            return 'phase'
        e = ec
    if label is not None and tol > 0:
        STATS[label] = max(STATS.get(label, 0.0), e / tol)
    return None


def diagnose_czt(ary, Qp, out, sh, fwd, got, tol):
    """Attribute a chirp-Z mismatch to known single-cause models.  Returns a tuple of cause labels
    ('swap', 'start') or None when none of the models reproduces what prysm returned.

    swap : axis 0 is transformed with alpha of axis 1 (1/(Ma Q1)) and vice versa
    start: on an axis with even input length and odd output length the convolution kernel starts one sample late,
           i.e. the output is the transform at coordinate - (shift + 1), times exp(-+ i pi alpha (1 - 2 k))
    Without a shift the models are compared as complex arrays, with a shift in modulus.
    """
    Na, Ma = ary.shape
    cond = {'swap': abs(Na * Qp[0] - Ma * Qp[1]) > 1e-12 * Na * Qp[0],
            'start': (Na % 2 == 0 and out[0] % 2 == 1) or (Ma % 2 == 0 and out[1] % 2 == 1)}
    got = np.asarray(got)
    if not np.isfinite(got).all():
        return None
    cplx = shift_class(sh) == 'none'
    sgn = -1 if fwd else 1
    def explains(causes):
        Q0, Q1 = Qp
        sx, sy = sh
        ph = np.ones(out, dtype=complex)
        if 'swap' in causes:
            Q0, Q1 = Ma * Qp[1] / Na, Na * Qp[0] / Ma
        if 'start' in causes:
            if Na % 2 == 0 and out[0] % 2 == 1:
                sy += 1
                kc = np.arange(out[0]) - out[0] // 2
                ph = ph * np.exp(-sgn * 1j * np.pi / (Na * Q0) * (1 - 2 * kc))[:, None]
            if Ma % 2 == 0 and out[1] % 2 == 1:
                sx += 1
                kc = np.arange(out[1]) - out[1] // 2
                ph = ph * np.exp(-sgn * 1j * np.pi / (Ma * Q1) * (1 - 2 * kc))[None, :]
        model = ref_dft(ary, (Q0, Q1), out, (sx, sy), fwd)
        if cplx:
            e = float(np.max(np.abs(got - model * ph)))
        else:
            e = float(np.max(np.abs(np.abs(got) - np.abs(model))))
        return e <= tol

    singles = [c for c in ('swap', 'start') if cond[c] and explains((c,))]
    if len(singles) == 1:
        return (singles[0],)
    if len(singles) == 2:
        return ('ambiguous',)       # degenerate (1xN, integer shift ...): either single cause reproduces the output
    if cond['swap'] and cond['start'] and explains(('swap', 'start')):
        return ('swap', 'start')
    return None


CAUSE_KEY = {'swap': KEY_SWAP, 'start': KEY_START, 'ambiguous': KEY_AMBIG}
CAUSE_WHAT = {
    'ambiguous': 'czt2/iczt2 wrong in modulus on a degenerate input (1xN / Nx1 with an integer shift) where both chirp-Z defects '
                 '(swapped per-axis chirp constants, even->odd start offset) are active and either one alone reproduces the output',
    'swap': 'czt2/iczt2 transform axis 0 with the chirp constant of axis 1 and vice versa (alpha = 1/(n Q) per axis swapped): '
            'wrong modulus whenever rows*Q[0] != cols*Q[1] (non-square input or per-axis Q)',
    'start': 'czt2/iczt2 on an axis of even input length and odd output length start the convolution kernel one sample late '
             '(-((N-M)//2) instead of -(N//2 - M//2)): the output is the transform one sample off',
}


def describe(fn, ary, Qp, out, sh, extra=None):
    d = dict(CUR['desc']) if CUR['desc'] else {}
    d.update({'fn': fn, 'in': list(ary.shape), 'Q': list(Qp), 'out': list(out), 'shift': list(sh), 'dtype': str(ary.dtype),
              'precision': conf_bits()})
    if extra:
        d.update(extra)
    return d


# ------------------------------------------------------------------------------------------ M1 + M2 on the engines
def _parse(args, kwargs, names):
    a = dict(zip(names, args))
    a.update(kwargs)
    return a


def _snap(names):
    def pre(args, kwargs):
        a = _parse(args[1:], kwargs, names)
        x = a.get(names[0])
        return np.array(x, copy=True) if isinstance(x, np.ndarray) else x
    return pre


def _respell_Q(args, kwargs, how):
    """The same call with Q spelled as python floats ('py') or numpy float64 scalars ('np')."""
    conv = (lambda q: float(q)) if how == 'py' else (lambda q: np.float64(q))

    def one(Q):
        if hasattr(Q, '__len__'):
            return tuple(conv(q) for q in Q)
        return conv(Q)
    args = list(args)
    kwargs = dict(kwargs)
    if 'Q' in kwargs:
        kwargs['Q'] = one(kwargs['Q'])
    elif len(args) > 2:
        args[2] = one(args[2])
    return tuple(args), kwargs


def _fresh_call(cls, fn, args, kwargs, bits=None):
    """Same call on a brand-new executor (monitors are bypassed: we are inside a monitor)."""
    from ..util import precision
    inst = cls()
    if bits is None:
        return getattr(inst, fn)(*args[1:], **kwargs)
    with precision(bits):
        return getattr(inst, fn)(*args[1:], **kwargs)


def _same(a, b, eps_mult=10):
    a = np.asarray(a)
    b = np.asarray(b)
    if a.shape != b.shape or a.dtype != b.dtype:
        return False
    if a.size == 0:
        return True
    if not (np.isfinite(a).all() and np.isfinite(b).all()):
        return np.array_equal(a, b, equal_nan=True)
    scale = float(np.max(np.abs(b)))
    eps = float(np.finfo(b.real.dtype).eps)
    return float(np.max(np.abs(a - b))) <= eps_mult * eps * scale


def history_monitor(engine, cls, fn, args, kwargs, result, ary):
    """M2: the same call on a brand-new executor must give the same array.  When it does not, the difference is
    attributed (for the ledger key only) by asking which *other* fresh call reproduces the shared result bit for bit:
    the other config.precision (stale basis), the other spelling of Q (python float vs numpy scalar), or both.
    Returns True when the shared result came from state built under another precision / Q spelling."""
    CTX.observe(f'engine.history-independence/{engine}')
    try:
        fresh = _fresh_call(cls, fn, args, kwargs)
    except Exception as e:  # the shared executor returned, a fresh one refuses the same call: history dependence
        d = dict(CUR['desc']) if CUR['desc'] else {}
        d.update({'fn': fn, 'in': list(np.shape(ary)), 'precision': conf_bits(), 'args': repr(args[2:])[:160]})
        CTX.violation(f'C01/history/{engine}.{fn}/fresh-executor-raises:{type(e).__name__}',
                      f'{engine}.{fn} returns on the shared executor but raises {type(e).__name__} on a fresh executor', d, exception=repr(e)[:200])
        return False
    if _same(result, fresh):
        return False
    bits = conf_bits()
    other_bits = 32 if bits == 64 else 64
    desc = dict(CUR['desc']) if CUR['desc'] else {}
    desc.update({'fn': fn, 'in': list(np.shape(ary)), 'dtype': str(getattr(ary, 'dtype', None)), 'precision': bits,
                 'args': repr(args[2:])[:160], 'kwargs': repr({k: v for k, v in kwargs.items() if not isinstance(v, np.ndarray)})[:160]})
    r, f = np.asarray(result), np.asarray(fresh)
    detail = {'shared_dtype': str(r.dtype), 'fresh_dtype': str(f.dtype)}
    if r.shape == f.shape and f.size:
        detail['max_abs_diff'] = float(np.max(np.abs(r - f)))
        detail['fresh_max'] = float(np.max(np.abs(f)))
    causes = None
    variants = []
    for how in ('py', 'np'):
        try:
            a2, k2 = _respell_Q(args, kwargs, how)
        except Exception:
            continue
        variants.append((how, a2, k2))
    for want in (('precision',), ('Q-spelling',), ('precision', 'Q-spelling')):
        hit = False
        if want == ('precision',):
            try:
                hit = _same(result, _fresh_call(cls, fn, args, kwargs, bits=other_bits), eps_mult=0)
            except Exception:
                hit = False
        else:
            for how, a2, k2 in variants:
                try:
                    o = _fresh_call(cls, fn, a2, k2, bits=other_bits if 'precision' in want else None)
                except Exception:
                    continue
                if _same(result, o, eps_mult=0):
                    hit = True
                    break
        if hit:
            causes = want
            break
    if causes is None:
        CTX.violation(f'C01/history/{engine}.{fn}/differs-from-fresh-executor',
                      f'{engine}.{fn} on the shared executor returns something else than the same call on a fresh executor', desc, **detail)
        return False
    for c in causes:
        if c == 'precision':
            CTX.violation(KEY_STALE,
                          'MatrixDFTExecutor reuses basis matrices built under the other config.precision (cache key omits precision): '
                          'the same call returns a different dtype / a 1e-7-level different array than on a fresh executor',
                          desc, explained_by=list(causes), **detail)
        else:
            CTX.violation(KEY_QSPELL,
                          'in the float32 configuration a numpy-scalar Q promotes the cached basis/chirps to complex128 while a python-float Q '
                          'keeps complex64, and both spellings share one cache entry: the same call returns complex64 or complex128 '
                          'depending on which spelling was used first', desc, explained_by=list(causes), **detail)
    return True


def engine_post(engine, fn, fwd):
    names = ['ary', 'Q', 'samples_out', 'shift']

    @_safe
    def post(token, args, kwargs, result):
        cls = type(args[0])
        a = _parse(args[1:], kwargs, names)
        ary = token if isinstance(token, np.ndarray) else np.asarray(a['ary'])
        stale = history_monitor(engine, cls, fn, args, kwargs, result, ary)
        if ary.ndim != 2 or ary.dtype.kind not in 'fc':
            return
        na = norm_args(a['Q'], a['samples_out'], a.get('shift', (0, 0)))
        if na is None:
            return
        Qp, out, sh = na
        scale = err_scale(ary, Qp)
        if scale == 0 or not np.isfinite(ary).all():
            CTX.skip('engine: all-zero or non-finite input (trivial)')
            return
        CTX.observe(f'engine.textbook-dft/{engine}')
        single = is_single(ary.dtype) or (engine == 'mdft' and conf_bits() == 32)
        rtol = rtol_for(engine, single, ary.shape, Qp, out, sh)
        if rtol is None:
            CTX.observe(f'engine.textbook-dft/{engine}', -1)
            CTX.skip('engine: kernel phase beyond the resolution of the working precision (ill-conditioned, tolerance would exceed 3e-2)')
            return
        tol = rtol * scale
        desc = describe(fn, ary, Qp, out, sh)
        result = np.asarray(result)
        if result.shape != tuple(out):
            CTX.violation(f'C01/{fn}/shape', f'{fn} returned shape {result.shape}, expected {tuple(out)}', desc)
            return
        ref = ref_dft(ary, Qp, out, sh, fwd)
        modonly = shift_class(sh) != 'none'
        kind = mismatch(result, ref, tol, modonly, label=f'{engine}/{"f32" if single else "f64"}')
        if kind is None:
            return
        err = float(np.max(np.abs(np.abs(result) - np.abs(ref)))) if kind == 'modulus' else float(np.max(np.abs(result - ref)))
        detail = {'err': err, 'tol': tol, 'scale': scale, 'compared': kind}
        if stale and mismatch(result, ref, (rtol_for(engine, True, ary.shape, Qp, out, sh) or 3e-2) * scale, modonly) is None:
            return      # already reported by M2 under KEY_STALE: float32-accurate result in a float64 configuration
        if engine == 'czt':
            causes = diagnose_czt(ary, Qp, out, sh, fwd, result, tol)
            if causes:
                for c in causes:
                    CTX.violation(CAUSE_KEY[c], CAUSE_WHAT[c], desc, explained_by=list(causes), **detail)
                return
        qk = 'scalar' if Qp[0] == Qp[1] else 'per-axis'
        CTX.violation(f'C01/{fn}/{kind}-mismatch/in:{shape_kind(ary.shape)}/Q:{qk}/shift:{shift_class(sh)}',
                      f'{engine}.{fn} differs from the textbook DFT sum ({kind}; axes {axes_class(ary.shape, out)})', desc, **detail)
    return post


def backprop_post(fn):
    @_safe
    def post(token, args, kwargs, result):
        a = _parse(args[1:], kwargs, ['fbar'])
        history_monitor('mdft', type(args[0]), fn, args, kwargs, result, token if isinstance(token, np.ndarray) else np.asarray(a['fbar']))
    return post


# ------------------------------------------------------------------------------------------ M1 on the FFT route
def fft_post(fn, fwd):
    @_safe
    def post(token, args, kwargs, result):
        a = _parse(args, kwargs, ['wavefunction', 'Q'])
        ary = token
        Q = a['Q']
        if not isinstance(ary, np.ndarray) or ary.ndim != 2 or ary.dtype.kind not in 'fc':
            return
        try:
            Qf = float(Q)
        except Exception:
            return
        if not (Qf >= 1 and math.isfinite(Qf)):
            return
        m, n = ary.shape
        out = (m, n) if Q == 1 else (math.ceil(m * Q), math.ceil(n * Q))
        Qe = (out[0] / m, out[1] / n)
        scale = err_scale(ary, Qe)
        if scale == 0 or not np.isfinite(ary).all():
            CTX.skip('fft-route: all-zero or non-finite input (trivial)')
            return
        CTX.observe('fft-route.textbook-dft')
        desc = describe(fn, ary, Qe, out, (0, 0), {'Q_arg': Qf})
        result = np.asarray(result)
        if result.shape != out:
            CTX.violation(f'C01/{fn}/shape', f'{fn} returned shape {result.shape}, expected ceil(shape*Q) = {out}', desc)
            return
        ref = ref_dft(ary, Qe, out, (0, 0), fwd)
        tol = (RTOL32 if is_single(ary.dtype) else RTOL64) * scale
        kind = mismatch(result, ref, tol, False, label=f'fft-route/{"f32" if is_single(ary.dtype) else "f64"}')
        if kind is not None:
            qk = 'Q=1' if Q == 1 else ('integer-Q' if Qf.is_integer() else 'non-integer-Q')
            CTX.violation(f'C01/{fn}/{kind}-mismatch/{qk}/pad:{axes_class((m, n), out)}',
                          f'propagation.{fn} (padded FFT) differs from the textbook DFT sum on the padded grid ({kind})', desc,
                          err=float(np.max(np.abs(result - ref))), tol=tol)
    return post


def fixed_post(fn, fwd):
    names = ['wavefunction', 'input_dx', 'prop_dist', 'wavelength', 'output_dx', 'output_samples', 'shift', 'method']

    @_safe
    def post(token, args, kwargs, result):
        a = _parse(args, kwargs, names)
        ary = token
        if not isinstance(ary, np.ndarray) or ary.ndim != 2 or ary.dtype.kind not in 'fc':
            return
        try:
            out = tuple(int(s) for s in pair(a['output_samples']))
        except Exception:
            return
        method = a.get('method', 'mdft')
        if ary.shape[0] != ary.shape[1] or out[0] != out[1] or method not in ('mdft', 'czt'):
            CTX.skip('fixed-sampling: non-square pupil or output -- physical Q is C03/C05 business (engine call still checked)')
            return
        N = ary.shape[0]
        dxi, z, wvl, dxo = (float(a[k]) for k in ('input_dx', 'prop_dist', 'wavelength', 'output_dx'))
        Q = wvl * z / (N * dxi * dxo)
        sh = tuple(float(s) for s in pair(a.get('shift', (0, 0))))
        sh = (sh[0] / dxo, sh[1] / dxo)
        if not (Q > 0 and math.isfinite(Q)):
            return
        scale = err_scale(ary, (Q, Q))
        if scale == 0:
            return
        CTX.observe('fixed-sampling.physical-Q')
        single = is_single(ary.dtype) or (method == 'mdft' and conf_bits() == 32)
        rtol = rtol_for(method, single, ary.shape, (Q, Q), out, sh)
        if rtol is None:
            CTX.observe('fixed-sampling.physical-Q', -1)
            CTX.skip('engine: kernel phase beyond the resolution of the working precision (ill-conditioned, tolerance would exceed 3e-2)')
            return
        tol = rtol * scale
        ref = ref_dft(ary, (Q, Q), out, sh, fwd)
        desc = describe(fn, ary, (Q, Q), out, sh, {'method': method, 'input_dx': dxi, 'prop_dist': z, 'wavelength': wvl, 'output_dx': dxo})
        result = np.asarray(result)
        if result.shape != out:
            CTX.violation(f'C01/{fn}/shape', f'{fn} returned shape {result.shape}, expected {out}', desc)
            return
        modonly = shift_class(sh) != 'none'
        kind = mismatch(result, ref, tol, modonly)
        if kind is None:
            return
        if method == 'czt':
            causes = diagnose_czt(ary, (Q, Q), out, sh, fwd, result, tol)
            if causes:
                return      # the nested czt2/iczt2 call already reported it under the engine key
        CTX.violation(f'C01/{fn}/{method}/{kind}-mismatch/shift:{shift_class(sh)}',
                      f'{fn}(method={method}) on a square pupil differs from the DFT with Q = lambda z/(N dx_in dx_out), shift/dx_out ({kind})',
                      desc, tol=tol)
    return post


def _snap0(args, kwargs):
    x = args[0] if args else kwargs.get('wavefunction')
    return np.array(x, copy=True) if isinstance(x, np.ndarray) else x


def install():
    from prysm import fttools, propagation
    M, C = fttools.MatrixDFTExecutor, fttools.ChirpZTransformExecutor
    attach(M, 'dft2', pre=_snap(['ary']), post=engine_post('mdft', 'dft2', True))
    attach(M, 'idft2', pre=_snap(['ary']), post=engine_post('mdft', 'idft2', False))
    attach(M, 'dft2_backprop', pre=_snap(['fbar']), post=backprop_post('dft2_backprop'))
    attach(M, 'idft2_backprop', pre=_snap(['fbar']), post=backprop_post('idft2_backprop'))
    attach(C, 'czt2', pre=_snap(['ary']), post=engine_post('czt', 'czt2', True))
    attach(C, 'iczt2', pre=_snap(['ary']), post=engine_post('czt', 'iczt2', False))
    attach(propagation, 'focus', pre=_snap0, post=fft_post('focus', True))
    attach(propagation, 'unfocus', pre=_snap0, post=fft_post('unfocus', False))
    attach(propagation, 'focus_fixed_sampling', pre=_snap0, post=fixed_post('focus_fixed_sampling', True))
    attach(propagation, 'unfocus_fixed_sampling', pre=_snap0, post=fixed_post('unfocus_fixed_sampling', False))


# ------------------------------------------------------------------------------------------ workloads
def make_input(shape, cplx, seed, bits=64):
    r = np.random.default_rng(seed)
    a = r.standard_normal(shape)
    if cplx:
        a = a + 1j * r.standard_normal(shape)
        return a.astype(np.complex64 if bits == 32 else np.complex128)
    return a.astype(np.float32 if bits == 32 else np.float64)


def nontrivial(a):
    return int(np.count_nonzero(a)) >= 2


def drive_engine(ctx, method, fwd, a, Q, out, shift, desc):
    """One monitored engine call on the shared executor, guarded."""
    from prysm import fttools
    ex = fttools.mdft if method == 'mdft' else fttools.czt
    fn = {('mdft', True): 'dft2', ('mdft', False): 'idft2', ('czt', True): 'czt2', ('czt', False): 'iczt2'}[(method, fwd)]
    CUR['desc'] = desc
    try:
        with ctx.guard(f'C01/{method}/shift:{shift_class(pair(shift))}', desc, what=f'{method} transform of an in-domain input'):
            getattr(ex, fn)(a, Q, out, shift)
    finally:
        CUR['desc'] = None


Q_KINDS = ('one', 'scalar', 'pair')
SHIFT_KINDS = ('none', 'int', 'frac')


def pick_Q(kind, rng):
    if kind == 'one':
        return 1
    if kind == 'scalar':
        return [2, 1.5, 2.5, 3, 0.8, round(float(rng.uniform(0.6, 4)), 3)][int(rng.integers(6))]
    return [(1.3, 2.2), (2, 1), (1, 2.5), (round(float(rng.uniform(0.6, 4)), 3), round(float(rng.uniform(0.6, 4)), 3))][int(rng.integers(4))]


def pick_shift(kind, rng):
    if kind == 'none':
        return (0, 0)
    if kind == 'int':
        return [(1, 0), (0, -2), (3, 1), (-1.0, 2.0)][int(rng.integers(4))]
    return [(0.5, -1.25), (0.0, 0.3), (-2.7, 0.0), (round(float(rng.uniform(-3, 3)), 2), round(float(rng.uniform(-3, 3)), 2))][int(rng.integers(4))]


def grid_class(m, n, M, N):
    return f'{shape_kind((m, n))}:{axes_class((m, n), (M, N))}'


def wl_grid(ctx, rng):
    """Shape grid (m,n) in [1..7]^2 x (M,N) in [1..8]^2 (quick: stratified sample; thorough: all of it)."""
    pairs = [(m, n, M, N) for m in range(1, 8) for n in range(1, 8) for M in range(1, 9) for N in range(1, 9)]
    pairs.sort(key=lambda p: (p[0] * p[1] + p[2] * p[3], p))
    if ctx.quick:
        groups = {}
        for p in pairs:
            groups.setdefault(grid_class(*p), []).append(p)
        g = np.random.default_rng([ctx.seed, 1701])      # same selection on every shard
        chosen = []
        for k in sorted(groups):
            lst = groups[k]
            head, tail = lst[:5], lst[5:]
            chosen += head
            if tail:
                idx = g.choice(len(tail), size=min(7, len(tail)), replace=False)
                chosen += [tail[int(i)] for i in sorted(idx)]
        chosen.sort(key=lambda p: (p[0] * p[1] + p[2] * p[3], p))
        pairs = chosen
    else:
        ctx.note('shape_grid', 'all input shapes (m,n) in [1..7]^2 x all output shapes (M,N) in [1..8]^2 (3136 pairs) x 3 Q kinds x 3 shift '
                               'kinds x 2 directions x 2 engines, dtype alternating real/complex')
    k = -1
    for (m, n, M, N) in pairs:
        for qk, sk, fwd, method in itertools.product(Q_KINDS, SHIFT_KINDS, (True, False), ('mdft', 'czt')):
            k += 1
            if not ctx.mine(k):
                continue
            cplx = bool((k // 7) % 2)
            Q = pick_Q(qk, rng)
            shift = pick_shift(sk, rng)
            seed = ctx.subseed(rng)
            a = make_input((m, n), cplx, seed)
            desc = {'wl': 'grid', 'in': (m, n), 'out': (M, N), 'Q': Q, 'shift': shift, 'cplx': cplx, 'fwd': fwd, 'method': method,
                    'seed': seed, 'class': f'grid:{method}:{grid_class(m, n, M, N)}:Q{qk}:sh{sk}'}
            ctx.case(desc, nontrivial=nontrivial(a))
            out = (M, N) if (M != N or k % 2) else M
            drive_engine(ctx, method, fwd, a, Q, out, shift, desc)


def wl_random(ctx, rng):
    """Larger random cases (any parity, Q>0, outputs smaller or larger than the input)."""
    nmax = ctx.pick(20, 33)
    for _ in range(ctx.share(ctx.pick(160, 12000))):
        m, n = (int(v) for v in rng.integers(1, nmax + 1, 2))
        if rng.random() < 0.3:
            n = m
        M, N = (int(v) for v in rng.integers(1, nmax + 6, 2))
        if rng.random() < 0.3:
            N = M
        qk = Q_KINDS[int(rng.integers(3))]
        sk = SHIFT_KINDS[int(rng.integers(3))]
        Q, shift = pick_Q(qk, rng), pick_shift(sk, rng)
        fwd = bool(rng.integers(2))
        method = ('mdft', 'czt')[int(rng.integers(2))]
        cplx = bool(rng.integers(2))
        seed = ctx.subseed(rng)
        a = make_input((m, n), cplx, seed)
        layout = ('C', 'C', 'C', 'F', 'strided')[int(rng.integers(5))]      # memory layout of the input is not part of the answer
        if layout == 'F':
            a = np.asfortranarray(a)
        elif layout == 'strided':
            big = np.zeros((2 * m, 2 * n), dtype=a.dtype)
            big[::2, ::2] = a
            a = big[::2, ::2]
        desc = {'wl': 'random', 'in': (m, n), 'out': (M, N), 'Q': Q, 'shift': shift, 'cplx': cplx, 'fwd': fwd, 'method': method,
                'layout': layout, 'seed': seed, 'class': f'random:{method}:{grid_class(m, n, M, N)}:Q{qk}:sh{sk}:{layout}'}
        ctx.case(desc, nontrivial=nontrivial(a))
        drive_engine(ctx, method, fwd, a, Q, (M, N), shift, desc)
    if not ctx.quick:
        for _ in range(ctx.share(40)):
            m, n, M, N = (int(v) for v in rng.integers(34, 97, 4))
            qk = Q_KINDS[int(rng.integers(3))]
            sk = SHIFT_KINDS[int(rng.integers(3))]
            Q, shift = pick_Q(qk, rng), pick_shift(sk, rng)
            for method in ('mdft', 'czt'):
                fwd = bool(rng.integers(2))
                seed = ctx.subseed(rng)
                a = make_input((m, n), True, seed)
                desc = {'wl': 'large', 'in': (m, n), 'out': (M, N), 'Q': Q, 'shift': shift, 'cplx': True, 'fwd': fwd, 'method': method,
                        'seed': seed, 'class': f'large:{method}:{grid_class(m, n, M, N)}:Q{qk}:sh{sk}'}
                ctx.case(desc)
                drive_engine(ctx, method, fwd, a, Q, (M, N), shift, desc)
        from prysm import fttools
        fttools.mdft.clear()
        fttools.czt.clear()


def wl_float32(ctx, rng):
    """The float32 configuration: same classes, float32 / complex64 input."""
    from ..util import precision
    with precision(32):
        for _ in range(ctx.share(ctx.pick(240, 12000))):
            m, n = (int(v) for v in rng.integers(1, 10, 2))
            if rng.random() < 0.4:
                n = m
            M, N = (int(v) for v in rng.integers(1, 12, 2))
            if rng.random() < 0.4:
                N = M
            qk = Q_KINDS[int(rng.integers(3))]
            sk = SHIFT_KINDS[int(rng.integers(3))]
            Q, shift = pick_Q(qk, rng), pick_shift(sk, rng)
            fwd = bool(rng.integers(2))
            method = ('mdft', 'czt')[int(rng.integers(2))]
            cplx = bool(rng.integers(2))
            seed = ctx.subseed(rng)
            a = make_input((m, n), cplx, seed, bits=32)
            desc = {'wl': 'float32', 'in': (m, n), 'out': (M, N), 'Q': Q, 'shift': shift, 'cplx': cplx, 'fwd': fwd, 'method': method,
                    'seed': seed, 'class': f'f32:{method}:{grid_class(m, n, M, N)}:Q{qk}:sh{sk}'}
            ctx.case(desc, nontrivial=nontrivial(a))
            drive_engine(ctx, method, fwd, a, Q, (M, N), shift, desc)


def wl_czt_fractional_shift(ctx, rng):
    """Sweep of fractional shifts through czt2 (np.arange with float end points builds the kernel)."""
    from prysm import fttools
    grid = np.linspace(-3, 3, ctx.pick(61, 241))
    k = -1
    for s in grid:
        for (n, M) in ((5, 5), (8, 8), (8, 10), (7, 16)):
            k += 1
            if not ctx.mine(k):
                continue
            s = float(round(s, 6))
            shift = (s, 0.0) if k % 2 else (0.25, s)
            seed = ctx.subseed(rng)
            a = make_input((n, n), True, seed)
            desc = {'wl': 'czt-shift-sweep', 'in': (n, n), 'out': (M, M), 'Q': 2, 'shift': shift, 'seed': seed,
                    'class': f'czt-shift-sweep:{shift_class(shift)}'}
            ctx.case(desc)
            drive_engine(ctx, 'czt', True, a, 2, M, shift, desc)
    fttools.czt.clear()


def wl_fft_route(ctx, rng):
    """focus / unfocus and the Wavefront methods over every shape up to 9x9 and integer / non-integer Q."""
    from prysm import propagation
    Qs = [1, 2, 3, 4, 1.5, 2.5, 1.25]
    nmax = ctx.pick(9, 12)
    k = -1
    for m in range(1, nmax + 1):
        for n in range(1, nmax + 1):
            for Q in Qs:
                k += 1
                if not ctx.mine(k):
                    continue
                if ctx.quick and (k // ctx.nshards) % 2 and m * n > 16:
                    continue
                seed = ctx.subseed(rng)
                cplx = bool((k // 3) % 4)
                a = make_input((m, n), cplx, seed)
                out = (math.ceil(m * Q), math.ceil(n * Q))
                desc = {'wl': 'fft-route', 'in': (m, n), 'Q': Q, 'cplx': cplx, 'seed': seed,
                        'class': f'fft:{shape_kind((m, n))}:{axes_class((m, n), out)}:{"intQ" if float(Q).is_integer() else "fracQ"}'}
                ctx.case(desc, nontrivial=nontrivial(a))
                CUR['desc'] = desc
                try:
                    with ctx.guard('C01/fft-route', desc):
                        if k % 3 == 0:
                            w = propagation.Wavefront(a.astype(complex), 0.55, 0.1)
                            f = w.focus(100., Q=Q)
                            f.unfocus(100., Q=1)
                            propagation.Wavefront(a.astype(complex), 0.55, 2.0, space='psf').unfocus(100., Q=Q)
                        else:
                            propagation.focus(a, Q)
                            propagation.unfocus(a, Q)
                finally:
                    CUR['desc'] = None
    from ..util import precision
    with precision(32):
        for _ in range(ctx.share(ctx.pick(40, 600))):
            m, n = (int(v) for v in rng.integers(1, 13, 2))
            Q = Qs[int(rng.integers(len(Qs)))]
            seed = ctx.subseed(rng)
            a = make_input((m, n), True, seed, bits=32)
            desc = {'wl': 'fft-route-f32', 'in': (m, n), 'Q': Q, 'seed': seed, 'class': f'fft-f32:{shape_kind((m, n))}'}
            ctx.case(desc, nontrivial=nontrivial(a))
            CUR['desc'] = desc
            try:
                with ctx.guard('C01/fft-route', desc):
                    propagation.focus(a, Q)
                    propagation.unfocus(a, Q)
            finally:
                CUR['desc'] = None


def wl_fixed_sampling(ctx, rng):
    """focus_fixed_sampling / unfocus_fixed_sampling (functions and Wavefront methods), both engines."""
    from prysm import propagation
    for _ in range(ctx.share(ctx.pick(260, 10000))):
        square = rng.random() < 0.7
        m = int(rng.integers(1, 11))
        n = m if square else int(rng.integers(1, 11))
        s = int(rng.integers(1, 13))
        samples = s if rng.random() < 0.5 else (s, s)
        if not square and rng.random() < 0.5:
            samples = (s, int(rng.integers(1, 13)))
        wvl = [0.5, 0.6328, 1.55][int(rng.integers(3))]
        efl = [50., 100., 250.][int(rng.integers(3))]
        dxi = [0.1, 0.05, 1.0][int(rng.integers(3))]
        Qt = [1, 2, 1.5, 3.3, round(float(rng.uniform(0.7, 4)), 3)][int(rng.integers(5))]
        fwd = bool(rng.integers(2))
        method = ('mdft', 'czt')[int(rng.integers(2))]
        sk = SHIFT_KINDS[int(rng.integers(3))]
        sh = pick_shift(sk, rng)
        seed = ctx.subseed(rng)
        a = make_input((m, n), True, seed)
        via = ('function', 'Wavefront')[int(rng.integers(2))]
        if fwd:
            dxo = wvl * efl / (m * dxi) / Qt          # focal-plane spacing, um
            shift = (sh[0] * dxo, sh[1] * dxo)
        else:
            dxo = wvl * efl / (m * dxi) / Qt          # pupil-plane spacing, mm (dxi is the focal spacing, um)
            shift = (sh[0] * dxo, sh[1] * dxo)
        # class of the shift the engine actually receives: k*dx/dx is not always the integer k in floating point
        sk = shift_class((shift[0] / dxo, shift[1] / dxo))
        desc = {'wl': 'fixed-sampling', 'in': (m, n), 'samples': samples, 'wvl': wvl, 'efl': efl, 'input_dx': dxi, 'output_dx': dxo,
                'shift': shift, 'fwd': fwd, 'method': method, 'via': via, 'seed': seed,
                'class': f'fixed:{method}:{"focus" if fwd else "unfocus"}:{via}:{shape_kind((m, n))}:sh{sk}'}
        ctx.case(desc, nontrivial=nontrivial(a))
        CUR['desc'] = desc
        try:
            with ctx.guard(f'C01/{method}/shift:{sk}', desc, what=f'{method} transform of an in-domain input'):
                if via == 'function':
                    f = propagation.focus_fixed_sampling if fwd else propagation.unfocus_fixed_sampling
                    f(a, dxi, efl, wvl, dxo, samples, shift=shift, method=method)
                else:
                    w = propagation.Wavefront(a, wvl, dxi, space='pupil' if fwd else 'psf')
                    g = w.focus_fixed_sampling if fwd else w.unfocus_fixed_sampling
                    g(efl, dxo, samples, shift=shift, method=method)
        finally:
            CUR['desc'] = None


# ---- histories ------------------------------------------------------------------------------------
LETTERS = ['D', 'I', 'Db', 'Ib', 'C', 'Ic', 'mclr', 'cclr', 'p32', 'p64', 'Da', 'Ca']


def spell(argset, variant):
    """Alias spellings of the same mathematical arguments."""
    Q, out, shift = argset['Q'], argset['out'], argset['shift']
    if variant:
        if not hasattr(Q, '__len__'):
            Q = [float(Q), np.float64(Q), (Q, Q), [Q, Q], (float(Q), float(Q))][variant % 5]
        else:
            Q = [list(Q), tuple(float(q) for q in Q), np.asarray(Q, dtype=float)][variant % 3]
        shift = tuple(float(s) for s in shift) if variant % 2 else tuple(shift)
        if out[0] == out[1] and variant % 3 == 1:
            out = int(out[0])
    return Q, out, shift


def run_history(ctx, ops, argsets, seed, desc):
    """ops: list of (letter, argset index, spelling variant)."""
    from prysm import fttools
    from prysm.conf import config
    mdft, czt = fttools.mdft, fttools.czt
    mdft.clear()
    czt.clear()
    config.precision = 64
    CUR['desc'] = desc
    try:
        for i, (L, ai, var) in enumerate(ops):
            ctx.observe('history.ops')
            if L == 'mclr':
                mdft.clear()
                continue
            if L == 'cclr':
                czt.clear()
                continue
            if L == 'p32':
                config.precision = 32
                continue
            if L == 'p64':
                config.precision = 64
                continue
            A = argsets[ai]
            bits = conf_bits()
            Q, out, shift = spell(A, var if L in ('Da', 'Ca') or var else 0)
            a = make_input(A['in'], True, seed + ai, bits=bits)
            fb = make_input(tuple(pair(A['out'])), True, seed + 100 + ai, bits=bits)
            eng = 'czt' if L in ('C', 'Ic', 'Ca') else 'mdft'
            with ctx.guard(f'C01/{eng}/shift:{shift_class(pair(A["shift"]))}', desc, what=f'{eng} transform of an in-domain input'):
                if L in ('D', 'Da'):
                    mdft.dft2(a, Q, out, shift)
                elif L == 'I':
                    mdft.idft2(a, Q, out, shift)
                elif L == 'Db':
                    mdft.dft2_backprop(fb, Q, A['in'], shift)
                elif L == 'Ib':
                    mdft.idft2_backprop(fb, Q, A['in'], shift)
                elif L in ('C', 'Ca'):
                    czt.czt2(a, Q, out, shift)
                elif L == 'Ic':
                    czt.iczt2(a, Q, out, shift)
    finally:
        CUR['desc'] = None
        config.precision = 64
        mdft.clear()
        czt.clear()


ARGSET_POOL = [
    {'in': (5, 5), 'Q': 1.5, 'out': (7, 7), 'shift': (1, -2)},
    {'in': (4, 4), 'Q': 2, 'out': (6, 6), 'shift': (0, 0)},
    {'in': (3, 3), 'Q': 1, 'out': (3, 3), 'shift': (0, 0)},
    {'in': (4, 6), 'Q': 2, 'out': (5, 8), 'shift': (0, 0)},
    {'in': (6, 3), 'Q': (1.3, 2.2), 'out': (4, 4), 'shift': (2, 0)},
    {'in': (1, 5), 'Q': 2.5, 'out': (2, 9), 'shift': (0, 1)},
    {'in': (7, 7), 'Q': 3, 'out': (9, 9), 'shift': (-1, 3)},
]


def wl_histories(ctx, rng):
    if not ctx.quick:
        # every sequence of length <= 3 over the 12-letter alphabet on one fixed argument set
        k = -1
        for L in (1, 2, 3):
            for seq in itertools.product(LETTERS, repeat=L):
                k += 1
                if not ctx.mine(k):
                    continue
                ops = [(l, 0, 1 + i) if l in ('Da', 'Ca') else (l, 0, 0) for i, l in enumerate(seq)]
                desc = {'wl': 'history-enum', 'ops': list(seq), 'args': 0, 'class': f'history:enum:len{L}'}
                ctx.case(desc, nontrivial=any(l not in ('mclr', 'cclr', 'p32', 'p64') for l in seq))
                run_history(ctx, ops, ARGSET_POOL, 7, desc)
        ctx.note('histories', 'all 1884 sequences of length <= 3 over the 12-letter op alphabet (one argument set) + random histories')
    maxlen = ctx.pick(8, 14)
    for _ in range(ctx.share(ctx.pick(200, 6000))):
        L = int(rng.integers(2, maxlen + 1))
        pool = [int(v) for v in rng.choice(len(ARGSET_POOL), size=2, replace=False)]
        ops = []
        for _i in range(L):
            r = rng.random()
            if r < 0.3:
                l = ('p32', 'p64', 'mclr', 'cclr')[int(rng.integers(4))]
            else:
                l = ('D', 'I', 'Db', 'Ib', 'C', 'Ic', 'Da', 'Ca')[int(rng.integers(8))]
            ops.append((l, pool[int(rng.integers(2))], int(rng.integers(0, 6)) if rng.random() < 0.5 else 0))
        seed = ctx.subseed(rng)
        sw = sum(1 for o in ops if o[0] in ('p32', 'p64'))
        desc = {'wl': 'history', 'ops': [list(o) for o in ops], 'seed': seed, 'class': f'history:random:len{L}:switches{min(sw, 3)}'}
        ctx.case(desc, nontrivial=any(o[0] not in ('mclr', 'cclr', 'p32', 'p64') for o in ops))
        run_history(ctx, ops, ARGSET_POOL, seed, desc)
    # the two minimal precision-switch histories, always (near-minimal witnesses first in the report)
    if ctx.mine(0):
        for seq in (['p32', 'D', 'p64', 'D'], ['D', 'p32', 'D'], ['p32', 'I', 'p64', 'mclr', 'I'], ['D', 'p32', 'p64', 'D']):
            desc = {'wl': 'history-min', 'ops': seq, 'args': 1, 'class': 'history:minimal-precision-switch'}
            ctx.case(desc)
            run_history(ctx, [(l, 1, 0) for l in seq], ARGSET_POOL, 11, desc)
        # minimal Q-spelling histories in the float32 configuration: variant 1 spells Q as numpy.float64, 0 as python int
        for ops in ([('p32', 1, 0), ('C', 1, 0), ('Ca', 1, 1)], [('p32', 1, 0), ('Da', 1, 1), ('D', 1, 0)],
                    [('p32', 1, 0), ('Ca', 1, 1), ('cclr', 1, 0), ('C', 1, 0)]):
            desc = {'wl': 'history-min', 'ops': [list(o) for o in ops], 'args': 1, 'class': 'history:minimal-Q-spelling'}
            ctx.case(desc)
            run_history(ctx, list(ops), ARGSET_POOL, 11, desc)


# ------------------------------------------------------------------------------------------ entry points
def run(ctx):
    global CTX
    CTX = ctx
    from prysm import fttools
    from prysm.conf import config
    old = conf_bits()
    install()
    try:
        rng = ctx.rng('c01')
        wl_histories(ctx, ctx.rng('c01-hist'))
        fttools.mdft.clear()
        fttools.czt.clear()
        wl_grid(ctx, rng)
        wl_czt_fractional_shift(ctx, ctx.rng('c01-sweep'))
        wl_fft_route(ctx, ctx.rng('c01-fft'))
        wl_fixed_sampling(ctx, ctx.rng('c01-fixed'))
        wl_random(ctx, ctx.rng('c01-random'))
        wl_float32(ctx, ctx.rng('c01-f32'))
        ctx.note('largest_error_over_tolerance_among_held_comparisons(first shard)', {k: float(f'{v:.2e}') for k, v in sorted(STATS.items())})
    finally:
        detach_all()
        config.precision = old
        fttools.mdft.clear()
        fttools.czt.clear()


def replay(ctx, rec):
    run(ctx)
