"""C01 -- FFT, matrix-DFT and chirp-Z propagation compute the same transform, independent of call history.

Monitors (contracts attached in place to the real callables, so nested calls made by prysm are seen too):

  M1  engine.textbook-dft     MatrixDFTExecutor.dft2/idft2, ChirpZTransformExecutor.czt2/iczt2: result equals the
                              textbook DFT sum (vp/refmodels/dft.py) -- complex when shift == 0, in modulus otherwise
      fft-route.textbook-dft  propagation.focus / unfocus: equals the same model with Q_eff = out_len / in_len per axis
      fixed-sampling.physical-Q  focus_fixed_sampling / unfocus_fixed_sampling on square pupil and square output:
                              equals the model with Q = lambda z / (N dx_in dx_out), shift / dx_out
  M2  engine.history-independence  every call on an executor (incl. the *_backprop methods) is repeated on a brand-new
                              executor instance in the current precision: equal dtype, |shared - fresh| <= 10 eps scale

      repeat.same-objects / alias.container-independence (workload laws): a routine called again with the same
                              argument objects returns what it returned first; the same numbers in another container /
                              the same array in another memory layout give the same result

Workloads: shape-class grid (all parity combinations, square / non-square / 1xN), Q kinds, shift kinds, real /
complex input, both directions, both engines, both precisions and mixed dtypes; FFT route for every shape <= 9x9 and
integer and non-integer Q; fixed-sampling wrappers and Wavefront methods (both precisions); generated histories over the
shared executors (transforms, backprops, clear(), precision switches, argument-spelling aliases, same-size argument
families) and through the fixed-sampling wrappers / to_fpm_and_back at fixed array sizes; repeat / aliasing cases;
integer and boolean images; extreme aspect ratios; argument-form equivalence (class E) and foreign-traffic histories
(class F) through vp/propforms.py; arrays of >= 65536 elements with output sample counts ceil / floor / round(s Q), s Q not an
integer (class L, wl_thresholds) and every route under the numpy.fft backend (class N, wl_backend) -- hardening pass 4; the contracts
append the class label of the driving workload (size:>=65536, backend:numpy.fft) to their mismatch keys.
"""
import itertools
import math

import numpy as np

from ..contracts import attach, detach_all
from ..core import parity
from ..refmodels.dft import ref_dft, pair

RULE = ('cases are (input shape, output shape, Q kind, shift kind, dtype, direction, engine, precision) drawn by class: '
        'every parity combination in->out per axis, square / non-square / 1xN input, Q in {1, real scalar, per-axis pair}, '
        'shift in {none, integer, fractional}; arrays are seeded gaussian (real or complex), plus integer / boolean images and '
        'arrays of extreme aspect ratio.  Histories are sequences over '
        '{dft2, idft2, dft2_backprop, idft2_backprop, czt2, iczt2, clear(), precision=32|64, alias spellings of Q/shift/'
        'samples} on the shared executors, including families of argument sets that share the array sizes and differ in Q / shift, '
        'and sequences of focus_/unfocus_fixed_sampling / to_fpm_and_back calls (function and Wavefront form, both methods, '
        'shifted and unshifted, changing wavelength / focal length / spacings, precision switches) at fixed array sizes.  '
        'Repeat cases call one routine several times with the *same argument objects* (data in six memory layouts; Q / samples '
        '/ shift as tuple, list, float64 / float32 / int ndarray, numpy scalars where the API accepts them), through its function '
        'and method form and with the other engine in between, and once more with plain python arguments.  Form cases (class E, '
        'vp/propforms.py) call each of the eight routines once in a canonical form (complex128 C-ordered data, python floats and '
        'tuples, keywords, explicit defaults) and then in every other form the reference tree accepts for the same numbers: the '
        'field as real-dtype float / integer / boolean / complex64 array (both directions, both engines), Q / shift / sample counts as '
        'list, float64 / float32 / integer ndarray, numpy scalars, a scalar for an equal pair, physical scalars as numpy float64 / '
        'float32 / int64 scalars, python ints and 0-d arrays, all-positional and required-positional calls, omitted defaults after a '
        'call with other explicit values, the Wavefront method form (keyword, positional, omitted defaults).  Foreign-history cases '
        '(class F) first run the other public consumers of fftrange / forward_ft_unit / fftfreq / make_xy_grid / pad2d / crop_center '
        'and of the shared executors (backprops, fourier_resample, PSD, convolution, free space) at the case\'s axis lengths with '
        'non-zero shifts, ndarray containers, precision 32 and every returned array edited in place, then drive every route at '
        'those lengths without clearing anything.  A case is '
        'non-trivial when the input has >= 2 non-zero samples (histories: >= 1 transform op); distinct = distinct descriptor')
ASSUMPTIONS = [
    'reference = textbook DFT sum with origin at index n//2 on every axis, Q[0]->axis 0, shift[0]->axis 1, coordinate - shift, '
    'normalisation 1/sqrt(Na Q0 Ma Q1) (vp/refmodels/dft.py, long-double phases, no prysm code)',
    'the reference is evaluated on the argument values *before* the call (snapshots taken by the pre-hook), so a routine that '
    'rewrites a caller-owned array cannot drag the reference along',
    'with a shift only the modulus is compared (the statement allows a pure phase)',
    'error scale is ||a||_1 / sqrt(Na Q0 Ma Q1), the bound on every output sample; rtol = max(1e-9 (float64) / 1e-3 (float32), 1000 eps phi) with phi '
    'the largest kernel / chirp phase of the call (observed round-off <= 0.5 eps phi); calls whose tolerance would exceed 3e-2 are excluded and counted',
    'a shift handed over in a float32 container is float32 arithmetic by numpy\'s promotion rules: such calls are judged at the float32 tolerance',
    'the set of accepted argument forms is fixed from the reference tree (/repo @ faa8443, probe `python -m vp.propforms`): both '
    'executors accept Q / shift / sample counts as tuple, list, ndarray, numpy scalars or a scalar for an equal pair; the '
    'fixed-sampling wrappers index the shift, so a bare scalar shift is out of domain (vp/propforms.py::REJECTED, skipped and counted)',
    'form equivalence: a form must reproduce the canonical result to 1e-12 of max(max|canonical|, bound on the output magnitude) -- '
    'to 1e-3 when the form carries float32 numbers (numpy then computes Q / shift in float32), for complex64 / float32 data and in the '
    'float32 configuration; an integer / boolean array through czt in the float32 configuration is single precision too (the chirps are '
    'built in the configured precision)',
    'foreign traffic is not judged (exceptions of foreign routines are counted); arrays a public routine returned belong to the caller '
    'and may be edited; a foreign routine that leaves prysm.conf.config.precision changed is reported under its own key and the '
    'configuration is repaired before the routes are judged',
    'integer and boolean arrays are real input (the model converts them to float64)',
    'repeat law: the routines are deterministic, so a later call with the same argument objects must reproduce the first to 10 eps; '
    'container / layout independence is required to 1e-12 (float32 containers: 1e-4, float32 data or configuration: 1e-3)',
    'which Q a non-square pupil should get in *_fixed_sampling is C03/C05 business: the physical-Q monitor is applied to '
    'square pupil + square output only; for the rest the nested engine call is checked against the Q prysm passed',
    'single-threaded BLAS/FFT (the orchestrator pins thread counts) so a fresh executor reproduces a call bit-for-bit',
]
REQUIRED = ['engine.textbook-dft/mdft', 'engine.textbook-dft/czt', 'fft-route.textbook-dft', 'fixed-sampling.physical-Q',
            'engine.history-independence/mdft', 'engine.history-independence/czt', 'history.ops', 'history.wrapper-ops',
            'repeat.same-objects', 'alias.container-independence', 'form.equivalence', 'foreign.traffic']

CTX = None
CUR = {'desc': None}           # descriptor of the case being driven (set by the workloads)

KEY_SWAP = 'C01/czt/row-col-chirp-constants-swapped'
KEY_START = 'C01/czt/even-in->odd-out/start-offset'
KEY_AMBIG = 'C01/czt/chirp-swap-or-start-offset/indistinguishable-in-modulus'
KEY_STALE = 'C01/mdft/history/basis-of-other-precision-reused'
KEY_QSPELL = 'C01/history/float32/cache-entry-shared-between-python-and-numpy-scalar-Q'
KEY_SHIFTSPELL = 'C01/history/cache-entry-shared-between-numpy-scalar-and-python-number-shift-or-samples'
WHAT_SHIFTSPELL = ('the executors take a shift / output sample count given as numpy scalars (numpy.float32 / float64 / int64 scalars, elements of '
                   'an array) into the coordinate / chirp arithmetic as they are -- which changes the precision that arithmetic is done in (NumPy 2 '
                   'promotion: python numbers are weak, numpy scalars are not) -- and key their caches on them; the equal python numbers hash to the '
                   'same entry, so the same call returns one array or another depending on which spelling ran first: '
                   'czt2(a, Q, n, (0.0, 0.30000001192092896)) is exact on a fresh executor and 4e-7 off after czt2(a, Q, n, (np.float32(0), '
                   'np.float32(0.3))); for complex64 data / the float32 configuration numpy.float64 shifts or numpy.int64 sample counts vs python '
                   'numbers differ at the 1e-6 level the same way (czt2, iczt2, mdft.dft2)')
KEY_INTDTYPE = 'C01/czt/integer-or-bool-input/chirps-built-in-the-input-dtype'
WHAT_INTDTYPE = ('czt2/iczt2 build their chirp vectors in the dtype of the *input array*: for an integer or boolean pupil / focal array '
                 '(a 0/1 aperture mask) the Bluestein kernel pi*j^2 is truncated to integers -- wrong modulus (3e-2 of the peak) with no '
                 'warning -- or the call raises (bool: arange; unsigned: negative index; fractional shift: cannot cast); mdft is exact on the same input')


class HarnessError(BaseException):
    """A bug in a monitor: must never be mistaken for an exception escaping prysm."""


def _safe(fn):
    def wrapped(*a, **k):
        try:
            return fn(*a, **k)
        except HarnessError:
            raise
        except Exception as e:  # noqa
            import traceback
            raise HarnessError('monitor failed: ' + ''.join(traceback.format_exception(type(e), e, e.__traceback__))[-1500:])
    return wrapped


# ------------------------------------------------------------------------------------------ helpers
def shape_kind(shape):
    shape = tuple(int(s) for s in shape)
    if shape == (1, 1):
        return 'one'
    if 1 in shape:
        return 'line'
    return 'sq' if shape[0] == shape[1] else 'nonsq'


def axes_class(ishape, oshape):
    return ','.join(f'{parity(i)}->{parity(o)}' for i, o in zip(ishape, oshape))


def shift_class(shift):
    sx, sy = shift
    if sx == 0 and sy == 0:
        return 'none'
    if float(sx).is_integer() and float(sy).is_integer():
        return 'int'
    return 'frac'


def is_single(dt):
    return np.dtype(dt) in (np.dtype(np.float32), np.dtype(np.complex64))


def conf_bits():
    from prysm.conf import config
    return 32 if config.precision is np.float32 else 64


def norm_args(Q, samples_out, shift):
    """(Q0,Q1), (Nb,Mb), (sx,sy) as plain numbers, or None when outside the model's domain."""
    try:
        Qp = tuple(float(q) for q in pair(Q))
        out = tuple(int(s) for s in pair(samples_out))
        sh = tuple(float(s) for s in pair(shift))
    except Exception:
        return None
    if not all(q > 0 and math.isfinite(q) for q in Qp) or not all(o >= 1 for o in out) or not all(math.isfinite(s) for s in sh):
        return None
    return Qp, out, sh


def kernel_phase(engine, ishape, Qp, out, sh):
    """Largest phase (rad) the engine has to represent: the DFT kernel 2 pi x u / (n Q) for mdft, the Bluestein chirps
    pi j^2 / (n Q) with j up to in + out + |shift| for czt.  Round-off of a transform is ~ eps * this (measured: <= 0.5 eps phi
    for mdft, <= 0.15 eps phi for czt in float32 over 30 000 random cases)."""
    phi = 0.0
    for n, q, o, s in zip(ishape, Qp, out, (sh[1], sh[0])):
        if engine == 'czt':
            phi += math.pi * (n + o + abs(s)) ** 2 / (n * q)
        else:
            phi += 2 * math.pi * (n / 2 + 1) * (o / 2 + 1 + abs(s)) / (n * q)
    return phi


def rtol_for(engine, single, ishape, Qp, out, sh):
    """Relative tolerance: the global floor (1e-9 / 1e-3), raised to 1000 eps phi where the kernel phase is large (>= 3 decades
    above the round-off that phase implies).  None = ill-conditioned in this precision (tolerance would exceed 3e-2): skip + count."""
    eps = float(np.finfo(np.float32 if single else np.float64).eps)
    r = max(RTOL32 if single else RTOL64, 1000 * eps * kernel_phase(engine, ishape, Qp, out, sh))
    return None if r > 3e-2 else r


def err_scale(ary, Qp):
    Na, Ma = ary.shape
    return float(np.abs(ary).sum()) / math.sqrt(Na * Qp[0] * Ma * Qp[1])


RTOL64, RTOL32 = 1e-9, 1e-3     # observed round-off: <= 1e-14 / 1e-6 of the scale (>= 3 decades of head-room)
STATS = {}      # label -> largest observed error / tolerance among the comparisons that held (round-off head-room)


def mismatch(got, ref, tol, modulus_only, label=None):
    """None when got matches ref; else 'modulus' or 'phase' (modulus right, complex value wrong)."""
    got = np.asarray(got)
    if not np.isfinite(got).all():
        return 'modulus'
    em = float(np.max(np.abs(np.abs(got) - np.abs(ref)))) if got.size else 0.0
    if em > tol:
        return 'modulus'
    e = em
    if not modulus_only:
        ec = float(np.max(np.abs(got - ref))) if got.size else 0.0
        if ec > tol:
            return 'phase'
        e = ec
    if label is not None and tol > 0:
        STATS[label] = max(STATS.get(label, 0.0), e / tol)
    return None


def diagnose_czt(ary, Qp, out, sh, fwd, got, tol):
    """Attribute a chirp-Z mismatch to known single-cause models.  Returns a tuple of cause labels
    ('swap', 'start') or None when none of the models reproduces what prysm returned.

    swap : axis 0 is transformed with alpha of axis 1 (1/(Ma Q1)) and vice versa
    start: on an axis with even input length and odd output length the convolution kernel starts one sample late,
           i.e. the output is the transform at coordinate - (shift + 1), times exp(-+ i pi alpha (1 - 2 k))
    Without a shift the models are compared as complex arrays, with a shift in modulus.
    """
    Na, Ma = ary.shape
    cond = {'swap': abs(Na * Qp[0] - Ma * Qp[1]) > 1e-12 * Na * Qp[0],
            'start': (Na % 2 == 0 and out[0] % 2 == 1) or (Ma % 2 == 0 and out[1] % 2 == 1)}
    got = np.asarray(got)
    if not np.isfinite(got).all():
        return None
    cplx = shift_class(sh) == 'none'
    sgn = -1 if fwd else 1
    def explains(causes):
        Q0, Q1 = Qp
        sx, sy = sh
        ph = np.ones(out, dtype=complex)
        if 'swap' in causes:
            Q0, Q1 = Ma * Qp[1] / Na, Na * Qp[0] / Ma
        if 'start' in causes:
            if Na % 2 == 0 and out[0] % 2 == 1:
                sy += 1
                kc = np.arange(out[0]) - out[0] // 2
                ph = ph * np.exp(-sgn * 1j * np.pi / (Na * Q0) * (1 - 2 * kc))[:, None]
            if Ma % 2 == 0 and out[1] % 2 == 1:
                sx += 1
                kc = np.arange(out[1]) - out[1] // 2
                ph = ph * np.exp(-sgn * 1j * np.pi / (Ma * Q1) * (1 - 2 * kc))[None, :]
        model = ref_dft(ary, (Q0, Q1), out, (sx, sy), fwd)
        if cplx:
            e = float(np.max(np.abs(got - model * ph)))
        else:
            e = float(np.max(np.abs(np.abs(got) - np.abs(model))))
        return e <= tol

    singles = [c for c in ('swap', 'start') if cond[c] and explains((c,))]
    if len(singles) == 1:
        return (singles[0],)
    if len(singles) == 2:
        return ('ambiguous',)       # degenerate (1xN, integer shift ...): either single cause reproduces the output
    if cond['swap'] and cond['start'] and explains(('swap', 'start')):
        return ('swap', 'start')
    return None


CAUSE_KEY = {'swap': KEY_SWAP, 'start': KEY_START, 'ambiguous': KEY_AMBIG}
CAUSE_WHAT = {
    'ambiguous': 'czt2/iczt2 wrong in modulus on a degenerate input (1xN / Nx1 with an integer shift) where both chirp-Z defects '
                 '(swapped per-axis chirp constants, even->odd start offset) are active and either one alone reproduces the output',
    'swap': 'czt2/iczt2 transform axis 0 with the chirp constant of axis 1 and vice versa (alpha = 1/(n Q) per axis swapped): '
            'wrong modulus whenever rows*Q[0] != cols*Q[1] (non-square input or per-axis Q)',
    'start': 'czt2/iczt2 on an axis of even input length and odd output length start the convolution kernel one sample late '
             '(-((N-M)//2) instead of -(N//2 - M//2)): the output is the transform one sample off',
}


def key_tag():
    """'/size:...' / '/backend:...' when the workload that drives the call declares such a class label (hardening pass 4), else ''."""
    t = (CUR['desc'] or {}).get('keytag')
    return f'/{t}' if t else ''


def describe(fn, ary, Qp, out, sh, extra=None):
    d = dict(CUR['desc']) if CUR['desc'] else {}
    d.update({'fn': fn, 'in': list(ary.shape), 'Q': list(Qp), 'out': list(out), 'shift': list(sh), 'dtype': str(ary.dtype),
              'precision': conf_bits()})
    if extra:
        d.update(extra)
    return d


# ------------------------------------------------------------------------------------------ argument containers and memory layouts
# (shared with C02, C03, C05: the same numbers handed over in the container types the API accepts, and the same
#  array values in different memory layouts -- neither is part of the answer)
SHIFT_CONTAINERS = ('tuple', 'list', 'nd-f64', 'nd-f32', 'nd-int', 'np-scalars')
LAYOUTS = ('C', 'F', 'T-view', 'strided', 'neg-stride', 'offset-view')


def make_container(kind, values):
    """`values` (a pair of numbers) in the container `kind`.  The numbers a routine receives are those read back from the
    container (`container_values`): float32 containers round, 'nd-int' needs integer values."""
    v = [float(x) for x in values]
    if kind == 'tuple':
        return (v[0], v[1])
    if kind == 'list':
        return [v[0], v[1]]
    if kind == 'nd-f64':
        return np.array(v, dtype=np.float64)
    if kind == 'nd-f32':
        return np.array(v, dtype=np.float32)
    if kind == 'nd-int':
        return np.array([int(round(x)) for x in v], dtype=np.int64)
    if kind == 'np-scalars':
        return (np.float64(v[0]), np.float64(v[1]))
    raise ValueError(kind)


def container_values(c):
    return tuple(float(x) for x in c)


def low_precision(c):
    """True when the container holds floats narrower than float64 (numpy then computes with them in that precision)."""
    if isinstance(c, np.ndarray):
        return c.dtype.kind == 'f' and c.dtype.itemsize < 8
    try:
        return any(isinstance(x, np.floating) and x.dtype.itemsize < 8 for x in c)
    except TypeError:
        return isinstance(c, np.floating) and c.dtype.itemsize < 8


def relayout(a, kind):
    """An array equal to `a` element for element, in another memory layout (a fresh buffer every time)."""
    a = np.asarray(a)
    if kind == 'C':
        return np.array(a, order='C', copy=True)
    if kind == 'F':
        return np.asfortranarray(a.copy())
    if kind == 'T-view':                       # transposed view of a C-ordered buffer that holds a^T
        return np.ascontiguousarray(a.T).T
    if kind == 'strided':                      # every second sample of a larger buffer, along both axes
        big = np.full((2 * a.shape[0], 2 * a.shape[1]), 7, dtype=a.dtype)
        big[::2, ::2] = a
        return big[::2, ::2]
    if kind == 'neg-stride':                   # reversed view of a reversed copy
        return np.ascontiguousarray(a[::-1, ::-1])[::-1, ::-1]
    if kind == 'offset-view':                  # interior window of a larger buffer (non-contiguous rows, non-zero offset)
        big = np.full((a.shape[0] + 3, a.shape[1] + 2), 7, dtype=a.dtype)
        big[1:1 + a.shape[0], 2:2 + a.shape[1]] = a
        return big[1:1 + a.shape[0], 2:2 + a.shape[1]]
    raise ValueError(kind)


# ------------------------------------------------------------------------------------------ M1 + M2 on the engines
def _parse(args, kwargs, names):
    a = dict(zip(names, args))
    a.update(kwargs)
    return a


def clone_layout(x):
    """Private copy of an array with the SAME memory layout (strides, negative strides, gaps, offset into its buffer): BLAS and
    the FFT pick their kernels by layout, so only a layout-preserving copy reproduces a call bit for bit."""
    root = x
    while isinstance(root.base, np.ndarray):
        root = root.base
    try:
        if root is x or x.size == 0:
            return x.copy(order='K')
        if not (root.flags.c_contiguous or root.flags.f_contiguous):
            return np.array(x, copy=True)
        nb = root.copy(order='K')
        offset = x.__array_interface__['data'][0] - root.__array_interface__['data'][0]
        if offset < 0 or offset >= max(nb.nbytes, 1):
            return np.array(x, copy=True)
        return np.ndarray(x.shape, x.dtype, buffer=nb, offset=offset, strides=x.strides)
    except Exception:
        return np.array(x, copy=True)


def _copyarg(x):
    """Private copy of a caller-owned mutable argument (ndarray / list); immutables are returned as they are."""
    if isinstance(x, np.ndarray):
        return clone_layout(x)
    if isinstance(x, list):
        return [_copyarg(v) for v in x]
    return x


def _same_value(x, snap):
    try:
        if isinstance(snap, np.ndarray):
            return isinstance(x, np.ndarray) and x.shape == snap.shape and bool(np.array_equal(x, snap, equal_nan=True))
        if isinstance(snap, list):
            return isinstance(x, list) and len(x) == len(snap) and all(_same_value(a, b) for a, b in zip(x, snap))
    except Exception:
        return False
    return True


def _note_mutation(fn, now, snap):
    """Evidence only (an event counter): an argument object whose value after the call differs from its value before.
    Whether that breaks the property is decided by the repeat laws of the workloads, which judge the *later* call."""
    for k, v in snap.items():
        if isinstance(v, (np.ndarray, list)) and k in now and not _same_value(now[k], v):
            CTX.event(f'argument-mutated-in-place:{fn}:{k}')


def _snap(names, skip_self=True):
    """pre-hook: the values of all arguments *before* the call (the model is evaluated on these, so a routine that
    rewrites a caller's array cannot drag the reference along)."""
    def pre(args, kwargs):
        a = _parse(args[1:] if skip_self else args, kwargs, names)
        return {k: _copyarg(v) for k, v in a.items()}
    return pre


def _respell_Q(args, kwargs, how):
    """The same call with Q spelled as python floats ('py') or numpy float64 scalars ('np')."""
    conv = (lambda q: float(q)) if how == 'py' else (lambda q: np.float64(q))

    def one(Q):
        if hasattr(Q, '__len__'):
            return tuple(conv(q) for q in Q)
        return conv(Q)
    args = list(args)
    kwargs = dict(kwargs)
    if 'Q' in kwargs:
        kwargs['Q'] = one(kwargs['Q'])
    elif len(args) > 2:
        args[2] = one(args[2])
    return tuple(args), kwargs


def _fresh_call(cls, fn, args, kwargs, bits=None):
    """Same call on a brand-new executor (monitors are bypassed: we are inside a monitor).  The arguments are private
    copies, so a routine that writes into them cannot disturb the snapshot."""
    from ..util import precision
    inst = cls()
    args = tuple(_copyarg(v) for v in args)
    kwargs = {k: _copyarg(v) for k, v in kwargs.items()}
    if bits is None:
        return getattr(inst, fn)(*args[1:], **kwargs)
    with precision(bits):
        return getattr(inst, fn)(*args[1:], **kwargs)


def _same(a, b, eps_mult=10):
    a = np.asarray(a)
    b = np.asarray(b)
    if a.shape != b.shape or a.dtype != b.dtype:
        return False
    if a.size == 0:
        return True
    if not (np.isfinite(a).all() and np.isfinite(b).all()):
        return np.array_equal(a, b, equal_nan=True)
    scale = float(np.max(np.abs(b)))
    eps = float(np.finfo(b.real.dtype).eps)
    return float(np.max(np.abs(a - b))) <= eps_mult * eps * scale


def history_monitor(engine, cls, fn, args, kwargs, result, ary):
    """M2: the same call on a brand-new executor must give the same array.  When it does not, the difference is
    attributed (for the ledger key only) by asking which *other* fresh call reproduces the shared result bit for bit:
    the other config.precision (stale basis), the other spelling of Q (python float vs numpy scalar), or both.
    Returns True when the shared result came from state built under another precision / Q spelling."""
    CTX.observe(f'engine.history-independence/{engine}')
    try:
        fresh = _fresh_call(cls, fn, args, kwargs)
    except Exception as e:  # the shared executor returned, a fresh one refuses the same call: history dependence
        d = dict(CUR['desc']) if CUR['desc'] else {}
        d.update({'fn': fn, 'in': list(np.shape(ary)), 'precision': conf_bits(),
                  'args': repr({k: v for k, v in kwargs.items() if not (isinstance(v, np.ndarray) and v.ndim > 1)})[:200]})
        CTX.violation(f'C01/history/{engine}.{fn}/fresh-executor-raises:{type(e).__name__}',
                      f'{engine}.{fn} returns on the shared executor but raises {type(e).__name__} on a fresh executor', d, exception=repr(e)[:200])
        return False
    if _same(result, fresh):
        return False
    bits = conf_bits()
    other_bits = 32 if bits == 64 else 64
    desc = dict(CUR['desc']) if CUR['desc'] else {}
    desc.update({'fn': fn, 'in': list(np.shape(ary)), 'dtype': str(getattr(ary, 'dtype', None)), 'precision': bits,
                 'args': repr({k: v for k, v in kwargs.items() if not (isinstance(v, np.ndarray) and v.ndim > 1)})[:200]})
    r, f = np.asarray(result), np.asarray(fresh)
    detail = {'shared_dtype': str(r.dtype), 'fresh_dtype': str(f.dtype)}
    if r.shape == f.shape and f.size:
        detail['max_abs_diff'] = float(np.max(np.abs(r - f)))
        detail['fresh_max'] = float(np.max(np.abs(f)))
    causes = None
    variants = []
    for how in ('py', 'np'):
        try:
            a2, k2 = _respell_Q(args, kwargs, how)
        except Exception:
            continue
        variants.append((how, a2, k2))
    # other spellings of the same shift / sample counts: numpy.float64 scalars, numpy.float32 scalars (when the numbers are
    # float32-representable), python floats; numpy.int64 / python ints
    shift_variants = []
    try:
        shv = tuple(pair(kwargs.get('shift', (0, 0))))
        sh_sp = [kwargs.get('shift', (0, 0)), tuple(np.float64(float(x)) for x in shv), tuple(float(x) for x in shv)]
        if all(float(np.float32(float(x))) == float(x) for x in shv):
            sh_sp.append(tuple(np.float32(float(x)) for x in shv))
        sname = 'samples_in' if 'samples_in' in kwargs else 'samples_out'
        smv = tuple(int(x) for x in pair(kwargs[sname]))
        sm_sp = [kwargs[sname], tuple(np.int64(x) for x in smv), smv]
        for i, a_ in enumerate(sh_sp):
            for j, b_ in enumerate(sm_sp):
                if i or j:
                    k2 = dict(kwargs, shift=a_)
                    k2[sname] = b_
                    shift_variants.append(k2)
    except Exception:
        shift_variants = []
    for k2 in shift_variants:
        try:
            if _same(result, _fresh_call(cls, fn, args, k2), eps_mult=0):
                CTX.violation(KEY_SHIFTSPELL, WHAT_SHIFTSPELL, desc, explained_by=['shift-or-samples-spelling'], **detail)
                return True
        except Exception:
            continue
    for want in (('precision',), ('Q-spelling',), ('precision', 'Q-spelling')):
        hit = False
        if want == ('precision',):
            try:
                hit = _same(result, _fresh_call(cls, fn, args, kwargs, bits=other_bits), eps_mult=0)
            except Exception:
                hit = False
        else:
            for how, a2, k2 in variants:
                try:
                    o = _fresh_call(cls, fn, a2, k2, bits=other_bits if 'precision' in want else None)
                except Exception:
                    continue
                if _same(result, o, eps_mult=0):
                    hit = True
                    break
        if hit:
            causes = want
            break
    if causes is None:
        CTX.violation(f'C01/history/{engine}.{fn}/differs-from-fresh-executor',
                      f'{engine}.{fn} on the shared executor returns something else than the same call on a fresh executor', desc, **detail)
        return False
    for c in causes:
        if c == 'precision':
            CTX.violation(KEY_STALE,
                          'MatrixDFTExecutor reuses basis matrices built under the other config.precision (cache key omits precision): '
                          'the same call returns a different dtype / a 1e-7-level different array than on a fresh executor',
                          desc, explained_by=list(causes), **detail)
        else:
            CTX.violation(KEY_QSPELL,
                          'in the float32 configuration a numpy-scalar Q promotes the cached basis/chirps to complex128 while a python-float Q '
                          'keeps complex64, and both spellings share one cache entry: the same call returns complex64 or complex128 '
                          'depending on which spelling was used first', desc, explained_by=list(causes), **detail)
    return True


def engine_post(engine, fn, fwd):
    names = ['ary', 'Q', 'samples_out', 'shift']

    @_safe
    def post(token, args, kwargs, result):
        cls = type(args[0])
        snap = token                                  # values of all arguments before the call
        _note_mutation(fn, _parse(args[1:], kwargs, names), snap)
        ary = snap['ary'] if isinstance(snap.get('ary'), np.ndarray) else np.asarray(snap.get('ary'))
        stale = history_monitor(engine, cls, fn, (args[0],), snap, result, ary)
        if ary.ndim != 2 or ary.dtype.kind not in 'fciub':
            return
        na = norm_args(snap['Q'], snap['samples_out'], snap.get('shift', (0, 0)))
        if na is None:
            return
        Qp, out, sh = na
        intlike = ary.dtype.kind in 'iub'
        model_in = ary.astype(np.float64) if intlike else ary
        scale = err_scale(model_in, Qp)
        if scale == 0 or not np.isfinite(model_in).all():
            CTX.skip('engine: all-zero or non-finite input (trivial)')
            return
        CTX.observe(f'engine.textbook-dft/{engine}')
        single = (is_single(ary.dtype) or (engine == 'mdft' and conf_bits() == 32) or low_precision(snap.get('shift', (0, 0)))
                  or (engine == 'czt' and intlike and conf_bits() == 32))      # integer / boolean input: chirps in the configured precision
        rtol = rtol_for(engine, single, ary.shape, Qp, out, sh)
        if rtol is None:
            CTX.observe(f'engine.textbook-dft/{engine}', -1)
            CTX.skip('engine: kernel phase beyond the resolution of the working precision (ill-conditioned, tolerance would exceed 3e-2)')
            return
        tol = rtol * scale
        desc = describe(fn, ary, Qp, out, sh)
        result = np.asarray(result)
        if result.shape != tuple(out):
            CTX.violation(f'C01/{fn}/shape', f'{fn} returned shape {result.shape}, expected {tuple(out)}', desc)
            return
        ref = ref_dft(model_in, Qp, out, sh, fwd)
        modonly = shift_class(sh) != 'none'
        kind = mismatch(result, ref, tol, modonly, label=f'{engine}/{"f32" if single else "f64"}')
        if kind is None:
            return
        err = float(np.max(np.abs(np.abs(result) - np.abs(ref)))) if kind == 'modulus' else float(np.max(np.abs(result - ref)))
        detail = {'err': err, 'tol': tol, 'scale': scale, 'compared': kind}
        if stale and mismatch(result, ref, (rtol_for(engine, True, ary.shape, Qp, out, sh) or 3e-2) * scale, modonly) is None:
            return      # already reported by M2 under KEY_STALE: float32-accurate result in a float64 configuration
        if engine == 'czt' and intlike:
            # single-cause attribution (for the key only): the integer / boolean dtype is the cause when the float64 copy of the
            # same array gives the textbook sum on a fresh executor; otherwise the generic key below is used
            try:
                alt = _fresh_call(cls, fn, (args[0],), dict(snap, ary=ary.astype(np.float64)))
                dtype_is_cause = mismatch(alt, ref, tol, modonly) is None
            except Exception:
                dtype_is_cause = False
            if dtype_is_cause:
                CTX.violation(KEY_INTDTYPE, WHAT_INTDTYPE, desc, **detail)
                return
        if engine == 'czt':
            causes = diagnose_czt(ary, Qp, out, sh, fwd, result, tol)
            if causes:
                for c in causes:
                    CTX.violation(CAUSE_KEY[c], CAUSE_WHAT[c], desc, explained_by=list(causes), **detail)
                return
        qk = 'scalar' if Qp[0] == Qp[1] else 'per-axis'
        CTX.violation(f'C01/{fn}/{kind}-mismatch/in:{shape_kind(ary.shape)}/Q:{qk}/shift:{shift_class(sh)}{key_tag()}',
                      f'{engine}.{fn} differs from the textbook DFT sum ({kind}; axes {axes_class(ary.shape, out)})', desc, **detail)
    return post


def backprop_post(fn):
    names = ['fbar', 'Q', 'samples_in' if fn == 'dft2_backprop' else 'samples_out', 'shift']

    @_safe
    def post(token, args, kwargs, result):
        snap = token
        _note_mutation(fn, _parse(args[1:], kwargs, names), snap)
        fbar = snap['fbar'] if isinstance(snap.get('fbar'), np.ndarray) else np.asarray(snap.get('fbar'))
        history_monitor('mdft', type(args[0]), fn, (args[0],), snap, result, fbar)
    return post


# ------------------------------------------------------------------------------------------ M1 on the FFT route
def fft_post(fn, fwd):
    @_safe
    def post(token, args, kwargs, result):
        a = dict(token)
        _note_mutation(fn, _parse(args, kwargs, ['wavefunction', 'Q']), token)
        ary = a.get('wavefunction')
        Q = a['Q']
        if not isinstance(ary, np.ndarray) or ary.ndim != 2 or ary.dtype.kind not in 'fciub':
            return
        if ary.dtype.kind in 'iub':
            ary = ary.astype(np.float64)      # an integer / boolean image is a real field
        try:
            Qf = float(Q)
        except Exception:
            return
        if not (Qf >= 1 and math.isfinite(Qf)):
            return
        m, n = ary.shape
        out = (m, n) if Q == 1 else (math.ceil(m * Q), math.ceil(n * Q))
        Qe = (out[0] / m, out[1] / n)
        scale = err_scale(ary, Qe)
        if scale == 0 or not np.isfinite(ary).all():
            CTX.skip('fft-route: all-zero or non-finite input (trivial)')
            return
        CTX.observe('fft-route.textbook-dft')
        desc = describe(fn, ary, Qe, out, (0, 0), {'Q_arg': Qf})
        result = np.asarray(result)
        if result.shape != out:
            CTX.violation(f'C01/{fn}/shape', f'{fn} returned shape {result.shape}, expected ceil(shape*Q) = {out}', desc)
            return
        ref = ref_dft(ary, Qe, out, (0, 0), fwd)
        tol = (RTOL32 if is_single(ary.dtype) else RTOL64) * scale
        kind = mismatch(result, ref, tol, False, label=f'fft-route/{"f32" if is_single(ary.dtype) else "f64"}')
        if kind is not None:
            qk = 'Q=1' if Q == 1 else ('integer-Q' if Qf.is_integer() else 'non-integer-Q')
            CTX.violation(f'C01/{fn}/{kind}-mismatch/{qk}/pad:{axes_class((m, n), out)}{key_tag()}',
                          f'propagation.{fn} (padded FFT) differs from the textbook DFT sum on the padded grid ({kind})', desc,
                          err=float(np.max(np.abs(result - ref))), tol=tol)
    return post


def fixed_post(fn, fwd):
    names = ['wavefunction', 'input_dx', 'prop_dist', 'wavelength', 'output_dx', 'output_samples', 'shift', 'method']

    @_safe
    def post(token, args, kwargs, result):
        a = _parse(args, kwargs, names)
        _note_mutation(fn, a, token)
        a.update(token)                                 # every argument as it was before the call
        ary = a.get('wavefunction')
        if not isinstance(ary, np.ndarray) or ary.ndim != 2 or ary.dtype.kind not in 'fciub':
            return
        if ary.dtype.kind in 'iub':
            if a.get('method', 'mdft') == 'czt':
                return                                  # judged (and keyed) by the contract on the nested czt2 / iczt2 call
            ary = ary.astype(np.float64)
        try:
            out = tuple(int(s) for s in pair(a['output_samples']))
        except Exception:
            return
        method = a.get('method', 'mdft')
        if ary.shape[0] != ary.shape[1] or out[0] != out[1] or method not in ('mdft', 'czt'):
            CTX.skip('fixed-sampling: non-square pupil or output -- physical Q is C03/C05 business (engine call still checked)')
            return
        N = ary.shape[0]
        dxi, z, wvl, dxo = (float(a[k]) for k in ('input_dx', 'prop_dist', 'wavelength', 'output_dx'))
        Q = wvl * z / (N * dxi * dxo)
        sh = tuple(float(s) for s in pair(a.get('shift', (0, 0))))
        sh = (sh[0] / dxo, sh[1] / dxo)
        if not (Q > 0 and math.isfinite(Q)):
            return
        scale = err_scale(ary, (Q, Q))
        if scale == 0:
            return
        CTX.observe('fixed-sampling.physical-Q')
        # a shift handed over in a float32 container is converted to samples in float32 by numpy's promotion rules
        single = (is_single(ary.dtype) or (method == 'mdft' and conf_bits() == 32) or low_precision(a.get('shift', (0, 0)))
                  or any(low_precision(a[k]) for k in ('input_dx', 'prop_dist', 'wavelength', 'output_dx')))      # numpy.float32 scalars: Q is float32 arithmetic
        rtol = rtol_for(method, single, ary.shape, (Q, Q), out, sh)
        if rtol is None:
            CTX.observe('fixed-sampling.physical-Q', -1)
            CTX.skip('engine: kernel phase beyond the resolution of the working precision (ill-conditioned, tolerance would exceed 3e-2)')
            return
        tol = rtol * scale
        ref = ref_dft(ary, (Q, Q), out, sh, fwd)
        desc = describe(fn, ary, (Q, Q), out, sh, {'method': method, 'input_dx': dxi, 'prop_dist': z, 'wavelength': wvl, 'output_dx': dxo})
        result = np.asarray(result)
        if result.shape != out:
            CTX.violation(f'C01/{fn}/shape', f'{fn} returned shape {result.shape}, expected {out}', desc)
            return
        modonly = shift_class(sh) != 'none'
        kind = mismatch(result, ref, tol, modonly)
        if kind is None:
            return
        if method == 'czt':
            causes = diagnose_czt(ary, (Q, Q), out, sh, fwd, result, tol)
            if causes:
                return      # the nested czt2/iczt2 call already reported it under the engine key
        CTX.violation(f'C01/{fn}/{method}/{kind}-mismatch/shift:{shift_class(sh)}{key_tag()}',
                      f'{fn}(method={method}) on a square pupil differs from the DFT with Q = lambda z/(N dx_in dx_out), shift/dx_out ({kind})',
                      desc, tol=tol)
    return post


FIXED_NAMES = ['wavefunction', 'input_dx', 'prop_dist', 'wavelength', 'output_dx', 'output_samples', 'shift', 'method']


def install():
    from prysm import fttools, propagation
    M, C = fttools.MatrixDFTExecutor, fttools.ChirpZTransformExecutor
    E = ['ary', 'Q', 'samples_out', 'shift']
    attach(M, 'dft2', pre=_snap(E), post=engine_post('mdft', 'dft2', True))
    attach(M, 'idft2', pre=_snap(E), post=engine_post('mdft', 'idft2', False))
    attach(M, 'dft2_backprop', pre=_snap(['fbar', 'Q', 'samples_in', 'shift']), post=backprop_post('dft2_backprop'))
    attach(M, 'idft2_backprop', pre=_snap(['fbar', 'Q', 'samples_out', 'shift']), post=backprop_post('idft2_backprop'))
    attach(C, 'czt2', pre=_snap(E), post=engine_post('czt', 'czt2', True))
    attach(C, 'iczt2', pre=_snap(E), post=engine_post('czt', 'iczt2', False))
    attach(propagation, 'focus', pre=_snap(['wavefunction', 'Q'], skip_self=False), post=fft_post('focus', True))
    attach(propagation, 'unfocus', pre=_snap(['wavefunction', 'Q'], skip_self=False), post=fft_post('unfocus', False))
    attach(propagation, 'focus_fixed_sampling', pre=_snap(FIXED_NAMES, skip_self=False), post=fixed_post('focus_fixed_sampling', True))
    attach(propagation, 'unfocus_fixed_sampling', pre=_snap(FIXED_NAMES, skip_self=False), post=fixed_post('unfocus_fixed_sampling', False))


def install_monitors(ctx):
    """Attach the contracts for the repository's own test traffic (vp/pytest_monitors.py)."""
    global CTX
    CTX = ctx
    install()


# ------------------------------------------------------------------------------------------ workloads
def make_input(shape, cplx, seed, bits=64):
    r = np.random.default_rng(seed)
    a = r.standard_normal(shape)
    if cplx:
        a = a + 1j * r.standard_normal(shape)
        return a.astype(np.complex64 if bits == 32 else np.complex128)
    return a.astype(np.float32 if bits == 32 else np.float64)


def nontrivial(a):
    return int(np.count_nonzero(a)) >= 2


def drive_engine(ctx, method, fwd, a, Q, out, shift, desc):
    """One monitored engine call on the shared executor, guarded."""
    from prysm import fttools
    ex = fttools.mdft if method == 'mdft' else fttools.czt
    fn = {('mdft', True): 'dft2', ('mdft', False): 'idft2', ('czt', True): 'czt2', ('czt', False): 'iczt2'}[(method, fwd)]
    CUR['desc'] = desc
    try:
        with ctx.guard(f'C01/{method}/shift:{shift_class(pair(shift))}', desc, what=f'{method} transform of an in-domain input'):
            getattr(ex, fn)(a, Q, out, shift)
    finally:
        CUR['desc'] = None


Q_KINDS = ('one', 'scalar', 'pair')
SHIFT_KINDS = ('none', 'int', 'frac')


def pick_Q(kind, rng):
    if kind == 'one':
        return 1
    if kind == 'scalar':
        return [2, 1.5, 2.5, 3, 0.8, round(float(rng.uniform(0.6, 4)), 3)][int(rng.integers(6))]
    return [(1.3, 2.2), (2, 1), (1, 2.5), (round(float(rng.uniform(0.6, 4)), 3), round(float(rng.uniform(0.6, 4)), 3))][int(rng.integers(4))]


def pick_shift(kind, rng):
    if kind == 'none':
        return (0, 0)
    if kind == 'int':
        return [(1, 0), (0, -2), (3, 1), (-1.0, 2.0)][int(rng.integers(4))]
    return [(0.5, -1.25), (0.0, 0.3), (-2.7, 0.0), (round(float(rng.uniform(-3, 3)), 2), round(float(rng.uniform(-3, 3)), 2))][int(rng.integers(4))]


def grid_class(m, n, M, N):
    return f'{shape_kind((m, n))}:{axes_class((m, n), (M, N))}'


def wl_grid(ctx, rng):
    """Shape grid (m,n) in [1..7]^2 x (M,N) in [1..8]^2 (quick: stratified sample; thorough: all of it)."""
    hi_in, hi_out = ctx.pick((7, 8), (9, 11))
    pairs = [(m, n, M, N) for m in range(1, hi_in + 1) for n in range(1, hi_in + 1) for M in range(1, hi_out + 1) for N in range(1, hi_out + 1)]
    pairs.sort(key=lambda p: (p[0] * p[1] + p[2] * p[3], p))
    if ctx.quick:
        groups = {}
        for p in pairs:
            groups.setdefault(grid_class(*p), []).append(p)
        g = np.random.default_rng([ctx.seed, 1701])      # same selection on every shard
        chosen = []
        for k in sorted(groups):
            lst = groups[k]
            head, tail = lst[:5], lst[5:]
            chosen += head
            if tail:
                idx = g.choice(len(tail), size=min(7, len(tail)), replace=False)
                chosen += [tail[int(i)] for i in sorted(idx)]
        chosen.sort(key=lambda p: (p[0] * p[1] + p[2] * p[3], p))
        pairs = chosen
    else:
        ctx.note('shape_grid', f'all input shapes (m,n) in [1..{hi_in}]^2 x all output shapes (M,N) in [1..{hi_out}]^2 ({len(pairs)} pairs) x 3 Q kinds x 3 shift '
                               'kinds x 2 directions x 2 engines, dtype alternating real/complex')
    k = -1
    for (m, n, M, N) in pairs:
        for qk, sk, fwd, method in itertools.product(Q_KINDS, SHIFT_KINDS, (True, False), ('mdft', 'czt')):
            k += 1
            if not ctx.mine(k):
                continue
            cplx = bool((k // 7) % 2)
            Q = pick_Q(qk, rng)
            shift = pick_shift(sk, rng)
            seed = ctx.subseed(rng)
            a = make_input((m, n), cplx, seed)
            desc = {'wl': 'grid', 'in': (m, n), 'out': (M, N), 'Q': Q, 'shift': shift, 'cplx': cplx, 'fwd': fwd, 'method': method,
                    'seed': seed, 'class': f'grid:{method}:{grid_class(m, n, M, N)}:Q{qk}:sh{sk}'}
            ctx.case(desc, nontrivial=nontrivial(a))
            out = (M, N) if (M != N or k % 2) else M
            drive_engine(ctx, method, fwd, a, Q, out, shift, desc)


def wl_random(ctx, rng):
    """Larger random cases (any parity, Q>0, outputs smaller or larger than the input)."""
    nmax = ctx.pick(20, 64)
    from prysm import fttools as _ft
    for _i in range(ctx.share(ctx.pick(160, 80000))):
        if _i % 4000 == 3999:          # bound the memory held by the shared caches
            _ft.mdft.clear()
            _ft.czt.clear()
        m, n = (int(v) for v in rng.integers(1, nmax + 1, 2))
        if rng.random() < 0.3:
            n = m
        M, N = (int(v) for v in rng.integers(1, nmax + 6, 2))
        if rng.random() < 0.3:
            N = M
        qk = Q_KINDS[int(rng.integers(3))]
        sk = SHIFT_KINDS[int(rng.integers(3))]
        Q, shift = pick_Q(qk, rng), pick_shift(sk, rng)
        fwd = bool(rng.integers(2))
        method = ('mdft', 'czt')[int(rng.integers(2))]
        cplx = bool(rng.integers(2))
        seed = ctx.subseed(rng)
        a = make_input((m, n), cplx, seed)
        layout = ('C', 'C', 'C', 'F', 'strided')[int(rng.integers(5))]      # memory layout of the input is not part of the answer
        if layout == 'F':
            a = np.asfortranarray(a)
        elif layout == 'strided':
            big = np.zeros((2 * m, 2 * n), dtype=a.dtype)
            big[::2, ::2] = a
            a = big[::2, ::2]
        desc = {'wl': 'random', 'in': (m, n), 'out': (M, N), 'Q': Q, 'shift': shift, 'cplx': cplx, 'fwd': fwd, 'method': method,
                'layout': layout, 'seed': seed, 'class': f'random:{method}:{grid_class(m, n, M, N)}:Q{qk}:sh{sk}:{layout}'}
        ctx.case(desc, nontrivial=nontrivial(a))
        drive_engine(ctx, method, fwd, a, Q, (M, N), shift, desc)
    if not ctx.quick:
        for _ in range(ctx.share(800)):
            m, n, M, N = (int(v) for v in rng.integers(34, 201, 4))
            qk = Q_KINDS[int(rng.integers(3))]
            sk = SHIFT_KINDS[int(rng.integers(3))]
            Q, shift = pick_Q(qk, rng), pick_shift(sk, rng)
            for method in ('mdft', 'czt'):
                fwd = bool(rng.integers(2))
                seed = ctx.subseed(rng)
                a = make_input((m, n), True, seed)
                desc = {'wl': 'large', 'in': (m, n), 'out': (M, N), 'Q': Q, 'shift': shift, 'cplx': True, 'fwd': fwd, 'method': method,
                        'seed': seed, 'class': f'large:{method}:{grid_class(m, n, M, N)}:Q{qk}:sh{sk}'}
                ctx.case(desc)
                drive_engine(ctx, method, fwd, a, Q, (M, N), shift, desc)
        from prysm import fttools
        fttools.mdft.clear()
        fttools.czt.clear()


def wl_float32(ctx, rng):
    """The float32 configuration (same classes, float32 / complex64 input) and *mixed* dtypes under either configuration:
    float64 data under precision 32, float32 data under precision 64."""
    from ..util import precision
    nmax = ctx.pick(9, 24)
    for _ in range(ctx.share(ctx.pick(300, 90000))):
        conf = 32 if rng.random() < 0.75 else 64
        dbits = 32 if (conf == 64 or rng.random() < 0.75) else 64
        m, n = (int(v) for v in rng.integers(1, nmax + 1, 2))
        if rng.random() < 0.4:
            n = m
        M, N = (int(v) for v in rng.integers(1, nmax + 3, 2))
        if rng.random() < 0.4:
            N = M
        qk = Q_KINDS[int(rng.integers(3))]
        sk = SHIFT_KINDS[int(rng.integers(3))]
        Q, shift = pick_Q(qk, rng), pick_shift(sk, rng)
        fwd = bool(rng.integers(2))
        method = ('mdft', 'czt')[int(rng.integers(2))]
        cplx = bool(rng.integers(2))
        seed = ctx.subseed(rng)
        a = make_input((m, n), cplx, seed, bits=dbits)
        desc = {'wl': 'float32', 'in': (m, n), 'out': (M, N), 'Q': Q, 'shift': shift, 'cplx': cplx, 'fwd': fwd, 'method': method,
                'seed': seed, 'precision': conf, 'data_bits': dbits,
                'class': f'f32:{method}:{grid_class(m, n, M, N)}:Q{qk}:sh{sk}:p{conf}/d{dbits}'}
        ctx.case(desc, nontrivial=nontrivial(a))
        with precision(conf):
            drive_engine(ctx, method, fwd, a, Q, (M, N), shift, desc)


def wl_czt_fractional_shift(ctx, rng):
    """Sweep of fractional shifts through czt2 (np.arange with float end points builds the kernel)."""
    from prysm import fttools
    grid = np.linspace(-3, 3, ctx.pick(61, 1201))
    k = -1
    for s in grid:
        for (n, M) in ((5, 5), (8, 8), (8, 10), (7, 16)):
            k += 1
            if not ctx.mine(k):
                continue
            s = float(round(s, 6))
            shift = (s, 0.0) if k % 2 else (0.25, s)
            seed = ctx.subseed(rng)
            a = make_input((n, n), True, seed)
            desc = {'wl': 'czt-shift-sweep', 'in': (n, n), 'out': (M, M), 'Q': 2, 'shift': shift, 'seed': seed,
                    'class': f'czt-shift-sweep:{shift_class(shift)}'}
            ctx.case(desc)
            drive_engine(ctx, 'czt', True, a, 2, M, shift, desc)
    fttools.czt.clear()


def wl_fft_route(ctx, rng):
    """focus / unfocus and the Wavefront methods over every shape up to 9x9 and integer / non-integer Q."""
    from prysm import propagation
    Qs = [1, 2, 3, 4, 1.5, 2.5, 1.25]
    nmax = ctx.pick(9, 24)
    k = -1
    for m in range(1, nmax + 1):
        for n in range(1, nmax + 1):
            for Q in Qs:
                k += 1
                if not ctx.mine(k):
                    continue
                if ctx.quick and (k // ctx.nshards) % 2 and m * n > 16:
                    continue
                seed = ctx.subseed(rng)
                cplx = bool((k // 3) % 4)
                a = make_input((m, n), cplx, seed)
                out = (math.ceil(m * Q), math.ceil(n * Q))
                desc = {'wl': 'fft-route', 'in': (m, n), 'Q': Q, 'cplx': cplx, 'seed': seed,
                        'class': f'fft:{shape_kind((m, n))}:{axes_class((m, n), out)}:{"intQ" if float(Q).is_integer() else "fracQ"}'}
                ctx.case(desc, nontrivial=nontrivial(a))
                CUR['desc'] = desc
                try:
                    with ctx.guard('C01/fft-route', desc):
                        if k % 3 == 0:
                            w = propagation.Wavefront(a.astype(complex), 0.55, 0.1)
                            f = w.focus(100., Q=Q)
                            f.unfocus(100., Q=1)
                            propagation.Wavefront(a.astype(complex), 0.55, 2.0, space='psf').unfocus(100., Q=Q)
                        else:
                            propagation.focus(a, Q)
                            propagation.unfocus(a, Q)
                finally:
                    CUR['desc'] = None
    from ..util import precision
    with precision(32):
        for _ in range(ctx.share(ctx.pick(40, 8000))):
            m, n = (int(v) for v in rng.integers(1, ctx.pick(13, 33), 2))
            Q = Qs[int(rng.integers(len(Qs)))]
            seed = ctx.subseed(rng)
            a = make_input((m, n), True, seed, bits=32)
            desc = {'wl': 'fft-route-f32', 'in': (m, n), 'Q': Q, 'seed': seed, 'class': f'fft-f32:{shape_kind((m, n))}'}
            ctx.case(desc, nontrivial=nontrivial(a))
            CUR['desc'] = desc
            try:
                with ctx.guard('C01/fft-route', desc):
                    propagation.focus(a, Q)
                    propagation.unfocus(a, Q)
            finally:
                CUR['desc'] = None


def wl_fixed_sampling(ctx, rng):
    """focus_fixed_sampling / unfocus_fixed_sampling (functions and Wavefront methods), both engines."""
    from prysm import propagation
    from ..util import precision
    nmax = ctx.pick(10, 24)
    for _ in range(ctx.share(ctx.pick(300, 90000))):
        square = rng.random() < 0.7
        m = int(rng.integers(1, nmax + 1))
        n = m if square else int(rng.integers(1, nmax + 1))
        s = int(rng.integers(1, nmax + 3))
        samples = s if rng.random() < 0.5 else (s, s)
        if not square and rng.random() < 0.5:
            samples = (s, int(rng.integers(1, nmax + 3)))
        wvl = [0.5, 0.6328, 1.55][int(rng.integers(3))]
        efl = [50., 100., 250.][int(rng.integers(3))]
        dxi = [0.1, 0.05, 1.0][int(rng.integers(3))]
        Qt = [1, 2, 1.5, 3.3, round(float(rng.uniform(0.7, 4)), 3)][int(rng.integers(5))]
        fwd = bool(rng.integers(2))
        method = ('mdft', 'czt')[int(rng.integers(2))]
        sk = SHIFT_KINDS[int(rng.integers(3))]
        sh = pick_shift(sk, rng)
        seed = ctx.subseed(rng)
        bits = 32 if rng.random() < 0.25 else 64                # configured precision
        dbits = bits if rng.random() < 0.75 else (96 - bits)     # precision of the data (mixed in a quarter of the cases)
        a = make_input((m, n), True, seed, bits=dbits)
        via = ('function', 'Wavefront')[int(rng.integers(2))]
        if fwd:
            dxo = wvl * efl / (m * dxi) / Qt          # focal-plane spacing, um
            shift = (sh[0] * dxo, sh[1] * dxo)
        else:
            dxo = wvl * efl / (m * dxi) / Qt          # pupil-plane spacing, mm (dxi is the focal spacing, um)
            shift = (sh[0] * dxo, sh[1] * dxo)
        # class of the shift the engine actually receives: k*dx/dx is not always the integer k in floating point
        sk = shift_class((shift[0] / dxo, shift[1] / dxo))
        desc = {'wl': 'fixed-sampling', 'in': (m, n), 'samples': samples, 'wvl': wvl, 'efl': efl, 'input_dx': dxi, 'output_dx': dxo,
                'shift': shift, 'fwd': fwd, 'method': method, 'via': via, 'seed': seed, 'precision': bits, 'data_bits': dbits,
                'class': f'fixed:{method}:{"focus" if fwd else "unfocus"}:{via}:{shape_kind((m, n))}:sh{sk}:p{bits}/d{dbits}'}
        ctx.case(desc, nontrivial=nontrivial(a))
        CUR['desc'] = desc
        try:
            with precision(bits), ctx.guard(f'C01/{method}/shift:{sk}', desc, what=f'{method} transform of an in-domain input'):
                if via == 'function':
                    f = propagation.focus_fixed_sampling if fwd else propagation.unfocus_fixed_sampling
                    f(a, dxi, efl, wvl, dxo, samples, shift=shift, method=method)
                else:
                    w = propagation.Wavefront(a, wvl, dxi, space='pupil' if fwd else 'psf')
                    g = w.focus_fixed_sampling if fwd else w.unfocus_fixed_sampling
                    g(efl, dxo, samples, shift=shift, method=method)
        finally:
            CUR['desc'] = None


# ---- histories ------------------------------------------------------------------------------------
LETTERS = ['D', 'I', 'Db', 'Ib', 'C', 'Ic', 'mclr', 'cclr', 'p32', 'p64', 'Da', 'Ca']


def spell(argset, variant):
    """Alias spellings of the same mathematical arguments."""
    Q, out, shift = argset['Q'], argset['out'], argset['shift']
    if variant:
        if not hasattr(Q, '__len__'):
            Q = [float(Q), np.float64(Q), (Q, Q), [Q, Q], (float(Q), float(Q))][variant % 5]
        else:
            Q = [list(Q), tuple(float(q) for q in Q), np.asarray(Q, dtype=float)][variant % 3]
        shift = tuple(float(s) for s in shift) if variant % 2 else tuple(shift)
        if out[0] == out[1] and variant % 3 == 1:
            out = int(out[0])
    return Q, out, shift


def run_history(ctx, ops, argsets, seed, desc):
    """ops: list of (letter, argset index, spelling variant)."""
    from prysm import fttools
    from prysm.conf import config
    mdft, czt = fttools.mdft, fttools.czt
    mdft.clear()
    czt.clear()
    config.precision = 64
    CUR['desc'] = desc
    try:
        for i, (L, ai, var) in enumerate(ops):
            ctx.observe('history.ops')
            if L == 'mclr':
                mdft.clear()
                continue
            if L == 'cclr':
                czt.clear()
                continue
            if L == 'p32':
                config.precision = 32
                continue
            if L == 'p64':
                config.precision = 64
                continue
            A = argsets[ai]
            bits = conf_bits()
            Q, out, shift = spell(A, var if L in ('Da', 'Ca') or var else 0)
            a = make_input(A['in'], True, seed + ai, bits=bits)
            fb = make_input(tuple(pair(A['out'])), True, seed + 100 + ai, bits=bits)
            eng = 'czt' if L in ('C', 'Ic', 'Ca') else 'mdft'
            with ctx.guard(f'C01/{eng}/shift:{shift_class(pair(A["shift"]))}', desc, what=f'{eng} transform of an in-domain input'):
                if L in ('D', 'Da'):
                    mdft.dft2(a, Q, out, shift)
                elif L == 'I':
                    mdft.idft2(a, Q, out, shift)
                elif L == 'Db':
                    mdft.dft2_backprop(fb, Q, A['in'], shift)
                elif L == 'Ib':
                    mdft.idft2_backprop(fb, Q, A['in'], shift)
                elif L in ('C', 'Ca'):
                    czt.czt2(a, Q, out, shift)
                elif L == 'Ic':
                    czt.iczt2(a, Q, out, shift)
    finally:
        CUR['desc'] = None
        config.precision = 64
        mdft.clear()
        czt.clear()


ARGSET_POOL = [
    {'in': (5, 5), 'Q': 1.5, 'out': (7, 7), 'shift': (1, -2)},
    {'in': (4, 4), 'Q': 2, 'out': (6, 6), 'shift': (0, 0)},
    {'in': (3, 3), 'Q': 1, 'out': (3, 3), 'shift': (0, 0)},
    {'in': (4, 6), 'Q': 2, 'out': (5, 8), 'shift': (0, 0)},
    {'in': (6, 3), 'Q': (1.3, 2.2), 'out': (4, 4), 'shift': (2, 0)},
    {'in': (1, 5), 'Q': 2.5, 'out': (2, 9), 'shift': (0, 1)},
    {'in': (7, 7), 'Q': 3, 'out': (9, 9), 'shift': (-1, 3)},
    # same array sizes as entries 0 and 3 with another Q / shift: state keyed on the sizes alone is shared, the bases are not
    {'in': (5, 5), 'Q': 2.25, 'out': (7, 7), 'shift': (0, 0)},
    {'in': (5, 5), 'Q': (1.5, 1.75), 'out': (7, 7), 'shift': (0.5, 3)},
    {'in': (4, 6), 'Q': 1.5, 'out': (5, 8), 'shift': (-1, 2)},
    {'in': (4, 6), 'Q': (2, 3), 'out': (5, 8), 'shift': (0, 0)},
]
SAME_SIZE_FAMILIES = [(0, 7, 8), (3, 9, 10)]


def wl_histories(ctx, rng):
    if not ctx.quick:
        # every sequence of length <= 3 over the 12-letter alphabet on one fixed argument set
        k = -1
        for L in (1, 2, 3):
            for seq in itertools.product(LETTERS, repeat=L):
                k += 1
                if not ctx.mine(k):
                    continue
                ops = [(l, 0, 1 + i) if l in ('Da', 'Ca') else (l, 0, 0) for i, l in enumerate(seq)]
                desc = {'wl': 'history-enum', 'ops': list(seq), 'args': 0, 'class': f'history:enum:len{L}'}
                ctx.case(desc, nontrivial=any(l not in ('mclr', 'cclr', 'p32', 'p64') for l in seq))
                run_history(ctx, ops, ARGSET_POOL, 7, desc)
        short = ['D', 'I', 'C', 'Ic', 'Db', 'p32', 'p64', 'mclr', 'Da']
        for seq in itertools.product(short, repeat=4):
            k += 1
            if not ctx.mine(k):
                continue
            # two argument sets of the same array sizes (0 and 7) alternate, so a cache keyed on sizes alone is hit with another Q / shift
            ops = [(l, (0, 7)[i % 2], 1 + i if l == 'Da' else 0) for i, l in enumerate(seq)]
            desc = {'wl': 'history-enum', 'ops': list(seq), 'args': [0, 7], 'class': 'history:enum:len4'}
            ctx.case(desc, nontrivial=any(l not in ('mclr', 'p32', 'p64') for l in seq))
            run_history(ctx, ops, ARGSET_POOL, 7, desc)
        ctx.note('histories', 'all 1884 sequences of length <= 3 over the 12-letter op alphabet (one argument set), all 6561 sequences of length 4 over a '
                              '9-letter alphabet alternating between two argument sets of equal array sizes, + random histories')
    maxlen = ctx.pick(8, 24)
    for _ in range(ctx.share(ctx.pick(200, 45000))):
        L = int(rng.integers(2, maxlen + 1))
        if rng.random() < 0.5:       # a family of argument sets with the same array sizes (other Q, other shift)
            pool = list(SAME_SIZE_FAMILIES[int(rng.integers(len(SAME_SIZE_FAMILIES)))])
        else:
            pool = [int(v) for v in rng.choice(len(ARGSET_POOL), size=2, replace=False)]
        ops = []
        for _i in range(L):
            r = rng.random()
            if r < 0.3:
                l = ('p32', 'p64', 'mclr', 'cclr')[int(rng.integers(4))]
            else:
                l = ('D', 'I', 'Db', 'Ib', 'C', 'Ic', 'Da', 'Ca')[int(rng.integers(8))]
            ops.append((l, pool[int(rng.integers(len(pool)))], int(rng.integers(0, 6)) if rng.random() < 0.5 else 0))
        seed = ctx.subseed(rng)
        sw = sum(1 for o in ops if o[0] in ('p32', 'p64'))
        desc = {'wl': 'history', 'ops': [list(o) for o in ops], 'seed': seed, 'class': f'history:random:len{L}:switches{min(sw, 3)}'}
        ctx.case(desc, nontrivial=any(o[0] not in ('mclr', 'cclr', 'p32', 'p64') for o in ops))
        run_history(ctx, ops, ARGSET_POOL, seed, desc)
    # the two minimal precision-switch histories, always (near-minimal witnesses first in the report)
    if ctx.mine(0):
        for seq in (['p32', 'D', 'p64', 'D'], ['D', 'p32', 'D'], ['p32', 'I', 'p64', 'mclr', 'I'], ['D', 'p32', 'p64', 'D']):
            desc = {'wl': 'history-min', 'ops': seq, 'args': 1, 'class': 'history:minimal-precision-switch'}
            ctx.case(desc)
            run_history(ctx, [(l, 1, 0) for l in seq], ARGSET_POOL, 11, desc)
        # minimal Q-spelling histories in the float32 configuration: variant 1 spells Q as numpy.float64, 0 as python int
        for ops in ([('p32', 1, 0), ('C', 1, 0), ('Ca', 1, 1)], [('p32', 1, 0), ('Da', 1, 1), ('D', 1, 0)],
                    [('p32', 1, 0), ('Ca', 1, 1), ('cclr', 1, 0), ('C', 1, 0)]):
            desc = {'wl': 'history-min', 'ops': [list(o) for o in ops], 'args': 1, 'class': 'history:minimal-Q-spelling'}
            ctx.case(desc)
            run_history(ctx, list(ops), ARGSET_POOL, 11, desc)
        # minimal shift-spelling histories: the same shift as numpy.float32 scalars, then as the equal python floats (and reversed)
        from prysm import fttools
        for eng, order in (('czt', 'f32-first'), ('czt', 'py-first'), ('mdft', 'f32-first')):
            ex = fttools.czt if eng == 'czt' else fttools.mdft
            f = ex.czt2 if eng == 'czt' else ex.dft2
            s32 = (np.float32(0.0), np.float32(0.3))
            spy = tuple(float(x) for x in s32)
            desc = {'wl': 'history-min', 'engine': eng, 'order': order, 'shift': spy, 'class': 'history:minimal-shift-spelling'}
            ctx.case(desc)
            ctx.observe('history.ops', 2)
            ex.clear()
            CUR['desc'] = desc
            try:
                a = make_input((4, 4), True, 11)
                with ctx.guard(f'C01/{eng}/shift:frac', desc, what=f'{eng} transform of an in-domain input'):
                    for sh in ((s32, spy) if order == 'f32-first' else (spy, s32)):
                        f(a, (1, 3), 7, sh)
            finally:
                CUR['desc'] = None
                ex.clear()


# ---- class A: repeat / aliasing -------------------------------------------------------------------
def _changed(objs, snaps):
    """Names of the argument objects whose value is no longer what it was when they were built."""
    return [k for k in objs if isinstance(snaps[k], (np.ndarray, list)) and not _same_value(objs[k], snaps[k])]


def _close_rel(x, y, rtol):
    x, y = np.asarray(x), np.asarray(y)
    if x.shape != y.shape:
        return False
    if not x.size:
        return True
    if not (np.isfinite(x).all() and np.isfinite(y).all()):
        return False
    return float(np.max(np.abs(x - y))) <= rtol * float(np.max(np.abs(y)))


DATA_ARGS = ('ary', 'wavefunction', 'field')


def repeat_laws(ctx, label, call, objs, plain, desc, single, lowprec, forms=(), prefix='C01'):
    """The two class-A laws around one routine.

    call(**objs)   -- the routine with the caller-owned argument objects `objs` (dict name -> object)
    forms          -- other spellings of the same computation with the same objects (method form, other routine); their
                      results must agree with the first call as well
    plain()        -- the same computation with freshly built plain arguments (python tuples / ints, a C-ordered copy)

    repeat.same-objects            the second, third ... call with the *same objects* returns what the first returned
    alias.container-independence   the result does not depend on container types / memory layout (float32 containers: to
                                   float32 accuracy, since numpy then computes with them in float32)
    Returns the first result (or None when prysm raised: reported by the guard)."""
    snaps = {k: _copyarg(v) for k, v in objs.items()}
    outs = []
    box = [None]
    with ctx.guard(f'{prefix}/repeat/{label}', desc, what=f'{label} with {desc.get("containers")}'):
        # every result is copied at once: a routine may hand back memory it shares with an argument and rewrite it later
        first = np.array(call(**objs), copy=True)
        mut_first = _changed(objs, snaps)            # argument objects rewritten by the very first call
        outs.append(('second call', np.array(call(**objs), copy=True)))
        for name, f in forms:
            outs.append((name, np.array(f(**objs), copy=True)))
        outs.append(('call after the other forms', np.array(call(**objs), copy=True)))
        box[0] = first
    if box[0] is None:
        return None
    first = box[0]
    eps_mult = 10
    for name, o in outs:
        ctx.observe('repeat.same-objects')
        ok = _same(o, first, eps_mult) if np.asarray(o).dtype == np.asarray(first).dtype else _close_rel(o, first, 1e-3 if single else 1e-12)
        if not ok:
            mut = sorted(set(mut_first) | set(_changed(objs, snaps)))
            # the memory layout of a rewritten data array is incidental, the container type of a rewritten Q / samples / shift is not
            lab = '+'.join((k if k in DATA_ARGS else f'{k}({desc["containers"].get(k, "?")})') for k in mut) if mut else 'no-argument(state-elsewhere)'
            ctx.violation(f'{prefix}/repeat/{label}/later-call-with-the-same-argument-objects-differs/mutated:{lab}',
                          f'{label}: a later call with the same argument objects ({name}) returns something else than the first call; '
                          f'argument objects whose value changed: {mut or "none"}', desc, which=name,
                          max_abs_diff=(float(np.max(np.abs(np.asarray(o) - np.asarray(first)))) if np.shape(o) == np.shape(first) else None))
            break
    box = [None]
    with ctx.guard(f'{prefix}/repeat/{label}', desc, what=f'{label} with plain arguments'):
        box[0] = plain({})
    if box[0] is None:
        return first
    if lowprec and 'czt' in label:
        # a float32 shift container drags the chirp arithmetic of czt2 to float32 (error grows with the chirp phase): that *is* the
        # ledgered finding KEY_SHIFTSPELL, judged by M2 in C01 -- not restated here as a container dependence
        ctx.skip('alias: float32 shift container through czt (chirp arithmetic in float32: ledgered C01 finding, judged by the history monitor)')
        return first
    ctx.observe('alias.container-independence')
    rtol = 1e-3 if single else (1e-4 if lowprec else 1e-12)
    if not _close_rel(first, box[0], rtol):
        # which single argument, handed over in its container / layout with everything else plain, reproduces the difference?
        culprits = []
        for k in objs:
            try:
                with quiet_monitors():
                    o = plain({k: _copyarg(snaps[k])})
                if not _close_rel(o, box[0], rtol):
                    culprits.append(k)
            except Exception:
                culprits.append(k)
        lab = '+'.join(f'{k}({desc["containers"].get(k, "?")})' for k in culprits) if culprits else 'combination-only'
        ctx.violation(f'{prefix}/alias/{label}/result-depends-on-container-or-layout-of:{lab}',
                      f'{label}: the same numbers in another container type / the same array in another memory layout give a different result',
                      desc, rtol=rtol, max_abs_diff=(float(np.max(np.abs(np.asarray(first) - np.asarray(box[0]))))
                                                     if np.shape(first) == np.shape(box[0]) else None))
    return first


def quiet_monitors():
    from ..contracts import quiet
    return quiet()


def _samples_container(kind, M, N):
    if kind == 'int':
        return int(M)
    if kind == 'tuple':
        return (int(M), int(N))
    if kind == 'np-ints':
        return (np.int64(M), np.int32(N))
    if kind == 'np-int-scalar':
        return np.int64(M)
    if kind == 'list':
        return [int(M), int(N)]
    if kind == 'nd':
        return np.array([M, N])
    raise ValueError(kind)


def wl_repeat(ctx, rng):
    """Class A: every routine of the property called repeatedly with the *same argument objects* (data arrays in several
    memory layouts, Q / samples / shift in the container types the API accepts), in its function and method form and across
    engines; judged by the repeat laws above and, call by call, by the contracts."""
    from prysm import fttools, propagation as P
    from ..util import precision
    n = ctx.share(ctx.pick(200, 30000))
    for _ in range(n):
        route = ('engine', 'engine', 'fixed', 'fixed', 'fft')[int(rng.integers(5))]
        bits = 32 if rng.random() < 0.15 else 64
        dbits = bits if rng.random() < 0.8 else (96 - bits)         # mixed: data of the other precision
        single = bits == 32 or dbits == 32
        layout = LAYOUTS[int(rng.integers(len(LAYOUTS)))]
        seed = ctx.subseed(rng)
        method = ('mdft', 'czt')[int(rng.integers(2))]
        fwd = bool(rng.integers(2))
        sk = SHIFT_KINDS[int(rng.integers(3))]
        if route == 'engine':
            m, n_ = (int(v) for v in rng.integers(2, 10, 2))
            M, N = (int(v) for v in rng.integers(2, 11, 2))
            if rng.random() < 0.4:
                N = M
            qkind = ('py', 'tuple', 'list', 'nd-f64', 'nd-f32', 'nd-int', 'np-scalars')[int(rng.integers(7))]
            Qv = pair(pick_Q('pair' if qkind != 'py' else 'scalar', rng))
            if qkind == 'nd-int':
                Qv = (float(int(rng.integers(1, 4))), float(int(rng.integers(1, 4))))
            Qc = Qv[0] if qkind == 'py' else make_container(qkind, Qv)
            Qplain = Qv[0] if qkind == 'py' else container_values(Qc)
            skinds = ['tuple', 'np-ints'] + (['int', 'np-int-scalar'] if M == N else []) + ['list', 'nd']
            skind = skinds[int(rng.integers(len(skinds)))]
            Sc = _samples_container(skind, M, N)
            sh = pick_shift(sk, rng)
            hkinds = ['tuple', 'np-scalars', 'list', 'nd-f64', 'nd-f32'] + (['nd-int'] if sk != 'frac' else [])
            hkind = hkinds[int(rng.integers(len(hkinds)))]
            shc = make_container(hkind, sh)
            shplain = container_values(shc)
            a0 = make_input((m, n_), True, seed, bits=dbits)
            a = relayout(a0, layout)
            ex = fttools.mdft if method == 'mdft' else fttools.czt
            other = fttools.czt if method == 'mdft' else fttools.mdft
            fn = {('mdft', True): 'dft2', ('mdft', False): 'idft2', ('czt', True): 'czt2', ('czt', False): 'iczt2'}[(method, fwd)]
            ofn = {'dft2': 'czt2', 'idft2': 'iczt2', 'czt2': 'dft2', 'iczt2': 'idft2'}[fn]
            conts = {'ary': layout, 'Q': qkind, 'samples_out': skind, 'shift': hkind}
            desc = {'wl': 'repeat', 'route': 'engine', 'fn': fn, 'in': (m, n_), 'out': (M, N), 'Q': Qplain, 'shift': shplain, 'containers': conts,
                    'precision': bits, 'data_bits': dbits, 'seed': seed,
                    'class': f'repeat:engine:{fn}:Q={qkind}:samples={skind}:shift={hkind}/{sk}:{layout}:p{bits}/d{dbits}'}
            ctx.case(desc)
            objs = {'ary': a, 'Q': Qc, 'samples_out': Sc, 'shift': shc}
            forms = []
            def other_between(other=other, ofn=ofn, ex=ex, fn=fn, **kw):
                getattr(other, ofn)(**kw)
                return getattr(ex, fn)(**kw)
            forms.append((f'{ofn} in between', other_between))
            base = {'ary': lambda: np.array(a0, order='C', copy=True), 'Q': lambda: Qplain, 'samples_out': lambda: (M, N), 'shift': lambda: shplain}

            def plain(over, base=base, ex=ex, fn=fn):
                kw = {k: (over[k] if k in over else base[k]()) for k in base}
                return getattr(ex, fn)(**kw)
            CUR['desc'] = desc
            try:
                with precision(bits):
                    repeat_laws(ctx, f'{method}.{fn}', lambda **kw: getattr(ex, fn)(**kw), objs, plain, desc, single,
                                low_precision(shc) or low_precision(Qc), forms)
            finally:
                CUR['desc'] = None
        elif route == 'fixed':
            square = rng.random() < 0.6
            m = int(rng.integers(2, 10))
            n_ = m if square else int(rng.integers(2, 10))
            M = int(rng.integers(2, 11))
            N = M if (square or rng.random() < 0.5) else int(rng.integers(2, 11))
            skinds = ['tuple', 'np-ints'] + (['int', 'np-int-scalar'] if M == N else [])
            skind = skinds[int(rng.integers(len(skinds)))]
            Sc = _samples_container(skind, M, N)
            wvl = [0.5, 0.6328, 1.55][int(rng.integers(3))]
            efl = [50., 100., 250.][int(rng.integers(3))]
            dxi = [0.1, 0.05, 1.0][int(rng.integers(3))]
            Qt = [1, 2, 1.5, 3.3, round(float(rng.uniform(0.7, 4)), 3)][int(rng.integers(5))]
            dxo = wvl * efl / (m * dxi) / Qt
            if sk == 'none':
                hkind, shc = 'tuple', (0, 0)
            else:
                hkind = SHIFT_CONTAINERS[int(rng.integers(len(SHIFT_CONTAINERS)))]
                s = pick_shift(sk, rng)
                phys = (s[0] * dxo, s[1] * dxo)
                if hkind == 'nd-int':               # integer physical shift (microns / mm), any number of samples
                    phys = (float(int(rng.integers(1, 4))) * (1 if rng.random() < 0.5 else -1), float(int(rng.integers(0, 3))))
                shc = make_container(hkind, phys)
            shplain = container_values(shc)
            a0 = make_input((m, n_), True, seed, bits=dbits)
            a = relayout(a0, layout)
            fname = 'focus_fixed_sampling' if fwd else 'unfocus_fixed_sampling'
            func = getattr(P, fname)
            omethod = 'czt' if method == 'mdft' else 'mdft'
            conts = {'wavefunction': layout, 'output_samples': skind, 'shift': hkind}
            desc = {'wl': 'repeat', 'route': 'fixed', 'fn': fname, 'method': method, 'in': (m, n_), 'samples': (M, N), 'wvl': wvl, 'efl': efl,
                    'input_dx': dxi, 'output_dx': dxo, 'shift': shplain, 'containers': conts, 'precision': bits, 'data_bits': dbits, 'seed': seed,
                    'class': f'repeat:fixed:{fname}:{method}:samples={skind}:shift={hkind}/{sk}:{layout}:{shape_kind((m, n_))}:p{bits}/d{dbits}'}
            ctx.case(desc)
            objs = {'wavefunction': a, 'output_samples': Sc, 'shift': shc}

            def call(wavefunction, output_samples, shift, method=method):
                return func(wavefunction, dxi, efl, wvl, dxo, output_samples, shift=shift, method=method)

            def via_wavefront(wavefunction, output_samples, shift):
                w = P.Wavefront(wavefunction, wvl, dxi, space='pupil' if fwd else 'psf')
                g = w.focus_fixed_sampling if fwd else w.unfocus_fixed_sampling
                # the Wavefront methods take int or tuple samples (isinstance(samples, int)): numpy scalars are out of their domain
                smp = output_samples if not isinstance(output_samples, np.integer) else int(output_samples)
                return g(efl, dxo, smp, shift=shift, method=method).data

            def other_method_between(wavefunction, output_samples, shift):
                call(wavefunction, output_samples, shift, method=omethod)
                return call(wavefunction, output_samples, shift)
            base = {'wavefunction': lambda: np.array(a0, order='C', copy=True), 'output_samples': lambda: (M, N), 'shift': lambda: shplain}

            def plain(over, base=base):
                kw = {k: (over[k] if k in over else base[k]()) for k in base}
                return call(**kw)
            CUR['desc'] = desc
            try:
                with precision(bits):
                    repeat_laws(ctx, f'{fname}/{method}', call, objs, plain, desc, single, low_precision(shc),
                                [('Wavefront method form', via_wavefront), (f'method={omethod} in between', other_method_between)])
            finally:
                CUR['desc'] = None
        else:
            m, n_ = (int(v) for v in rng.integers(1, 10, 2))
            Q = [1, 2, 3, 1.5, 2.5, 1.25][int(rng.integers(6))]
            a0 = make_input((m, n_), True, seed, bits=dbits)
            a = relayout(a0, layout)
            fname = 'focus' if fwd else 'unfocus'
            func = getattr(P, fname)
            desc = {'wl': 'repeat', 'route': 'fft', 'fn': fname, 'in': (m, n_), 'Q': Q, 'containers': {'wavefunction': layout},
                    'precision': bits, 'data_bits': dbits, 'seed': seed,
                    'class': f'repeat:fft:{fname}:{layout}:{"intQ" if float(Q).is_integer() else "fracQ"}:p{bits}/d{dbits}'}
            ctx.case(desc, nontrivial=nontrivial(a))
            objs = {'wavefunction': a}

            def via_wavefront(wavefunction):
                w = P.Wavefront(wavefunction, 0.55, 0.1, space='pupil' if fwd else 'psf')
                return (w.focus(100., Q=Q) if fwd else w.unfocus(100., Q=Q)).data
            CUR['desc'] = desc
            try:
                with precision(bits):
                    repeat_laws(ctx, fname, lambda wavefunction: func(wavefunction, Q), objs,
                                lambda over: func(over.get('wavefunction', np.array(a0, order='C', copy=True)), Q), desc,
                                dbits == 32, False, [('Wavefront method form', via_wavefront)])
            finally:
                CUR['desc'] = None
    fttools.mdft.clear()
    fttools.czt.clear()


# ---- class B: histories through the fixed-sampling wrappers ------------------------------------------
WH_WVL = [0.5, 0.6328, 1.55]
WH_EFL = [50., 100., 250.]
WH_DXI = [0.1, 0.05, 1.0]
WH_QT = [1, 2, 1.5, 3.3, 0.8, 2.7]


def wl_wrapper_histories(ctx, rng):
    """Histories on the *shared* executors made through focus_/unfocus_fixed_sampling (function and Wavefront form) and
    to_fpm_and_back at FIXED array sizes: shifted and unshifted calls, changing wavelength / focal length / spacings /
    shift between calls (so the basis caches miss while everything keyed on the sizes alone hits), both methods, precision
    switches and clear() in between.  Every call is judged by the contracts: the nested engine call against the textbook
    sum and a fresh executor, the wrapper against the physical Q."""
    from prysm import fttools, propagation as P
    from prysm.conf import config
    n = ctx.share(ctx.pick(70, 15000))
    maxlen = ctx.pick(7, 16)
    for _ in range(n):
        square = rng.random() < 0.7
        m = int(rng.integers(2, 9))
        shp = (m, m) if square else (m, int(rng.integers(2, 9)))
        M = int(rng.integers(2, 11))
        smp = (M, M) if square else (M, int(rng.integers(2, 11)))
        L = int(rng.integers(3, maxlen + 1))
        ops = []
        for _j in range(L):
            r = rng.random()
            if r < 0.10:
                ops.append((('p32', 'p64')[int(rng.integers(2))],))
            elif r < 0.15:
                ops.append((('mclr', 'cclr')[int(rng.integers(2))],))
            else:
                kind = ('F', 'Fw', 'U', 'Uw', 'T', 'Tw')[int(rng.integers(6))]
                method = ('mdft', 'mdft', 'czt')[int(rng.integers(3))]
                sk = SHIFT_KINDS[int(rng.integers(3))]
                ops.append((kind, method, sk, int(rng.integers(3)), int(rng.integers(3)), int(rng.integers(3)), int(rng.integers(len(WH_QT))),
                            list(pick_shift(sk, rng)), bool(rng.random() < 0.2)))
        seed = ctx.subseed(rng)
        nsh = sum(1 for o in ops if len(o) > 1 and o[2] != 'none')
        desc = {'wl': 'wrapper-history', 'shape': shp, 'samples': smp, 'ops': [list(o) for o in ops], 'seed': seed,
                'class': f'wrapper-history:{shape_kind(shp)}:len{L}:shifted{min(nsh, 3)}'}
        ctx.case(desc, nontrivial=any(len(o) > 1 for o in ops))
        fttools.mdft.clear()
        fttools.czt.clear()
        config.precision = 64
        CUR['desc'] = desc
        try:
            for j, op in enumerate(ops):
                ctx.observe('history.wrapper-ops')
                if op[0] in ('p32', 'p64'):
                    config.precision = int(op[0][1:])
                    continue
                if op[0] == 'mclr':
                    fttools.mdft.clear()
                    continue
                if op[0] == 'cclr':
                    fttools.czt.clear()
                    continue
                kind, method, sk, iw, ie, idx, iq, sh, mixed = op
                bits = conf_bits()
                dbits = (96 - bits) if mixed else bits
                wvl, efl, dxi = WH_WVL[iw], WH_EFL[ie], WH_DXI[idx]
                with ctx.guard(f'C01/{method}/shift:{sk}', desc, what=f'{method} transform of an in-domain input (fixed-sampling wrapper)'):
                    if kind in ('F', 'Fw', 'T', 'Tw'):
                        a = make_input(shp, True, seed + j, bits=dbits)
                        dxo = wvl * efl / (shp[0] * dxi) / WH_QT[iq]
                        shift = (sh[0] * dxo, sh[1] * dxo)
                        if kind == 'F':
                            P.focus_fixed_sampling(a, dxi, efl, wvl, dxo, smp, shift=shift, method=method)
                        elif kind == 'Fw':
                            P.Wavefront(a, wvl, dxi).focus_fixed_sampling(efl, dxo, smp, shift=shift, method=method)
                        else:
                            mask = make_input(smp, bool(j % 2), seed + 50 + j, bits=dbits)
                            if kind == 'T':
                                P.to_fpm_and_back(a, dxi, efl, wvl, mask, dxo, shift=shift, method=method)
                            else:
                                P.Wavefront(a, wvl, dxi).to_fpm_and_back(efl, mask, dxo, method=method, shift=shift)
                    else:
                        # focal-plane array of the *samples* shape back to a pupil of the pupil shape: the same two sizes
                        a = make_input(smp, True, seed + j, bits=dbits)
                        dxo = wvl * efl / (smp[0] * dxi) / WH_QT[iq]          # pupil spacing (mm); dxi is the focal spacing here
                        shift = (sh[0] * dxo, sh[1] * dxo)
                        if kind == 'U':
                            P.unfocus_fixed_sampling(a, dxi, efl, wvl, dxo, shp, shift=shift, method=method)
                        else:
                            P.Wavefront(a, wvl, dxi, space='psf').unfocus_fixed_sampling(efl, dxo, shp, shift=shift, method=method)
        finally:
            CUR['desc'] = None
            config.precision = 64
            fttools.mdft.clear()
            fttools.czt.clear()


# ---- class E: argument-form equivalence (vp/propforms.py) ------------------------------------------------
FORM_ROUTINES = ('dft2', 'idft2', 'czt2', 'iczt2', 'focus', 'unfocus', 'focus_fixed_sampling', 'unfocus_fixed_sampling')


def wl_forms(ctx, rng):
    """Class E: every routine of the property in its canonical form (complex128 data, python floats / tuples, keywords, explicit
    defaults) and then in every other form the reference tree accepts for the same numbers -- field dtype kinds (a real-dtype,
    integer or boolean array vs its complex copy, both directions, both engines), Q / shift / sample counts as list, ndarray,
    numpy scalars, 0-d arrays, a scalar for an equal pair, physical scalars as numpy / integer scalars, positional calls,
    omitted defaults after a call with other explicit values, the Wavefront method form.  Each form must reproduce the
    canonical result; each call is also judged by the contracts (textbook sum, fresh executor)."""
    from .. import propforms as PF
    from ..util import precision
    reps = ctx.pick(4, 600)
    k = -1
    for rep in range(reps):
        for routine in FORM_ROUTINES:
            for kind in PF.FIELD_KINDS:
                k += 1
                if not ctx.mine(k):
                    continue
                bits = 32 if (k // ctx.nshards) % 5 == 4 else 64
                vals = PF.draw_values(routine, rng, kind)
                farg = 'ary' if routine in PF.ENGINES else 'wavefunction'
                desc = {'wl': 'forms', 'routine': routine, 'field_kind': kind, 'precision': bits, 'k': k,
                        'values': {a: v for a, v in vals.items() if not isinstance(v, np.ndarray)}, 'in': list(vals[farg].shape),
                        'class': f'forms:{routine}:{kind}:p{bits}'}
                ctx.case(desc, nontrivial=nontrivial(vals[farg]))
                CUR['desc'] = desc
                try:
                    with precision(bits):
                        PF.judge_forms(ctx, 'C01', routine, vals, desc, single=bits == 32, field_kinds={farg: kind})
                finally:
                    CUR['desc'] = None
        if rep % 8 == 7:
            from prysm import fttools
            fttools.mdft.clear()
            fttools.czt.clear()


# ---- class F: cross-module histories ------------------------------------------------------------------
def wl_foreign(ctx, rng):
    """Class F: the other public consumers of fftrange / forward_ft_unit / fftfreq / make_xy_grid / pad2d and the shared
    executors run first at the axis lengths of the case (non-zero shifts, ndarray containers, precision 32, returned arrays
    edited in place), then every route of the property is driven at those lengths WITHOUT clearing anything and judged by the
    contracts (which know nothing of the process history)."""
    from .. import propforms as PF
    from prysm import propagation as P
    for rep in range(ctx.share(ctx.pick(16, 3200))):
        hi = ctx.pick(10, 24)
        lengths = sorted(set(int(v) for v in rng.integers(2, hi + 1, 3)))
        dx = [0.1, 0.05, 1.0][int(rng.integers(3))]
        desc0 = {'wl': 'foreign', 'lengths': lengths, 'dx': dx, 'rep': rep, 'class': 'foreign-traffic-then-routes'}
        ctx.case(desc0)
        CUR['desc'] = dict(desc0, phase='foreign-traffic')
        try:
            PF.foreign_traffic(ctx, rng, lengths, dxs=(dx, 1.0), heavy=(rep % 3 == 0), prefix='C01', desc=CUR['desc'])
        finally:
            CUR['desc'] = None
        for j in range(ctx.pick(6, 8)):
            m, n = (lengths[int(v)] for v in rng.integers(len(lengths), size=2))
            M, N = (lengths[int(v)] for v in rng.integers(len(lengths), size=2))
            seed = ctx.subseed(rng)
            a = make_input((m, n), bool(j % 3), seed)
            for method in ('mdft', 'czt'):
                for fwd in (True, False):
                    sk = SHIFT_KINDS[int(rng.integers(3))] if j % 2 else 'none'
                    Q, shift = pick_Q(Q_KINDS[int(rng.integers(3))], rng), pick_shift(sk, rng)
                    desc = dict(desc0, phase='judged', **{'in': (m, n), 'out': (M, N), 'Q': Q, 'shift': shift, 'fwd': fwd, 'method': method, 'seed': seed})
                    drive_engine(ctx, method, fwd, a, Q, (M, N), shift, desc)
            desc = dict(desc0, phase='judged', **{'in': (m, m), 'samples': (M, M), 'seed': seed})
            CUR['desc'] = desc
            try:
                with ctx.guard('C01/foreign-history/routes', desc):
                    b = make_input((m, m), True, seed + 1)
                    wvl, efl = 0.5, 100.0
                    dxo = wvl * efl / (m * dx) / [1, 2, 1.5][j % 3]
                    P.focus_fixed_sampling(b, dx, efl, wvl, dxo, M, method=('mdft', 'czt')[j % 2])
                    P.Wavefront(b, wvl, dx).focus_fixed_sampling(efl, dxo, (M, M), shift=(dxo, -0.5 * dxo), method=('czt', 'mdft')[j % 2])
                    P.unfocus_fixed_sampling(make_input((M, M), True, seed + 2), dxo, efl, wvl, dx, m, method=('mdft', 'czt')[j % 2])
                    P.focus(a, [1, 2, 1.5][j % 3])
                    P.unfocus(a, [2, 1, 2.5][j % 3])
                    P.Wavefront(b, wvl, dx).focus(efl, Q=2).unfocus(efl, Q=1)
            finally:
                CUR['desc'] = None
    from prysm import fttools
    fttools.mdft.clear()
    fttools.czt.clear()


# ---- class D: input dtypes and extreme aspect ratios ----------------------------------------------------
INT_DTYPES = [np.int64, np.int32, np.int16, np.int8, np.uint8, np.uint16, np.bool_]


def wl_dtypes_and_aspect(ctx, rng):
    """Integer / boolean images (0/1 aperture masks, detector counts) through every route, and arrays of extreme aspect ratio
    (2 x 64, 96 x 3, 1 x 128) in and out."""
    from prysm import fttools, propagation as P
    n = ctx.share(ctx.pick(120, 6000))
    for i in range(n):
        dt = INT_DTYPES[int(rng.integers(len(INT_DTYPES)))]
        m, n_ = (int(v) for v in rng.integers(1, 10, 2))
        M, N = (int(v) for v in rng.integers(1, 11, 2))
        seed = ctx.subseed(rng)
        r = np.random.default_rng(seed)
        if dt is np.bool_:
            a = r.random((m, n_)) < 0.7
        else:
            a = r.integers(0, 4, (m, n_)).astype(dt)
        route = ('engine', 'engine', 'fixed', 'fft')[int(rng.integers(4))]
        method = ('mdft', 'czt')[int(rng.integers(2))]
        fwd = bool(rng.integers(2))
        sk = SHIFT_KINDS[int(rng.integers(3))]
        shift = pick_shift(sk, rng)
        desc = {'wl': 'int-dtype', 'route': route, 'method': method, 'fwd': fwd, 'in': (m, n_), 'out': (M, N), 'dtype': np.dtype(dt).name,
                'shift': shift, 'seed': seed, 'class': f'dtype:{np.dtype(dt).name}:{route}:{method if route != "fft" else "fft"}:sh{sk}'}
        ctx.case(desc, nontrivial=int(np.count_nonzero(a)) >= 2)
        CUR['desc'] = desc
        try:
            if route == 'fft':
                with ctx.guard('C01/fft-route/integer-or-bool-input', desc):
                    Q = [1, 2, 1.5][int(rng.integers(3))]
                    (P.focus if fwd else P.unfocus)(a, Q)
                continue
            try:
                if route == 'engine':
                    Q = pick_Q(Q_KINDS[int(rng.integers(3))], rng)
                    ex = fttools.mdft if method == 'mdft' else fttools.czt
                    fn = {('mdft', True): 'dft2', ('mdft', False): 'idft2', ('czt', True): 'czt2', ('czt', False): 'iczt2'}[(method, fwd)]
                    getattr(ex, fn)(a, Q, (M, N), shift)
                else:
                    wvl, efl, dxi = 0.55, 100., 0.1
                    dxo = wvl * efl / (m * dxi) / [1, 2, 1.5, 3.3][int(rng.integers(4))]
                    f = P.focus_fixed_sampling if fwd else P.unfocus_fixed_sampling
                    f(a, dxi, efl, wvl, dxo, (M, N), shift=(shift[0] * dxo, shift[1] * dxo), method=method)
            except HarnessError:
                raise
            except Exception as e:  # noqa
                if method == 'czt':
                    ctx.violation(KEY_INTDTYPE, WHAT_INTDTYPE, desc, exception=repr(e)[:200])
                else:
                    ctx.violation(f'C01/mdft/integer-or-bool-input/raises:{type(e).__name__}',
                                  f'mdft transform of an integer / boolean image raises {type(e).__name__}', desc, exception=repr(e)[:200])
        finally:
            CUR['desc'] = None
    # extreme aspect ratios
    shapes = [(2, 64), (96, 3), (1, 128), (128, 1), (3, 200), (64, 2)]
    outs = [(2, 64), (96, 3), (1, 128), (5, 5), (64, 3), (3, 97), (200, 1)]
    if not ctx.quick:
        shapes += [(1, 512), (400, 2), (5, 300)]
        outs += [(1, 600), (333, 2), (2, 2)]
    k = -1
    for shp in shapes:
        for out in outs:
            for method in ('mdft', 'czt'):
                for sk in ('none', 'frac'):
                    k += 1
                    if not ctx.mine(k):
                        continue
                    if ctx.quick and (k // ctx.nshards) % 2:
                        continue
                    fwd = bool(k % 2)
                    Q = pick_Q(Q_KINDS[k % 3], rng)
                    shift = pick_shift(sk, rng)
                    seed = ctx.subseed(rng)
                    a = make_input(shp, True, seed)
                    desc = {'wl': 'aspect', 'in': shp, 'out': out, 'Q': Q, 'shift': shift, 'fwd': fwd, 'method': method, 'seed': seed,
                            'class': f'aspect:{method}:{shape_kind(shp)}->{shape_kind(out)}:sh{sk}'}
                    ctx.case(desc)
                    drive_engine(ctx, method, fwd, a, Q, out, shift, desc)
    fttools.mdft.clear()
    fttools.czt.clear()


# ---- hardening pass 3: classes G (magnitudes, units), H (special values), I (sizes) --------------------------------------
RULE = RULE + ('.  Hardening pass 3 -- class G: every route (four engine calls, focus / unfocus, both fixed-sampling wrappers in function and '
               'Wavefront form) on fields of magnitude 1e-12 ... 1e12 (textbook sum at that magnitude, and homogeneity f(s a) = s f(a)); the wrappers in '
               'other consistent units (metres everywhere, microns everywhere, nm in the focal plane, pupil x 1024, ...).  Class H: Q EXACTLY an integer '
               '(1, 2, 3) with the output sample count equal to the input shape or to Q times it and every shift pattern (x only, y only, both, none; '
               'int / fractional; zero as int 0 / float 0.0) at engine level (both engines, both directions, sizes 1 ... 16 and primes) and through the '
               'wrappers at an output spacing that is exactly the FFT spacing (the library\'s own Q_for_sampling returns the integer exactly); without a '
               'shift the three routes (padded FFT, mdft, czt) must agree as complex arrays.  Class I: thin arrays (1 x n, n x 1, 2 x n, n x 3) whose '
               'long axis has 65 ... 1024 samples (prime, awkward, powers of two) through every route, incl. band-complete pairs n -> M with M / n within '
               '1e-3 of an integer, with and without one-axis shifts')
ASSUMPTIONS = ASSUMPTIONS + [
    'homogeneity is compared at 1e-11 (single precision 1e-3) of max|s f(a)| (observed <= 4 eps); unit invariance and route agreement at the '
    'conditioning tolerance of the call (rtol_for) relative to the output bound',
    'exactly-special geometries are produced with the library\'s own expressions so that floating-point equality is hit on purpose; draws for which the '
    'library\'s Q is not exactly the integer are excluded and counted',
]
REQUIRED = REQUIRED + ['scale.homogeneity', 'scale.unit-invariance', 'special.integer-Q-routes-agree', 'special.fft-grid-with-shift', 'size.large-or-prime']


def _typed_shift(s, unit):
    """(sx, sy) in samples -> output units; an int 0 stays an int 0, a float 0.0 a float 0.0."""
    return tuple((v * unit if v != 0 else v) for v in s)


def _engine(method, fwd):
    from prysm import fttools
    ex = fttools.mdft if method == 'mdft' else fttools.czt
    return getattr(ex, {('mdft', True): 'dft2', ('mdft', False): 'idft2', ('czt', True): 'czt2', ('czt', False): 'iczt2'}[(method, fwd)])


def _law_close(ctx, monitor, got, ref, rtol, scale, key, what, desc):
    ctx.observe(monitor)
    got, ref = np.asarray(got), np.asarray(ref)
    err = float(np.max(np.abs(got - ref))) if (got.shape == ref.shape and got.size and np.isfinite(got).all()) else (0.0 if got.shape == ref.shape and not got.size else float('inf'))
    if not err <= rtol * scale:
        ctx.violation(key, what, desc, err=err, tol=rtol * scale, scale=scale)
        return False
    if rtol * scale > 0:
        STATS[monitor] = max(STATS.get(monitor, 0.0), err / (rtol * scale))
    return True


def wl_scales_units(ctx, rng):
    """Class G.  scale: f(s a) for s = 1e-12 ... 1e12 through every route -- the contracts judge the scaled call against the textbook
    sum (their error scale is ||s a||_1), the homogeneity law compares it with s f(a).  units: the fixed-sampling wrappers in another
    consistent unit system (contract: physical Q; law: equal fields)."""
    from prysm import fttools, propagation as P
    from .. import propforms as PF
    from ..util import precision
    routes = ('dft2', 'idft2', 'czt2', 'iczt2', 'focus', 'unfocus', 'focus_fixed_sampling', 'unfocus_fixed_sampling')
    k = -1
    for rep in range(ctx.pick(5, 1000)):
        for route in routes:
            for s in PF.SCALES:
                k += 1
                if not ctx.mine(k):
                    continue
                bits = 32 if (k // ctx.nshards) % 5 == 4 else 64
                single = bits == 32
                m, n = (int(v) for v in rng.integers(1, ctx.pick(10, 24), 2))
                if rng.random() < 0.5:
                    n = m
                if m * n == 1:
                    m = n = 3
                M = int(rng.integers(2, ctx.pick(12, 28)))
                out = (M, M) if m == n else (M, int(rng.integers(2, ctx.pick(12, 28))))
                seed = ctx.subseed(rng)
                cplx = bool(rng.integers(2))
                a = make_input((m, n), cplx, seed, bits=bits)
                sa = (a * s).astype(a.dtype)
                sk = SHIFT_KINDS[int(rng.integers(3))]
                sh = pick_shift(sk, rng)
                Q = pick_Q(Q_KINDS[int(rng.integers(3))], rng)
                desc = {'wl': 'scales', 'route': route, 's': s, 'in': (m, n), 'out': out, 'Q': Q, 'shift': sh, 'precision': bits, 'seed': seed,
                        'class': f'scales:{route}:{PF.scale_class(s)}:{shape_kind((m, n))}:sh{sk}:p{bits}'}
                ctx.case(desc, nontrivial=nontrivial(a))
                if not nontrivial(a):
                    continue
                CUR['desc'] = desc
                try:
                    with precision(bits), ctx.guard(f'C01/{route}/scale:{PF.scale_class(s)}', desc, what=f'{route} of a field of magnitude {s:g}'):
                        if route in ('dft2', 'idft2', 'czt2', 'iczt2'):
                            f = _engine('mdft' if 'dft' in route else 'czt', route in ('dft2', 'czt2'))
                            r1, rs = np.array(f(a, Q, out, sh), copy=True), f(sa, Q, out, sh)
                        elif route in ('focus', 'unfocus'):
                            Qf = [1, 2, 1.5, 3][int(rng.integers(4))]
                            f = getattr(P, route)
                            r1, rs = np.array(f(a, Qf), copy=True), (f(sa, Qf) if k % 2 else
                                                                   getattr(P.Wavefront(sa.astype(np.complex64 if single else complex), 0.55, 0.1, space='pupil' if route == 'focus' else 'psf'), route)(100., Q=Qf).data)
                        else:
                            wvl, efl, dxi = 0.55, 100., [0.1, 0.05, 1.0][int(rng.integers(3))]
                            dxo = wvl * efl / (m * dxi) / [1, 2, 1.5, 3.3][int(rng.integers(4))]
                            method = ('mdft', 'czt')[int(rng.integers(2))]
                            shift = (sh[0] * dxo, sh[1] * dxo)
                            f = getattr(P, route)
                            r1 = np.array(f(a, dxi, efl, wvl, dxo, out, shift=shift, method=method), copy=True)
                            if k % 2:
                                rs = f(sa, dxi, efl, wvl, dxo, out, shift=shift, method=method)
                            else:
                                w = P.Wavefront(sa, wvl, dxi, space='pupil' if route.startswith('focus') else 'psf')
                                rs = getattr(w, route)(efl, dxo, out, shift=shift, method=method).data
                        ref = s * r1
                        _law_close(ctx, 'scale.homogeneity', rs, ref, 1e-3 if single else 1e-11, float(np.max(np.abs(ref))) if ref.size else 0.0,
                                   f'C01/{route}/scale:{PF.scale_class(s)}/not-homogeneous',
                                   f'{route} is linear, but f(s a) != s f(a) for a field of magnitude s (tiny: s <= 1e-3, huge: s >= 1e3)', desc)
                finally:
                    CUR['desc'] = None
        for (uname, al, be, ga, de) in PF.UNIT_SYSTEMS:
            for route in ('focus_fixed_sampling', 'unfocus_fixed_sampling'):
                k += 1
                if not ctx.mine(k):
                    continue
                bits = 32 if (k // ctx.nshards) % 5 == 4 else 64
                single = bits == 32
                m = int(rng.integers(2, ctx.pick(10, 24)))
                M = int(rng.integers(2, ctx.pick(12, 28)))
                seed = ctx.subseed(rng)
                a = make_input((m, m), True, seed, bits=bits)
                method = ('mdft', 'czt')[int(rng.integers(2))]
                pname, s = PF.SHIFT_PATTERNS[int(rng.integers(len(PF.SHIFT_PATTERNS)))]
                wvl, efl, dxi = [0.5, 0.6328, 1.55][int(rng.integers(3))], [50., 100., 250.][int(rng.integers(3))], [0.1, 0.05, 1.0][int(rng.integers(3))]
                Qt = [1, 2, 1.5, 3.3, round(float(rng.uniform(0.7, 4)), 3)][int(rng.integers(5))]
                dxo = wvl * efl / (m * dxi) / Qt
                via = ('function', 'Wavefront')[int(rng.integers(2))]
                desc = {'wl': 'units', 'route': route, 'units': uname, 'in': (m, m), 'out': (M, M), 'method': method, 'wvl': wvl, 'efl': efl, 'input_dx': dxi, 'output_dx': dxo,
                        'shift_samples': s, 'via': via, 'precision': bits, 'seed': seed, 'class': f'units:{route}:{method}:{uname}:shift={pname}:{via}:p{bits}'}
                ctx.case(desc, nontrivial=nontrivial(a))
                CUR['desc'] = desc
                try:
                    with precision(bits), ctx.guard(f'C01/{route}/scale:units', desc, what=f'{route} in the unit system {uname}'):
                        def call(dxi_, efl_, wvl_, dxo_):
                            shift = _typed_shift(s, dxo_)
                            if via == 'function':
                                return np.array(getattr(P, route)(a, dxi_, efl_, wvl_, dxo_, M, shift=shift, method=method), copy=True)
                            w = P.Wavefront(a, wvl_, dxi_, space='pupil' if route.startswith('focus') else 'psf')
                            return np.array(getattr(w, route)(efl_, dxo_, M, shift=shift, method=method).data, copy=True)
                        r1, r2 = call(dxi, efl, wvl, dxo), call(dxi * al, efl * be, wvl * ga, dxo * de)
                        r = rtol_for(method, single, (m, m), (Qt, Qt), (M, M), (float(s[0]), float(s[1])))
                        if r is None:
                            ctx.skip('engine: kernel phase beyond the resolution of the working precision (ill-conditioned, tolerance would exceed 3e-2)')
                            continue
                        _law_close(ctx, 'scale.unit-invariance', r2, r1, r, err_scale(a, (Qt, Qt)), f'C01/{route}/scale:units/result-changes-under-a-consistent-change-of-units',
                                   f'{route}: the same propagation expressed in other consistent units (lambda f / (dx_in dx_out) and shift / dx_out unchanged) gives another field', desc)
                finally:
                    CUR['desc'] = None
        fttools.mdft.clear()
        fttools.czt.clear()


def wl_special_Q(ctx, rng):
    """Class H: Q exactly an integer, the output sample count equal to the input shape or to Q times it, every shift pattern --
    engines (both directions), wrappers at exactly the FFT spacing (function / Wavefront), and the padded-FFT route; each call is
    judged by the contracts, and without a shift the three routes must agree as complex arrays."""
    from prysm import fttools, propagation as P
    from .. import propforms as PF
    from ..util import precision
    sizes = list(range(1, ctx.pick(13, 25))) + [17, 19, 23, 29, 31] + ctx.pick([], [37, 41, 64, 67])
    k = -1
    for rep in range(ctx.pick(1, 20)):
        for N in sizes:
            for q in (1, 2, 3):
                for ocls in ('same-as-input', 'fft-grid'):
                    for fwd in (True, False):
                        k += 1
                        if not ctx.mine(k):
                            continue
                        if (k // ctx.nshards) % 64 == 63:
                            fttools.mdft.clear()
                            fttools.czt.clear()
                        nonsq = (k // ctx.nshards) % 4 == 3 and N > 1
                        shp = (N, N) if not nonsq else (N, max(1, N - 1 - int(rng.integers(0, 3))))
                        out = shp if ocls == 'same-as-input' else (shp[0] * q, shp[1] * q)
                        bits = 32 if (k // ctx.nshards) % 7 == 6 else 64
                        single = bits == 32
                        seed = ctx.subseed(rng)
                        a = make_input(shp, bool(rng.integers(2)), seed, bits=bits)
                        g = PF.exact_Q_geometry(rng, N, q) if not nonsq else None
                        base = {'wl': 'special-Q', 'in': shp, 'out': out, 'Q': q, 'fwd': fwd, 'precision': bits, 'seed': seed}
                        ctx.case(dict(base, **{'class': f'special-Q:Q=={q}:{ocls}:{shape_kind(shp)}:{"fwd" if fwd else "inv"}:p{bits}'}), nontrivial=nontrivial(a))
                        if not nontrivial(a):
                            continue
                        unshifted = {}
                        with precision(bits):
                            for pname, s in PF.SHIFT_PATTERNS:
                                for method in ('mdft', 'czt'):
                                    desc = dict(base, method=method, shift=s, **{'class': f'special-Q:engine:{method}:Q=={q}:{ocls}:shift={pname}'})
                                    ctx.observe('special.fft-grid-with-shift')
                                    CUR['desc'] = desc
                                    try:
                                        with ctx.guard(f'C01/{method}/shift:{shift_class(s)}', desc, what=f'{method} transform of an in-domain input'):
                                            Qarg = [q, float(q), (q, q), (float(q), float(q))][(k + len(pname)) % 4]
                                            r = _engine(method, fwd)(a, Qarg, out if (k % 2 or out[0] != out[1]) else out[0], s)
                                            if pname == 'none':
                                                unshifted[method] = np.array(r, copy=True)
                                        if g is not None:
                                            # the wrappers at exactly the FFT spacing: the library's own Q_for_sampling gives q exactly
                                            wvl, efl, idx, odx = g
                                            if P.Q_for_sampling(N * idx, efl, wvl, odx) != q:
                                                ctx.skip('special: the library\'s own Q is not exactly the integer for this draw')
                                            else:
                                                route = 'focus_fixed_sampling' if fwd else 'unfocus_fixed_sampling'
                                                d2 = dict(desc, route=route, wavelength=wvl, efl=efl, input_dx=idx, output_dx=odx)
                                                CUR['desc'] = d2
                                                with ctx.guard(f'C01/{method}/shift:{shift_class(s)}', d2, what=f'{route}(method={method}) at exactly the FFT spacing'):
                                                    shift = _typed_shift(s, odx)
                                                    if (k + len(pname)) % 2:
                                                        rw = getattr(P, route)(a, idx, efl, wvl, odx, out, shift=shift, method=method)
                                                    else:
                                                        w = P.Wavefront(a, wvl, idx, space='pupil' if fwd else 'psf')
                                                        rw = getattr(w, route)(efl, odx, out, shift=shift, method=method).data
                                                    if pname == 'none':
                                                        unshifted[method + '/wrapper'] = np.array(rw, copy=True)
                                                    # the wrapper (function or Wavefront form) at exactly the FFT spacing is the engine call with Q = q and the
                                                    # shift in samples: the same arithmetic, so the same array (the contract only sees the module-level function)
                                                    rt = rtol_for(method, single or (method == 'mdft' and bits == 32), shp, (float(q), float(q)), out, (float(s[0]), float(s[1])))
                                                    if rt is not None:
                                                        _law_close(ctx, 'special.fft-grid-with-shift', rw, r, rt, err_scale(a.astype(np.complex128), (float(q), float(q))),
                                                                   f'C01/{route}/special:output-grid-is-the-FFT-grid/differs-from-the-engine-call/shift:{shift_class(s)}',
                                                                   f'{route}(method={method}) (function / Wavefront form) with output_dx exactly the FFT spacing and output_samples '
                                                                   'the FFT grid or the input shape differs from the engine call with Q = q and the same shift in samples', d2)
                                    finally:
                                        CUR['desc'] = None
                            # the padded-FFT route on the same array; agreement of the routes (complex) where the grids coincide
                            desc = dict(base, **{'class': f'special-Q:routes-agree:Q=={q}:{ocls}'})
                            CUR['desc'] = desc
                            try:
                                with ctx.guard('C01/fft-route', desc):
                                    rf = np.array((P.focus if fwd else P.unfocus)(a, q), copy=True)
                                if rf.shape == (math.ceil(shp[0] * q), math.ceil(shp[1] * q)):
                                    # the engines' output of `out` samples is the central window of the padded-FFT grid (origin on origin)
                                    o0, o1 = rf.shape[0] // 2 - out[0] // 2, rf.shape[1] // 2 - out[1] // 2
                                    rf = rf[o0:o0 + out[0], o1:o1 + out[1]]
                                    sc = err_scale(a.astype(np.complex128), (float(q), float(q)))
                                    for name, r in unshifted.items():
                                        eng = name.split('/')[0]
                                        rt = rtol_for(eng, single or (eng == 'mdft' and bits == 32), shp, (float(q), float(q)), out, (0.0, 0.0))
                                        if rt is None:
                                            continue
                                        _law_close(ctx, 'special.integer-Q-routes-agree', r, rf, rt, sc, f'C01/special:integer-Q/{name}-differs-from-the-padded-FFT',
                                                   f'{"forward" if fwd else "inverse"} transform with Q exactly {q} onto the FFT grid: {name} and the padded-FFT route differ '
                                                   '(each is also judged against the textbook sum by its contract)', dict(desc, route=name))
                            finally:
                                CUR['desc'] = None
    fttools.mdft.clear()
    fttools.czt.clear()


def wl_sizes(ctx, rng):
    """Class I: thin arrays whose long axis has 65 ... 1024 samples through every route: band-complete pairs n -> M with M / n within
    1e-3 of an integer, prime / awkward / power-of-two lengths, with and without a shift along the long axis."""
    from prysm import fttools, propagation as P
    from .. import propforms as PF
    jobs = [('near-integer-Q', nn, MM) for (nn, MM) in PF.NEAR_INTEGER_PAIRS[:ctx.pick(5, 8)]]
    jobs += [('awkward', nn, [nn, nn + 1, 2 * nn, 97][i % 4]) for i, nn in enumerate(PF.AWKWARD_SIZES + PF.LARGE_SIZES[:ctx.pick(2, 5)])]
    if not ctx.quick:
        g = np.random.default_rng([ctx.seed, 4321])
        jobs += [('random', int(g.integers(64, 1100)), int(g.integers(64, 1300))) for _ in range(200)]
    k = -1
    for ji, (kind, nn, MM) in enumerate(jobs):
        for method in ('mdft', 'czt'):
            for fwd in (True, False):
                for shifted in (False, True):
                    k += 1
                    if not ctx.mine(k):
                        continue
                    if ctx.quick and kind == 'near-integer-Q' and shifted and not fwd:
                        continue
                    shp = PF.thin(nn, ji + (k // ctx.nshards))
                    out = tuple(MM if v == nn else v for v in shp)
                    along_x = shp[1] == nn
                    Qv = (out[0] / shp[0], out[1] / shp[1]) if kind == 'near-integer-Q' else pick_Q(Q_KINDS[k % 3], rng)
                    s = (0, 0) if not shifted else ((2.5, 0) if along_x else (0.0, -3))
                    seed = ctx.subseed(rng)
                    a = make_input(shp, True, seed)
                    desc = {'wl': 'sizes', 'kind': kind, 'in': shp, 'out': out, 'Q': Qv, 'shift': s, 'fwd': fwd, 'method': method, 'seed': seed,
                            'class': f'sizes:{kind}:{method}:{shape_kind(shp)}:{"x" if along_x else "y"}-axis:{"shifted" if shifted else "unshifted"}'}
                    ctx.case(desc)
                    ctx.observe('size.large-or-prime')
                    drive_engine(ctx, method, fwd, a, Qv, out, s, desc)
                    fttools.mdft.clear()
                    fttools.czt.clear()
    # the padded-FFT route and the wrappers (square, so that the physical-Q contract applies) at prime / awkward sizes
    k = -1
    for N in (65, 67, 74, 101) + ctx.pick((), (127, 129, 257)):
        for what in ('fft-thin', 'fft-square', 'wrapper'):
            for fwd in (True, False):
                k += 1
                if not ctx.mine(k):
                    continue
                seed = ctx.subseed(rng)
                desc = {'wl': 'sizes', 'what': what, 'N': N, 'fwd': fwd, 'seed': seed, 'class': f'sizes:{what}:{N}:{"fwd" if fwd else "inv"}'}
                ctx.case(desc)
                ctx.observe('size.large-or-prime')
                CUR['desc'] = desc
                try:
                    with ctx.guard('C01/fft-route' if what != 'wrapper' else 'C01/mdft/shift:frac', desc):
                        if what == 'fft-thin':
                            big = [509, 521, 1021, 1024, 640, 997, 257][k % 7]
                            for Q in (1, 2, 1.5):
                                (P.focus if fwd else P.unfocus)(make_input(PF.thin(big if Q == 1 else N, k), True, seed), Q)
                        elif what == 'fft-square':
                            (P.focus if fwd else P.unfocus)(make_input((N, N), True, seed), [1, 2, 1.5][k % 3] if N < 100 else 1)
                        else:
                            wvl, efl, dxi = 0.55, 100., 0.1
                            M = [N, N + 1, 97][k % 3]
                            dxo = wvl * efl / (N * dxi) / [1, 2, 1.5][k % 3]
                            f = P.focus_fixed_sampling if fwd else P.unfocus_fixed_sampling
                            f(make_input((N, N), True, seed), dxi, efl, wvl, dxo, M, shift=(0.0, 1.5 * dxo), method=('mdft', 'czt')[(k // 2) % 2])
                finally:
                    CUR['desc'] = None
                    fttools.mdft.clear()
                    fttools.czt.clear()


# ---- hardening pass 4: classes L (size thresholds x near-coincidences) and N (FFT backend) ------------------------------
RULE = RULE + ('.  Hardening pass 4 -- class L: arrays of 1 600 ... 65 536 ... 265 000 elements (256 x 256, 300 x 220, 128 x 512, 520 x 510, 1 x 70000, '
               '40000 x 2; thorough also 1024 x 1024) through all four engine calls, the padded-FFT route and the fixed-sampling wrappers (function and '
               'Wavefront form) with Q = 1.01, 1.001, 1.37, 2.003, 0.757, per-axis pairs and output sample counts equal to ceil / floor / round(s Q) per axis '
               '(s Q not an integer), mixed per axis, and one more; zero shift (int 0 / float 0.0) and one-axis / two-axis shifts; judged by the ordinary '
               'textbook-sum contracts (separable matrix products).  Class N: every route under the numpy.fft backend (vp.util.fft_backend; no '
               'next_fast_len there, so the power-of-two fallback of the chirp-Z convolution length is live) at axis pairs m -> M with m + M - 1 a power '
               'of two, one less, one more, prime and generic, both precisions, and a few arrays of >= 65536 elements')
ASSUMPTIONS = ASSUMPTIONS + [
    'swapping prysm.mathops.fft._srcmodule for numpy.fft is a documented configuration; the reference tree is correct under it for every route '
    '(established on /repo @ 66c5405); the executors are cleared when the backend is switched',
    'the reference sum for large arrays is the same model (long-double phases, complex128 matrix products): its own round-off (~ eps sqrt(N) of the '
    'output magnitude) is >= 3 decades below the tolerance, which is relative to the L1 bound of the output',
]
REQUIRED = REQUIRED + ['size.threshold-near-coincidence', 'backend.numpy-fft']

L_SHAPES_BIG = [(256, 256), (300, 220), (128, 512)]                 # >= 65536 elements
L_SHAPES_XL = [(520, 510)]                                          # >= 262144 elements
L_SHAPES_MID = [(40, 40), (100, 90), (128, 128), (181, 182)]        # 1600 ... 32942 elements: thresholds at other powers of two
L_QS = [1.01, 1.37, 2.003, 1.001, (1.01, 1.37), (2.003, 1.0), 0.757]
# quick tier: a subset of the Q list per large shape (every Q occurs on some large shape; 300 * 1.01 is an integer in floating point)
L_QUICK_QS = {(256, 256): [1.01, 1.001, (1.01, 1.37), 1.37], (300, 220): [1.01, 0.757, (2.003, 1.0)], (128, 512): [1.37, 1.001],
              (40, 40): [1.01, 2.003, (1.01, 1.37), 0.757], (128, 128): [1.37, 1.001, (2.003, 1.0)]}
L_OUTKINDS = ('ceil', 'floor', 'round', 'ceil,floor', 'ceil+1')
L_SHIFTS = {'zero-int': (0, 0), 'zero-float': (0.0, 0.0), 'x-only': (1.5, 0), 'y-only': (0.0, -2.0), 'both': (0.5, -1.25)}


def near_counts(shp, Qp, kind):
    """Output sample counts that (nearly) coincide with the size s Q of the zero-padded FFT grid."""
    f = {'ceil': math.ceil, 'floor': math.floor, 'round': round}
    if kind in f:
        o = [f[kind](s * q) for s, q in zip(shp, Qp)]
    elif kind == 'ceil,floor':
        o = [math.ceil(shp[0] * Qp[0]), math.floor(shp[1] * Qp[1])]
    else:
        o = [math.ceil(s * q) + 1 for s, q in zip(shp, Qp)]
    return tuple(max(1, int(v)) for v in o)


def size_class(shp):
    n = shp[0] * shp[1]
    return '>=262144' if n >= 262144 else ('>=65536' if n >= 65536 else '<65536')


def wl_thresholds(ctx, rng):
    """Class L: arrays large enough for a size-switched algorithm, with the other arguments at hostile near-coincidences (output sample
    counts equal to ceil / floor / round(s Q) with s Q not an integer, zero and non-zero shifts, per-axis Q); every call is judged by the
    ordinary contracts (textbook sum by separable matrix products, fresh executor)."""
    from prysm import fttools, propagation as P
    jobs, seen = [], set()

    def add(shp, Q, ok):
        key = (shp, tuple(pair(Q)), near_counts(shp, tuple(float(q) for q in pair(Q)), ok))      # round(s Q) is ceil or floor: no duplicates
        if key not in seen:
            seen.add(key)
            jobs.append((shp, Q, ok))
    for shp in L_SHAPES_BIG + L_SHAPES_MID:
        for Q in (L_QUICK_QS.get(shp, L_QS) if ctx.quick else L_QS):
            for ok in L_OUTKINDS[:3]:
                add(shp, Q, ok)
        add(shp, L_QS[len(jobs) % 4], 'ceil,floor')
        add(shp, L_QS[(len(jobs) + 1) % 4], 'ceil+1')
        add(shp, 1.0, 'ceil')
        if not ctx.quick or shp[0] * shp[1] < 65536 or shp == (256, 256):
            add(shp, 2, 'ceil')
    for shp in L_SHAPES_XL + ctx.pick([], [(257, 256), (1024, 64), (64, 1100), (1024, 1024)]):
        for Q in ((1.003,) if shp[0] * shp[1] >= 1000000 else ctx.pick((1.01,), (1.01, (1.01, 1.37)))):
            for ok in L_OUTKINDS[:3]:
                add(shp, Q, ok)
    k = -1
    for ji, (shp, Q, ok) in enumerate(jobs):
        Qp = tuple(float(q) for q in pair(Q))
        out = near_counts(shp, Qp, ok)
        xl = shp[0] * shp[1] >= 262144
        for method in ('mdft', 'czt'):
            for fwd in (True, False):
                if xl and ctx.quick and (ji + fwd) % 2:
                    continue
                k += 1
                if not ctx.mine(k):
                    continue
                # unshifted always (zero spelled as int or float); in the quick tier one case in three also shifted, else every pattern
                r = (k // ctx.nshards)
                snames = ['zero-int' if r % 2 else 'zero-float']
                if ctx.quick:
                    snames += [('x-only', 'y-only', 'both')[r % 3]] if r % 4 == 0 or shp[0] * shp[1] < 65536 else []
                else:
                    snames = list(L_SHIFTS) if not xl else snames + ['x-only']
                for sn in snames:
                    seed = ctx.subseed(rng)
                    a = make_input(shp, bool((r + len(sn)) % 2), seed)
                    desc = {'wl': 'thresholds', 'in': shp, 'out': out, 'Q': Q, 'outkind': ok, 'shift': L_SHIFTS[sn], 'fwd': fwd, 'method': method, 'seed': seed,
                            'keytag': f'size:{size_class(shp)}',
                            'class': f'thresholds:{method}:{"fwd" if fwd else "inv"}:size{size_class(shp)}:{shape_kind(shp)}:Q{"pair" if Qp[0] != Qp[1] else "scalar"}:'
                                     f'out={ok}:shift={sn}'}
                    ctx.case(desc)
                    ctx.observe('size.threshold-near-coincidence')
                    # sample counts as a pair, or as an int for an equal pair (every other time)
                    drive_engine(ctx, method, fwd, a, Q, out if (out[0] != out[1] or r % 2) else out[0], L_SHIFTS[sn], desc)
                fttools.mdft.clear()
                fttools.czt.clear()
    # thin arrays of >= 65536 elements (a threshold on the element count alone), few output samples along the long axis
    k = -1
    for shp, out in (((1, 70000), (2, 17)), ((40000, 2), (19, 3)), ((2, 32768), (3, 31)), ((70001, 1), (23, 1))):
        for method in ('mdft', 'czt'):
            for fwd in (True, False):
                k += 1
                if not ctx.mine(k) or (ctx.quick and (k // ctx.nshards) % 2):
                    continue
                Q = (1.01, 1.37)[k % 2]
                seed = ctx.subseed(rng)
                sn = ('zero-int', 'x-only', 'zero-float', 'y-only')[(k // 2) % 4]
                desc = {'wl': 'thresholds', 'in': shp, 'out': out, 'Q': Q, 'shift': L_SHIFTS[sn], 'fwd': fwd, 'method': method, 'seed': seed,
                        'keytag': 'size:>=65536', 'class': f'thresholds:{method}:{"fwd" if fwd else "inv"}:thin:{shape_kind(shp)}:shift={sn}'}
                ctx.case(desc)
                ctx.observe('size.threshold-near-coincidence')
                drive_engine(ctx, method, fwd, make_input(shp, True, seed), Q, out, L_SHIFTS[sn], desc)
                fttools.mdft.clear()
                fttools.czt.clear()
    # the padded-FFT route and the fixed-sampling wrappers (square, so that the physical-Q contract applies) on large arrays
    k = -1
    wvl, efl, dxi = 0.6328, 100., 0.05
    for N in (256, 300):
        for Qt in (1.01, 1.37, 2.003):
            for ok in L_OUTKINDS[:2] + (('ceil+1',) if not ctx.quick else ()):      # round(s Q) is one of the two
                for method in ('mdft', 'czt'):
                    for fwd in (True, False):
                        k += 1
                        if not ctx.mine(k):
                            continue
                        r = k // ctx.nshards
                        if ctx.quick and N == 300 and r % 4:
                            continue
                        M = near_counts((N, N), (Qt, Qt), ok)[0]
                        dxo = wvl * efl / (N * dxi) / Qt
                        sn = 'zero-int' if r % 4 else 'x-only'
                        shift = _typed_shift(L_SHIFTS[sn], dxo)
                        route = 'focus_fixed_sampling' if fwd else 'unfocus_fixed_sampling'
                        via = ('function', 'Wavefront')[(r // 2) % 2]
                        seed = ctx.subseed(rng)
                        a = make_input((N, N), True, seed)
                        desc = {'wl': 'thresholds', 'route': route, 'via': via, 'in': (N, N), 'samples': M, 'Q_target': Qt, 'outkind': ok, 'method': method,
                                'shift': shift, 'seed': seed, 'keytag': 'size:>=65536',
                                'class': f'thresholds:{route}:{via}:{method}:N={N}:out={ok}:shift={sn}'}
                        ctx.case(desc)
                        ctx.observe('size.threshold-near-coincidence')
                        CUR['desc'] = desc
                        try:
                            with ctx.guard(f'C01/{method}/size:>=65536/shift:{shift_class(L_SHIFTS[sn])}', desc, what=f'{route}(method={method}) on a large array'):
                                if via == 'function':
                                    getattr(P, route)(a, dxi, efl, wvl, dxo, M if r % 2 else (M, M), shift=shift, method=method)
                                else:
                                    w = P.Wavefront(a, wvl, dxi, space='pupil' if fwd else 'psf')
                                    getattr(w, route)(efl, dxo, M if r % 2 else (M, M), shift=shift, method=method)
                        finally:
                            CUR['desc'] = None
                            fttools.mdft.clear()
                            fttools.czt.clear()
    k = -1
    for shp in ((256, 256), (300, 220), (64, 1030)):
        for Q in (1, 1.01, 1.37, 2.003):
            for fwd in (True, False):
                k += 1
                if not ctx.mine(k):
                    continue
                seed = ctx.subseed(rng)
                a = make_input(shp, bool(k % 3), seed)
                desc = {'wl': 'thresholds', 'route': 'focus' if fwd else 'unfocus', 'in': shp, 'Q': Q, 'seed': seed, 'keytag': 'size:>=65536',
                        'class': f'thresholds:fft:{"fwd" if fwd else "inv"}:{shape_kind(shp)}:{"Q=1" if Q == 1 else "fracQ"}'}
                ctx.case(desc)
                ctx.observe('size.threshold-near-coincidence')
                CUR['desc'] = desc
                try:
                    with ctx.guard('C01/fft-route/size:>=65536', desc):
                        if k % 2:
                            (P.focus if fwd else P.unfocus)(a, Q)
                        else:
                            w = P.Wavefront(a.astype(complex), 0.55, 0.1, space='pupil' if fwd else 'psf')
                            (w.focus if fwd else w.unfocus)(100., Q=Q)
                finally:
                    CUR['desc'] = None


# axis pairs m -> M for the chirp-Z convolution length m + M - 1: powers of two, one less, one more, primes, generic
N_PAIRS = [(1, 1), (3, 1), (1, 5), (4, 4), (4, 5), (5, 5), (7, 3), (9, 9), (10, 8), (12, 21), (13, 11), (17, 17), (20, 14), (33, 33), (50, 16), (31, 2),
           (64, 66), (100, 30), (6, 60), (65, 64)]


def wl_backend(ctx, rng):
    """Class N: every route under the numpy.fft backend (prysm.mathops.fft._srcmodule = numpy.fft, the documented switch), where the
    fall-backs for what that backend lacks (next_fast_len) are live; judged by the same contracts."""
    import numpy.fft as npfft
    from prysm import fttools, propagation as P
    from ..util import fft_backend, precision
    fttools.mdft.clear()
    fttools.czt.clear()
    tag = 'backend:numpy.fft'
    with fft_backend(npfft):
        try:
            k = -1
            for rep in range(ctx.pick(1, 40)):
                for i, (m, M) in enumerate(N_PAIRS):
                    for (n, N) in ((m, M), N_PAIRS[(i * 7 + 3 + rep) % len(N_PAIRS)]):
                        for method in ('czt', 'mdft'):
                            for fwd in (True, False):
                                k += 1
                                if not ctx.mine(k):
                                    continue
                                r = k // ctx.nshards
                                bits = 32 if r % 5 == 4 else 64
                                qk, sk = Q_KINDS[int(rng.integers(3))], SHIFT_KINDS[r % 3]
                                Q, shift = pick_Q(qk, rng), pick_shift(sk, rng)
                                seed = ctx.subseed(rng)
                                a = make_input((m, n), bool(r % 2), seed, bits=bits)
                                desc = {'wl': 'backend', 'backend': 'numpy.fft', 'in': (m, n), 'out': (M, N), 'Q': Q, 'shift': shift, 'fwd': fwd, 'method': method,
                                        'precision': bits, 'seed': seed, 'keytag': tag,
                                        'class': f'backend:numpy.fft:{method}:{"fwd" if fwd else "inv"}:{grid_class(m, n, M, N)}:Q{qk}:sh{sk}:p{bits}'}
                                ctx.case(desc, nontrivial=nontrivial(a))
                                ctx.observe('backend.numpy-fft')
                                with precision(bits):
                                    drive_engine(ctx, method, fwd, a, Q, (M, N), shift, desc)
                # the padded-FFT route and the wrappers
                for i, (m, M) in enumerate(N_PAIRS):
                    k += 1
                    if not ctx.mine(k):
                        continue
                    n = N_PAIRS[(i * 3 + 1 + rep) % len(N_PAIRS)][0]
                    seed = ctx.subseed(rng)
                    a = make_input((m, n), True, seed)
                    b = make_input((m, m), True, seed + 1)
                    Qf = [1, 2, 1.5, 1.25][i % 4]
                    wvl, efl, dxi = 0.55, 100., 0.1
                    dxo = wvl * efl / (m * dxi) / [1, 2, 1.5, 3.3][(i + rep) % 4]
                    desc = {'wl': 'backend', 'backend': 'numpy.fft', 'in': (m, n), 'Q': Qf, 'samples': M, 'output_dx': dxo, 'seed': seed, 'keytag': tag,
                            'class': f'backend:numpy.fft:routes:{shape_kind((m, n))}:{parity(m)}->{parity(M)}'}
                    ctx.case(desc, nontrivial=nontrivial(a))
                    ctx.observe('backend.numpy-fft')
                    CUR['desc'] = desc
                    try:
                        with ctx.guard(f'C01/routes/{tag}', desc, what='a route of the property under the numpy.fft backend'):
                            P.focus(a, Qf)
                            P.unfocus(a, Qf)
                            P.Wavefront(b, wvl, dxi).focus(efl, Q=Qf).unfocus(efl, Q=1)
                            pat = ((0, 0), (1.5, 0), (0.0, -2.0), (0.5, -1.25))[i % 4]
                            sh = _typed_shift(pat, dxo)
                            for method in ('czt', 'mdft'):
                                P.focus_fixed_sampling(b, dxi, efl, wvl, dxo, M, shift=sh, method=method)
                                P.Wavefront(make_input((M, M), True, seed + 2), wvl, dxo, space='psf').unfocus_fixed_sampling(
                                    efl, dxi, (m, m), shift=_typed_shift(pat, dxi), method=method)
                            if m > 1:
                                P.to_fpm_and_back(b, dxi, efl, wvl, make_input((M, M), False, seed + 3), dxo, shift=sh, method=('czt', 'mdft')[i % 2])
                    finally:
                        CUR['desc'] = None
            # arrays of >= 65536 elements under this backend (classes L and N together); m + M - 1 = 514, 602 / 520, ...
            k = -1
            for shp in ((256, 256), (300, 220)):
                for Q in (1.01, (1.01, 1.37)):
                    for ok in ('ceil', 'round'):
                        for fwd in (True, False):
                            k += 1
                            if not ctx.mine(k) or (ctx.quick and (k // ctx.nshards) % 2):
                                continue
                            out = near_counts(shp, tuple(float(q) for q in pair(Q)), ok)
                            seed = ctx.subseed(rng)
                            sn = ('zero-int', 'both')[(k // 2) % 2]
                            desc = {'wl': 'backend', 'backend': 'numpy.fft', 'in': shp, 'out': out, 'Q': Q, 'shift': L_SHIFTS[sn], 'fwd': fwd, 'method': 'czt', 'seed': seed,
                                    'keytag': tag, 'class': f'backend:numpy.fft:czt:{"fwd" if fwd else "inv"}:size>=65536:out={ok}:shift={sn}'}
                            ctx.case(desc)
                            ctx.observe('backend.numpy-fft')
                            drive_engine(ctx, 'czt', fwd, make_input(shp, True, seed), Q, out, L_SHIFTS[sn], desc)
                            fttools.czt.clear()
        finally:
            fttools.mdft.clear()
            fttools.czt.clear()


# ------------------------------------------------------------------------------------------ entry points
def run(ctx):
    global CTX
    CTX = ctx
    from prysm import fttools
    from prysm.conf import config
    old = conf_bits()
    install()
    try:
        rng = ctx.rng('c01')
        import time
        secs = {}

        def timed(name, f, *a):
            t = time.time()
            f(*a)
            secs[name] = round(time.time() - t, 1)
        timed('histories', wl_histories, ctx, ctx.rng('c01-hist'))
        fttools.mdft.clear()
        fttools.czt.clear()
        timed('grid', wl_grid, ctx, rng)
        timed('czt-shift-sweep', wl_czt_fractional_shift, ctx, ctx.rng('c01-sweep'))
        timed('fft-route', wl_fft_route, ctx, ctx.rng('c01-fft'))
        timed('fixed-sampling', wl_fixed_sampling, ctx, ctx.rng('c01-fixed'))
        timed('wrapper-histories', wl_wrapper_histories, ctx, ctx.rng('c01-wrapper-hist'))
        timed('repeat', wl_repeat, ctx, ctx.rng('c01-repeat'))
        timed('dtypes-aspect', wl_dtypes_and_aspect, ctx, ctx.rng('c01-dtype'))
        timed('forms', wl_forms, ctx, ctx.rng('c01-forms'))
        timed('foreign', wl_foreign, ctx, ctx.rng('c01-foreign'))
        timed('random', wl_random, ctx, ctx.rng('c01-random'))
        timed('float32', wl_float32, ctx, ctx.rng('c01-f32'))
        timed('scales-units', wl_scales_units, ctx, ctx.rng('c01-scales'))
        timed('special-Q', wl_special_Q, ctx, ctx.rng('c01-special-Q'))
        timed('sizes', wl_sizes, ctx, ctx.rng('c01-sizes'))
        timed('thresholds', wl_thresholds, ctx, ctx.rng('c01-thresholds'))
        timed('backend', wl_backend, ctx, ctx.rng('c01-backend'))
        ctx.note('workload_seconds(first shard)', secs)
        ctx.note('largest_error_over_tolerance_among_held_comparisons(first shard)', {k: float(f'{v:.2e}') for k, v in sorted(STATS.items())})
    finally:
        detach_all()
        config.precision = old
        fttools.mdft.clear()
        fttools.czt.clear()


def replay(ctx, rec):
    run(ctx)
