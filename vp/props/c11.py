"""C11 — Zernike (Noll, Fringe, ANSI) and XY single-index conventions are bijections onto the valid two-index orders.

Monitors
  contracts (attached to the real functions, every call is seen):
      noll_to_nm / fringe_to_nm / ansi_j_to_nm    post: the image is a valid order (integers, n >= |m|, n-|m| even)
      xy_j_to_mn                                    post: two non-negative integer exponents
      nm_to_fringe / nm_to_ansi_j                   post: the index is an integer >= first index
  law monitors driven by the workload, per *block* of indices (a block is one complete radial order for Noll / ANSI,
  one complete n+|m| group for Fringe, one complete degree for XY; the published ordering rules force every block of
  indices onto exactly that set of orders, so blocks can be decided independently on different shards):
      <map>.block-rule            the image of every index of block b lies in block b (radial order / group / degree
                                  non-decreasing in j  <=>  this holds for every block)
      <map>.injective-onto-block  the images of a block are pairwise distinct and are *all* valid orders of the block
      noll.parity-rule            even j <-> m > 0, odd j <-> m < 0 (m != 0); |m| non-decreasing inside an order
      ansi.formula                j == (n (n + 2) + m) / 2                     (integer arithmetic)
      fringe.formula              j == (1 + (n+|m|)/2)^2 - 2|m| + [m<0]        (integer arithmetic)
      xy.order-rule               x power descending inside a degree; first terms 1, x, y, x^2, xy, y^2
      <map>.inverse               inv(fwd(j)) == j      (Fringe, ANSI: the two inverses the library provides)
      <map>.eq-integer-reference  fwd(j) == integer-only reference model (vp/refmodels/index_int.py)
      nm_to_<map>.*               for every valid (n, m), n <= N: nm_to_x(n, m) == integer reference and x_to_nm undoes it
      probe.*                     the same per-index clauses on isolated large indices (block edges k(k+1)/2, k^2, +-1,
                                  2^e +- 1, random) up to 2^31 - 1
      boundary.*                  class I (structural sweep): EVERY block joint -- the triangular numbers T(k) = k (k + 1) / 2 and the squares k^2,
                                  each with its neighbours +- 1, +- 2 -- for all k up to the deciding bound (T(k), k^2 < 2^31; k <= 65 535 /
                                  46 340) through ANSI and Fringe in both tiers; through Noll and XY (O(sqrt j) per call) every k <= 2048 plus a
                                  random sample of joints up to the bound in the quick tier, every triangular joint to the bound in thorough;
                                  the two inverses at both ends and at the centre of every radial order n up to the bound of their image
      forms.*                     class E (argument-form equivalence): the same clauses with the index / the (n, m) pair handed
                                  over as numpy.uint32 / uint64 / int32 / int64 scalars, 0-d integer arrays (signed and unsigned)
                                  and mixed pairs, for every map and both inverses; the set of in-domain forms is the table
                                  FORM_DOMAIN below (fixed from the tree as it is now); keys `C11/<fn>/form:idx=<class>/...`
"""
from math import isqrt

import numpy as np

from ..contracts import attach, detach_all, quiet
from ..refmodels import index_int as ii
from ..util import precision

RULE = ('every index from the first one up to the end of the first complete block past J is evaluated (J = 1e5 quick, '
        '3e6 thorough; blocks = radial orders / Fringe groups / XY degrees, dealt round-robin to the shards); a case is '
        'one block swept with one index type (python int; numpy.int64 for the first 150 blocks and every 7th after; '
        'numpy.int32 / intp / int16 for early blocks whose arithmetic fits the container; every 5th early block once more '
        'under config.precision = 32 — the maps must be exact integers in either configuration), one radial order n of the '
        '(n,m)->j sweep, one isolated large-index probe, one per-map call-order sequence (descending, boundary hops, random) '
        'or one INTERLEAVED sequence over the four maps and the two inverses (same index through all maps, round trips '
        'through the inverses between forward calls, block-boundary hops alternating between maps, random mixes, the '
        'configuration switched 64 -> 32 -> 64 inside the sequence, the same numpy index object re-used, every call in another '
        'argument form); BLOCK JOINTS (class I): the indices T(k) - 2 .. T(k) + 2 and k^2 - 2 .. k^2 + 2 for every k with T(k), k^2 < 2^31 through '
        'ANSI / Fringe (all k in both tiers) and Noll / XY (quick: every k <= 2048 + 160 random joints up to the bound; thorough: every '
        'triangular joint to the bound, squares to k <= 8192 + random), every 16th k under precision 32, and for the two inverses the orders '
        'm = -+n, -+(n-2), |m| <= 3 of every radial order n up to the bound of their image; ARGUMENT FORMS (class E): every complete block below index 2600 (thorough 40000), every valid (n, m) and '
        'isolated large indices once more with the index / pair as numpy.uint32 / uint64 / int32 / int64 scalars, signed and '
        'unsigned 0-d arrays and mixed pairs (table FORM_DOMAIN; 32-bit containers up to 2^27); `evaluations` '
        'counts the individual indices evaluated inside the blocks, `distinct_nontrivial` counts distinct case descriptors '
        '(a lower bound on distinct inputs: per-index counts are in monitor_evaluations); every index is non-trivial')
ASSUMPTIONS = ['the integer-only reference maps are the conventions (they reproduce the published first terms and are '
               'proved mutual inverses / complete by enumeration at start-up; Python int arithmetic and math.isqrt are exact)',
               'indices are Python int, signed numpy integers (int64, intp, int32, int16 where 8 j + 1 fits the container), numpy.uint32 / '
               'uint64 scalars and 0-d integer arrays (the forms the maps accept today and treat as the same index: table FORM_DOMAIN, '
               'established by sweeping every form on the current tree); noll_to_nm raises for unsigned indices on that tree (excluded, '
               'counted); 8 / 16-bit unsigned and floating-point index types are outside the domain',
               'isolated probes above 2^31-1 are explored but never decide (float64 sqrt frontier is outside the stated quantifier)']
REQUIRED = ['noll_to_nm.valid-order', 'fringe_to_nm.valid-order', 'ansi_j_to_nm.valid-order', 'xy_j_to_mn.valid-order',
            'noll.block-rule', 'ansi.block-rule', 'fringe.block-rule', 'xy.block-rule',
            'noll.injective-onto-block', 'ansi.injective-onto-block', 'fringe.injective-onto-block', 'xy.injective-onto-block',
            'noll.parity-rule', 'ansi.formula', 'fringe.formula', 'xy.order-rule', 'ansi.inverse', 'fringe.inverse',
            'noll.eq-integer-reference', 'ansi.eq-integer-reference', 'fringe.eq-integer-reference', 'xy.eq-integer-reference',
            'nm_to_fringe.eq-integer-reference', 'nm_to_ansi_j.eq-integer-reference', 'nm_to_fringe.inverse', 'nm_to_ansi_j.inverse',
            'probe.noll', 'probe.ansi', 'probe.fringe', 'probe.xy',
            'order.noll', 'order.ansi', 'order.fringe', 'order.xy', 'interleaved.forward', 'interleaved.inverse',
            'precision32.sweep', 'narrow-int.sweep', 'forms.forward', 'forms.inverse', 'forms.probe',
            'boundary.noll', 'boundary.ansi', 'boundary.fringe', 'boundary.xy', 'boundary.nm_to_fringe', 'boundary.nm_to_ansi_j']

CTX = None
_INVALID = [False]     # set by a contract when the call just made returned an invalid image


def _as_int(v):
    """Exact integer value of a returned number, or None when it is not integral."""
    if isinstance(v, (bool, np.bool_)):
        return None
    if isinstance(v, (int, np.integer)):
        return int(v)
    if isinstance(v, np.ndarray) and v.ndim == 0 and v.dtype.kind in 'iu':
        return int(v)
    if isinstance(v, (float, np.floating)) and np.isfinite(v) and float(v) == int(v):
        return int(v)
    return None


# ------------------------------------------------------------------------------------------ argument forms (class E)
# Which forms of an index (forward maps) or of an (n, m) pair (inverses) are in the domain.  Established on the tree
# /repo@faa8443 (numpy 2.5) by sweeping j = first .. 3000 and every valid (n, m), n < 300, plus n up to 1e5, in each form and
# comparing with the python-int result:
#   * python int, numpy.int32 / int64 / intp scalars, signed 0-d integer arrays: same images for all four maps and both inverses;
#   * numpy.uint32 / uint64 scalars and unsigned 0-d arrays: same images for fringe_to_nm, xy_j_to_mn, nm_to_fringe, nm_to_ansi_j
#     (m >= 0; a negative m travels as the signed type of the same width, which numpy promotes); noll_to_nm RAISES IndexError for
#     every unsigned index >= 2 (`ms[idx - nseries - 1]` relies on a negative list index) -> out of domain, excluded and counted;
#     ansi_j_to_nm returns m = 2 j - n (n + 2) in the unsigned type, i.e. 2^w - |m| for every sine term: accepted, not
#     documented as unsupported, and wrong -> in the domain, a finding of the current tree (ledger key below);
#   * 32-bit containers: only while the library's own arithmetic fits (8 j + 9 < 2^31, n (n + 2) + |m| < 2^31), as ruled for int32;
#   * 8 / 16-bit integers and floating-point indices stay out of the domain (ruled earlier).
FORM_LIMIT_32 = 2 ** 27                       # largest index handed over in a 32-bit container
FORM_NOLL_UNSIGNED = 'noll_to_nm: unsigned index (raises IndexError on the reference tree: outside the domain)'


def _u(dt):
    return lambda v: dt(v)


def _a(dt):
    return lambda v: np.array(v, dtype=dt)


def _pair(un, sg):
    """(n, m) in an unsigned form: m < 0 cannot be unsigned, it travels as the signed type of the same width."""
    return lambda n, m: (un(n), un(m)) if m >= 0 else (un(n), sg(m))


# label -> (index constructor, (n, m) constructor, form class used in violation keys, 32-bit?)
FORMS = {
    'uint64': (_u(np.uint64), _pair(_u(np.uint64), _u(np.int64)), 'unsigned', False),
    'uint32': (_u(np.uint32), _pair(_u(np.uint32), _u(np.int32)), 'unsigned', True),
    '0d-uint64': (_a(np.uint64), _pair(_a(np.uint64), _a(np.int64)), 'unsigned', False),
    '0d-uint32': (_a(np.uint32), _pair(_a(np.uint32), _a(np.int32)), 'unsigned', True),
    '0d-int64': (_a(np.int64), lambda n, m: (np.array(n, dtype=np.int64), np.array(m, dtype=np.int64)), '0d-array', False),
    '0d-int32': (_a(np.int32), lambda n, m: (np.array(n, dtype=np.int32), np.array(m, dtype=np.int32)), '0d-array', True),
    'int64': (_u(np.int64), lambda n, m: (np.int64(n), np.int64(m)), 'numpy-int', False),
    'int32': (_u(np.int32), lambda n, m: (np.int32(n), np.int32(m)), 'numpy-int', True),
    'int/0d-int64': (int, lambda n, m: (int(n), np.array(m, dtype=np.int64)), 'mixed', False),
    'int32/int64': (_u(np.int32), lambda n, m: (np.int32(n), np.int64(m)), 'mixed', True),
}
FORM_DOMAIN = {name: [f for f in FORMS if not (name == 'noll' and FORMS[f][2] == 'unsigned')] for name in ('noll', 'ansi', 'fringe', 'xy')}


def form_class(v):
    """'' for the canonical forms (python int, signed numpy integer scalar), else the class label of the form; None when the
    form is outside the domain (8 / 16-bit unsigned, non-integers)."""
    if isinstance(v, (bool, np.bool_)):
        return None
    if isinstance(v, int) or isinstance(v, np.signedinteger):
        return ''
    if isinstance(v, np.unsignedinteger):
        return 'unsigned' if v.dtype.itemsize >= 4 else None
    if isinstance(v, np.ndarray) and v.ndim == 0 and v.dtype.kind in 'iu':
        if v.dtype.itemsize < 4 and v.dtype.kind == 'u':
            return None
        return 'unsigned' if v.dtype.kind == 'u' else '0d-array'
    return ''


def _fk(cls):
    return f'form:idx={cls}/' if cls else ''


# ------------------------------------------------------------------------------------------ contracts
def _post_zernike(fn):
    first = 0 if fn == 'ansi_j_to_nm' else 1

    def post(token, args, kwargs, result):
        j = args[0] if args else kwargs.get('idx')
        ji = _as_int(j)
        fc = form_class(j)
        if ji is None or ji < first or fc is None:
            CTX.skip(f'{fn}: index below the first index of the convention / not an integer / 8-16 bit unsigned (outside the domain)')
            return
        if fn == 'noll_to_nm' and fc == 'unsigned':
            CTX.skip(FORM_NOLL_UNSIGNED)
            return
        CTX.observe(fn + '.valid-order')
        ok = isinstance(result, tuple) and len(result) == 2
        n = m = None
        if ok:
            n, m = _as_int(result[0]), _as_int(result[1])
            ok = n is not None and m is not None and ii.valid_nm(n, m)
        if not ok:
            _INVALID[0] = True
            CTX.violation(f'C11/{fn}/{_fk(fc)}invalid-order', f'{fn}(j) is not a valid Zernike order (integers, n >= |m|, n-|m| even)'
                          + (f' for an index handed over as {type(j).__name__} ({fc})' if fc else ''),
                          {'fn': fn, 'j': int(j), 'type': _tname(j), 'class': 'contract'}, got=repr(result))
    return post


def _tname(v):
    return f'0-d {v.dtype}' if isinstance(v, np.ndarray) else type(v).__name__


def _post_xy(token, args, kwargs, result):
    j = args[0] if args else kwargs.get('j')
    fc = form_class(j)
    if _as_int(j) is None or _as_int(j) < 1 or fc is None:
        CTX.skip('xy_j_to_mn: index below 1 / not an integer / 8-16 bit unsigned (outside the domain)')
        return
    CTX.observe('xy_j_to_mn.valid-order')
    ok = isinstance(result, tuple) and len(result) == 2
    if ok:
        a, b = _as_int(result[0]), _as_int(result[1])
        ok = a is not None and b is not None and ii.valid_xy(a, b)
    if not ok:
        _INVALID[0] = True
        CTX.violation(f'C11/xy_j_to_mn/{_fk(fc)}invalid-order', 'xy_j_to_mn(j) is not a pair of non-negative integer exponents',
                      {'fn': 'xy_j_to_mn', 'j': int(j), 'type': _tname(j), 'class': 'contract'}, got=repr(result))


def _post_inverse(fn, first):
    def post(token, args, kwargs, result):
        a = list(args) + [kwargs[k] for k in ('n', 'm') if k in kwargs]
        n_, m_ = (_as_int(a[0]), _as_int(a[1])) if len(a) >= 2 else (None, None)
        if n_ is None or m_ is None or not ii.valid_nm(n_, m_) or form_class(a[0]) is None or form_class(a[1]) is None:
            CTX.skip(f'{fn}: (n, m) is not a valid Zernike order (outside the domain)')
            return
        CTX.observe(fn + '.valid-index')
        j = _as_int(result)
        if j is None or j < first:
            _INVALID[0] = True
            fc = form_class(a[0]) or form_class(a[1])
            CTX.violation(f'C11/{fn}/{_fk(fc).replace("idx=", "nm=")}invalid-index', f'{fn}(n, m) is not an integer index >= {first}',
                          {'fn': fn, 'nm': [n_, m_], 'types': [_tname(a[0]), _tname(a[1])], 'class': 'contract'}, got=repr(result))
    return post


def install_monitors(ctx):
    global CTX
    CTX = ctx
    install()


def install():
    import importlib
    zernike = importlib.import_module('prysm.polynomials.zernike')
    xy = importlib.import_module('prysm.polynomials.xy')      # `prysm.polynomials.xy` the attribute is a function
    for fn in ('noll_to_nm', 'fringe_to_nm', 'ansi_j_to_nm'):
        attach(zernike, fn, post=_post_zernike(fn))
    attach(xy, 'xy_j_to_mn', post=_post_xy)
    attach(zernike, 'nm_to_fringe', post=_post_inverse('nm_to_fringe', 1))
    attach(zernike, 'nm_to_ansi_j', post=_post_inverse('nm_to_ansi_j', 0))


# ------------------------------------------------------------------------------------------ per-map tables
def _tables():
    from prysm import polynomials as P
    return {
        'noll': dict(fn='noll_to_nm', fwd=lambda j: P.noll_to_nm(j), inv=None, ref=ii.noll_to_nm, block=ii.noll_block,
                     target=ii.orders_of_radial_order, blk_of=lambda im: im[0], what='radial order'),
        'ansi': dict(fn='ansi_j_to_nm', fwd=lambda j: P.ansi_j_to_nm(j), inv=lambda n, m: P.nm_to_ansi_j(n, m), ref=ii.ansi_to_nm,
                     block=ii.ansi_block, target=ii.orders_of_radial_order, blk_of=lambda im: im[0], what='radial order'),
        'fringe': dict(fn='fringe_to_nm', fwd=lambda j: P.fringe_to_nm(j), inv=lambda n, m: P.nm_to_fringe(n, m), ref=ii.fringe_to_nm,
                       block=ii.fringe_block, target=ii.orders_of_fringe_group,
                       blk_of=lambda im: (im[0] + abs(im[1])) // 2, what='n+|m| group'),
        'xy': dict(fn='xy_j_to_mn', fwd=lambda j: P.xy_j_to_mn(j), inv=None, ref=ii.xy_j_to_ab, block=ii.xy_block,
                   target=ii.orders_of_xy_degree, blk_of=lambda im: im[0] + im[1], what='degree'),
    }


def _rule_clause(name, j, im, prev):
    """First broken published ordering rule for index j with image im (prev = image of j-1 inside the block or None).
    Returns (monitor, clause-label, text) or None."""
    if name == 'noll':
        n, m = im
        if m != 0 and ((j % 2 == 0) != (m > 0)):
            return 'noll.parity-rule', 'parity-rule', 'Noll: even index <-> cosine (m>0), odd index <-> sine (m<0) is broken'
        if prev is not None and abs(m) < abs(prev[1]):
            return 'noll.parity-rule', 'abs-m-order-rule', 'Noll: |m| decreases inside a radial order'
    elif name == 'ansi':
        n, m = im
        if (n * (n + 2) + m) != 2 * j:
            return 'ansi.formula', 'formula', 'ANSI: j != (n(n+2)+m)/2'
    elif name == 'fringe':
        n, m = im
        g = (n + abs(m)) // 2
        if (g + 1) ** 2 - 2 * abs(m) + (1 if m < 0 else 0) != j:
            return 'fringe.formula', 'formula', 'Fringe: j != (1+(n+|m|)/2)^2 - 2|m| + [m<0]'
    elif name == 'xy':
        if prev is not None and not (im[0] == prev[0] - 1 and im[1] == prev[1] + 1):
            return 'xy.order-rule', 'order-rule', 'XY: inside a degree the x power must descend by one per index'
    return None


RULE_MONITOR = {'noll': 'noll.parity-rule', 'ansi': 'ansi.formula', 'fringe': 'fringe.formula', 'xy': 'xy.order-rule'}


def _eval(ctx, name, T, j, jarg, suffix, desc, form=''):
    """Evaluate one index.  Returns the image as a tuple of ints, or None when the call failed / was invalid.
    `form`: key part 'form:idx=<class>/' when the index is handed over in a non-canonical form."""
    fn = T['fn']
    _INVALID[0] = False
    try:
        res = T['fwd'](jarg)
    except Exception as e:  # in-domain index: any exception is a violation
        ctx.violation(f'C11/{fn}/{form}raises:{type(e).__name__}{suffix}', f'{fn}(j) raises {type(e).__name__}: {str(e)[:120]}', desc, j=j)
        return None
    if _INVALID[0]:
        return None     # already reported by the contract
    return (_as_int(res[0]), _as_int(res[1]))


def _check_index(ctx, name, T, j, jarg, im, prev, b, suffix, desc, jtype, form='', mk_nm=None):
    """All per-index clauses; reports at most one violation (first failing clause in a fixed priority).
    `mk_nm(n, m)`: the arguments of the inverse in the form of the case (default: jtype(n), jtype(m))."""
    fn = T['fn']
    failing = []
    ctx.observe(f'{name}.block-rule')
    if T['blk_of'](im) != b:
        failing.append(('block-rule', f'{fn}: {T["what"]} is not non-decreasing in j (index of block {b} mapped into block {T["blk_of"](im)})'))
    ctx.observe(RULE_MONITOR[name])
    rc = _rule_clause(name, j, im, prev)
    if rc is not None:
        failing.append((rc[1], rc[2]))
    if T['inv'] is not None:
        ctx.observe(f'{name}.inverse')
        _INVALID[0] = False
        try:
            back = _as_int(T['inv'](*(mk_nm(im[0], im[1]) if mk_nm is not None else (jtype(im[0]), jtype(im[1])))))
            if not _INVALID[0] and back != j:
                failing.append(('inverse', f'inverse map does not undo {fn}: inv(fwd(j)) != j'))
        except Exception as e:
            failing.append((f'inverse-raises:{type(e).__name__}', f'inverse of {fn} raises on fwd(j)'))
    ctx.observe(f'{name}.eq-integer-reference')
    ref = T['ref'](j)
    if im != ref:
        failing.append(('ne-integer-reference', f'{fn}(j) differs from the integer-only reference map'))
    if failing:
        ctx.violation(f'C11/{fn}/{form}{failing[0][0]}{suffix}', failing[0][1], desc, j=j, got=list(im), ref=list(ref),
                      all_failing=[f[0] for f in failing])
        return False
    return True


# ------------------------------------------------------------------------------------------ workload
def run(ctx):
    global CTX
    CTX = ctx
    ii.selftest(80)
    install()
    try:
        _run(ctx)
    finally:
        detach_all()


def _nblocks(T, J):
    b = 0
    while T['block'](b)[1] < J:
        b += 1
    return b + 1


def _run(ctx):
    tables = _tables()
    J = ctx.pick(100_000, 3_000_000)
    swept = {}

    # --- 1. exhaustive block sweeps of the forward maps -------------------------------------------------
    for name, T in tables.items():
        fn = T['fn']
        nb = _nblocks(T, J)
        swept[name] = [T['block'](0)[0], T['block'](nb - 1)[1]]
        for b in range(nb):
            if not ctx.mine(b):
                continue
            lo, hi = T['block'](b)
            types = [('int', int, 64)]
            if b < 150 or b % 7 == 0:
                types.append(('int64', np.int64, 64))
            if b < 150 and b % 3 == 1:
                types.append(('int32', np.int32, 64))          # 8 j + 1 < 2^31 for every index of these blocks
            if b < 150 and b % 3 == 2:
                types.append(('intp', np.intp, 64))
            if 8 * hi + 16 < 2 ** 15 and b % 2 == 0:
                types.append(('int16', np.int16, 64))
            if b < 200 and b % 5 == 3 or (b % 97 == 0):
                types.append(('int', int, 32))                 # the same block under config.precision = 32
                types.append(('int64', np.int64, 32))
            for tname, jtype, prec in types:
                sfx = '' if prec == 64 else '/precision32'
                desc = {'wl': 'sweep', 'map': name, 'block': b, 'j': [lo, hi], 'type': tname, 'precision': prec,
                        'class': f'sweep:{name}:{tname}' + ('' if prec == 64 else ':p32')}
                ctx.case(desc)
                ctx.evaluations += hi - lo      # the case stands for hi-lo+1 evaluated indices
                if prec == 32:
                    ctx.observe('precision32.sweep')
                if tname in ('int32', 'intp', 'int16'):
                    ctx.observe('narrow-int.sweep')
                seen = {}
                prev = None
                clean = True
                with precision(prec):
                    for j in range(lo, hi + 1):
                        im = _eval(ctx, name, T, j, jtype(j), sfx, desc)
                        if im is None:
                            clean = False
                            prev = None
                            continue
                        ok = _check_index(ctx, name, T, j, jtype(j), im, prev, b, sfx, desc, jtype)
                        clean = clean and ok
                        ctx.observe(f'{name}.injective-onto-block')
                        if im in seen:
                            clean = False
                            ctx.violation(f'C11/{fn}/duplicate-image', f'{fn} is not one-to-one: two indices have the same image',
                                          desc, j=j, other=seen[im], image=list(im))
                        else:
                            seen[im] = j
                        prev = im
                # surjectivity onto the complete block (reported on its own only when nothing else explains it)
                missing = T['target'](b) - set(seen)
                if missing and clean:
                    ctx.violation(f'C11/{fn}/not-surjective', f'{fn}: a valid order of a completed block is never produced',
                                  desc, missing=sorted(missing)[:4])
    ctx.note('exhaustive_index_ranges', swept)

    # --- 1b. class E: the same sweeps / probes with the index in every in-domain argument form --------------------
    foreign_traffic(ctx)           # class F: the other consumers of the index maps and of the shared helpers first
    index_forms(ctx, tables)

    # --- 2. (n, m) -> j -> (n, m) for every valid order up to N ----------------------------------------------
    from prysm import polynomials as P
    N = ctx.pick(600, 2000)
    for n in range(N + 1):
        if not ctx.mine(n):
            continue
        jtype = np.int64 if n % 5 == 0 else int
        # class E: every in-domain form of the (n, m) pair for the first orders, one rotating form for every order after them
        fnames = list(FORMS)
        extra = fnames if n < 40 else [fnames[(n // 3) % len(fnames)]] if n % 3 == 1 else []
        for flabel in [None] + extra:
            if flabel is None:
                mk, fkey, tn = (lambda n_, m_: (jtype(n_), jtype(m_))), '', jtype.__name__
            else:
                mk, fkey, tn = FORMS[flabel][1], f'form:nm={FORMS[flabel][2]}/', flabel
            desc = {'wl': 'nm->j', 'n': n, 'type': tn, 'class': f'nm->j:{tn}'}
            ctx.case(desc)
            ctx.evaluations += n
            for m in range(-n, n + 1, 2):
                for fn, inv, ref, back in (('nm_to_fringe', P.nm_to_fringe, ii.nm_to_fringe, P.fringe_to_nm),
                                           ('nm_to_ansi_j', P.nm_to_ansi_j, ii.nm_to_ansi, P.ansi_j_to_nm)):
                    _INVALID[0] = False
                    if flabel is not None:
                        ctx.observe('forms.inverse')
                    try:
                        j = inv(*mk(n, m))
                    except Exception as e:
                        ctx.violation(f'C11/{fn}/{fkey}raises:{type(e).__name__}', f'{fn}(n, m) raises {type(e).__name__}: {str(e)[:120]}', desc, nm=[n, m])
                        continue
                    if _INVALID[0]:
                        continue
                    j = _as_int(j)
                    ctx.observe(fn + '.eq-integer-reference')
                    if j != ref(n, m):
                        ctx.violation(f'C11/{fn}/{fkey}ne-integer-reference', f'{fn}(n, m) differs from the published formula (integer arithmetic)',
                                      desc, nm=[n, m], got=j, ref=ref(n, m))
                        continue
                    if flabel is not None:
                        continue          # the way back is a forward map: its forms are swept in index_forms
                    ctx.observe(fn + '.inverse')
                    _INVALID[0] = False
                    try:
                        nm = back(j)
                    except Exception as e:
                        ctx.violation(f'C11/{fn}/roundtrip-raises:{type(e).__name__}', f'{back.__name__}({fn}(n, m)) raises', desc, nm=[n, m], j=j)
                        continue
                    if _INVALID[0]:
                        continue
                    if (_as_int(nm[0]), _as_int(nm[1])) != (n, m):
                        ctx.violation(f'C11/{fn}/roundtrip', f'{back.__name__}({fn}(n, m)) != (n, m)', desc, nm=[n, m], j=j, got=repr(nm))
    ctx.note('nm_exhaustive', f'every valid (n, m) with n <= {N}')

    # --- 3. isolated large-index probes (deciding up to 2^31 - 1) -------------------------------------------
    rng = ctx.rng('c11-probes')
    JMAX = 2 ** 31 - 1
    nprobe = ctx.share(ctx.pick(2000, 300_000))
    slow_budget = {'noll': ctx.pick(40, 400), 'xy': ctx.pick(40, 400)}   # O(sqrt j) per call: bounded number of big ones
    names = list(tables)
    for i in range(nprobe):
        name = names[i % 4]
        T = tables[name]
        fam = ['block-edge', 'square', 'pow2', 'random'][int(rng.integers(4))]
        top = JMAX
        if name in ('noll', 'xy'):
            # cost grows like sqrt(j): most probes below 2e7, a bounded number up to 2^31-1
            if slow_budget[name] > 0 and rng.random() < 0.05:
                slow_budget[name] -= 1
            else:
                top = 20_000_000
        if fam == 'block-edge':
            k = int(np.exp(rng.uniform(np.log(400), np.log(np.sqrt(2.0 * top)))))
            j0 = k * (k + 1) // 2
        elif fam == 'square':
            k = int(np.exp(rng.uniform(np.log(300), np.log(np.sqrt(1.0 * top)))))
            j0 = k * k
        elif fam == 'pow2':
            j0 = 2 ** int(rng.integers(17, int(np.log2(top)) + 1))
        else:
            j0 = int(np.exp(rng.uniform(np.log(J), np.log(top))))
        j0 = max(3, min(j0, top - 2))
        desc = {'wl': 'probe', 'map': name, 'j': j0, 'family': fam, 'class': f'probe:{name}:{fam}'}
        ctx.case(desc)
        ctx.observe(f'probe.{name}')
        seen = {}
        pprec = 32 if i % 8 >= 6 else 64          # a quarter of the probes under config.precision = 32 (exactness is demanded all the same)
        desc['precision'] = pprec
        psfx = '/probe' if pprec == 64 else '/probe/precision32'
        for j in (j0 - 1, j0, j0 + 1, j0 + 2):
            with precision(pprec):
                im = _eval(ctx, name, T, j, j, psfx, desc)
                if im is None:
                    continue
                b = T['blk_of'](T['ref'](j))
                _check_index(ctx, name, T, j, j, im, None, b, psfx, desc, int)
            if im in seen:
                ctx.violation(f'C11/{T["fn"]}/duplicate-image{psfx}', f'{T["fn"]} is not one-to-one on neighbouring large indices',
                              desc, j=j, other=seen[im], image=list(im))
            seen[im] = j

    # --- 3a. class I: EVERY block boundary +- 2 up to the deciding bound (structural sweep, not a sample) -----------
    boundaries(ctx, tables, P)

    # --- 3b. call-order independence: the image of j must not depend on which indices were asked before ----------
    # (a map that keeps a scan position / memo between calls is only exposed by non-monotone query sequences:
    #  descending sweeps, hops across block boundaries right after a call in the block above, random order)
    hrng = ctx.rng('c11-order')
    JH = ctx.pick(6000, 60000)
    for name in names:
        T = tables[name]
        first = 1 if name != 'ansi' else 0
        seqs = []
        lo = first + ctx.shard * (JH // ctx.nshards)
        hi = lo + JH // ctx.nshards
        seqs.append(('descending', list(range(hi, lo - 1, -1))))
        hops = []
        for k in range(2, ctx.pick(120, 500)):
            tri = k * (k + 1) // 2
            sq = k * k
            for base in (tri, sq):
                # a call above the boundary, then the boundary itself and its neighbours, then far away, then back
                hops += [base + k, base, base - 1, base + 1, base + 2 * k + 1, base - k, base]
        hops = [j for j in hops if j >= first]
        seqs.append(('boundary-hops', hops[ctx.shard::ctx.nshards] if ctx.nshards > 1 else hops))
        seqs.append(('random-order', [int(v) for v in hrng.integers(first, JH * 4, ctx.pick(3000, 30000) // ctx.nshards)]))
        for label, seq in seqs:
            desc = {'wl': 'call-order', 'map': name, 'order': label, 'n_calls': len(seq), 'first': seq[:6], 'class': f'order:{name}:{label}'}
            ctx.case(desc)
            prev_j = None
            for j in seq:
                ctx.observe(f'order.{name}')
                try:
                    r = T['fwd'](j)
                    im = (_as_int(r[0]), _as_int(r[1]))
                except Exception as e:
                    ctx.violation(f'C11/{T["fn"]}/call-order/raises:{type(e).__name__}', f'{T["fn"]}(j) raises after an earlier call with a different index',
                                  desc, j=j, previous_call=prev_j)
                    prev_j = j
                    continue
                want = T['ref'](j)
                if im != tuple(want):
                    ctx.violation(f'C11/{T["fn"]}/call-order/{label}', f'{T["fn"]}(j) depends on the indices asked before it (non-monotone query sequence)',
                                  desc, j=j, previous_call=prev_j, got=list(im), want=list(want))
                prev_j = j

    # --- 3c. interleaving the four maps and the two inverses ------------------------------------------------------
    interleaved(ctx, tables, P)

    # documented rejection (out of domain, counted): xy_j_to_mn(j < 1) raises ValueError
    if ctx.shard == 0:
        with quiet():
            try:
                P.xy_j_to_mn(0)
            except ValueError:
                ctx.skip('rejected:ValueError xy_j_to_mn(0)')

    # --- 4. float-sqrt frontier: explored, reported as a note, never a verdict ---------------------------------
    if ctx.shard == 0:
        frng = np.random.default_rng(11)
        out = {}
        for name in ('ansi', 'fringe'):
            T = tables[name]
            bad, tot, first = 0, 0, None
            for e in range(32, 53):
                for _ in range(ctx.pick(20, 200)):
                    target = int(2.0 ** (e + frng.random()))
                    if name == 'fringe':
                        k = isqrt(target)
                        base = k * k
                    else:
                        k = isqrt(2 * target)
                        base = k * (k + 1) // 2
                    for j in (base - 1, base, base + 1):
                        if j >= 2 ** 53 or j <= JMAX:
                            continue
                        tot += 1
                        with quiet():       # non-deciding exploration: contracts bypassed
                            try:
                                r = T['fwd'](j)
                                r = (_as_int(r[0]), _as_int(r[1]))
                            except Exception:
                                r = None
                        if r != T['ref'](j):
                            bad += 1
                            first = j if first is None else min(first, j)
            out[name] = {'probes_2^31..2^53': tot, 'mismatches': bad, 'smallest_mismatching_index': first}
            if bad:
                ctx.event(f'float-frontier-mismatch:{name}', bad)
        ctx.note('float_sqrt_frontier_exploration_non_deciding', out)

    _merge_suffix(ctx, '/precision32')
    ctx.exhaustive = True


JMAX = 2 ** 31 - 1
K_TRI = 65535          # largest k with T(k) + 2 <= 2^31 - 1   (T(65535) = 2 147 450 880)
K_SQ = 46340           # largest k with k^2 + 2 <= 2^31 - 1     (46340^2  = 2 147 395 600)
SLOW = ('noll', 'xy')  # maps whose cost per call grows like sqrt(j) on the reference tree (python loops over the row)


def _boundary_case(ctx, name, T, family, k, js, prec):
    """One structural case: the indices `js` (a block boundary and its neighbours) through map `name`."""
    desc = {'wl': 'boundary', 'map': name, 'family': family, 'k': k, 'precision': prec, 'class': f'boundary:{name}:{family}'}
    ctx.case(desc)
    ctx.evaluations += len(js) - 1
    sfx = '/boundary' if prec == 64 else '/boundary/precision32'
    seen = {}
    with precision(prec):
        for j in js:
            ctx.observe(f'boundary.{name}')
            im = _eval(ctx, name, T, j, j, sfx, desc)
            if im is None:
                continue
            _check_index(ctx, name, T, j, j, im, None, T['blk_of'](T['ref'](j)), sfx, desc, int)
            if im in seen:
                ctx.violation(f'C11/{T["fn"]}/duplicate-image{sfx}', f'{T["fn"]} is not one-to-one on the indices around a block boundary',
                              desc, j=j, other=seen[im], image=list(im))
            seen[im] = j


def boundaries(ctx, tables, P):
    """Class I (structural sweep).  The maps are piecewise: one piece per block, the pieces meet at the triangular numbers
    T(k) = k (k + 1) / 2 (Noll, ANSI, XY; ANSI starts at 0 so its blocks end at T(k) - 1) and at the squares k^2 (Fringe).  A table
    with a fence-post, a rounding guard or a branch `if idx < LIMIT` is wrong at ONE of these joints and nowhere else, so the
    joints are enumerated instead of sampled: for every k up to the deciding bound (T(k), k^2 < 2^31) the indices T(k) - 2 .. T(k) + 2
    and k^2 - 2 .. k^2 + 2 go through every map and are judged by the per-index clauses (valid order, block, rule, inverse,
    integer reference) and pairwise distinctness.  ANSI / Fringe are O(1) per call: all k in either tier.  Noll / XY walk the
    row (O(sqrt j) per call): quick = every k <= 2048 (triangular and squares) + a random sample of k beyond, thorough = every
    triangular joint to the bound, squares to k <= 8192 + a random sample beyond.  Every 16th k runs under config.precision = 32.
    The inverses get the same treatment in (n, m) space: for every n up to the bound the orders at the two ends of the radial
    order (m = -+n, -+(n - 2)) and at its centre (|m| <= 3)."""
    rng = ctx.rng('c11-boundaries')
    first = FWD_FIRST
    k_slow_all = ctx.pick(2048, K_TRI)
    k_slow_sq = ctx.pick(2048, 8192)
    n_slow_rand = ctx.share(ctx.pick(160, 1600))
    for name, T in tables.items():
        slow = name in SLOW
        ktri = k_slow_all if slow else K_TRI
        ksq = k_slow_sq if slow else K_SQ
        for k in range(1, max(ktri, ksq) + 1):
            if not ctx.mine(k):
                continue
            prec = 32 if k % 16 == 5 else 64
            if k <= ktri:
                t = k * (k + 1) // 2
                _boundary_case(ctx, name, T, 'triangular', k, [j for j in range(t - 2, t + 3) if first[name] <= j <= JMAX], prec)
            if k <= ksq:
                s = k * k
                _boundary_case(ctx, name, T, 'square', k, [j for j in range(s - 2, s + 3) if first[name] <= j <= JMAX], prec)
        if slow:
            # beyond the exhaustive part: random joints up to the bound (cost ~ k per call)
            for i in range(n_slow_rand):
                if i % 2 == 0 and ktri < K_TRI:
                    k = int(rng.integers(ktri + 1, K_TRI + 1))
                    t = k * (k + 1) // 2
                    _boundary_case(ctx, name, T, 'triangular', k, list(range(t - 2, t + 3)), 64)
                elif ksq < K_SQ:
                    k = int(rng.integers(ksq + 1, K_SQ + 1))
                    s = k * k
                    _boundary_case(ctx, name, T, 'square', k, list(range(s - 2, s + 3)), 64)
    # the two inverses at the ends and at the centre of every radial order up to the bound of their image
    for fn, inv, ref, back, nmax in (('nm_to_fringe', P.nm_to_fringe, ii.nm_to_fringe, P.fringe_to_nm, K_SQ - 1),
                                     ('nm_to_ansi_j', P.nm_to_ansi_j, ii.nm_to_ansi, P.ansi_j_to_nm, K_TRI - 1)):
        for n in range(0, nmax + 1):
            if not ctx.mine(n):
                continue
            ms = sorted({m for m in (-n, -n + 2, n - 2, n, n % 2, -(n % 2), 2 + n % 2, -2 - n % 2) if abs(m) <= n and (n - abs(m)) % 2 == 0})
            desc = {'wl': 'nm-boundary', 'fn': fn, 'n': n, 'class': f'nm-boundary:{fn}'}
            ctx.case(desc)
            ctx.evaluations += len(ms) - 1
            for m in ms:
                ctx.observe(f'boundary.{fn}')
                _INVALID[0] = False
                try:
                    j = _as_int(inv(n, m))
                except Exception as e:
                    ctx.violation(f'C11/{fn}/raises:{type(e).__name__}/boundary', f'{fn}(n, m) raises {type(e).__name__}: {str(e)[:120]}', desc, nm=[n, m])
                    continue
                if _INVALID[0]:
                    continue
                if j != ref(n, m):
                    ctx.violation(f'C11/{fn}/ne-integer-reference/boundary', f'{fn}(n, m) differs from the published formula (integer arithmetic) '
                                  'at the end / centre of a radial order', desc, nm=[n, m], got=j, ref=ref(n, m))
                    continue
                _INVALID[0] = False
                try:
                    nm = back(j)
                    nm = (_as_int(nm[0]), _as_int(nm[1]))
                except Exception as e:
                    ctx.violation(f'C11/{fn}/roundtrip-raises:{type(e).__name__}/boundary', f'{back.__name__}({fn}(n, m)) raises', desc, nm=[n, m], j=j)
                    continue
                if not _INVALID[0] and nm != (n, m):
                    ctx.violation(f'C11/{fn}/roundtrip/boundary', f'{back.__name__}({fn}(n, m)) != (n, m)', desc, nm=[n, m], j=j, got=list(nm))
    _merge_suffix(ctx, '/precision32')
    _merge_suffix(ctx, '/boundary')
    _merge_suffix(ctx, '/boundary/precision32')
    # the isolated large-index probes (section 3) hit joints too: the same clause failing there and here is one defect, one key
    for k_ in [k_ for k_ in ctx.violations if '/boundary' in k_]:
        twin = k_.replace('/boundary', '/probe', 1)
        if twin in ctx.violations:
            v_ = ctx.violations.pop(k_)
            ctx.violations[twin]['count'] += v_['count']
    ctx.note('block_boundaries', {'fast_maps(ansi,fringe)': f'every T(k)+-2, k <= {K_TRI}, and every k^2+-2, k <= {K_SQ}',
                                  'slow_maps(noll,xy)': f'every T(k)+-2, k <= {k_slow_all}, every k^2+-2, k <= {k_slow_sq}, + random joints to the bound',
                                  'inverses': f'ends and centre of every radial order n <= {K_SQ - 1} (Fringe) / {K_TRI - 1} (ANSI)'})


def foreign_traffic(ctx):
    """Class F prelude: the public routines that *consume* the index maps or share helpers with them (polynomial evaluation by
    (n, m) / (m, n) lists, names, magnitude-angle conversion, Interferogram.pvr's Fringe fit), with hostile arguments (single
    precision, large and unsorted orders, numpy index types).  Nothing here is judged; whatever it leaves behind in module
    state is met by the index workloads that follow.  A failure of a foreign routine is only counted."""
    from prysm import polynomials as P
    from prysm.coordinates import make_xy_grid, cart_to_polar
    from prysm.interferogram import Interferogram
    rng = ctx.rng('c11-foreign')
    with quiet():
        for prec in (32, 64):
            with precision(prec):
                try:
                    x, y = make_xy_grid(24, diameter=2)
                    r, t = cart_to_polar(x, y)
                    js = [int(j) for j in rng.integers(1, 300, 24)]
                    P.zernike_nm_seq([P.noll_to_nm(j) for j in sorted(js, reverse=True)], r, t)
                    P.zernike_nm_seq([P.fringe_to_nm(np.int64(j)) for j in js], r, t, norm=False)
                    P.zernike_nm_der_seq([P.ansi_j_to_nm(j) for j in js[:6]], r, t)
                    P.xy_seq([P.xy_j_to_mn(j) for j in js], x, y)
                    for j in js[:8]:
                        P.nm_to_name(*P.noll_to_nm(j))
                    P.zernikes_to_magnitude_angle([(*P.fringe_to_nm(j), float(j)) for j in range(1, 37)])
                    P.zernikes_to_magnitude_angle_nmkey([(*P.ansi_j_to_nm(j), 1.0) for j in range(0, 21)])
                    Interferogram(rng.standard_normal((24, 24)), dx=0.1).pvr()
                    ctx.event('foreign-traffic prelude completed')
                except Exception as e:  # noqa  (not a routine of this property)
                    ctx.event(f'foreign-traffic prelude: {type(e).__name__} (not judged)')


def index_forms(ctx, tables):
    """Class E.  Every in-domain argument form of the index (FORM_DOMAIN) through every forward map: complete early blocks
    (so that injectivity / surjectivity are decided per form as well), then isolated large indices up to the limit of the
    container; the inverse is called with the image in the same form.  A failure is keyed `C11/<fn>/form:idx=<class>/<clause>`
    with the class of the form (unsigned / 0d-array / numpy-int / mixed), so one defect gives one key."""
    rng = ctx.rng('c11-forms')
    top_blocks = ctx.pick(2600, 40000)          # blocks whose last index is below this are swept completely in every form
    k = -1
    for name, T in tables.items():
        fn = T['fn']
        b = -1
        while True:
            b += 1
            lo, hi = T['block'](b)
            if hi > top_blocks:
                break
            for flabel in FORM_DOMAIN[name]:
                k += 1
                if not ctx.mine(k):
                    continue
                # quick: every form on the first 12 blocks, afterwards each block in two rotating forms
                if ctx.quick and b >= 12 and (FORM_DOMAIN[name].index(flabel) - b) % 5 not in (0, 2):
                    continue
                mkj, mknm, fcls, _ = FORMS[flabel]
                fkey = f'form:idx={fcls}/'
                desc = {'wl': 'index-forms', 'map': name, 'block': b, 'j': [lo, hi], 'type': flabel, 'class': f'forms:{name}:{flabel}'}
                ctx.case(desc)
                ctx.evaluations += hi - lo
                seen, prev, clean = {}, None, True
                for j in range(lo, hi + 1):
                    ctx.observe('forms.forward')
                    im = _eval(ctx, name, T, j, mkj(j), '', desc, form=fkey)
                    if im is None:
                        clean, prev = False, None
                        continue
                    ok = _check_index(ctx, name, T, j, mkj(j), im, prev, b, '', desc, int, form=fkey, mk_nm=mknm)
                    clean = clean and ok
                    if im in seen:
                        clean = False
                        ctx.violation(f'C11/{fn}/{fkey}duplicate-image', f'{fn} is not one-to-one: two indices have the same image', desc,
                                      j=j, other=seen[im], image=list(im))
                    else:
                        seen[im] = j
                    prev = im
                missing = T['target'](b) - set(seen)
                if missing and clean:
                    ctx.violation(f'C11/{fn}/{fkey}not-surjective', f'{fn}: a valid order of a completed block is never produced', desc,
                                  missing=sorted(missing)[:4])
    for name in tables:
        if 'uint64' not in FORM_DOMAIN[name] and ctx.shard == 0:
            ctx.skip(FORM_NOLL_UNSIGNED, 4)
    # isolated large indices in every form (32-bit containers: while the library's own arithmetic fits)
    nprobe = ctx.share(ctx.pick(1600, 60000))
    names = list(tables)
    for i in range(nprobe):
        name = names[i % 4]
        T = tables[name]
        dom = FORM_DOMAIN[name]
        flabel = dom[(i // 4) % len(dom)]
        mkj, mknm, fcls, narrow = FORMS[flabel]
        top = FORM_LIMIT_32 if narrow else 2 ** 31 - 1
        if name in ('noll', 'xy'):
            top = min(top, 3_000_000)           # O(sqrt j) python loops per call
        fam = ['block-edge', 'square', 'pow2', 'random'][int(rng.integers(4))]
        if fam == 'block-edge':
            kk = int(np.exp(rng.uniform(np.log(30), np.log(np.sqrt(2.0 * top)))))
            j0 = kk * (kk + 1) // 2
        elif fam == 'square':
            kk = int(np.exp(rng.uniform(np.log(30), np.log(np.sqrt(1.0 * top)))))
            j0 = kk * kk
        elif fam == 'pow2':
            j0 = 2 ** int(rng.integers(8, int(np.log2(top)) + 1))
        else:
            j0 = int(np.exp(rng.uniform(np.log(2000), np.log(top))))
        j0 = max(3, min(j0, top - 3))
        desc = {'wl': 'index-forms-probe', 'map': name, 'j': j0, 'family': fam, 'type': flabel, 'class': f'forms-probe:{name}:{flabel}'}
        ctx.case(desc)
        fkey = f'form:idx={fcls}/'
        for j in (j0 - 1, j0, j0 + 1, j0 + 2):
            ctx.observe('forms.probe')
            im = _eval(ctx, name, T, j, mkj(j), '/probe', desc, form=fkey)
            if im is None:
                continue
            _check_index(ctx, name, T, j, mkj(j), im, None, T['blk_of'](T['ref'](j)), '/probe', desc, int, form=fkey, mk_nm=mknm)
    _merge_suffix(ctx, '/probe', only_forms=True)
    ctx.note('index_forms', {'forms': {n_: FORM_DOMAIN[n_] for n_ in tables}, 'complete_blocks_up_to_index': top_blocks, 'probes': nprobe,
                             'out_of_domain': FORM_NOLL_UNSIGNED})


def _merge_suffix(ctx, sfx, only_forms=False):
    """A key `k + sfx` whose plain form `k` was also observed in this process is the same defect (it does not depend on
    the configuration): fold it into the plain key."""
    for k in [k for k in ctx.violations if sfx in k and (not only_forms or '/form:' in k)]:
        plain = k.replace(sfx, '', 1)
        if plain in ctx.violations:
            v = ctx.violations.pop(k)
            ctx.violations[plain]['count'] += v['count']


FWD_FIRST = {'noll': 1, 'ansi': 0, 'fringe': 1, 'xy': 1}


def _form_history_key(ctx, fname, fc, tail):
    """Key of a failure inside an interleaved sequence.  Canonical index forms: keyed by the call made immediately before.  A
    non-canonical form (class E): the key of the form sweep when that already fired in this process for the same function
    and form class (it is then not a history effect), else one key per function and form class."""
    if not fc:
        return f'C11/{fname}/call-order/interleaved/{tail}'
    arg = 'nm' if fname.startswith('nm_to') else 'idx'
    pre = f'C11/{fname}/form:{arg}={fc}/'
    for k in ctx.violations:
        if k.startswith(pre) and '/call-order/' not in k:
            return k
    return pre + 'call-order/interleaved'


def interleaved(ctx, tables, P):
    """Class B: histories that interleave noll_to_nm, ansi_j_to_nm, fringe_to_nm, xy_j_to_mn, nm_to_fringe and nm_to_ansi_j.
    Every single result is compared with the integer reference; a failure is keyed by the function that returned it and
    the function called immediately before it (state shared between two maps shows up as exactly that pair)."""
    names = list(tables)
    inverses = {'nm_to_fringe': (P.nm_to_fringe, ii.nm_to_fringe), 'nm_to_ansi_j': (P.nm_to_ansi_j, ii.nm_to_ansi)}
    rng = ctx.rng('c11-interleaved')
    nseq = ctx.pick(48, 1600)
    length = ctx.pick(400, 1500)
    kinds = ['same-index-all-maps', 'roundtrip-between-forwards', 'boundary-hops-alternating', 'random-mix', 'precision-switch',
             'descending-alternating', 'same-object-reused', 'big-then-small', 'index-forms-mixed']
    for q in range(nseq):
        if not ctx.mine(q):
            continue
        kind = kinds[q % len(kinds)]
        g = np.random.default_rng(ctx.subseed(rng))
        ops = []          # (function label, args, precision)
        top = int(10 ** g.uniform(2, 5.3))

        def fwd_all(j, prec=64, order=None):
            for nm in (order or names):
                ops.append((nm, (max(j, FWD_FIRST[nm]),), prec))
        if kind == 'same-index-all-maps':
            for _ in range(length // 4):
                fwd_all(int(g.integers(1, top)), order=[names[i] for i in g.permutation(4)])
        elif kind == 'roundtrip-between-forwards':
            for _ in range(length // 4):
                j = int(g.integers(1, top))
                nm = names[int(g.integers(4))]
                ops.append((nm, (max(j, FWD_FIRST[nm]),), 64))
                n, m = ii.fringe_to_nm(max(1, j)) if g.random() < 0.5 else ii.ansi_to_nm(j)
                inv = 'nm_to_fringe' if g.random() < 0.5 else 'nm_to_ansi_j'
                ops.append((inv, (n, m), 64))
                nm2 = names[int(g.integers(4))]
                ops.append((nm2, (max(j + int(g.integers(-2, 3)), FWD_FIRST[nm2]),), 64))
                ops.append(('nm_to_ansi_j' if inv == 'nm_to_fringe' else 'nm_to_fringe', (n, -m if g.random() < 0.5 else m), 64))
        elif kind == 'boundary-hops-alternating':
            for _ in range(length // 6):
                k = int(g.integers(2, int((2 * top) ** 0.5) + 3))
                base = k * (k + 1) // 2 if g.random() < 0.5 else k * k
                a, b = [names[i] for i in g.permutation(4)[:2]]
                for nm, j in ((a, base + k), (b, base), (a, base), (b, base - 1), (a, base + 1), (b, base + 2 * k + 1)):
                    ops.append((nm, (max(j, FWD_FIRST[nm]),), 64))
        elif kind == 'random-mix':
            for _ in range(length):
                if g.random() < 0.25:
                    n = int(g.integers(0, 400))
                    m = int(g.integers(0, n // 2 + 1)) * 2 + n % 2
                    m = min(m, n) * (1 if g.random() < 0.5 else -1)
                    if (n - abs(m)) % 2:
                        m = n
                    ops.append((['nm_to_fringe', 'nm_to_ansi_j'][int(g.integers(2))], (n, m), 64))
                else:
                    nm = names[int(g.integers(4))]
                    ops.append((nm, (int(g.integers(FWD_FIRST[nm], top)),), 64))
        elif kind == 'precision-switch':
            for _ in range(length // 12):
                j = int(g.integers(1, top))
                fwd_all(j, 32)
                fwd_all(j, 64)
                fwd_all(j + 1, 32 if g.random() < 0.5 else 64, order=[names[i] for i in g.permutation(4)])
        elif kind == 'descending-alternating':
            j = top
            while j > max(1, top - length // 2):
                a, b = names[j % 4], names[(j + 1 + j // 4) % 4]
                ops.append((a, (max(j, FWD_FIRST[a]),), 64))
                ops.append((b, (max(j - 1, FWD_FIRST[b]),), 64))
                j -= 1
        elif kind == 'same-object-reused':
            for _ in range(length // 8):
                obj = np.int64(int(g.integers(1, top)))          # ONE numpy index object through every map, twice
                for nm in names + names[::-1]:
                    ops.append((nm, (obj,), 64))
        elif kind == 'index-forms-mixed':
            # class E x B: every call hands its index / (n, m) pair over in another in-domain form
            fl_all = list(FORMS)
            for _ in range(length):
                if g.random() < 0.2:
                    n = int(g.integers(0, 400))
                    m = (int(g.integers(0, n // 2 + 1)) * 2 + n % 2) * (1 if g.random() < 0.5 else -1)
                    if abs(m) > n:
                        m = n
                    ops.append((['nm_to_fringe', 'nm_to_ansi_j'][int(g.integers(2))], FORMS[fl_all[int(g.integers(len(fl_all)))]][1](n, m), 64))
                else:
                    nm = names[int(g.integers(4))]
                    dom = FORM_DOMAIN[nm]
                    ops.append((nm, (FORMS[dom[int(g.integers(len(dom)))]][0](int(g.integers(FWD_FIRST[nm], top))),), 64))
        else:  # big-then-small: a large index (tables / memos grow), then small ones in every map
            for _ in range(length // 9):
                big = int(g.integers(top, 40 * top + 2))
                nm = names[int(g.integers(4))]
                ops.append((nm, (big,), 64))
                j = int(g.integers(1, 60))
                fwd_all(j)
                fwd_all(big - 1, order=[names[int(g.integers(4))]])
        desc = {'wl': 'interleaved', 'kind': kind, 'seq': q, 'n_calls': len(ops), 'first': [[o[0], [int(a) for a in o[1]]] for o in ops[:6]],
                'class': f'interleaved:{kind}'}
        ctx.case(desc)
        ctx.evaluations += len(ops) - 1
        prev = None
        cur_prec = 64
        for fnl, args, prec in ops:
            with precision(prec):
                if fnl in inverses:
                    f, ref = inverses[fnl]
                    fname = fnl
                    ctx.observe('interleaved.inverse')
                    want = ref(*[int(a) for a in args])
                else:
                    T = tables[fnl]
                    f, fname = T['fwd'], T['fn']
                    ctx.observe('interleaved.forward')
                    want = tuple(T['ref'](int(args[0])))
                _INVALID[0] = False
                try:
                    res = f(*args)
                    got = _as_int(res) if fnl in inverses else (_as_int(res[0]), _as_int(res[1]))
                except Exception as e:
                    fc = next((c for c in (form_class(a) for a in args) if c), '')
                    ctx.violation(_form_history_key(ctx, fname, fc, f'raises:{type(e).__name__}'), f'{fname} raises inside an interleaved sequence of '
                                  'index-map calls', desc, args=[int(a) for a in args], types=[_tname(a) for a in args], previous_call=prev)
                    prev = [fname, [int(a) for a in args]]
                    continue
            if got != want and not _INVALID[0]:
                after = prev[0] if prev else 'nothing'
                sw = '/precision-switched' if prec != cur_prec else ''
                fc = next((c for c in (form_class(a) for a in args) if c), '')
                ctx.violation(_form_history_key(ctx, fname, fc, f'after-{after}{sw}'), f'{fname} returns a wrong order / index inside an interleaved '
                              f'sequence (immediately after {after})', desc, args=[int(a) for a in args], previous_call=prev,
                              got=list(got) if isinstance(got, tuple) else got, want=list(want) if isinstance(want, tuple) else want,
                              precision=prec)
            prev = [fname, [int(a) for a in args]]
            cur_prec = prec
    ctx.note('interleaved', f'{nseq} interleaved sequences of ~{length} calls over the four forward maps and the two inverses ({len(kinds)} kinds)')


def replay(ctx, rec):
    run(ctx)
