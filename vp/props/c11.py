"""C11 — Zernike (Noll, Fringe, ANSI) and XY single-index conventions are bijections onto the valid two-index orders.

Monitors
  contracts (attached to the real functions, every call is seen):
      noll_to_nm / fringe_to_nm / ansi_j_to_nm    post: the image is a valid order (integers, n >= |m|, n-|m| even)
      xy_j_to_mn                                    post: two non-negative integer exponents
      nm_to_fringe / nm_to_ansi_j                   post: the index is an integer >= first index
  law monitors driven by the workload, per *block* of indices (a block is one complete radial order for Noll / ANSI,
  one complete n+|m| group for Fringe, one complete degree for XY; the published ordering rules force every block of
  indices onto exactly that set of orders, so blocks can be decided independently on different shards):
      <map>.block-rule            the image of every index of block b lies in block b (radial order / group / degree
                                  non-decreasing in j  <=>  this holds for every block)
      <map>.injective-onto-block  the images of a block are pairwise distinct and are *all* valid orders of the block
      noll.parity-rule            even j <-> m > 0, odd j <-> m < 0 (m != 0); |m| non-decreasing inside an order
      ansi.formula                j == (n (n + 2) + m) / 2                     (integer arithmetic)
      fringe.formula              j == (1 + (n+|m|)/2)^2 - 2|m| + [m<0]        (integer arithmetic)
      xy.order-rule               x power descending inside a degree; first terms 1, x, y, x^2, xy, y^2
      <map>.inverse               inv(fwd(j)) == j      (Fringe, ANSI: the two inverses the library provides)
      <map>.eq-integer-reference  fwd(j) == integer-only reference model (vp/refmodels/index_int.py)
      nm_to_<map>.*               for every valid (n, m), n <= N: nm_to_x(n, m) == integer reference and x_to_nm undoes it
      probe.*                     the same per-index clauses on isolated large indices (block edges k(k+1)/2, k^2, +-1,
                                  2^e +- 1, random) up to 2^31 - 1
"""
from math import isqrt

import numpy as np

from ..contracts import attach, detach_all, quiet
from ..refmodels import index_int as ii

RULE = ('every index from the first one up to the end of the first complete block past J is evaluated (J = 1e5 quick, '
        '2e6 thorough; blocks = radial orders / Fringe groups / XY degrees, dealt round-robin to the shards); a case is '
        'one block swept with one index type (python int; numpy.int64 for the first 150 blocks and every 7th after), '
        'one radial order n of the (n,m)->j sweep, or one isolated large-index probe; `evaluations` counts the '
        'individual indices evaluated inside the blocks, `distinct_nontrivial` counts distinct case descriptors (a '
        'lower bound on distinct inputs: per-index counts are in monitor_evaluations); every index is non-trivial')
ASSUMPTIONS = ['the integer-only reference maps are the conventions (they reproduce the published first terms and are '
               'proved mutual inverses / complete by enumeration at start-up; Python int arithmetic and math.isqrt are exact)',
               'indices are Python int or numpy.int64 values; other numeric types are outside the workload',
               'isolated probes above 2^31-1 are explored but never decide (float64 sqrt frontier is outside the stated quantifier)']
REQUIRED = ['noll_to_nm.valid-order', 'fringe_to_nm.valid-order', 'ansi_j_to_nm.valid-order', 'xy_j_to_mn.valid-order',
            'noll.block-rule', 'ansi.block-rule', 'fringe.block-rule', 'xy.block-rule',
            'noll.injective-onto-block', 'ansi.injective-onto-block', 'fringe.injective-onto-block', 'xy.injective-onto-block',
            'noll.parity-rule', 'ansi.formula', 'fringe.formula', 'xy.order-rule', 'ansi.inverse', 'fringe.inverse',
            'noll.eq-integer-reference', 'ansi.eq-integer-reference', 'fringe.eq-integer-reference', 'xy.eq-integer-reference',
            'nm_to_fringe.eq-integer-reference', 'nm_to_ansi_j.eq-integer-reference', 'nm_to_fringe.inverse', 'nm_to_ansi_j.inverse',
            'probe.noll', 'probe.ansi', 'probe.fringe', 'probe.xy']

CTX = None
_INVALID = [False]     # set by a contract when the call just made returned an invalid image


def _as_int(v):
    """Exact integer value of a returned number, or None when it is not integral."""
    if isinstance(v, (bool, np.bool_)):
        return None
    if isinstance(v, (int, np.integer)):
        return int(v)
    if isinstance(v, (float, np.floating)) and np.isfinite(v) and float(v) == int(v):
        return int(v)
    return None


# ------------------------------------------------------------------------------------------ contracts
def _post_zernike(fn):
    def post(token, args, kwargs, result):
        CTX.observe(fn + '.valid-order')
        j = args[0] if args else kwargs.get('idx')
        ok = isinstance(result, tuple) and len(result) == 2
        n = m = None
        if ok:
            n, m = _as_int(result[0]), _as_int(result[1])
            ok = n is not None and m is not None and ii.valid_nm(n, m)
        if not ok:
            _INVALID[0] = True
            CTX.violation(f'C11/{fn}/invalid-order', f'{fn}(j) is not a valid Zernike order (integers, n >= |m|, n-|m| even)',
                          {'fn': fn, 'j': int(j), 'class': 'contract'}, got=repr(result))
    return post


def _post_xy(token, args, kwargs, result):
    CTX.observe('xy_j_to_mn.valid-order')
    j = args[0] if args else kwargs.get('j')
    ok = isinstance(result, tuple) and len(result) == 2
    if ok:
        a, b = _as_int(result[0]), _as_int(result[1])
        ok = a is not None and b is not None and ii.valid_xy(a, b)
    if not ok:
        _INVALID[0] = True
        CTX.violation('C11/xy_j_to_mn/invalid-order', 'xy_j_to_mn(j) is not a pair of non-negative integer exponents',
                      {'fn': 'xy_j_to_mn', 'j': int(j), 'class': 'contract'}, got=repr(result))


def _post_inverse(fn, first):
    def post(token, args, kwargs, result):
        CTX.observe(fn + '.valid-index')
        j = _as_int(result)
        if j is None or j < first:
            _INVALID[0] = True
            CTX.violation(f'C11/{fn}/invalid-index', f'{fn}(n, m) is not an integer index >= {first}',
                          {'fn': fn, 'nm': [int(a) for a in args[:2]], 'class': 'contract'}, got=repr(result))
    return post


def install():
    import importlib
    zernike = importlib.import_module('prysm.polynomials.zernike')
    xy = importlib.import_module('prysm.polynomials.xy')      # `prysm.polynomials.xy` the attribute is a function
    for fn in ('noll_to_nm', 'fringe_to_nm', 'ansi_j_to_nm'):
        attach(zernike, fn, post=_post_zernike(fn))
    attach(xy, 'xy_j_to_mn', post=_post_xy)
    attach(zernike, 'nm_to_fringe', post=_post_inverse('nm_to_fringe', 1))
    attach(zernike, 'nm_to_ansi_j', post=_post_inverse('nm_to_ansi_j', 0))


# ------------------------------------------------------------------------------------------ per-map tables
def _tables():
    from prysm import polynomials as P
    return {
        'noll': dict(fn='noll_to_nm', fwd=lambda j: P.noll_to_nm(j), inv=None, ref=ii.noll_to_nm, block=ii.noll_block,
                     target=ii.orders_of_radial_order, blk_of=lambda im: im[0], what='radial order'),
        'ansi': dict(fn='ansi_j_to_nm', fwd=lambda j: P.ansi_j_to_nm(j), inv=lambda n, m: P.nm_to_ansi_j(n, m), ref=ii.ansi_to_nm,
                     block=ii.ansi_block, target=ii.orders_of_radial_order, blk_of=lambda im: im[0], what='radial order'),
        'fringe': dict(fn='fringe_to_nm', fwd=lambda j: P.fringe_to_nm(j), inv=lambda n, m: P.nm_to_fringe(n, m), ref=ii.fringe_to_nm,
                       block=ii.fringe_block, target=ii.orders_of_fringe_group,
                       blk_of=lambda im: (im[0] + abs(im[1])) // 2, what='n+|m| group'),
        'xy': dict(fn='xy_j_to_mn', fwd=lambda j: P.xy_j_to_mn(j), inv=None, ref=ii.xy_j_to_ab, block=ii.xy_block,
                   target=ii.orders_of_xy_degree, blk_of=lambda im: im[0] + im[1], what='degree'),
    }


def _rule_clause(name, j, im, prev):
    """First broken published ordering rule for index j with image im (prev = image of j-1 inside the block or None).
    Returns (monitor, clause-label, text) or None."""
    if name == 'noll':
        n, m = im
        if m != 0 and ((j % 2 == 0) != (m > 0)):
            return 'noll.parity-rule', 'parity-rule', 'Noll: even index <-> cosine (m>0), odd index <-> sine (m<0) is broken'
        if prev is not None and abs(m) < abs(prev[1]):
            return 'noll.parity-rule', 'abs-m-order-rule', 'Noll: |m| decreases inside a radial order'
    elif name == 'ansi':
        n, m = im
        if (n * (n + 2) + m) != 2 * j:
            return 'ansi.formula', 'formula', 'ANSI: j != (n(n+2)+m)/2'
    elif name == 'fringe':
        n, m = im
        g = (n + abs(m)) // 2
        if (g + 1) ** 2 - 2 * abs(m) + (1 if m < 0 else 0) != j:
            return 'fringe.formula', 'formula', 'Fringe: j != (1+(n+|m|)/2)^2 - 2|m| + [m<0]'
    elif name == 'xy':
        if prev is not None and not (im[0] == prev[0] - 1 and im[1] == prev[1] + 1):
            return 'xy.order-rule', 'order-rule', 'XY: inside a degree the x power must descend by one per index'
    return None


RULE_MONITOR = {'noll': 'noll.parity-rule', 'ansi': 'ansi.formula', 'fringe': 'fringe.formula', 'xy': 'xy.order-rule'}


def _eval(ctx, name, T, j, jarg, suffix, desc):
    """Evaluate one index.  Returns the image as a tuple of ints, or None when the call failed / was invalid."""
    fn = T['fn']
    _INVALID[0] = False
    try:
        res = T['fwd'](jarg)
    except Exception as e:  # in-domain index: any exception is a violation
        ctx.violation(f'C11/{fn}/raises:{type(e).__name__}{suffix}', f'{fn}(j) raises {type(e).__name__}: {str(e)[:120]}', desc, j=j)
        return None
    if _INVALID[0]:
        return None     # already reported by the contract
    return (_as_int(res[0]), _as_int(res[1]))


def _check_index(ctx, name, T, j, jarg, im, prev, b, suffix, desc, jtype):
    """All per-index clauses; reports at most one violation (first failing clause in a fixed priority)."""
    fn = T['fn']
    failing = []
    ctx.observe(f'{name}.block-rule')
    if T['blk_of'](im) != b:
        failing.append(('block-rule', f'{fn}: {T["what"]} is not non-decreasing in j (index of block {b} mapped into block {T["blk_of"](im)})'))
    ctx.observe(RULE_MONITOR[name])
    rc = _rule_clause(name, j, im, prev)
    if rc is not None:
        failing.append((rc[1], rc[2]))
    if T['inv'] is not None:
        ctx.observe(f'{name}.inverse')
        _INVALID[0] = False
        try:
            back = _as_int(T['inv'](jtype(im[0]), jtype(im[1])))
            if not _INVALID[0] and back != j:
                failing.append(('inverse', f'inverse map does not undo {fn}: inv(fwd(j)) != j'))
        except Exception as e:
            failing.append((f'inverse-raises:{type(e).__name__}', f'inverse of {fn} raises on fwd(j)'))
    ctx.observe(f'{name}.eq-integer-reference')
    ref = T['ref'](j)
    if im != ref:
        failing.append(('ne-integer-reference', f'{fn}(j) differs from the integer-only reference map'))
    if failing:
        ctx.violation(f'C11/{fn}/{failing[0][0]}{suffix}', failing[0][1], desc, j=j, got=list(im), ref=list(ref),
                      all_failing=[f[0] for f in failing])
        return False
    return True


# ------------------------------------------------------------------------------------------ workload
def run(ctx):
    global CTX
    CTX = ctx
    ii.selftest(80)
    install()
    try:
        _run(ctx)
    finally:
        detach_all()


def _nblocks(T, J):
    b = 0
    while T['block'](b)[1] < J:
        b += 1
    return b + 1


def _run(ctx):
    tables = _tables()
    J = ctx.pick(100_000, 2_000_000)
    swept = {}

    # --- 1. exhaustive block sweeps of the forward maps -------------------------------------------------
    for name, T in tables.items():
        fn = T['fn']
        nb = _nblocks(T, J)
        swept[name] = [T['block'](0)[0], T['block'](nb - 1)[1]]
        for b in range(nb):
            if not ctx.mine(b):
                continue
            lo, hi = T['block'](b)
            types = [('int', int)]
            if b < 150 or b % 7 == 0:
                types.append(('int64', np.int64))
            for tname, jtype in types:
                desc = {'wl': 'sweep', 'map': name, 'block': b, 'j': [lo, hi], 'type': tname, 'class': f'sweep:{name}:{tname}'}
                ctx.case(desc)
                ctx.evaluations += hi - lo      # the case stands for hi-lo+1 evaluated indices
                seen = {}
                prev = None
                clean = True
                for j in range(lo, hi + 1):
                    im = _eval(ctx, name, T, j, jtype(j), '', desc)
                    if im is None:
                        clean = False
                        prev = None
                        continue
                    ok = _check_index(ctx, name, T, j, jtype(j), im, prev, b, '', desc, jtype)
                    clean = clean and ok
                    ctx.observe(f'{name}.injective-onto-block')
                    if im in seen:
                        clean = False
                        ctx.violation(f'C11/{fn}/duplicate-image', f'{fn} is not one-to-one: two indices have the same image',
                                      desc, j=j, other=seen[im], image=list(im))
                    else:
                        seen[im] = j
                    prev = im
                # surjectivity onto the complete block (reported on its own only when nothing else explains it)
                missing = T['target'](b) - set(seen)
                if missing and clean:
                    ctx.violation(f'C11/{fn}/not-surjective', f'{fn}: a valid order of a completed block is never produced',
                                  desc, missing=sorted(missing)[:4])
    ctx.note('exhaustive_index_ranges', swept)

    # --- 2. (n, m) -> j -> (n, m) for every valid order up to N ----------------------------------------------
    from prysm import polynomials as P
    N = ctx.pick(600, 1500)
    for n in range(N + 1):
        if not ctx.mine(n):
            continue
        jtype = np.int64 if n % 5 == 0 else int
        desc = {'wl': 'nm->j', 'n': n, 'type': jtype.__name__, 'class': f'nm->j:{jtype.__name__}'}
        ctx.case(desc)
        ctx.evaluations += n
        for m in range(-n, n + 1, 2):
            for fn, inv, ref, back in (('nm_to_fringe', P.nm_to_fringe, ii.nm_to_fringe, P.fringe_to_nm),
                                       ('nm_to_ansi_j', P.nm_to_ansi_j, ii.nm_to_ansi, P.ansi_j_to_nm)):
                _INVALID[0] = False
                try:
                    j = inv(jtype(n), jtype(m))
                except Exception as e:
                    ctx.violation(f'C11/{fn}/raises:{type(e).__name__}', f'{fn}(n, m) raises {type(e).__name__}: {str(e)[:120]}', desc, nm=[n, m])
                    continue
                if _INVALID[0]:
                    continue
                j = _as_int(j)
                ctx.observe(fn + '.eq-integer-reference')
                if j != ref(n, m):
                    ctx.violation(f'C11/{fn}/ne-integer-reference', f'{fn}(n, m) differs from the published formula (integer arithmetic)',
                                  desc, nm=[n, m], got=j, ref=ref(n, m))
                    continue
                ctx.observe(fn + '.inverse')
                _INVALID[0] = False
                try:
                    nm = back(j)
                except Exception as e:
                    ctx.violation(f'C11/{fn}/roundtrip-raises:{type(e).__name__}', f'{back.__name__}({fn}(n, m)) raises', desc, nm=[n, m], j=j)
                    continue
                if _INVALID[0]:
                    continue
                if (_as_int(nm[0]), _as_int(nm[1])) != (n, m):
                    ctx.violation(f'C11/{fn}/roundtrip', f'{back.__name__}({fn}(n, m)) != (n, m)', desc, nm=[n, m], j=j, got=repr(nm))
    ctx.note('nm_exhaustive', f'every valid (n, m) with n <= {N}')

    # --- 3. isolated large-index probes (deciding up to 2^31 - 1) -------------------------------------------
    rng = ctx.rng('c11-probes')
    JMAX = 2 ** 31 - 1
    nprobe = ctx.share(ctx.pick(2000, 200_000))
    slow_budget = {'noll': ctx.pick(40, 400), 'xy': ctx.pick(40, 400)}   # O(sqrt j) per call: bounded number of big ones
    names = list(tables)
    for i in range(nprobe):
        name = names[i % 4]
        T = tables[name]
        fam = ['block-edge', 'square', 'pow2', 'random'][int(rng.integers(4))]
        top = JMAX
        if name in ('noll', 'xy'):
            # cost grows like sqrt(j): most probes below 2e7, a bounded number up to 2^31-1
            if slow_budget[name] > 0 and rng.random() < 0.05:
                slow_budget[name] -= 1
            else:
                top = 20_000_000
        if fam == 'block-edge':
            k = int(np.exp(rng.uniform(np.log(400), np.log(np.sqrt(2.0 * top)))))
            j0 = k * (k + 1) // 2
        elif fam == 'square':
            k = int(np.exp(rng.uniform(np.log(300), np.log(np.sqrt(1.0 * top)))))
            j0 = k * k
        elif fam == 'pow2':
            j0 = 2 ** int(rng.integers(17, int(np.log2(top)) + 1))
        else:
            j0 = int(np.exp(rng.uniform(np.log(J), np.log(top))))
        j0 = max(3, min(j0, top - 2))
        desc = {'wl': 'probe', 'map': name, 'j': j0, 'family': fam, 'class': f'probe:{name}:{fam}'}
        ctx.case(desc)
        ctx.observe(f'probe.{name}')
        seen = {}
        for j in (j0 - 1, j0, j0 + 1, j0 + 2):
            im = _eval(ctx, name, T, j, j, '/probe', desc)
            if im is None:
                continue
            b = T['blk_of'](T['ref'](j))
            _check_index(ctx, name, T, j, j, im, None, b, '/probe', desc, int)
            if im in seen:
                ctx.violation(f'C11/{T["fn"]}/duplicate-image/probe', f'{T["fn"]} is not one-to-one on neighbouring large indices',
                              desc, j=j, other=seen[im], image=list(im))
            seen[im] = j

    # --- 3b. call-order independence: the image of j must not depend on which indices were asked before ----------
    # (a map that keeps a scan position / memo between calls is only exposed by non-monotone query sequences:
    #  descending sweeps, hops across block boundaries right after a call in the block above, random order)
    hrng = ctx.rng('c11-order')
    JH = ctx.pick(6000, 60000)
    for name in names:
        T = tables[name]
        first = 1 if name != 'ansi' else 0
        seqs = []
        lo = first + ctx.shard * (JH // ctx.nshards)
        hi = lo + JH // ctx.nshards
        seqs.append(('descending', list(range(hi, lo - 1, -1))))
        hops = []
        for k in range(2, ctx.pick(120, 500)):
            tri = k * (k + 1) // 2
            sq = k * k
            for base in (tri, sq):
                # a call above the boundary, then the boundary itself and its neighbours, then far away, then back
                hops += [base + k, base, base - 1, base + 1, base + 2 * k + 1, base - k, base]
        hops = [j for j in hops if j >= first]
        seqs.append(('boundary-hops', hops[ctx.shard::ctx.nshards] if ctx.nshards > 1 else hops))
        seqs.append(('random-order', [int(v) for v in hrng.integers(first, JH * 4, ctx.pick(3000, 30000) // ctx.nshards)]))
        for label, seq in seqs:
            desc = {'wl': 'call-order', 'map': name, 'order': label, 'n_calls': len(seq), 'first': seq[:6], 'class': f'order:{name}:{label}'}
            ctx.case(desc)
            prev_j = None
            for j in seq:
                ctx.observe(f'order.{name}')
                try:
                    r = T['fwd'](j)
                    im = (_as_int(r[0]), _as_int(r[1]))
                except Exception as e:
                    ctx.violation(f'C11/{T["fn"]}/call-order/raises:{type(e).__name__}', f'{T["fn"]}(j) raises after an earlier call with a different index',
                                  desc, j=j, previous_call=prev_j)
                    prev_j = j
                    continue
                want = T['ref'](j)
                if im != tuple(want):
                    ctx.violation(f'C11/{T["fn"]}/call-order/{label}', f'{T["fn"]}(j) depends on the indices asked before it (non-monotone query sequence)',
                                  desc, j=j, previous_call=prev_j, got=list(im), want=list(want))
                prev_j = j

    # documented rejection (out of domain, counted): xy_j_to_mn(j < 1) raises ValueError
    if ctx.shard == 0:
        with quiet():
            try:
                P.xy_j_to_mn(0)
            except ValueError:
                ctx.skip('rejected:ValueError xy_j_to_mn(0)')

    # --- 4. float-sqrt frontier: explored, reported as a note, never a verdict ---------------------------------
    if ctx.shard == 0:
        frng = np.random.default_rng(11)
        out = {}
        for name in ('ansi', 'fringe'):
            T = tables[name]
            bad, tot, first = 0, 0, None
            for e in range(32, 53):
                for _ in range(ctx.pick(20, 200)):
                    target = int(2.0 ** (e + frng.random()))
                    if name == 'fringe':
                        k = isqrt(target)
                        base = k * k
                    else:
                        k = isqrt(2 * target)
                        base = k * (k + 1) // 2
                    for j in (base - 1, base, base + 1):
                        if j >= 2 ** 53 or j <= JMAX:
                            continue
                        tot += 1
                        with quiet():       # non-deciding exploration: contracts bypassed
                            try:
                                r = T['fwd'](j)
                                r = (_as_int(r[0]), _as_int(r[1]))
                            except Exception:
                                r = None
                        if r != T['ref'](j):
                            bad += 1
                            first = j if first is None else min(first, j)
            out[name] = {'probes_2^31..2^53': tot, 'mismatches': bad, 'smallest_mismatching_index': first}
            if bad:
                ctx.event(f'float-frontier-mismatch:{name}', bad)
        ctx.note('float_sqrt_frontier_exploration_non_deciding', out)

    ctx.exhaustive = True


def replay(ctx, rec):
    run(ctx)
