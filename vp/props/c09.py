"""C09 — derivative functions are the derivatives of the functions they name.

Oracle: the library's own *value* routine is differentiated numerically by tools that know nothing about the
polynomial families (vp/refmodels/diffops_poly.py): Chebyshev interpolation + series differentiation for everything
polynomial in the variable (exact), trigonometric interpolation for azimuthal derivatives (exact), complex step for the
analytic sags of x/raytracing/surfaces.py.  Every oracle value carries its own uncertainty (two resolutions); a case
whose uncertainty is not 100x below the tolerance is excluded and counted.

Contracts are attached to the real Clenshaw derivative routines and to the off-axis-conic derivative helpers, so the
calls prysm makes internally (compute_z_zprime_*, Q2d_and_der) are checked as well.  Blame goes to the innermost
contract: when an inner contract fired during a call, a mismatch of the enclosing evaluator on the same call is counted
as an event, not as a second violation.  Exceptions escaping on in-domain input are keyed by the function in which
they were raised (traceback), so one defect reached through several entry points has one key.
"""
import hashlib
import traceback

import numpy as np

from ..contracts import attach, detach_all, quiet
from ..core import REPO, max_err
from ..polyhard import (cfg32, clear_caches, warm32, layouts, is_c_contig, contig, order_containers, coef_containers, foreign_traffic, high_orders, coord_forms,
                        more_order_containers, term_containers, form_class, ORDER_FORMS, NM_FORMS, N_ONLY_FORMS, PARAM_FORMS, INT_PARAM_FORMS, SEQ_INT_COORDS, INT_HERMITE_MAX_ORDER,
                        scales, ulps, special_class, near_special_jacobi, near_special_scalar, EXACT_SPECIAL_JACOBI, GENERIC_NEIGHBOURS_JACOBI, term_orderings, layout_patterns)
from ..refmodels import diffops_poly as D
from ..util import precision

RULE = ('one case = one call of a derivative routine for one (function, order/coefficient-structure class, parameter '
        'class, coordinate-shape class); orders enumerated from 0 upward (0 and 1 always present), coefficient '
        'vectors dense / sparse / length 1, derivative orders j=1..4 incl. j >= len(s); a case is non-trivial when the '
        'value routine is not constant on the evaluation set or the routine is asked for a derivative that must be '
        'exactly zero; distinct = distinct descriptor. Hardening classes: history units (memo tables emptied where possible, then {float32 low | float32 '
        'high | no} session under config.precision = 32, then orders 2,5,3,17,18,19,16,41,40,7,0,1,4 or descending for parameter sets sharing table keys: '
        '*_der, *_der_seq; Zernike radial orders 1,2,9,20,8,0,19,3 for m = 0,1,-2,4,-4; Clenshaw sums of 3,6,19,42,18,4,41,1,2 coefficients for the same '
        '(alpha, beta) / m, j = 1,2, and the three sag-and-slope evaluators); aliasing (ONE float64 coefficient array / strided array / list / tuple handed '
        'to clenshaw_qbfs, compute_z_zprime_Qbfs, clenshaw_qbfs_der, jacobi_sum_clenshaw(_der), compute_z_zprime_Qcon, the change-of-basis helpers, '
        'clenshaw_q2d(_der) and compute_z_zprime_Q2d in turn, every slope judged against the derivative of the explicit sum with the PRISTINE '
        'coefficients; one coordinate object shared by consecutive *_der / *_der_seq / zernike_nm_der calls; earlier results must survive); memory '
        'layouts of coordinates; containers of order lists and coefficient vectors; config.precision = 32 (orders <= 8, <= 12 coefficients); orders '
        '18, 19, 41, 60 and sums of 19 / 41 / 42 coefficients in the quick tier too. Hardening pass 2: class D in the quick tier - *_der / *_der_seq at orders 171, 172, 200, 256, 400 '
        '(Hermite: 100); class E - evaluation points as python ints -1, 0, 1, int64 / int32 ndarrays (1-D, 2-D, 0-D), numpy int64 scalars, bool, python float / complex, complex128 / '
        'complex64 ndarrays for every *_der (oracle: the differentiated interpolant of the REAL samples of the value routine evaluated at the possibly complex point), complex and - where '
        'listed - integer coordinates for *_der_seq (plus sequence == single), integer-typed radius for zernike_nm_der (n > |m|), integer heights for the conic sag derivatives; n as '
        'int64 / int32 / uint32 / uint64 / intp and in every accepted list container, (n, m) as numpy integers (unsigned for n only), j as numpy integers and omitted vs explicit, norm '
        'omitted vs explicit after the other explicit value; alpha, beta as numpy float64 / float32 / python int / numpy int64 incl. the lines alpha + beta = -1, 0 with alpha != beta for '
        'jacobi_der(_seq) and jacobi_sum_clenshaw_der; scalar coordinates (python float, numpy float64, 0-d) for the Clenshaw routines and evaluators; class F - every derivative routine '
        'judged after unmonitored traffic through the shared tables from the value / fast-sum / change-of-basis / fit routines. Hardening pass 3: class G - coefficient vectors scaled by 1e-12 ... 1e12 '
        'through the three Clenshaw derivative routines (j = 1, 2; three (alpha, beta); m = 1, 2, 4) and the three sag-and-slope evaluators: each call judged by the ordinary oracle (tolerances '
        'proportional to the size of the sum) and by the scale law f(s c) = s f(c) row by row; class H - shape parameters special only UP TO ROUNDING (alpha = 0.1 + 0.2, beta = -0.3; alpha + beta = '
        '-1 +- 1 ulp; one ulp from 0, +-1/2, an integer; alpha -> -1), exactly special ones and generic neighbours for jacobi_der, jacobi_der_seq, jacobi_sum_clenshaw_der, laguerre_der(_seq); '
        'evaluation points exactly at 0, -0.0, +-1, the ends of each domain and one ulp inside (arrays, each point alone as python float / 0-d / length-1) for every *_der / *_der_seq, the Clenshaw '
        'routines and evaluators at x = -1, 0, 1 / u = 0, 1, zernike_nm_der on the axis (|m| = 0, 1, 2; n = |m| and n > |m|) and the rim as arrays / 0-d / length-1 / python floats; class I - EVERY '
        'pattern of empty / length-1 / length-5 coefficient lists over m = 0 .. 4 (243 layouts) through compute_z_zprime_Q2d, every ordering of the term list of zernike_nm_der_seq')
ASSUMPTIONS = ['the value routines are what is being differentiated (their own correctness is C07/C10)',
               'Chebyshev interpolation at >= degree+3 nodes is exact for polynomials; trigonometric interpolation at '
               '> 2*degree nodes is exact for trigonometric polynomials; complex step is exact to round-off for analytic f',
               'tolerance 1e-8*sup|reference derivative on the interval| + 1e-10*sup|value|*(2/width)^k (1e-7 for Clenshaw '
               'derivative rows of order >= 3; float32 input or config.precision = 32: 2e-3 for *_der of order <= 8, 5e-3 for Clenshaw rows of <= 12 coefficients); '
               'oracle self-disagreement must be 100x below that or the case is excluded and counted',
               'an enclosing evaluator is not blamed for a mismatch on a call during which an inner contract fired',
               'the Chebyshev interpolation interval always contains the evaluation points (first-kind nodes never touch the end points, so the prefixes '
               'x(1-x) and u^m can be divided out on [0, 1])',
               'integer-typed coefficient arrays are excluded and counted here (their value defect is recorded under C10)',
               'argument forms (class E): the accepted forms are DATA established on /repo @ faa8443 (vp/polyhard.py): integer ndarray coordinates of the Clenshaw routines / sag-and-slope '
               'evaluators / most *_der_seq (work arrays are allocated in the coordinate dtype), zernike_nm_der at an integer radius with n == |m| (raises today), unsigned m, 0-d array orders '
               'are out of domain; the derivative at a complex point is the derivative of the polynomial\'s analytic continuation',
               'emptying prysm\'s memo tables (functools cache_clear, where a helper offers it) never changes what a correct library returns',
               'value and derivative routines are smooth in the shape parameters: parameters special only up to rounding are judged at the ordinary tolerance; a failure that disappears at the exactly '
               'special neighbour (whose derivative differs by a rounding error of the parameters) is keyed .../special:<line>',
               'the Clenshaw derivative tables and the sag-and-slope evaluators are linear in the coefficients: f(s c) = s f(c) to 1e-10 of the size of the row for s = 1e-12 ... 1e12 (s c is rounded once)']
REQUIRED = ['alias.result-stable', 'der1d', 'der_seq', 'zernike_nm_der.dr', 'zernike_nm_der.dt', 'zernike_nm_der_seq',
            'jacobi_sum_clenshaw_der.rows', 'clenshaw_qbfs_der.rows', 'clenshaw_q2d_der.rows',
            'compute_z_zprime_Qbfs.slope', 'compute_z_zprime_Qcon.slope', 'compute_z_zprime_Q2d.dr',
            'compute_z_zprime_Q2d.dt', 'surfaces.sag_der', 'der_direction_cosine_spheroid',
            'off_axis_conic_der', 'off_axis_conic_sigma_der', 'Q2d_and_der.dr', 'Q2d_and_der.dt', 'Surface.normal',
            'classD.very-high-orders', 'classE.argument-forms', 'classF.foreign-traffic',
            'classG.scale-laws', 'classH.special-parameters', 'classH.special-points', 'classI.orderings', 'classI.layouts']

CTX = None
TOL = 1e-8
TOL32 = 2e-3         # single-precision class of the *_der routines (orders <= 8: observed round-off <= 1.4e-6 of scale, 3 decades below)
TOL32C = 5e-3        # single-precision class of the Clenshaw derivative rows (<= 12 coefficients: observed <= 5e-6 of scale)
BLAME = [0]          # violations recorded by inner contracts so far (blame assignment)
HISTORY = [None]     # class label of the history the workload is in (set by the history units), for mechanism keys


def mechanism(recheck, coords):
    """Mechanism class of a failure, found by re-running the routine and its oracle quietly: memory-layout (right for C-contiguous
    private copies of the coordinates), not-repeatable (right when the same call is made again), history-dependent[:<class>] (right
    once the memoised recurrence coefficients have been emptied), '' otherwise."""
    if recheck is None:
        return ''
    try:
        with quiet(), np.errstate(all='ignore'):
            if recheck(None):
                return 'not-repeatable'
            if any(not is_c_contig(c) for c in coords) and recheck(contig):
                return 'memory-layout'
            if clear_caches() and recheck(None):
                return 'history-dependent' + (':' + HISTORY[0] if HISTORY[0] else '')
    except Exception:  # noqa
        pass
    return ''


KEPT = []       # (routine, array a public call of the workload returned, snapshot taken on return)


def keep(fn, *arrays):
    for got in arrays:
        if isinstance(got, np.ndarray) and got.ndim >= 1:
            KEPT.append((fn, got, got.copy()))
    if len(KEPT) > 3000:
        check_kept()


def check_kept():
    """Class A: an array returned earlier must not have been changed by the calls made since (a result that is a view of a shared
    work array no longer is the derivative it was compared with)."""
    for fn, got, snap in KEPT:
        CTX.require('alias.result-stable', np.array_equal(got, snap, equal_nan=True), f'C09/{fn}/result-changed-by-later-call',
                    f'{fn}: an array returned earlier was modified by a later call', {'fn': fn, 'shape': list(got.shape), 'class': f'{fn}:result-stability'})
    KEPT.clear()


def lowp(*arrs):
    """Single-precision class: a float32 array among the arguments or prysm configured with precision = 32."""
    return cfg32() or any(getattr(a, 'dtype', None) == np.float32 for a in arrs)


# ------------------------------------------------------------------------------------------ helpers
def case_rng(*labels):
    ent = [CTX.seed] + [int(hashlib.blake2b(str(l).encode(), digest_size=4).hexdigest(), 16) for l in labels]
    return np.random.default_rng(ent)


def sup(a):
    a = np.asarray(a)
    if a.size == 0:
        return 0.0
    a = np.abs(a[np.isfinite(a)])
    return float(a.max()) if a.size else 0.0


def judge(monitor, got, ref, unc, key, what, desc, refsup=0.0, fsup=0.0, dscale=1.0, rtol=TOL, inner=False,
          blamed=False, recheck=None, coords=(), form=None, canonical=None, special=None, **detail):
    """|got-ref| <= rtol*sup|ref| + 1e-10*fsup*dscale, provided the oracle's own uncertainty is 100x smaller."""
    ctx = CTX
    ref = np.asarray(ref)
    scale = max(float(refsup), sup(ref))
    atol = 1e-10 * float(fsup) * float(dscale)
    tol = rtol * scale + atol
    u = sup(unc)
    if not np.all(np.isfinite(ref)) or not (u <= 0.01 * tol):
        ctx.skip('oracle-uncertainty-not-100x-below-tolerance:' + monitor)
        return None
    ctx.observe(monitor)
    got = np.asarray(got)
    if got.shape != ref.shape:
        ctx.violation(key + '/shape', what + f': shape {got.shape} != expected {ref.shape}', desc, **detail)
        if inner:
            BLAME[0] += 1
        return False
    err = max_err(got, ref)
    if err <= tol:
        margin(monitor, err, tol)
        return True
    if blamed:
        ctx.event('enclosing-evaluator-mismatch-blamed-on-inner-contract:' + monitor)
        return False
    attributed = False
    if special is not None:
        # class H attribution (tried FIRST: it is the most specific label, and a failure at the edge of such a regime - error within 10x of the tolerance - would otherwise be
        # labelled by the looser repeat test below): the shape parameters are special only up to rounding and the routine is right at the exactly special neighbour (whose
        # derivative differs from the reference by a rounding error of the parameters) -> the defect lives in that narrow parameter regime.
        # special = (full key, thunk evaluating the routine at the neighbour)
        try:
            with quiet(), np.errstate(all='ignore'):
                g2 = np.asarray(special[1]())
                if g2.shape == ref.shape and max_err(g2, ref) <= tol:
                    key = special[0]
                    attributed = True
        except Exception:  # noqa
            pass
    mech = '' if attributed else mechanism(recheck, coords)
    if attributed:
        pass
    elif mech:
        key = key + '/' + mech
    elif form and canonical is not None:
        # class E attribution: right for the canonical form of the same input -> the defect is specific to this argument form
        try:
            with quiet(), np.errstate(all='ignore'):
                g2 = canonical()            # the result for the canonical form (None: the canonical form has been judged right by the caller's own oracle)
                if g2 is None or (np.shape(g2) == ref.shape and max_err(np.asarray(g2), ref) <= tol):
                    key = key + '/form:' + form
        except Exception:  # noqa
            pass
    ctx.violation(key, what, desc, err=err, tol=tol, scale=scale, **detail)
    if inner:
        BLAME[0] += 1
    return False


def margin(monitor, err, tol):
    """histogram (as events) of how far passing comparisons stay below their threshold."""
    if tol <= 0 or err <= 1e-3 * tol:
        return
    r = err / tol
    CTX.event(f'margin:{monitor}:err/tol in ' + ('(1e-3,1e-2]' if r <= 1e-2 else '(1e-2,1e-1]' if r <= 1e-1 else '(1e-1,1]'))


HELPERS = {'recurrence_abc', 'abc_q2d', 'abc_q2d_clenshaw', '_initialize_alphas', 'g_q2d', 'f_q2d', 'G_q2d', 'F_q2d',
           'g_qbfs', 'h_qbfs', 'f_qbfs', 'product_rule'}
DER_SITES = {'jacobi_sum_clenshaw_der', 'clenshaw_qbfs_der', 'clenshaw_q2d_der'}


def raise_site(e):
    tb = traceback.extract_tb(e.__traceback__)
    frames = [f for f in tb if f.filename.startswith(REPO)]
    for f in reversed(frames):
        if f.name not in HELPERS:
            return f.name, [f'{f.filename[len(REPO) + 1:]}:{f.lineno}:{f.name}' for f in frames][-4:]
    return (frames[-1].name if frames else '?'), []


class guard:
    """An exception escaping prysm on in-domain input is a violation keyed by the function that raised it.

    lenlabel: class label of the coefficient structure (used when the raise site is a value/assembly routine);
    jlabel: class label of the derivative order (used when the raise site is a Clenshaw derivative routine)."""

    def __init__(self, fn, desc, lenlabel='-', jlabel='-'):
        self.fn, self.desc, self.lenlabel, self.jlabel = fn, desc, lenlabel, jlabel
        self.raised = False

    def __enter__(self):
        return self

    def __exit__(self, et, e, tb):
        if e is None or not isinstance(e, Exception):
            return False
        site, where = raise_site(e)
        label = self.jlabel if site in DER_SITES else self.lenlabel
        if site in DER_SITES and label == 'j>=len':
            # same mechanism label as the value mismatch of that class: the seed of the derivative recurrence is not
            # guarded for sums shorter than the derivative order (wrong values, IndexError or ZeroDivisionError)
            key = f'C09/{site}/j>=len'
        else:
            key = f'C09/@{site}/{label}/raises:{type(e).__name__}'
        CTX.violation(key, f'{site} raises {type(e).__name__} ({str(e)[:80]}) on in-domain input class {label!r} '
                      f'(entered through {self.fn})', self.desc, exception=repr(e)[:200], where=where)
        self.raised = True
        return True


def jclass(j, n):
    """class of the requested derivative order j for a sum of n coefficients (degree n-1) — case accounting."""
    if j >= n:
        return 'j>=len'
    return 'j=1' if j == 1 else '2<=j<len'


def rowclass(jj, j, n):
    """mechanism class of row jj of a Clenshaw derivative table requested up to order j for n coefficients:
    rows at or beyond the number of coefficients must vanish (the recurrence has to stop at the degree of the sum);
    the other rows depend on the seed factor, which is only exercised differently when j >= 2."""
    if jj == 0:
        return 'row0-sum'
    if jj >= n:
        return 'j>=len'
    return 'j=1' if j == 1 else 'j>=2'


def effective_len(s):
    """1 + index of the last non-zero coefficient (mode k has degree k): derivatives of order >= this are zero."""
    nz = [i for i, v in enumerate(s) if v != 0]
    return (nz[-1] + 1) if nz else 1


def lenclass(n):
    return 'len1' if n == 1 else 'len>=2'


def spectral(sample, lo, hi, xq, k=1, K=8, extra=4):
    """Derivative of order k of the interpolant of `sample` (called with 1-D node arrays, returns (K,) or (K,*S)).
    Returns ref, unc, refsup (sup of the derivative over the interval), fsup (sup of the value)."""
    a = D.Cheb(lo, hi, K)
    b = D.Cheb(lo, hi, K + extra)
    va = np.asarray(sample(a.nodes), dtype=float)
    vb = np.asarray(sample(b.nodes), dtype=float)
    xq = np.asarray(xq, dtype=float)
    da = a.der(va, xq, k)
    db = b.der(vb, xq, k)
    refsup = 0.0
    w = hi - lo
    for g in np.linspace(lo + 0.05 * w, hi - 0.05 * w, 9):      # interior: where evaluation points are drawn
        refsup = max(refsup, sup(b.der(vb, np.full(xq.shape, g), k)))
    return db, np.abs(db - da), refsup, sup(vb)


def azimuthal(sample, tq, k=1, N=8, extra=8):
    a = D.Fourier(N)
    b = D.Fourier(N + extra)
    va = np.asarray(sample(a.nodes), dtype=float)
    vb = np.asarray(sample(b.nodes), dtype=float)
    tq = np.asarray(tq, dtype=float)
    da = a.der(va, tq, k)
    db = b.der(vb, tq, k)
    refsup = 0.0
    for g in np.linspace(0, 2 * np.pi, 13)[:-1]:
        refsup = max(refsup, sup(b.der(vb, np.full(tq.shape, g), k)))
    return db, np.abs(db - da), refsup, sup(vb)


def bind(names, args, kwargs, defaults=None):
    a = dict(defaults or {})
    a.update(dict(zip(names, args)))
    a.update(kwargs)
    return a


def shape_label(x):
    x = np.asarray(x)
    return f'{x.ndim}d' + (':f32' if x.dtype == np.float32 else '')


def interval_for(x, lo, hi):
    """Interpolation interval: the natural one when the points are inside it, else their hull (>= 0.5 wide)."""
    x = np.asarray(x, dtype=float)
    if x.size and x.min() >= lo and x.max() <= hi:
        return lo, hi
    a, b = float(x.min()), float(x.max())
    a, b = min(a, lo), max(b, hi)
    return a, b


# ------------------------------------------------------------------------------------------ contracts
def pyint_as_float(x):
    """The coordinate of a Clenshaw routine as an ndarray; a PYTHON int (accepted today: the work arrays are then allocated in config.precision) is the
    same point as the float.  Integer ndarrays stay integer-typed (out of domain: the work arrays are allocated in the coordinate dtype)."""
    if isinstance(x, int) and not isinstance(x, bool):
        return np.asarray(float(x))
    return np.asarray(x)


def table_shape_ok(fn, res, j, n, x, desc):
    """The documented result of a Clenshaw derivative routine is the table alphas of shape (j + 1, len(coefficients), *x.shape): row jj holds the sums
    of the jj-th derivative.  A table with another number of rows means another derivative order than the one requested (e.g. an omitted j that does not
    resolve to the documented default 1) was computed."""
    want = (j + 1, n) + tuple(np.shape(x))
    if res.shape == want:
        return True
    CTX.observe(fn + '.rows')
    CTX.violation(f'C09/{fn}/table-shape', f'{fn}: the returned table has shape {res.shape}, documented (j + 1, len(coefficients), *x.shape) = {want} for the requested derivative order j = {j}',
                  desc, got_shape=list(res.shape), want_shape=list(want))
    BLAME[0] += 1
    return False


def post_jacobi_sum_clenshaw_der(token, args, kwargs, result):
    from prysm.polynomials import jacobi
    a = bind(['s', 'alpha', 'beta', 'x', 'j', 'alphas'], args, kwargs, {'j': 1})
    s = [float(v) for v in a['s']]
    al, be, j = a['alpha'], a['beta'], int(a['j'])
    x = pyint_as_float(a['x'])
    if x.dtype.kind != 'f' or j < 1 or len(s) == 0:
        return
    n = len(s)
    f32 = lowp(x, a['s'])
    if f32 and n > 12:
        CTX.skip('single-precision Clenshaw derivative rows are judged for <= 12 coefficients only')
        return
    x = x.astype(np.float64)
    neff = effective_len(s)
    lo, hi = interval_for(x, -1.0, 1.0)
    desc = {'fn': 'jacobi_sum_clenshaw_der', 'len': n, 'j': j, 'alpha': al, 'beta': be, 'x': shape_label(x),
            'class': f'jacobi_clenshaw_der:{lenclass(n)}:{jclass(j, n)}'}

    def sample(nodes):
        return sum(c * jacobi(k, al, be, nodes) for k, c in enumerate(s))

    res = np.asarray(result)
    if not table_shape_ok('jacobi_sum_clenshaw_der', res, j, n, a['x'], desc):
        return
    for jj in range(0, j + 1):
        got = res[jj][0]
        ref, unc, refsup, fsup = spectral(sample, lo, hi, x, k=jj, K=n + 4)
        if jj >= neff:      # derivative of order > degree: identically zero
            ref, unc, refsup = np.zeros(x.shape), 0.0, 0.0
        key = 'C09/jacobi_sum_clenshaw_der/' + rowclass(jj, j, n) + ('/f32' if f32 else '')
        sp = special_class((float(al), float(be)))
        special = None
        if sp is not None and sp[1] is not None:
            special = (f'C09/jacobi_sum_clenshaw_der/special:{sp[0]}' + ('/f32' if f32 else ''),
                       lambda jj=jj, nb=sp[1]: np.asarray(ORIG['jacobi_sum_clenshaw_der'](a['s'], nb[0], nb[1], a['x'], j=j))[jj][0])
        judge('jacobi_sum_clenshaw_der.rows', got, ref, unc, key,
              f'jacobi_sum_clenshaw_der(j={j}): alphas[{jj}][0] is not the derivative of order {jj} of sum s_n P_n', desc, special=special,
              refsup=refsup, fsup=fsup, dscale=(2 / (hi - lo)) ** jj, inner=True, row=jj,
              rtol=TOL32C if f32 else (TOL if jj <= 2 else 10 * TOL),     # rounding of high-order recurrences grows like degree^(2 jj)
              recheck=rerun(ORIG['jacobi_sum_clenshaw_der'], args, kwargs, jj, ref, refsup, fsup * (2 / (hi - lo)) ** jj, lambda r_, jj=jj: r_[jj][0]), coords=[a['x']])


def post_clenshaw_qbfs_der(token, args, kwargs, result):
    from prysm.polynomials import Qbfs
    a = bind(['cs', 'usq', 'j', 'alphas'], args, kwargs, {'j': 1})
    cs = [float(v) for v in a['cs']]
    j = int(a['j'])
    x = pyint_as_float(a['usq'])
    if x.dtype.kind != 'f' or j < 1 or len(cs) == 0:
        return
    if getattr(a['cs'], 'dtype', None) is not None and a['cs'].dtype.kind in 'iub':
        CTX.skip('integer-typed coefficient array (the value defect of the change of basis is recorded under C10)')
        return
    n = len(cs)
    f32 = lowp(x, a['cs'])
    if f32 and n > 12:
        CTX.skip('single-precision Clenshaw derivative rows are judged for <= 12 coefficients only')
        return
    x = x.astype(np.float64)
    neff = effective_len(cs)
    # first-kind Chebyshev nodes lie strictly inside the interval, so [0, 1] is safe for the prefix x(1-x) that is divided out;
    # the interval must CONTAIN the evaluation points (extrapolating a degree-40 interpolant costs 6 digits)
    lo, hi = interval_for(x, 0.0, 1.0)
    desc = {'fn': 'clenshaw_qbfs_der', 'len': n, 'j': j, 'x': shape_label(x),
            'class': f'clenshaw_qbfs_der:{lenclass(n)}:{jclass(j, n)}'}

    def sample(nodes):
        u = np.sqrt(nodes)
        return sum(c * Qbfs(k, u) for k, c in enumerate(cs)) / (nodes * (1 - nodes))

    res = np.asarray(result)
    if not table_shape_ok('clenshaw_qbfs_der', res, j, n, a['usq'], desc):
        return
    for jj in range(0, j + 1):
        got = 2 * (res[jj][0] + (res[jj][1] if n > 1 else 0))
        ref, unc, refsup, fsup = spectral(sample, lo, hi, x, k=jj, K=n + 4)
        if jj >= neff:      # derivative of order > degree: identically zero
            ref, unc, refsup = np.zeros(x.shape), 0.0, 0.0
        key = 'C09/clenshaw_qbfs_der/' + rowclass(jj, j, n) + ('/f32' if f32 else '')
        judge('clenshaw_qbfs_der.rows', got, ref, unc, key,
              f'clenshaw_qbfs_der(j={j}): 2(alphas[{jj}][0]+alphas[{jj}][1]) is not d^{jj}/dx^{jj} of sum c_n Q_n(x)', desc,
              refsup=refsup, fsup=fsup, dscale=(2 / (hi - lo)) ** jj, inner=True, row=jj,
              rtol=TOL32C if f32 else (TOL if jj <= 2 else 10 * TOL),     # rounding of high-order recurrences grows like degree^(2 jj)
              recheck=rerun(ORIG['clenshaw_qbfs_der'], args, kwargs, jj, ref, refsup, fsup * (2 / (hi - lo)) ** jj,
                            lambda r_: 2 * (r_[jj][0] + (r_[jj][1] if n > 1 else 0))), coords=[a['usq']])


def post_clenshaw_q2d_der(token, args, kwargs, result):
    from prysm.polynomials import Q2d
    a = bind(['cns', 'm', 'usq', 'j', 'alphas'], args, kwargs, {'j': 1})
    cs = [float(v) for v in a['cns']]
    m, j = int(a['m']), int(a['j'])
    x = pyint_as_float(a['usq'])
    if x.dtype.kind != 'f' or j < 1 or len(cs) == 0 or m < 1:
        return
    if getattr(a['cns'], 'dtype', None) is not None and a['cns'].dtype.kind in 'iub':
        CTX.skip('integer-typed coefficient array (the value defect of the change of basis is recorded under C10)')
        return
    n = len(cs)
    f32 = lowp(x, a['cns'])
    if f32 and n > 12:
        CTX.skip('single-precision Clenshaw derivative rows are judged for <= 12 coefficients only')
        return
    x = x.astype(np.float64)
    neff = effective_len(cs)
    lo, hi = interval_for(x, 0.0, 1.0)      # nodes strictly inside: u^m is divided out; the interval contains the evaluation points
    desc = {'fn': 'clenshaw_q2d_der', 'len': n, 'j': j, 'm': m, 'x': shape_label(x),
            'class': f'clenshaw_q2d_der:{lenclass(n)}:{jclass(j, n)}:m={"1" if m == 1 else ">=2"}'}

    def sample(nodes):
        u = np.sqrt(nodes)
        t = np.zeros_like(u)
        return sum(c * Q2d(k, m, u, t) for k, c in enumerate(cs)) / u ** m

    res = np.asarray(result)
    if not table_shape_ok('clenshaw_q2d_der', res, j, n, a['usq'], desc):
        return
    for jj in range(0, j + 1):
        got = 0.5 * res[jj][0]
        if m == 1 and n - 1 > 2:
            got = got - 2 / 5 * res[jj][3]
        ref, unc, refsup, fsup = spectral(sample, lo, hi, x, k=jj, K=n + 4)
        if jj >= neff:      # derivative of order > degree: identically zero
            ref, unc, refsup = np.zeros(x.shape), 0.0, 0.0
        key = 'C09/clenshaw_q2d_der/' + rowclass(jj, j, n) + ('/f32' if f32 else '')

        def pick(r_, jj=jj):
            g_ = 0.5 * r_[jj][0]
            return g_ - 2 / 5 * r_[jj][3] if (m == 1 and n - 1 > 2) else g_
        judge('clenshaw_q2d_der.rows', got, ref, unc, key,
              f'clenshaw_q2d_der(j={j}): the alpha sums of row {jj} are not d^{jj}/dx^{jj} of sum c_n Q_n^m(x)', desc,
              refsup=refsup, fsup=fsup, dscale=(2 / (hi - lo)) ** jj, inner=True, row=jj,
              rtol=TOL32C if f32 else (TOL if jj <= 2 else 10 * TOL),     # rounding of high-order recurrences grows like degree^(2 jj)
              recheck=rerun(ORIG['clenshaw_q2d_der'], args, kwargs, jj, ref, refsup, fsup * (2 / (hi - lo)) ** jj, pick), coords=[a['usq']])


ORIG = {}


def rerun(orig, args, kwargs, jj, ref, refsup, atol_scale, pick):
    """recheck(transform) for mechanism(): call the ORIGINAL routine again with the same (or layout-transformed) arguments and
    compare the row with the reference already computed (the reference does not depend on layout; after a cache reset the value
    routine is re-sampled by the caller's oracle only through `ref`, so a history that poisoned both sides equally stays '')."""
    def recheck(tr):
        a2 = [tr(v) if (tr is not None and isinstance(v, np.ndarray)) else v for v in args]
        k2 = {k: (tr(v) if (tr is not None and isinstance(v, np.ndarray)) else v) for k, v in kwargs.items()}
        r_ = np.asarray(orig(*a2, **k2))
        got = np.asarray(pick(r_), dtype=float)
        r = np.asarray(ref)
        tol = TOL * max(float(refsup), sup(r)) + 1e-10 * float(atol_scale)
        return got.shape == r.shape and max_err(got, r) <= 10 * tol
    return recheck


def conic_domain_ok(c, k, A):
    """sqrt arguments of the conic sag / sigma stay away from their branch points."""
    return bool(np.all((1 + k) * c * c * A <= 0.8) and np.all(k * c * c * A <= 0.8))


def _oac_args(args, kwargs):
    a = bind(['c', 'kappa', 'r', 't', 'dx', 'dy'], args, kwargs, {'dy': 0})
    return a['c'], a['kappa'], np.asarray(a['r']), np.asarray(a['t']), a['dx'], a['dy']


def _oac_aggregate(r, t, dx, dy):
    s = dx if dx != 0 else dy
    ob = 2 * s * r * (np.cos(t) if dx != 0 else np.sin(t))
    return r * r + ob + s * s


def post_off_axis_conic_der(token, args, kwargs, result):
    from prysm.x.raytracing import surfaces as S
    c, k, r, t, dx, dy = _oac_args(args, kwargs)
    if r.dtype != np.float64 or t.dtype != np.float64 or not conic_domain_ok(c, k, _oac_aggregate(r, t, dx, dy)):
        return
    desc = {'fn': 'off_axis_conic_der', 'c': c, 'k': k, 'dx': dx, 'dy': dy, 'x': shape_label(r),
            'class': f'off_axis_conic_der:{kclass(k)}:{"dx" if dx != 0 else ("dy" if dy != 0 else "on-axis")}'}
    val = S.off_axis_conic_sag(c, k, r, t, dx, dy)
    rr = D.complex_step(lambda z: S.off_axis_conic_sag(c, k, z, t, dx, dy), r)
    rt = D.complex_step(lambda z: S.off_axis_conic_sag(c, k, r, z, dx, dy), t)
    fs = sup(val)
    for name, got, ref, ds in (('dr', result[0], rr, 1 / max(sup(r), 1e-300)), ('dt', result[1], rt, 1.0)):
        judge('off_axis_conic_der', got, ref, 0.0, f'C09/off_axis_conic_der/{name}/{kclass(k)}',
              f'off_axis_conic_der: {name} is not the derivative of off_axis_conic_sag', desc, fsup=fs, dscale=ds,
              inner=True)


def post_off_axis_conic_sigma_der(token, args, kwargs, result):
    from prysm.x.raytracing import surfaces as S
    c, k, r, t, dx, dy = _oac_args(args, kwargs)
    if r.dtype != np.float64 or t.dtype != np.float64 or not conic_domain_ok(c, k, _oac_aggregate(r, t, dx, dy)):
        return
    desc = {'fn': 'off_axis_conic_sigma_der', 'c': c, 'k': k, 'dx': dx, 'dy': dy, 'x': shape_label(r),
            'class': f'off_axis_conic_sigma_der:{kclass(k)}:{"dx" if dx != 0 else ("dy" if dy != 0 else "on-axis")}'}
    rr = D.complex_step(lambda z: 1 / S.off_axis_conic_sigma(c, k, z, t, dx, dy), r)
    rt = D.complex_step(lambda z: 1 / S.off_axis_conic_sigma(c, k, r, z, dx, dy), t)
    # one key for both components: the two share the (wrong) kernel
    ok = True
    for name, got, ref, ds in (('dr', result[0], rr, 1 / max(sup(r), 1e-300)), ('dt', result[1], rt, 1.0)):
        if ok:
            ok = judge('off_axis_conic_sigma_der', got, ref, 0.0, f'C09/off_axis_conic_sigma_der/{kclass(k)}',
                       f'off_axis_conic_sigma_der: {name} is not the derivative of 1/off_axis_conic_sigma', desc,
                       fsup=1.0, dscale=ds, inner=True, component=name) is not False


def kclass(k):
    return 'k=0' if k == 0 else 'k!=0'


def install():
    import importlib
    J = importlib.import_module('prysm.polynomials.jacobi')
    Q = importlib.import_module('prysm.polynomials.qpoly')
    S = importlib.import_module('prysm.x.raytracing.surfaces')
    ORIG.update(jacobi_sum_clenshaw_der=J.jacobi_sum_clenshaw_der, clenshaw_qbfs_der=Q.clenshaw_qbfs_der, clenshaw_q2d_der=Q.clenshaw_q2d_der)
    attach(J, 'jacobi_sum_clenshaw_der', post=post_jacobi_sum_clenshaw_der)
    attach(Q, 'clenshaw_qbfs_der', post=post_clenshaw_qbfs_der)
    attach(Q, 'clenshaw_q2d_der', post=post_clenshaw_q2d_der)
    attach(S, 'off_axis_conic_der', post=post_off_axis_conic_der)
    attach(S, 'off_axis_conic_sigma_der', post=post_off_axis_conic_sigma_der)


def install_monitors(ctx):
    """Attach the call-level contracts for vp/pytest_monitors.py (the repository's own tests as traffic)."""
    global CTX
    CTX = ctx
    install()


# ------------------------------------------------------------------------------------------ workload pieces
def xsets(rng, lo, hi, ends=True, f32=False):
    """coordinate arrays by shape class, strictly inside (lo, hi) except the optional end-point class."""
    w = hi - lo

    def draw(shape):
        return lo + w * (0.03 + 0.94 * rng.random(shape))

    out = [('0d', np.array(float(draw(())))), ('1d', np.sort(draw(7))), ('2d', draw((3, 4))), ('3d', draw((2, 2, 3)))]
    if ends:
        out.append(('ends', np.array([lo, hi, 0.5 * (lo + hi)])))
    if f32:
        out.append(('1d:f32', np.sort(draw(6)).astype(np.float32)))
    return out


def families():
    from prysm import polynomials as p
    extra = 0 if CTX.quick else 10
    jac_params = [(-0.5, -0.5), (0.5, 0.5), (-0.5, 0.5), (0.5, -0.5), (0, 0), (0, 4), (0.3, -0.3), (-0.3, -0.7), 'rand', 'rand'] + ['rand'] * extra
    lag_params = [0, 0.5, -0.5, 2, 'rand'] + ['rand'] * extra

    def jac(ab):
        a, b = ab
        return (lambda n, x: p.jacobi(n, a, b, x), lambda n, x: p.jacobi_der(n, a, b, x),
                lambda ns, x: p.jacobi_der_seq(ns, a, b, x))

    def lag(al):
        return (lambda n, x: p.laguerre(n, al, x), lambda n, x: p.laguerre_der(n, al, x),
                lambda ns, x: p.laguerre_der_seq(ns, al, x))

    def plain(name):
        v, d, s = getattr(p, name), getattr(p, name + '_der'), getattr(p, name + '_der_seq')
        return lambda _: (v, d, s)

    fams = [('jacobi', jac_params, jac, -1.0, 1.0, True),
            ('legendre', [None], plain('legendre'), -1.0, 1.0, True)]
    for k in '1234':
        fams.append(('cheby' + k, [None], plain('cheby' + k), -1.0, 1.0, False))
    fams += [('hermite_He', [None], plain('hermite_He'), -3.0, 3.0, True),
             ('hermite_H', [None], plain('hermite_H'), -3.0, 3.0, True),
             ('laguerre', lag_params, lag, 0.0, 8.0, True)]
    return fams


def realise(params, rng, name):
    if params == 'rand':
        if name == 'jacobi':
            return (round(float(rng.uniform(-0.95, 5)), 3), round(float(rng.uniform(-0.95, 5)), 3)), 'rand'
        return round(float(rng.uniform(-0.9, 4)), 3), 'rand'
    return params, str(params)


def run_1d(ctx, counter):
    nmax = ctx.pick(12, 80)
    for name, plist, make, lo, hi, seq2d in families():
        for pi, params in enumerate(plist):
            for n in range(0, nmax + 1):
                counter[0] += 1
                if not ctx.mine(counter[0]):
                    continue
                rng = case_rng('1d', name, pi, n)
                pv, plabel = realise(params, rng, name)
                val, der, _ = make(pv)
                K = n + 4
                all_ok = True
                for xl, x in xsets(rng, lo, hi, ends=True, f32=(n <= 8)):
                    f32 = xl.endswith('f32')
                    if f32 and not all_ok:
                        ctx.skip('f32-class-not-judged-after-a-float64-failure-of-the-same-routine-and-order')
                        continue
                    desc = {'fn': name + '_der', 'n': n, 'params': pv, 'x': xl,
                            'class': f'{name}_der:{"n=0" if n == 0 else ("n=1" if n == 1 else "n>=2")}:{plabel}:{xl}'}
                    ctx.case(desc)
                    with guard(name + '_der', desc, lenlabel='n=0' if n == 0 else 'n>=1') as g:
                        got = der(n, x)
                        with quiet():
                            ref, unc, refsup, fsup = spectral(lambda nodes: val(n, nodes), lo, hi, x, 1, K)
                        key = f'C09/{name}_der/{"n=0" if n == 0 else "n>=1"}' + ('/f32' if f32 else '')
                        ok = judge('der1d', got, ref, unc, key, f'{name}_der(n) is not d/dx of {name}(n)', desc,
                                   refsup=refsup, fsup=fsup, dscale=2 / (hi - lo), rtol=TOL32 if f32 else TOL)
                        all_ok = all_ok and ok is not False
                    all_ok = all_ok and not g.raised


def order_lists(rng, nmax, quick):
    lists = [[0], [1], [2], [3], [0, 1], [0, 1, 2], [1, 2, 3], [0, 2, 5], [2, 4, 7], [3, 4], [0, 4], [1, 3, 6, 7],
             list(range(0, 7)), [nmax], [0, nmax], [1, nmax - 1, nmax]]
    for _ in range(2 if quick else 30):
        k = int(rng.integers(2, 7))
        lists.append(sorted(set(int(v) for v in rng.integers(0, nmax + 1, k))))
    return lists


def run_seq(ctx, counter):
    nmax = ctx.pick(12, 80)
    for name, plist, make, lo, hi, seq2d in families():
        for pi, params in enumerate(plist):
            rng0 = case_rng('seq-lists', name, pi)
            for li, ns in enumerate(order_lists(rng0, nmax, ctx.quick)):
                counter[0] += 1
                if not ctx.mine(counter[0]):
                    continue
                rng = case_rng('seq', name, pi, li)
                pv, plabel = realise(params, rng, name)
                val, _, dseq = make(pv)
                xs = xsets(rng, lo, hi, ends=False)
                xs = [xs[1]] + ([xs[2]] if seq2d else [])       # 1-D always; 2-D where shapes are not C08's business
                for xl, x in xs:
                    lcl = ('has0' if 0 in ns else 'no0') + (':single' if len(ns) == 1 else '')
                    desc = {'fn': name + '_der_seq', 'ns': ns, 'params': pv, 'x': xl,
                            'class': f'{name}_der_seq:{lcl}:{plabel}:{xl}'}
                    ctx.case(desc)
                    with guard(name + '_der_seq', desc, lenlabel=lcl):
                        got = np.asarray(dseq(ns, x))
                        want = (len(ns),) + x.shape
                        ctx.observe('der_seq')
                        if got.shape != want:
                            ctx.violation(f'C09/{name}_der_seq/shape', f'{name}_der_seq returned shape {got.shape}, expected {want}', desc)
                            continue
                        for row, n in enumerate(ns):
                            with quiet():
                                ref, unc, refsup, fsup = spectral(lambda nodes: val(n, nodes), lo, hi, x, 1, n + 4)
                            judge('der_seq', got[row], ref, unc, f'C09/{name}_der_seq/{"n=0" if n == 0 else "n>=1"}',
                                  f'{name}_der_seq row for order n is not d/dx of {name}(n)', desc,
                                  refsup=refsup, fsup=fsup, dscale=2 / (hi - lo), row=row, n=n)


def mclass(m):
    return 'm=0' if m == 0 else ('m>0' if m > 0 else 'm<0')


def rt_sets(rng, rlo=0.0, rhi=1.0, ends=False):
    def r(shape):
        return rlo + (rhi - rlo) * (0.03 + 0.94 * rng.random(shape))

    def t(shape):
        return rng.uniform(-1.0, 7.0, shape)
    g_r, g_t = np.meshgrid(np.sort(r(4)), np.sort(t(3)))
    out = [('0d', np.array(float(r(()))), np.array(float(t(())))), ('1d', r(6), t(6)), ('2d', g_r, g_t)]
    if ends:    # polynomial routines are regular on the axis and on the rim
        out.append(('ends', np.array([rlo, rlo, rhi, rhi, 0.5 * (rlo + rhi)]), np.array([0.0, 2.0, 0.0, 4.0, 1.0])))
    return out


def zernike_oracle(zernike_nm, n, m, r, t, norm):
    am = abs(m)

    def s_r(nodes):     # (K,) nodes -> (K, *S)
        R = nodes.reshape((-1,) + (1,) * r.ndim) + np.zeros(r.shape)
        T = np.zeros(R.shape) + t
        return zernike_nm(n, m, R, T, norm=norm)

    def s_t(nodes):
        T = nodes.reshape((-1,) + (1,) * t.ndim) + np.zeros(t.shape)
        R = np.zeros(T.shape) + r
        return zernike_nm(n, m, R, T, norm=norm)

    dr = spectral(s_r, 0.0, 1.0, r, 1, n + 4)
    dt = azimuthal(s_t, t, 1, N=2 * am + 4)
    return dr, dt


def run_zernike(ctx, counter):
    from prysm.polynomials import zernike_nm, zernike_nm_der, zernike_nm_der_seq
    nmax = ctx.pick(12, 50)
    nms = [(n, m) for n in range(0, nmax + 1) for m in range(-n, n + 1, 2)]
    for (n, m) in nms:
        counter[0] += 1
        if not ctx.mine(counter[0]):
            continue
        rng = case_rng('zern', n, m)
        for norm in (True, False):
            for xl, r, t in rt_sets(rng, ends=True):
                desc = {'fn': 'zernike_nm_der', 'n': n, 'm': m, 'norm': norm, 'x': xl,
                        'class': f'zernike_nm_der:{"n=0" if n == 0 else ("n=1" if n == 1 else "n>=2")}:{mclass(m)}:norm={norm}:{xl}'}
                ctx.case(desc)
                with guard('zernike_nm_der', desc, lenlabel=mclass(m)):
                    dr, dt = zernike_nm_der(n, m, r, t, norm=norm)
                    with quiet():
                        (rr, ur, rs, fs), (rt_, ut, ts, fs2) = zernike_oracle(zernike_nm, n, m, r, t, norm)
                    judge('zernike_nm_der.dr', dr, rr, ur, f'C09/zernike_nm_der/dr/{mclass(m)}',
                          'zernike_nm_der: dZ/dr is not the radial derivative of zernike_nm', desc, refsup=rs, fsup=fs, dscale=2.0)
                    judge('zernike_nm_der.dt', dt, rt_, ut, f'C09/zernike_nm_der/dt/{mclass(m)}',
                          'zernike_nm_der: dZ/dt is not the azimuthal derivative of zernike_nm', desc, refsup=ts, fsup=fs2, dscale=1.0)
    # sequence form
    nlists = ctx.pick(40, 1600)
    for li in range(nlists):
        counter[0] += 1
        if not ctx.mine(counter[0]):
            continue
        rng = case_rng('zernseq', li)
        L = [1, 2, 3, 5, 8][li % 5]
        pick = [nms[int(i)] for i in rng.integers(0, len(nms), L)]
        if li % 4 == 0:
            pick[0] = (0, 0)
        norm = bool(li % 2)
        for xl, r, t in rt_sets(rng)[1:]:
            desc = {'fn': 'zernike_nm_der_seq', 'nms': pick, 'norm': norm, 'x': xl,
                    'class': f'zernike_nm_der_seq:len{"1" if L == 1 else ">=2"}:norm={norm}:{xl}'}
            ctx.case(desc)
            with guard('zernike_nm_der_seq', desc, lenlabel='seq'):
                got = np.asarray(zernike_nm_der_seq(pick, r, t, norm=norm))
                want = (len(pick), 2) + r.shape
                ctx.observe('zernike_nm_der_seq')
                if got.shape != want:
                    ctx.violation('C09/zernike_nm_der_seq/shape', f'zernike_nm_der_seq returned shape {got.shape}, expected {want}', desc)
                    continue
                for row, (n, m) in enumerate(pick):
                    with quiet():
                        (rr, ur, rs, fs), (rt_, ut, ts, fs2) = zernike_oracle(zernike_nm, n, m, r, t, norm)
                    judge('zernike_nm_der_seq', got[row, 0], rr, ur, f'C09/zernike_nm_der_seq/dr/{mclass(m)}',
                          'zernike_nm_der_seq: radial row is not d/dr of zernike_nm', desc, refsup=rs, fsup=fs, dscale=2.0, nm=(n, m))
                    judge('zernike_nm_der_seq', got[row, 1], rt_, ut, f'C09/zernike_nm_der_seq/dt/{mclass(m)}',
                          'zernike_nm_der_seq: azimuthal row is not d/dt of zernike_nm', desc, refsup=ts, fsup=fs2, dscale=1.0, nm=(n, m))


def coef_sets(rng, nmax, quick):
    """(label, list) coefficient vectors: length 1 first, then sparse singles, dense, sparse-with-holes."""
    out = [('len1', [1.0]), ('len1', [float(rng.normal())])]
    for L in (2, 3, 4, 6):
        for pos in sorted({0, L // 2, L - 1}):
            v = [0.0] * L
            v[pos] = float(rng.normal()) or 1.0
            out.append((f'sparse-single', v))
    lens = [2, 3, 4, 5, 8, nmax] if quick else [2, 3, 4, 5, 6, 8, 12, 17, 18, 20, 30, 41, nmax]
    for L in lens:
        out.append(('dense', [float(v) for v in rng.normal(size=L)]))
    for L in (5, 9, nmax):
        v = rng.normal(size=L)
        v[rng.random(L) < 0.5] = 0.0
        v[-1] = v[-1] or 1.0
        out.append(('sparse', [float(q) for q in v]))
    return out


def run_clenshaw(ctx, counter):
    """direct calls of the three Clenshaw derivative routines, j = 1..4; the contracts do the checking."""
    from prysm.polynomials import jacobi_sum_clenshaw_der
    from prysm.polynomials.qpoly import clenshaw_qbfs_der, clenshaw_q2d_der
    nmax = ctx.pick(12, 50)
    jac_params = [(-0.5, -0.5), (0.5, 0.5), (-0.5, 0.5), (0, 0), (0, 4), (0.3, -0.3), (-0.3, -0.7), 'rand']
    for pi, params in enumerate(jac_params):
        rng0 = case_rng('cl-jac-sets', pi)
        for si, (sl, s) in enumerate(coef_sets(rng0, nmax, ctx.quick)):
            for j in ctx.pick((1, 2, 3, 4), (1, 2, 3, 4, 5, 6)):
                counter[0] += 1
                if not ctx.mine(counter[0]):
                    continue
                rng = case_rng('cl-jac', pi, si, j)
                (al, be), plabel = realise(params, rng, 'jacobi')
                xs = xsets(rng, -1.0, 1.0, ends=False)
                xl, x = xs[(si + j) % 3]
                desc = {'fn': 'jacobi_sum_clenshaw_der', 's': s if len(s) <= 6 else len(s), 'coefs': sl, 'sub': si, 'j': j, 'alpha': al, 'beta': be, 'x': xl,
                        'class': f'jacobi_sum_clenshaw_der:{sl}:{jclass(j, len(s))}:{plabel}:{xl}'}
                ctx.case(desc)
                arg = s if (si % 2) else np.array(s)
                with guard('jacobi_sum_clenshaw_der', desc, lenlabel=lenclass(len(s)), jlabel=jclass(j, len(s))):
                    jacobi_sum_clenshaw_der(arg, al, be, x, j=j)
    rng0 = case_rng('cl-qbfs-sets')
    for si, (sl, s) in enumerate(coef_sets(rng0, nmax, ctx.quick)):
        for j in ctx.pick((1, 2, 3, 4), (1, 2, 3, 4, 5, 6)):
            counter[0] += 1
            if not ctx.mine(counter[0]):
                continue
            rng = case_rng('cl-qbfs', si, j)
            xl, x = xsets(rng, 0.0, 1.0, ends=False)[(si + j) % 3]
            desc = {'fn': 'clenshaw_qbfs_der', 'cs': s if len(s) <= 6 else len(s), 'coefs': sl, 'sub': si, 'j': j, 'x': xl,
                    'class': f'clenshaw_qbfs_der:{sl}:{jclass(j, len(s))}:{xl}'}
            ctx.case(desc)
            with guard('clenshaw_qbfs_der', desc, lenlabel=lenclass(len(s)), jlabel=jclass(j, len(s))):
                clenshaw_qbfs_der(s if (si % 2) else np.array(s), x, j=j)
    for m in ([1, 2, 3, 5] if ctx.quick else [1, 2, 3, 4, 5, 6, 9]):
        rng0 = case_rng('cl-q2d-sets', m)
        for si, (sl, s) in enumerate(coef_sets(rng0, min(nmax, 10 if ctx.quick else 20), ctx.quick)):
            for j in ctx.pick((1, 2, 3, 4), (1, 2, 3, 4, 5, 6)):
                counter[0] += 1
                if not ctx.mine(counter[0]):
                    continue
                rng = case_rng('cl-q2d', m, si, j)
                xl, x = xsets(rng, 0.0, 1.0, ends=False)[(si + j) % 3]
                desc = {'fn': 'clenshaw_q2d_der', 'cns': s if len(s) <= 6 else len(s), 'coefs': sl, 'sub': si, 'm': m, 'j': j, 'x': xl,
                        'class': f'clenshaw_q2d_der:{sl}:{jclass(j, len(s))}:m={m if m < 4 else ">=4"}:{xl}'}
                ctx.case(desc)
                with guard('clenshaw_q2d_der', desc, lenlabel=lenclass(len(s)), jlabel=jclass(j, len(s))):
                    clenshaw_q2d_der(s if (si % 2) else np.array(s), m, x, j=j)


def slope_check(monitor, fn, evaluate, u, desc, key, deg, lenlabel):
    """slope returned by a sag-and-slope evaluator == d/du of the sag the same evaluator returns."""
    b0 = BLAME[0]
    with guard(fn, desc, lenlabel=lenlabel, jlabel='j>=len' if lenlabel == 'len1' else 'j=1'):
        z, zp = evaluate(u)
        keep(fn, z, zp)
        with quiet():
            def sample(nodes):
                U = nodes.reshape((-1,) + (1,) * u.ndim) + np.zeros(u.shape)
                return evaluate(U)[0]
            ref, unc, refsup, fsup = spectral(sample, 0.0, 1.0, u, 1, deg + 4)
        judge(monitor, zp, ref, unc, key, f'{fn}: the returned slope is not d/du of the returned sag', desc,
              refsup=refsup, fsup=fsup, dscale=2.0, blamed=BLAME[0] > b0)


def run_q1d(ctx, counter):
    from prysm.polynomials.qpoly import compute_z_zprime_Qbfs, compute_z_zprime_Qcon
    nmax = ctx.pick(12, 60)
    for which, fn in (('Qbfs', compute_z_zprime_Qbfs), ('Qcon', compute_z_zprime_Qcon)):
        rng0 = case_rng('q1d-sets', which)
        for si, (sl, s) in enumerate(coef_sets(rng0, nmax, ctx.quick)):
            counter[0] += 1
            if not ctx.mine(counter[0]):
                continue
            rng = case_rng('q1d', which, si)
            for xl, u in xsets(rng, 0.0, 1.0, ends=True)[:5]:
                if xl == 'ends':
                    u = np.array([0.0, 1.0, 0.5])
                desc = {'fn': f'compute_z_zprime_{which}', 'coefs': sl, 'len': len(s), 'sub': si, 'x': xl,
                        'class': f'compute_z_zprime_{which}:{sl}:{xl}'}
                ctx.case(desc)
                arg = s if (si % 2) else np.array(s)
                slope_check(f'compute_z_zprime_{which}.slope', f'compute_z_zprime_{which}',
                            lambda U: fn(list(arg) if isinstance(arg, list) else arg.copy(), U, U * U), u, desc,
                            f'C09/compute_z_zprime_{which}/slope/{lenclass(len(s))}', 2 * len(s) + 4, lenclass(len(s)))


def q2d_structures(rng, quick):
    """(label, cm0, ams, bms): one hostile feature at a time."""
    def v(L):
        return [float(q) for q in rng.normal(size=L)]
    out = [
        ('dense', v(3), [v(3), v(2), v(3)], [v(3), v(2), v(3)]),
        ('dense-m1-long', v(2), [v(5), v(2)], [v(4), v(3)]),        # m=1 with N>2: the -2/5 alpha_3 branch
        ('unequal-lengths', v(4), [v(1 + 3), v(2), v(6)], [v(2), v(5), v(3)]),
        ('no-m0', [], [v(3), v(2)], [v(2), v(3)]),
        ('m0-only', v(4), [], []),
        ('sparse', [0.0, 1.5, 0.0], [[0.0, 0.0, v(1)[0]], [0.0, v(1)[0]]], [[v(1)[0], 0.0], [0.0, 0.0, 0.0, v(1)[0]]]),
        ('cm0-len1', v(1), [v(3), v(2)], [v(2), v(3)]),
        ('list-len1:m=1', v(2), [v(1), v(2)], [v(3), v(2)]),
        ('list-len1:m=2', v(2), [v(2), v(1)], [v(3), v(1)]),
        ('list-len1:m=3', v(2), [v(2), v(2), v(1)], [v(3), v(2), v(2)]),
        ('sine-without-cosine', v(2), [v(2), []], [v(2), v(3)]),
        ('cosine-without-sine', v(2), [v(2), v(3)], [v(2), []]),
        ('gap-in-m', v(2), [v(2), [], v(3)], [v(2), [], v(2)]),
    ]
    if not quick:
        out += [('dense-high', v(8), [v(6), v(7), v(5), v(4), v(6)], [v(6), v(5), v(5), v(6), v(4)]),
                ('list-len1:m=5', v(2), [v(2), v(2), v(2), v(2), v(1)], [v(2), v(2), v(2), v(2), v(2)])]
    return out


def q2d_len_label(label):
    """mechanism class of a coefficient structure: its one hostile feature, else 'regular'."""
    if label == 'cm0-len1':
        return 'len1'
    if label.startswith('list-len1'):
        return 'list-len1'
    if label in ('sine-without-cosine', 'cosine-without-sine'):
        return 'empty-list'
    if label in ('dense-m1-long',):
        return 'm=1:N>2'
    return 'regular'


def q2d_degree(cm0, ams, bms):
    d = 2 * len(cm0) + 4
    for i, (a, b) in enumerate(zip(ams, bms)):
        d = max(d, 2 * max(len(a), len(b)) + i + 1)
    return d, max(len(ams), len(bms), 1)


def polar_check(tag, fn, evaluate, r, t, rlo, rhi, Kr, Nt, desc, keybase, lenlabel, analytic=False):
    """(sag, d/dr, d/dt) evaluator: slopes == derivatives of its own sag.  evaluate(R, T) -> (z, dr, dt)."""
    b0 = BLAME[0]
    jl = 'j>=len' if lenlabel in ('list-len1', 'len1') else 'j=1'
    with guard(fn, desc, lenlabel=lenlabel, jlabel=jl):
        z, dr, dt = evaluate(r, t)
        keep(fn, z, dr, dt)
        with quiet():
            def s_r(nodes):
                R = nodes.reshape((-1,) + (1,) * r.ndim) + np.zeros(r.shape)
                return evaluate(R, np.zeros(R.shape) + t)[0]

            def s_t(nodes):
                T = nodes.reshape((-1,) + (1,) * t.ndim) + np.zeros(t.shape)
                return evaluate(np.zeros(T.shape) + r, T)[0]
            rr, ur, rs, fs = spectral(s_r, rlo, rhi, r, 1, Kr, extra=8 if analytic else 4)
            rt_, ut, ts, fs2 = azimuthal(s_t, t, 1, N=Nt, extra=16 if analytic else 8)
        blamed = BLAME[0] > b0
        judge(f'{tag}.dr', dr, rr, ur, f'{keybase}/dr', f'{fn}: the radial slope is not d/dr of the returned sag', desc,
              refsup=rs, fsup=fs, dscale=2 / (rhi - rlo), blamed=blamed)
        judge(f'{tag}.dt', dt, rt_, ut, f'{keybase}/dt', f'{fn}: the azimuthal slope is not d/dt of the returned sag', desc,
              refsup=ts, fsup=fs2, dscale=1.0, blamed=blamed)


def run_q2d(ctx, counter):
    from prysm.polynomials.qpoly import compute_z_zprime_Q2d
    reps = ctx.pick(4, 160)
    for rep in range(reps):
        rng0 = case_rng('q2d-struct', rep)
        for si, (label, cm0, ams, bms) in enumerate(q2d_structures(rng0, ctx.quick)):
            counter[0] += 1
            if not ctx.mine(counter[0]):
                continue
            rng = case_rng('q2d', rep, si)
            deg, mmax = q2d_degree(cm0, ams, bms)
            for xl, u, t in rt_sets(rng, ends=True):
                desc = {'fn': 'compute_z_zprime_Q2d', 'structure': label, 'sub': rep, 'lens': [len(cm0), [len(a) for a in ams], [len(b) for b in bms]],
                        'x': xl, 'class': f'compute_z_zprime_Q2d:{label}:{xl}'}
                ctx.case(desc)
                polar_check('compute_z_zprime_Q2d', 'compute_z_zprime_Q2d',
                            lambda R, T: compute_z_zprime_Q2d(list(cm0), [list(a) for a in ams], [list(b) for b in bms], R, T),
                            u, t, 0.0, 1.0, deg + 4, 2 * mmax + 4, desc, f'C09/compute_z_zprime_Q2d/{q2d_len_label(label)}',
                            q2d_len_label(label))


def run_surfaces(ctx, counter):
    from prysm.x.raytracing import surfaces as S
    cs_ = [1 / 40.0, -1 / 75.0, 0.0, 0.011]
    ks = [0.0, -1.0, -0.6, 0.5, -2.3]
    for ci, c in enumerate(cs_):
        for ki, k in enumerate(ks):
            counter[0] += 1
            if not ctx.mine(counter[0]):
                continue
            rng = case_rng('surf', ci, ki)
            for xl, rho in xsets(rng, 0.0, 12.0, ends=False)[:3]:
                desc = {'fn': 'surfaces', 'c': c, 'k': k, 'x': xl, 'class': f'conic-sag-der:{"c=0" if c == 0 else "c!=0"}:{kclass(k)}:{xl}'}
                ctx.case(desc, nontrivial=(c != 0))
                if not conic_domain_ok(c, k, rho * rho):
                    ctx.skip('sqrt-branch-point-too-close')
                    continue
                with guard('surfaces', desc, lenlabel=kclass(k)):
                    # sphere
                    ref = D.complex_step(lambda z: S.sphere_sag(c, z * z), rho)
                    judge('surfaces.sag_der', S.sphere_sag_der(c, rho), ref, 0.0, 'C09/sphere_sag_der',
                          'sphere_sag_der is not d/drho of sphere_sag', desc, fsup=sup(S.sphere_sag(c, rho * rho)), dscale=1 / 12.0)
                    ref = D.complex_step(lambda z: S.conic_sag(c, k, z * z), rho)
                    judge('surfaces.sag_der', S.conic_sag_der(c, k, rho), ref, 0.0, f'C09/conic_sag_der/{kclass(k)}',
                          'conic_sag_der is not d/drho of conic_sag', desc, fsup=sup(S.conic_sag(c, k, rho * rho)), dscale=1 / 12.0)
                    ref = D.complex_step(lambda z: 1 / S.phi_spheroid(c, k, z * z), rho)
                    for variant in ('plain', 'rhosq', 'phi'):
                        if variant == 'plain':
                            got = S.der_direction_cosine_spheroid(c, k, rho)
                        elif variant == 'rhosq':
                            got = S.der_direction_cosine_spheroid(c, k, rho, rhosq=rho * rho)
                        else:
                            got = S.der_direction_cosine_spheroid(c, k, rho, phi=S.phi_spheroid(c, k, rho * rho))
                        judge('der_direction_cosine_spheroid', got, ref, 0.0, f'C09/der_direction_cosine_spheroid/{kclass(k)}',
                              'der_direction_cosine_spheroid is not d/drho of 1/phi_spheroid', desc, fsup=1.0, dscale=1 / 12.0,
                              variant=variant)
            # off-axis conic: the contracts check every call
            for (dx, dy) in ((15.0, 0), (0, 22.0), (0, -9.0), (-6.0, 0), (0, 0)):
                for xl, r, t in rt_sets(rng, 0.0, 9.0):
                    desc = {'fn': 'off_axis_conic', 'c': c, 'k': k, 'dx': dx, 'dy': dy, 'x': xl,
                            'class': f'off-axis-conic:{"c=0" if c == 0 else "c!=0"}:{kclass(k)}:{"dx" if dx else ("dy" if dy else "on-axis")}:{xl}'}
                    ctx.case(desc, nontrivial=(c != 0))
                    if not conic_domain_ok(c, k, _oac_aggregate(r, t, dx, dy)):
                        ctx.skip('sqrt-branch-point-too-close')
                        continue
                    with guard('off_axis_conic_der', desc, lenlabel=kclass(k)):
                        S.off_axis_conic_der(c, k, r, t, dx, dy)
                    with guard('off_axis_conic_sigma_der', desc, lenlabel=kclass(k)):
                        S.off_axis_conic_sigma_der(c, k, r, t, dx, dy)


def run_q2d_and_der(ctx, counter):
    from prysm.x.raytracing import surfaces as S
    bases = [(0.0, 0.0, 0, 0), (1 / 60.0, 0.0, 0, 0), (1 / 60.0, -1.0, 0, 0), (-1 / 45.0, -0.6, 0, 0), (1 / 80.0, 0.4, 0, 0),
             (1 / 60.0, 0.0, 7.0, 0), (1 / 60.0, -0.6, 0, 9.0), (-1 / 90.0, -1.0, 5.0, 0), (0.0, -1.0, 0, 4.0)]
    R = 10.0
    reps = ctx.pick(2, 48)
    for rep in range(reps):
        rng0 = case_rng('qad-struct', rep)
        structs = [s for s in q2d_structures(rng0, True) if s[0] in ('dense', 'dense-m1-long', 'no-m0', 'm0-only', 'sparse', 'unequal-lengths')]
        for bi, (c, k, dx, dy) in enumerate(bases):
            for si, (label, cm0, ams, bms) in enumerate(structs):
                counter[0] += 1
                if not ctx.mine(counter[0]):
                    continue
                rng = case_rng('qad', rep, bi, si)
                scale = 0.05
                cm0s = [scale * v for v in cm0]
                amss = [[scale * v for v in a] for a in ams]
                bmss = [[scale * v for v in b] for b in bms]
                deg, mmax = q2d_degree(cm0, ams, bms)
                r = R * (0.1 + 0.8 * rng.random(6))
                t = rng.uniform(-3.0, 3.0, 6)
                base = f'{"flat" if c == 0 else "curved"}:{kclass(k)}:{"dx" if dx else ("dy" if dy else "on-axis")}'
                desc = {'fn': 'Q2d_and_der', 'structure': label, 'sub': rep, 'c': c, 'k': k, 'dx': dx, 'dy': dy, 'R': R,
                        'class': f'Q2d_and_der:{base}:{label}'}
                ctx.case(desc)
                if not conic_domain_ok(c, k, _oac_aggregate(np.array([R]), np.array([0.0 if dx else np.pi / 2]), abs(dx), abs(dy))):
                    ctx.skip('sqrt-branch-point-too-close')
                    continue

                def evaluate(Rr, Tt):
                    shp = Rr.shape
                    x = (Rr * np.cos(Tt)).ravel()
                    y = (Rr * np.sin(Tt)).ravel()
                    # 1-D x, y would be turned into a grid by cart_to_polar: pass column vectors (N,1)
                    z, a, b = S.Q2d_and_der([v for v in cm0s], [list(v) for v in amss], [list(v) for v in bmss],
                                            x[:, None], y[:, None], R, c, k, dx, dy)
                    return z.reshape(shp), a.reshape(shp), b.reshape(shp)
                polar_check('Q2d_and_der', 'Q2d_and_der', evaluate, r, t, 0.05 * R, 0.95 * R, max(deg + 4, 24), max(2 * mmax + 4, 24),
                            desc, f'C09/Q2d_and_der/{"flat" if c == 0 else "curved"}:{kclass(k)}', label, analytic=True)


def run_normals(ctx, counter):
    from prysm.x.raytracing.surfaces import Surface
    specs = [('conic', dict(c=1 / 50.0, k=-0.5)), ('conic', dict(c=-1 / 80.0, k=-1.0)), ('conic', dict(c=1 / 30.0, k=0.0)),
             ('conic', dict(c=0.0, k=0.0)),
             ('off_axis_conic', dict(c=-1 / 100.0, k=-1.0, dy=20.0)), ('off_axis_conic', dict(c=1 / 70.0, k=-0.4, dy=0, dx=12.0)),
             ('plane', dict()), ('sphere', dict(c=1 / 45.0))]
    for si, (kind, kw) in enumerate(specs):
        counter[0] += 1
        if not ctx.mine(counter[0]):
            continue
        rng = case_rng('normals', si)
        if kind == 'plane':
            surf = Surface.plane('refl', P=[0, 0, 0])
        elif kind == 'sphere':
            surf = Surface.sphere(kw['c'], 'refl', P=[0, 0, 0], n=None)
        else:
            surf = getattr(Surface, kind)(typ='refl', P=[0, 0, 0], **kw)
        for rep in range(ctx.pick(4, 96)):
            x = rng.uniform(-8, 8, 7)
            y = rng.uniform(-8, 8, 7)
            keep = np.hypot(x, y) > 0.5        # r = 0 is C19's on-axis clause
            x, y = x[keep], y[keep]
            desc = {'fn': f'Surface.{kind}.sag_normal', 'params': kw, 'sub': rep, 'class': f'Surface.normal:{kind}'}
            ctx.case(desc, nontrivial=(kind != 'plane'))
            with guard(f'Surface.{kind}', desc, lenlabel=kind):
                z, nrm = surf.sag_normal(x, y)
                with quiet():
                    def fx(X):
                        return surf.sag_normal(X.ravel(), (np.zeros(X.shape) + y).ravel())[0].reshape(X.shape)

                    def fy(Y):
                        return surf.sag_normal((np.zeros(Y.shape) + x).ravel(), Y.ravel())[0].reshape(Y.shape)
                    zx, ux = D.local_der_with_error(fx, x, 0.25)
                    zy, uy = D.local_der_with_error(fy, y, 0.25)
                ref = np.stack([-zx, -zy, np.ones_like(zx)], axis=1)
                unc = max(sup(ux), sup(uy))
                judge('Surface.normal', nrm, ref, unc, f'C09/Surface.sag_normal/{kind}',
                      'Surface.sag_normal: (-Fx,-Fy,1) is not the gradient of the returned sag', desc, fsup=sup(z), dscale=4.0)


# ------------------------------------------------------------------------------------------ hardening classes (HARDENING.md A-D)
HIST_VARIANTS = ('f32-low-orders-then-f64', 'f32-high-orders-then-f64', 'f64-low-then-high', 'f64-high-then-low')
HIST_ORDERS = [2, 5, 3, 17, 18, 19, 16, 41, 40, 7, 0, 1, 4]


def hist_orders(variant, top=41):
    o = HIST_ORDERS if variant != 'f64-high-then-low' else [41, 18, 40, 17, 5, 2, 19, 3, 0, 1]
    return [min(v, top) for v in o]


def spectral_at(sample, lo, hi, z, k=1, K=8, extra=4):
    """spectral() for evaluation points that may be complex: the interpolant of the REAL samples is the polynomial itself (exact for degree < K), so
    its differentiated Chebyshev series evaluated at a complex point is the derivative of the polynomial's analytic continuation there."""
    z = np.asarray(z)
    if z.dtype.kind != 'c':
        return spectral(sample, lo, hi, z.astype(float), k, K, extra)
    from numpy.polynomial import chebyshev as C
    out = []
    for kk in (K, K + extra):
        a = D.Cheb(lo, hi, kk)
        va = np.asarray(sample(a.nodes), dtype=float)
        co = a.coefs(va)
        if k:
            co = C.chebder(co, m=k, scl=2.0 / (hi - lo), axis=0) if k < kk else np.zeros((1,) + co.shape[1:])
        s_ = (z - lo) * (2.0 / (hi - lo)) - 1.0
        out.append((C.chebval(s_, co), co, va))
    db, cb, vb = out[1]
    grid = np.linspace(-0.9, 0.9, 9)
    refsup = max(sup(C.chebval(grid, cb)), sup(db))
    return db, np.abs(db - out[0][0]), refsup, sup(vb)


def der_check(name, val, der, n, x, x0, lo, hi, desc, f32=False, hist=None, form=None, canonical=None, keyname=None, special=None):
    """der(n, x) (x: the object handed to the routine) against d/dx of val(n, .) at the PRISTINE coordinate values x0 (float or complex)."""
    def once(xx):
        got = der(n, xx)
        with quiet():
            ref, unc, refsup, fsup = spectral_at(lambda nodes: val(n, nodes), lo, hi, np.asarray(x0), 1, int(n) + 4)
        return got, ref, unc, refsup, fsup
    got, ref, unc, refsup, fsup = once(x)

    def recheck(tr):
        g2, r2, u2, rs2, fs2 = once(x if tr is None else tr(x))
        g2, r2 = np.asarray(g2, dtype=float), np.asarray(r2)
        return g2.shape == r2.shape and max_err(g2, r2) <= 10 * ((TOL32 if f32 else TOL) * max(rs2, sup(r2)) + 1e-10 * fs2 * 2 / (hi - lo))
    key = f'C09/{name}_der/{keyname or ("n=0" if n == 0 else "n>=1")}' + ('/f32' if f32 else '')
    return judge('der1d', got, ref, unc, key, f'{name}_der(n) is not d/dx of {name}(n)', desc, refsup=refsup, fsup=fsup, dscale=2 / (hi - lo),
                 rtol=TOL32 if f32 else TOL, recheck=recheck, coords=[x] if isinstance(x, np.ndarray) else [], form=form, canonical=canonical, special=special)


def der_seq_check(name, val, dseq, ns, cont, x, x0, lo, hi, desc, f32=False, form=None, canonical=None, keyname=None, reusable=True, special=None):
    got = np.asarray(dseq(cont, x))
    want = (len(ns),) + np.shape(x0)
    CTX.observe('der_seq')
    if got.shape != want:
        CTX.violation(f'C09/{name}_der_seq/shape', f'{name}_der_seq returned shape {got.shape}, expected {want}', desc)
        return
    for row, n in enumerate(ns):
        with quiet():
            ref, unc, refsup, fsup = spectral_at(lambda nodes: val(n, nodes), lo, hi, np.asarray(x0), 1, n + 4)

        def recheck(tr, row=row, ref=ref, refsup=refsup, fsup=fsup):
            g2 = np.asarray(dseq(cont, x if tr is None else tr(x)))
            return g2.shape == want and max_err(g2[row], ref) <= 10 * ((TOL32 if f32 else TOL) * max(refsup, sup(ref)) + 1e-10 * fsup * 2 / (hi - lo))
        judge('der_seq', got[row], ref, unc, f'C09/{name}_der_seq/{keyname or ("n=0" if n == 0 else "n>=1")}' + ('/f32' if f32 else ''),
              f'{name}_der_seq row for order n is not d/dx of {name}(n)', desc, refsup=refsup, fsup=fsup, dscale=2 / (hi - lo), row=row, n=n,
              rtol=TOL32 if f32 else TOL, recheck=recheck if reusable else None, coords=[x], form=form,
              canonical=(lambda row=row: np.asarray(canonical())[row]) if canonical is not None else None,
              special=(special[0], (lambda row=row: np.asarray(special[1]())[row])) if special is not None else None)


def fam_table():
    """(name, parameter sets sharing alpha / beta / alpha+beta, make, lo, hi)"""
    out = []
    for name, plist, make, lo, hi, seq2d in families():
        if name == 'jacobi':
            out.append((name, [(0.25, -0.25), (0.25, 0.75), (-0.25, 0.25), (0, 4)], make, lo, hi))
            out.append((name, [(-0.5, 0.5), (0.5, -0.5), (0, 0)], make, lo, hi))
        elif name == 'laguerre':
            out.append((name, [0.5, -0.5, 1.5], make, lo, hi))
        else:
            out.append((name, [None], make, lo, hi))
    return out


def history_1d(ctx, name, plist, make, lo, hi, variant):
    """Class B/C: der / der_seq / (value) calls order by order for parameter sets that share table keys; memo tables emptied first,
    optional float32 session under config.precision = 32, then low orders, >= 18, >= 40, and back down."""
    rng = case_rng('hist', name, variant)
    w = hi - lo
    x = np.array([lo + w * f for f in (0.09375, 0.40625, 0.65625, 0.90625)])
    x32 = x[1:3].astype(np.float32)
    top = 41 if name not in ('hermite_He', 'hermite_H', 'laguerre') else 40
    HISTORY[0] = variant
    try:
        clear_caches()
        if variant.startswith('f32'):
            o32 = [5] if 'low' in variant else [top]
            th = []
            for pv in plist:
                val, der, dseq = make(pv)
                th += [lambda val=val, der=der, dseq=dseq: (der(o32[0], x32), dseq([0, o32[0]], x32), val(o32[0], x32))]
            warm32(*th)
        for step, n in enumerate(hist_orders(variant, top)):
            for pv in plist:
                val, der, dseq = make(pv)
                desc = {'fn': name + '_der', 'n': n, 'params': pv, 'step': step, 'variant': variant, 'class': f'{name}_der:history:{variant}'}
                ctx.case(desc)
                with guard(name + '_der', desc, lenlabel='n=0' if n == 0 else 'n>=1'):
                    der_check(name, val, der, n, x, x, lo, hi, desc)
                if step % 3 == 2:
                    ns = sorted(set(hist_orders(variant, top)[max(0, step - 2):step + 1]))
                    desc = {'fn': name + '_der_seq', 'ns': ns, 'params': pv, 'step': step, 'variant': variant, 'class': f'{name}_der_seq:history:{variant}'}
                    ctx.case(desc)
                    with guard(name + '_der_seq', desc, lenlabel='seq'):
                        der_seq_check(name, val, dseq, ns, ns, x, x, lo, hi, desc)
    finally:
        HISTORY[0] = None


def history_zernike(ctx, variant):
    from prysm.polynomials import zernike_nm, zernike_nm_der, zernike_nm_der_seq
    r = np.array([0.09375, 0.40625, 0.65625, 0.90625])
    t = np.array([0.5, 1.75, 3.0, 5.5])
    r32, t32 = r[1:3].astype(np.float32), t[1:3].astype(np.float32)
    HISTORY[0] = variant
    try:
        clear_caches()
        if variant.startswith('f32'):
            nj = 3 if 'low' in variant else 20
            warm32(*[lambda m=m: (zernike_nm_der(2 * nj + m, m, r32, t32), zernike_nm(2 * nj + m, m, r32, t32)) for m in (0, 1, 2, 4)])
        for step, nj in enumerate([1, 2, 9, 20, 8, 0, 19, 3] if variant != 'f64-high-then-low' else [20, 9, 19, 8, 2, 1, 0, 3]):
            for m in (0, 1, -2, 4, -4):
                n = 2 * nj + abs(m)
                norm = bool((step + m) % 2)
                desc = {'fn': 'zernike_nm_der', 'n': n, 'm': m, 'norm': norm, 'step': step, 'variant': variant, 'class': f'zernike_nm_der:history:{variant}'}
                ctx.case(desc)
                with guard('zernike_nm_der', desc, lenlabel=mclass(m)):
                    dr, dt = zernike_nm_der(n, m, r, t, norm=norm)
                    with quiet():
                        (rr, ur, rs, fs), (rt_, ut, ts, fs2) = zernike_oracle(zernike_nm, n, m, r, t, norm)
                    judge('zernike_nm_der.dr', dr, rr, ur, f'C09/zernike_nm_der/dr/{mclass(m)}', 'zernike_nm_der: dZ/dr is not the radial derivative of zernike_nm', desc,
                          refsup=rs, fsup=fs, dscale=2.0)
                    judge('zernike_nm_der.dt', dt, rt_, ut, f'C09/zernike_nm_der/dt/{mclass(m)}', 'zernike_nm_der: dZ/dt is not the azimuthal derivative of zernike_nm', desc,
                          refsup=ts, fsup=fs2, dscale=1.0)
            pick = [(2 * nj + 1, 1), (2 * nj + 4, -4), (2 * nj, 0), (2 * max(nj - 1, 0) + 2, 2)]
            desc = {'fn': 'zernike_nm_der_seq', 'nms': pick, 'step': step, 'variant': variant, 'class': f'zernike_nm_der_seq:history:{variant}'}
            ctx.case(desc)
            with guard('zernike_nm_der_seq', desc, lenlabel='seq'):
                got = np.asarray(zernike_nm_der_seq(pick, r, t, norm=True))
                ctx.observe('zernike_nm_der_seq')
                if got.shape != (len(pick), 2) + r.shape:
                    ctx.violation('C09/zernike_nm_der_seq/shape', f'zernike_nm_der_seq returned shape {got.shape}', desc)
                    continue
                for row, (n, m) in enumerate(pick):
                    with quiet():
                        (rr, ur, rs, fs), (rt_, ut, ts, fs2) = zernike_oracle(zernike_nm, n, m, r, t, True)
                    judge('zernike_nm_der_seq', got[row, 0], rr, ur, f'C09/zernike_nm_der_seq/dr/{mclass(m)}', 'zernike_nm_der_seq: radial row is not d/dr of zernike_nm',
                          desc, refsup=rs, fsup=fs, dscale=2.0, nm=(n, m))
                    judge('zernike_nm_der_seq', got[row, 1], rt_, ut, f'C09/zernike_nm_der_seq/dt/{mclass(m)}', 'zernike_nm_der_seq: azimuthal row is not d/dt of zernike_nm',
                          desc, refsup=ts, fsup=fs2, dscale=1.0, nm=(n, m))
    finally:
        HISTORY[0] = None


def explicit_slope(which, c0, u0, m=0):
    """(sag, slope, uncertainty, refsup, fsup) of sum_k c0[k] * mode_k from the value routines, differentiated spectrally."""
    from prysm.polynomials import Qbfs, Qcon, Q2d
    c0 = [float(v) for v in c0]
    u0 = np.asarray(u0, dtype=float)

    def sample(nodes):
        U = nodes.reshape((-1,) + (1,) * u0.ndim) + np.zeros(u0.shape)
        if which == 'Qbfs':
            return sum(c * Qbfs(k, U) for k, c in enumerate(c0))
        if which == 'Qcon':
            return sum(c * Qcon(k, U) for k, c in enumerate(c0))
        return sum(c * Q2d(k, m, U, np.zeros(U.shape)) for k, c in enumerate(c0))
    with quiet():
        ref, unc, refsup, fsup = spectral(sample, 0.0, 1.0, u0, 1, 2 * len(c0) + 8 + abs(m))
        sag = sample(np.array([0.5]))      # shape probe only
    return ref, unc, refsup, fsup


def history_clenshaw(ctx, variant):
    """Class B/C/D for the Clenshaw derivative routines and the sag-and-slope evaluators: short sums first, then >= 18 and >= 40
    coefficients for the same (alpha, beta) / m, then short again; the contracts judge every row."""
    from prysm.polynomials import jacobi_sum_clenshaw_der
    from prysm.polynomials.qpoly import clenshaw_qbfs_der, clenshaw_q2d_der, compute_z_zprime_Qbfs, compute_z_zprime_Qcon, compute_z_zprime_Q2d
    rng = case_rng('hist-clenshaw', variant)
    x = np.array([-0.8125, -0.21875, 0.34375, 0.84375])
    u = np.array([0.09375, 0.40625, 0.65625, 0.90625])
    t = np.array([0.5, 1.75, 3.0, 5.5])
    x32, u32 = x[1:3].astype(np.float32), u[1:3].astype(np.float32)
    # lengths come back with new coefficients (same work-array shapes, different content)
    lens = [3, 6, 19, 42, 18, 4, 41, 1, 2, 6, 19, 3] if variant != 'f64-high-then-low' else [42, 19, 41, 18, 6, 3, 1, 4, 2, 19, 6, 42]
    HISTORY[0] = variant
    try:
        clear_caches()
        if variant.startswith('f32'):
            L = 6 if 'low' in variant else 42
            c32 = [float(v) for v in rng.normal(size=L)]
            warm32(lambda: jacobi_sum_clenshaw_der(c32, 0.25, -0.25, x32, j=2), lambda: jacobi_sum_clenshaw_der(c32, 0, 4, x32, j=1),
                   lambda: clenshaw_qbfs_der(c32, u32 * u32, j=2), lambda: compute_z_zprime_Qbfs(c32, u32, u32 * u32), lambda: compute_z_zprime_Qcon(c32, u32, u32 * u32),
                   *[lambda m=m: clenshaw_q2d_der(c32, m, u32 * u32, j=2) for m in (1, 2, 3)],
                   lambda: compute_z_zprime_Q2d(c32, [c32, c32[:3]], [c32[:2], c32], u32, u32))
        for step, L in enumerate(lens):
            c = [float(v) for v in rng.normal(size=L)]
            for al, be in ((0.25, -0.25), (0.25, 0.75), (0, 4)):
                for j in (1, 2):
                    desc = {'fn': 'jacobi_sum_clenshaw_der', 'len': L, 'j': j, 'alpha': al, 'beta': be, 'step': step, 'variant': variant, 'class': f'jacobi_sum_clenshaw_der:history:{variant}'}
                    ctx.case(desc)
                    with guard('jacobi_sum_clenshaw_der', desc, lenlabel=lenclass(L), jlabel=jclass(j, L)):
                        keep('jacobi_sum_clenshaw_der', jacobi_sum_clenshaw_der(c, al, be, x, j=j))
            for j in (1, 2):
                desc = {'fn': 'clenshaw_qbfs_der', 'len': L, 'j': j, 'step': step, 'variant': variant, 'class': f'clenshaw_qbfs_der:history:{variant}'}
                ctx.case(desc)
                with guard('clenshaw_qbfs_der', desc, lenlabel=lenclass(L), jlabel=jclass(j, L)):
                    keep('clenshaw_qbfs_der', clenshaw_qbfs_der(c, u * u, j=j))
                for m in (1, 2, 3, 4, 6):          # m > 3: two orders of the general branch of abc_q2d_clenshaw alternate
                    if L > 30 and m in (3, 6):
                        continue
                    desc = {'fn': 'clenshaw_q2d_der', 'len': L, 'j': j, 'm': m, 'step': step, 'variant': variant, 'class': f'clenshaw_q2d_der:history:{variant}'}
                    ctx.case(desc)
                    with guard('clenshaw_q2d_der', desc, lenlabel=lenclass(L), jlabel=jclass(j, L)):
                        keep('clenshaw_q2d_der', clenshaw_q2d_der(c, m, u * u, j=j))
            for which, fn in (('Qbfs', compute_z_zprime_Qbfs), ('Qcon', compute_z_zprime_Qcon)):
                desc = {'fn': f'compute_z_zprime_{which}', 'len': L, 'step': step, 'variant': variant, 'class': f'compute_z_zprime_{which}:history:{variant}'}
                ctx.case(desc)
                slope_check(f'compute_z_zprime_{which}.slope', f'compute_z_zprime_{which}', lambda U: fn(list(c), U, U * U), u, desc,
                            f'C09/compute_z_zprime_{which}/slope/{lenclass(L)}', 2 * L + 4, lenclass(L))
            if L <= 20:
                cm0, ams, bms = c, [c[:max(1, L // 2)], c], [c, c[:max(1, L // 3)]]
                desc = {'fn': 'compute_z_zprime_Q2d', 'len': L, 'step': step, 'variant': variant, 'class': f'compute_z_zprime_Q2d:history:{variant}'}
                ctx.case(desc)
                deg, mmax = q2d_degree(cm0, ams, bms)
                lab = 'list-len1' if L <= 3 else 'regular'
                polar_check('compute_z_zprime_Q2d', 'compute_z_zprime_Q2d',
                            lambda R, T: compute_z_zprime_Q2d(list(cm0), [list(a) for a in ams], [list(b) for b in bms], R, T),
                            u, t, 0.0, 1.0, deg + 4, 2 * mmax + 4, desc, f'C09/compute_z_zprime_Q2d/{lab}', lab)
    finally:
        HISTORY[0] = None


def alias_coefs(ctx):
    """Class A: ONE float64 coefficient array handed to the fast evaluators one after the other (and to the Clenshaw derivative
    routines, whose contracts read it back); every slope is judged against the derivative of the explicit sum with the PRISTINE
    coefficients, so a routine that writes into np.asarray(coefs) is seen by the next call."""
    from prysm.polynomials import jacobi_sum_clenshaw_der, jacobi_sum_clenshaw
    from prysm.polynomials.qpoly import (clenshaw_qbfs, clenshaw_qbfs_der, clenshaw_q2d, clenshaw_q2d_der, compute_z_zprime_Qbfs,
                                         compute_z_zprime_Qcon, compute_z_zprime_Q2d, change_basis_Qbfs_to_Pn, change_of_basis_Q2d_to_Pnm)
    rng = case_rng('alias-coefs')
    for L in (1, 2, 5, 9):
        c0 = rng.normal(size=L)
        a0 = rng.normal(size=max(1, L - 1))
        b0 = rng.normal(size=L + 1)
        for cls, mk in (('ndarray-f64', lambda v: np.array(v, dtype=np.float64)), ('ndarray-f64-strided', lambda v: np.repeat(np.array(v, dtype=np.float64), 2)[::2]),
                        ('list', lambda v: [float(q) for q in v]), ('tuple', lambda v: tuple(float(q) for q in v)), ('list-of-numpy-floats', lambda v: [np.float64(q) for q in v])):
            c, a, b = mk(c0), mk(a0), mk(b0)
            u = np.array([0.09375, 0.40625, 0.65625, 0.90625])
            t = np.array([0.5, 1.75, 3.0, 5.5])
            x = 2 * u * u - 1
            steps = [('clenshaw_qbfs', lambda: clenshaw_qbfs(c, u * u), None),
                     ('compute_z_zprime_Qbfs', lambda: compute_z_zprime_Qbfs(c, u, u * u), 'Qbfs'),
                     ('clenshaw_qbfs_der', lambda: clenshaw_qbfs_der(c, u * u, j=2), None),
                     ('compute_z_zprime_Qbfs', lambda: compute_z_zprime_Qbfs(c, u, u * u), 'Qbfs'),
                     ('jacobi_sum_clenshaw', lambda: jacobi_sum_clenshaw(c, 0, 4, x), None),
                     ('compute_z_zprime_Qcon', lambda: compute_z_zprime_Qcon(c, u, u * u), 'Qcon'),
                     ('jacobi_sum_clenshaw_der', lambda: jacobi_sum_clenshaw_der(c, 0, 4, x, j=2), None),
                     ('compute_z_zprime_Qcon', lambda: compute_z_zprime_Qcon(c, u, u * u), 'Qcon'),
                     ('change_basis_Qbfs_to_Pn', lambda: change_basis_Qbfs_to_Pn(c), None),
                     ('compute_z_zprime_Qbfs', lambda: compute_z_zprime_Qbfs(c, u, u * u), 'Qbfs'),
                     ('clenshaw_q2d', lambda: clenshaw_q2d(a, 1, u * u), None),
                     ('clenshaw_q2d_der', lambda: clenshaw_q2d_der(a, 1, u * u, j=1), None),
                     ('change_of_basis_Q2d_to_Pnm', lambda: change_of_basis_Q2d_to_Pnm(b, 2), None),
                     ('compute_z_zprime_Q2d', lambda: compute_z_zprime_Q2d(c, [a, b], [b, a], u, t), 'Q2d'),
                     ('compute_z_zprime_Q2d', lambda: compute_z_zprime_Q2d(c, [a, b], [b, a], u, t), 'Q2d'),
                     ('clenshaw_q2d_der', lambda: clenshaw_q2d_der(b, 2, u * u, j=2), None),
                     ('compute_z_zprime_Qbfs', lambda: compute_z_zprime_Qbfs(c, u, u * u), 'Qbfs')]
            for step, (fn, thunk, which) in enumerate(steps):
                desc = {'fn': fn, 'len': L, 'coefs_as': cls, 'step': step, 'class': f'{fn}:shared-coefficients:{cls}'}
                ctx.case(desc)
                with guard(fn, desc, lenlabel=lenclass(L), jlabel='j>=len' if L <= 2 else '2<=j<len'):
                    out = thunk()
                    keep(fn, *(out if isinstance(out, tuple) else (out,)))
                    if which in ('Qbfs', 'Qcon'):
                        ref, unc, refsup, fsup = explicit_slope(which, c0, u)
                        judge(f'compute_z_zprime_{which}.slope', out[1], ref, unc, f'C09/compute_z_zprime_{which}/slope/after-call-sharing-coefficients',
                              f'compute_z_zprime_{which}: the slope is not d/du of sum c_n {which}_n(u) for the coefficients the caller passed '
                              '(an earlier call was handed the same coefficient object)', desc, refsup=refsup, fsup=fsup, dscale=2.0)
                    elif which == 'Q2d':
                        # radial slope at t: sum over the three families, each differentiated from the explicit sum of the pristine coefficients
                        r0, u0_, rs0, fs0 = explicit_slope('Qbfs', c0, u)
                        tot, unc, rsup, fsup = r0.copy(), np.abs(u0_), rs0, fs0
                        for m, (ca, cb) in enumerate(((a0, b0), (b0, a0)), start=1):
                            ra, ua, rsa, fsa = explicit_slope('Q2d', ca, u, m)
                            rb, ub, rsb, fsb = explicit_slope('Q2d', cb, u, m)
                            tot = tot + ra * np.cos(m * t) + rb * np.sin(m * t)
                            unc = unc + np.abs(ua) + np.abs(ub)
                            rsup += rsa + rsb
                            fsup += fsa + fsb
                        judge('compute_z_zprime_Q2d.dr', out[1], tot, unc, 'C09/compute_z_zprime_Q2d/dr/after-call-sharing-coefficients',
                              'compute_z_zprime_Q2d: the radial slope is not d/du of the explicit sum for the coefficients the caller passed', desc,
                              refsup=rsup, fsup=fsup, dscale=2.0)
            ok = all(np.array_equal(np.asarray(p, dtype=float), q) for p, q in ((c, c0), (a, a0), (b, b0)))
            ctx.event('shared-coefficients-left-intact' if ok else 'shared-coefficients-MUTATED')


def alias_x(ctx):
    """Class A: one coordinate object shared by consecutive derivative calls, judged against the pristine values; result stability."""
    from prysm.polynomials import zernike_nm, zernike_nm_der
    for name, plist, make, lo, hi, seq2d in families():
        pv = plist[0] if plist[0] != 'rand' else (0.3, -0.3)
        val, der, dseq = make(pv)
        rng = case_rng('alias-x', name)
        w = hi - lo
        for cls, shp in (('1d', (5,)), ('2d', (2, 3)), ('0d', ())):
            x0 = np.asarray(lo + w * (0.03 + 0.94 * rng.random(shp)))
            x = x0.copy()
            kept = []
            for step, n in enumerate((3, 0, 7, 1, 18, 2)):
                desc = {'fn': name + '_der', 'n': n, 'params': pv, 'step': step, 'x': cls, 'class': f'{name}_der:shared-coordinates:{cls}'}
                ctx.case(desc)
                with guard(name + '_der', desc, lenlabel='n=0' if n == 0 else 'n>=1'):
                    got = der(n, x)
                    with quiet():
                        ref, unc, refsup, fsup = spectral(lambda nodes: val(n, nodes), lo, hi, x0, 1, n + 4)
                    judge('der1d', got, ref, unc, f'C09/{name}_der/after-call-sharing-coordinates', f'{name}_der(n) is not d/dx of {name}(n) at the coordinates the caller '
                          'passed (an earlier call was handed the same coordinate object)', desc, refsup=refsup, fsup=fsup, dscale=2 / w)
                    if isinstance(got, np.ndarray):
                        kept.append((got, got.copy()))
                if step % 3 == 2 and cls != '0d':
                    ns = [0, 2, 5]
                    desc = {'fn': name + '_der_seq', 'ns': ns, 'params': pv, 'step': step, 'x': cls, 'class': f'{name}_der_seq:shared-coordinates:{cls}'}
                    ctx.case(desc)
                    if cls == '2d' and not seq2d:
                        continue
                    with guard(name + '_der_seq', desc, lenlabel='seq'):
                        der_seq_check(name, val, dseq, ns, ns, x, x0, lo, hi, desc)
            for got, snap in kept:
                ctx.require('alias.result-stable', np.array_equal(got, snap, equal_nan=True), f'C09/{name}_der/result-changed-by-later-call',
                            f'{name}_der: an array returned earlier was modified by a later call', {'fn': name + '_der', 'x': cls, 'class': f'{name}_der:result-stability'})
    rng = case_rng('alias-x', 'zernike')
    for cls, shp in (('1d', (5,)), ('2d', (2, 3))):
        r0 = 0.03 + 0.94 * rng.random(shp)
        t0 = rng.uniform(-1, 7, shp)
        r, t = r0.copy(), t0.copy()
        for step, (n, m) in enumerate(((3, 1), (4, -2), (2, 0), (20, 4), (5, -1))):
            desc = {'fn': 'zernike_nm_der', 'n': n, 'm': m, 'step': step, 'x': cls, 'class': f'zernike_nm_der:shared-coordinates:{cls}'}
            ctx.case(desc)
            with guard('zernike_nm_der', desc, lenlabel=mclass(m)):
                dr, dt = zernike_nm_der(n, m, r, t, norm=bool(step % 2))
                with quiet():
                    (rr, ur, rs, fs), (rt_, ut, ts, fs2) = zernike_oracle(zernike_nm, n, m, r0, t0, bool(step % 2))
                judge('zernike_nm_der.dr', dr, rr, ur, 'C09/zernike_nm_der/dr/after-call-sharing-coordinates', 'zernike_nm_der: dZ/dr is not the radial derivative at the '
                      'coordinates the caller passed', desc, refsup=rs, fsup=fs, dscale=2.0)
                judge('zernike_nm_der.dt', dt, rt_, ut, 'C09/zernike_nm_der/dt/after-call-sharing-coordinates', 'zernike_nm_der: dZ/dt is not the azimuthal derivative at the '
                      'coordinates the caller passed', desc, refsup=ts, fsup=fs2, dscale=1.0)


def layout_units(ctx):
    """Class A, memory layout of coordinate arrays for *_der, *_der_seq, zernike_nm_der and the sag-and-slope evaluators."""
    from prysm.polynomials import zernike_nm, zernike_nm_der
    from prysm.polynomials.qpoly import compute_z_zprime_Qbfs, compute_z_zprime_Qcon, compute_z_zprime_Q2d
    for name, plist, make, lo, hi, seq2d in families():
        pv = plist[1 % len(plist)] if plist[1 % len(plist)] != 'rand' else (0.3, -0.3)
        val, der, dseq = make(pv)
        rng = case_rng('layout', name)
        w = hi - lo
        for base in (lo + w * (0.03 + 0.94 * rng.random((3, 4))), lo + w * (0.03 + 0.94 * rng.random(6))):
            for lab, xv in layouts(base, full=True):
                if lab == 'C':
                    continue
                for n in (3, 18):
                    desc = {'fn': name + '_der', 'n': n, 'params': pv, 'layout': lab, 'ndim': base.ndim, 'class': f'{name}_der:layout:{lab}:{base.ndim}d'}
                    ctx.case(desc)
                    with guard(name + '_der', desc, lenlabel='n>=1'):
                        der_check(name, val, der, n, xv, xv, lo, hi, desc)
                if base.ndim == 1 or seq2d:
                    desc = {'fn': name + '_der_seq', 'ns': [0, 3, 18], 'params': pv, 'layout': lab, 'ndim': base.ndim, 'class': f'{name}_der_seq:layout:{lab}:{base.ndim}d'}
                    ctx.case(desc)
                    with guard(name + '_der_seq', desc, lenlabel='seq'):
                        der_seq_check(name, val, dseq, [0, 3, 18], [0, 3, 18], xv, xv, lo, hi, desc)
    rng = case_rng('layout', 'polar')
    rb, tb = 0.03 + 0.94 * rng.random((3, 4)), rng.uniform(-1, 7, (3, 4))
    c = [float(v) for v in rng.normal(size=5)]
    for (lr, rv), (lt, tv) in zip(layouts(rb), layouts(tb)[1:] + layouts(tb)[:1]):
        lab = f'{lr}/{lt}'
        for n, m in ((5, 3), (4, -2), (6, 0)):
            desc = {'fn': 'zernike_nm_der', 'n': n, 'm': m, 'layout': lab, 'class': f'zernike_nm_der:layout:{lab}'}
            ctx.case(desc)
            with guard('zernike_nm_der', desc, lenlabel=mclass(m)):
                dr, dt = zernike_nm_der(n, m, rv, tv)
                with quiet():
                    (rr, ur, rs, fs), (rt_, ut, ts, fs2) = zernike_oracle(zernike_nm, n, m, rb, tv + 0.0, True)
                judge('zernike_nm_der.dr', dr, rr, ur, f'C09/zernike_nm_der/dr/{mclass(m)}/memory-layout', 'zernike_nm_der: dZ/dr wrong for non-C-contiguous coordinates', desc, refsup=rs, fsup=fs, dscale=2.0)
                judge('zernike_nm_der.dt', dt, rt_, ut, f'C09/zernike_nm_der/dt/{mclass(m)}/memory-layout', 'zernike_nm_der: dZ/dt wrong for non-C-contiguous coordinates', desc, refsup=ts, fsup=fs2, dscale=1.0)
        for which, fn in (('Qbfs', compute_z_zprime_Qbfs), ('Qcon', compute_z_zprime_Qcon)):
            desc = {'fn': f'compute_z_zprime_{which}', 'len': 5, 'layout': lr, 'class': f'compute_z_zprime_{which}:layout:{lr}'}
            ctx.case(desc)
            with guard(f'compute_z_zprime_{which}', desc, lenlabel='len>=2'):
                z, zp = fn(c, rv, rv * rv)
                ref, unc, refsup, fsup = explicit_slope(which, c, rb)
                judge(f'compute_z_zprime_{which}.slope', zp, ref, unc, f'C09/compute_z_zprime_{which}/slope/memory-layout',
                      f'compute_z_zprime_{which}: the slope is wrong for non-C-contiguous coordinates', desc, refsup=refsup, fsup=fsup, dscale=2.0)
        desc = {'fn': 'compute_z_zprime_Q2d', 'layout': lab, 'class': f'compute_z_zprime_Q2d:layout:{lab}'}
        ctx.case(desc)
        deg, mmax = q2d_degree(c, [c[:3], c], [c, c[:2]])
        polar_check('compute_z_zprime_Q2d', 'compute_z_zprime_Q2d',
                    lambda R, T: compute_z_zprime_Q2d(list(c), [c[:3], list(c)], [list(c), c[:2]], R, T), rv, tv, 0.0, 1.0, deg + 4, 2 * mmax + 4, desc,
                    'C09/compute_z_zprime_Q2d/regular', 'regular')


def container_units(ctx):
    """Class A, containers: order lists of *_der_seq as list / tuple / int ndarray / range / numpy ints; Clenshaw coefficient vectors
    as list / tuple / float64 ndarray / strided ndarray / numpy floats / float32 ndarray (single-precision class)."""
    from prysm.polynomials import jacobi_sum_clenshaw_der
    from prysm.polynomials.qpoly import clenshaw_qbfs_der, clenshaw_q2d_der, compute_z_zprime_Qbfs, compute_z_zprime_Qcon
    for name, plist, make, lo, hi, seq2d in families():
        pv = plist[0] if plist[0] != 'rand' else (0.3, -0.3)
        val, der, dseq = make(pv)
        rng = case_rng('containers', name)
        x = lo + (hi - lo) * (0.03 + 0.94 * rng.random(5))
        for ns in ([0, 1, 2, 3], [2, 5, 19], [18]):
            for lab, cont in order_containers(ns):
                desc = {'fn': name + '_der_seq', 'ns': ns, 'orders_as': lab, 'params': pv, 'class': f'{name}_der_seq:orders-as-{lab}'}
                ctx.case(desc)
                with guard(name + '_der_seq', desc, lenlabel='seq'):
                    der_seq_check(name, val, dseq, ns, cont, x, x, lo, hi, desc)
        for lab, nn in (('int64', np.int64(5)), ('int32', np.int32(5))):
            desc = {'fn': name + '_der', 'n': 5, 'n_as': lab, 'params': pv, 'class': f'{name}_der:n-as-{lab}'}
            ctx.case(desc)
            with guard(name + '_der', desc, lenlabel='n>=1'):
                der_check(name, val, der, nn, x, x, lo, hi, desc)
    rng = case_rng('containers', 'clenshaw')
    x = rng.uniform(-0.9, 0.9, 5)
    u = 0.03 + 0.94 * rng.random(5)
    for L in (1, 4, 9):
        c0 = [float(v) for v in rng.normal(size=L)]
        for lab, cont, exact in coef_containers(c0):
            for j in (1, 2):
                desc = {'fn': 'clenshaw-der', 'len': L, 'j': j, 'coefs_as': lab, 'class': f'clenshaw-der:coefs-as-{lab}'}
                ctx.case(desc)
                with guard('jacobi_sum_clenshaw_der', desc, lenlabel=lenclass(L), jlabel=jclass(j, L)):
                    jacobi_sum_clenshaw_der(cont, 0.25, -0.25, x, j=j)
                with guard('clenshaw_qbfs_der', desc, lenlabel=lenclass(L), jlabel=jclass(j, L)):
                    clenshaw_qbfs_der(cont, u * u, j=j)
                with guard('clenshaw_q2d_der', desc, lenlabel=lenclass(L), jlabel=jclass(j, L)):
                    clenshaw_q2d_der(cont, 1 + j, u * u, j=j)
            if exact:
                for which, fn in (('Qbfs', compute_z_zprime_Qbfs), ('Qcon', compute_z_zprime_Qcon)):
                    desc = {'fn': f'compute_z_zprime_{which}', 'len': L, 'coefs_as': lab, 'class': f'compute_z_zprime_{which}:coefs-as-{lab}'}
                    ctx.case(desc)
                    with guard(f'compute_z_zprime_{which}', desc, lenlabel=lenclass(L), jlabel='j>=len' if L == 1 else 'j=1'):
                        z, zp = fn(cont, u, u * u)
                        ref, unc, refsup, fsup = explicit_slope(which, c0, u)
                        judge(f'compute_z_zprime_{which}.slope', zp, ref, unc, f'C09/compute_z_zprime_{which}/slope/{lenclass(L)}',
                              f'compute_z_zprime_{which}: the slope is not d/du of the explicit sum', desc, refsup=refsup, fsup=fsup, dscale=2.0)


def cfg32_units(ctx):
    """Class C: config.precision = 32 - the *_der / *_der_seq routines on float32 and float64 coordinates (orders <= 8) and the Clenshaw
    derivative routines (<= 12 coefficients; judged by the contracts), all at single-precision tolerances."""
    from prysm.polynomials import jacobi_sum_clenshaw_der
    from prysm.polynomials.qpoly import clenshaw_qbfs_der, clenshaw_q2d_der
    with precision(32):
        for name, plist, make, lo, hi, seq2d in families():
            for pi, pv in enumerate(plist[:2]):
                if pv == 'rand':
                    continue
                val, der, dseq = make(pv)
                rng = case_rng('cfg32', name, pi)
                w = hi - lo
                for n in (0, 1, 2, 3, 5, 8):
                    for cls, x in (('f32-1d', (lo + w * (0.03 + 0.94 * rng.random(5))).astype(np.float32)), ('f64-1d', lo + w * (0.03 + 0.94 * rng.random(5))),
                                   ('f32-2d', (lo + w * (0.03 + 0.94 * rng.random((2, 3)))).astype(np.float32))):
                        desc = {'fn': name + '_der', 'n': n, 'params': pv, 'x': cls, 'class': f'{name}_der:precision=32:{cls}'}
                        ctx.case(desc)
                        with guard(name + '_der', desc, lenlabel='n=0' if n == 0 else 'n>=1'):
                            der_check(name, val, der, n, x, x, lo, hi, desc, f32=True)
                for cls, x in (('f32-1d', (lo + w * (0.03 + 0.94 * rng.random(5))).astype(np.float32)), ('f64-1d', lo + w * (0.03 + 0.94 * rng.random(5)))):
                    desc = {'fn': name + '_der_seq', 'ns': [0, 1, 2, 5, 8], 'params': pv, 'x': cls, 'class': f'{name}_der_seq:precision=32:{cls}'}
                    ctx.case(desc)
                    with guard(name + '_der_seq', desc, lenlabel='seq'):
                        der_seq_check(name, val, dseq, [0, 1, 2, 5, 8], [0, 1, 2, 5, 8], x, x, lo, hi, desc, f32=True)
        rng = case_rng('cfg32', 'clenshaw')
        for L in (1, 2, 5, 9, 12):
            c = [float(v) for v in rng.normal(size=L)]
            for cls, mk in (('f32', lambda v: v.astype(np.float32)), ('f64', lambda v: v)):
                x = mk(rng.uniform(-0.9, 0.9, 5))
                u = mk(0.03 + 0.94 * rng.random(5))
                for j in (1, 2):
                    desc = {'fn': 'clenshaw-der', 'len': L, 'j': j, 'x': cls, 'class': f'clenshaw-der:precision=32:{cls}'}
                    ctx.case(desc)
                    with guard('jacobi_sum_clenshaw_der', desc, lenlabel=lenclass(L), jlabel=jclass(j, L)):
                        jacobi_sum_clenshaw_der(c, 0.25, -0.25, x, j=j)
                    with guard('clenshaw_qbfs_der', desc, lenlabel=lenclass(L), jlabel=jclass(j, L)):
                        clenshaw_qbfs_der(c if j == 1 else np.array(c, dtype=np.float32), u * u, j=j)
                    with guard('clenshaw_q2d_der', desc, lenlabel=lenclass(L), jlabel=jclass(j, L)):
                        clenshaw_q2d_der(c, j, u * u, j=j)


def high_order_units(ctx, part, nparts):
    """Class D in the quick tier too: orders / lengths >= 18 and >= 40."""
    from prysm.polynomials import zernike_nm, zernike_nm_der, jacobi_sum_clenshaw_der
    from prysm.polynomials.qpoly import clenshaw_qbfs_der, clenshaw_q2d_der, compute_z_zprime_Qbfs, compute_z_zprime_Qcon
    i = -1
    for name, plist, make, lo, hi, seq2d in families():
        for pi, pv in enumerate(plist[:3]):
            i += 1
            if i % nparts != part or pv == 'rand':
                continue
            val, der, dseq = make(pv)
            rng = case_rng('high', name, pi)
            x = lo + (hi - lo) * (0.03 + 0.94 * rng.random(5))
            x32 = x[:2].astype(np.float32)
            for n in (18, 19, 41, 60 if name not in ('hermite_He', 'hermite_H', 'laguerre') else 40):
                warm32(lambda: der(n, x32), lambda: val(n, x32))
                desc = {'fn': name + '_der', 'n': n, 'params': pv, 'class': f'{name}_der:high-order'}
                ctx.case(desc)
                with guard(name + '_der', desc, lenlabel='n>=1'):
                    der_check(name, val, der, n, x, x, lo, hi, desc)
            ns = [0, 17, 18, 41]
            desc = {'fn': name + '_der_seq', 'ns': ns, 'params': pv, 'class': f'{name}_der_seq:high-order'}
            ctx.case(desc)
            with guard(name + '_der_seq', desc, lenlabel='seq'):
                der_seq_check(name, val, dseq, ns, ns, x, x, lo, hi, desc)
    if part == 0:
        rng = case_rng('high', 'zernike')
        r, t = 0.03 + 0.94 * rng.random(5), rng.uniform(-1, 7, 5)
        for n, m in ((18, 0), (19, -1), (20, 20), (41, 1), (40, -4), (44, 0)):
            desc = {'fn': 'zernike_nm_der', 'n': n, 'm': m, 'class': 'zernike_nm_der:high-order'}
            ctx.case(desc)
            with guard('zernike_nm_der', desc, lenlabel=mclass(m)):
                dr, dt = zernike_nm_der(n, m, r, t)
                with quiet():
                    (rr, ur, rs, fs), (rt_, ut, ts, fs2) = zernike_oracle(zernike_nm, n, m, r, t, True)
                judge('zernike_nm_der.dr', dr, rr, ur, f'C09/zernike_nm_der/dr/{mclass(m)}', 'zernike_nm_der: dZ/dr is not the radial derivative of zernike_nm', desc, refsup=rs, fsup=fs, dscale=2.0)
                judge('zernike_nm_der.dt', dt, rt_, ut, f'C09/zernike_nm_der/dt/{mclass(m)}', 'zernike_nm_der: dZ/dt is not the azimuthal derivative of zernike_nm', desc, refsup=ts, fsup=fs2, dscale=1.0)


# ------------------------------------------------------------------------------------------ hardening pass 2 (HARDENING2.md D in the quick tier, E, F)
def fixed_params(name, plist, k=0):
    pv = plist[k % len(plist)]
    return ((0.3, -0.3) if name == 'jacobi' else 0.5) if pv == 'rand' else pv


def coord_form_units(ctx):
    """Class E, forms of the evaluation points of every derivative routine: python ints -1, 0, 1 (each alone), int64 / int32 ndarrays (1-D, 2-D, 0-D),
    numpy int64 scalars, bool ndarrays, python float, python complex, complex128 ndarrays (1-D, 2-D, 0-D, real-valued), complex64 (single-precision
    class) - the result must be the derivative of the value routine at the SAME points given as float64 / complex128 (spectral oracle: the
    differentiated interpolant of the real samples, evaluated at the possibly complex point).  Sequence forms: complex coordinates for every family,
    integer ones where the class E table lists the routine; in addition sequence == single on the same coordinates."""
    from prysm import polynomials as p
    from prysm.x.raytracing import surfaces as S
    from prysm.polynomials import zernike_nm, zernike_nm_der
    for name, plist, make, lo, hi, seq2d in families():
        pv = fixed_params(name, plist)
        val, der, dseq = make(pv)
        for lab, kind, xv, xf in coord_forms(lo, hi):
            orders = CTX.pick((0, 1, 2, 3, 5, 8), tuple(range(10))) + (CTX.pick((12, 19), (12, 15, 19, 25, 40)) if (kind != 'c' and not (name.startswith('hermite') and kind in 'ib')) else CTX.pick((), (10, 12)))
            if lab == 'complex64-1d':
                orders = (0, 1, 2, 3, 5)
            for n in orders:
                desc = {'fn': name + '_der', 'n': n, 'params': pv, 'x': lab, 'class': f'{name}_der:x-as-{lab.split(":")[0]}'}
                ctx.case(desc)
                ctx.observe('classE.argument-forms')
                with guard(name + '_der', desc, lenlabel='n=0' if n == 0 else 'n>=1'):
                    def canonical(n=n, xf=xf, kind=kind):
                        # the same points as float64 (integer forms) / their real parts (complex forms): right there -> the defect is specific to the coordinate form
                        if kind != 'c':
                            return der(n, np.asarray(xf, dtype=float))
                        xr = np.ascontiguousarray(np.asarray(xf).real, dtype=float)
                        r_, u_, rs_, fs_ = spectral(lambda nodes: val(n, nodes), lo, hi, xr, 1, n + 4)
                        ok = max_err(np.asarray(der(n, xr), dtype=float), r_) <= TOL * max(rs_, sup(r_)) + 1e-10 * fs_ * 2 / (hi - lo)
                        return np.full(np.shape(xf), np.nan) if not ok else None
                    der_check(name, val, der, n, xv, xf, lo, hi, desc, f32=(lab == 'complex64-1d'), form='x=' + form_class(lab), canonical=canonical)
        for lab, kind, xv, xf in coord_forms(lo, hi, seq=True):
            if kind in 'ib' and (name + '_der_seq') not in SEQ_INT_COORDS:
                ctx.skip('*_der_seq with integer / bool coordinates truncates into the coordinate dtype today (class E table): excluded')
                continue
            if kind == 'b':
                continue
            if xv.ndim == 2 and not seq2d:
                continue
            for ns in ([0, 1, 2, 3], [1], [2, 5, 8], [0]) + CTX.pick((), ([0, 1, 2, 3, 4, 5, 6, 7], [3, 4], [2], [1, 9, 12], [0, 2])):
                desc = {'fn': name + '_der_seq', 'ns': ns, 'params': pv, 'x': lab, 'class': f'{name}_der_seq:x-as-{lab}'}
                ctx.case(desc)
                with guard(name + '_der_seq', desc, lenlabel='seq'):
                    f32 = lab == 'complex64-1d'
                    der_seq_check(name, val, dseq, ns, ns, xv, xf, lo, hi, desc, f32=f32, form='x=' + form_class(lab),
                                  canonical=(lambda ns=ns, xv=xv: np.array([np.asarray(der(n, xv)) for n in ns])))
    # zernike_nm_der with an integer-typed radius (accepted for n > |m|; the n == |m| branch raises today: out of domain)
    for lab, r, t, rf in (('int64', np.array([0, 1, 1, 0]), np.array([0.5, 1.75, 3.0, 5.5]), None), ('int32', np.array([1, 0, 1], dtype=np.int32), np.array([0.25, 2.0, 4.0]), None),
                          ('pyint:1', 1, 0.75, None), ('pyint:0', 0, 2.5, None), ('int64-2d', np.array([[0, 1], [1, 1]]), np.array([[0.5, 1.0], [2.0, 3.5]]), None)):
        rf = np.asarray(r, dtype=float)
        tf = np.asarray(t, dtype=float)
        for n, m in ((3, 1), (3, -1), (4, 0), (2, 0), (5, 3), (4, -2), (6, 2), (5, 1), (7, -1)):
            for norm in (True, False):
                desc = {'fn': 'zernike_nm_der', 'n': n, 'm': m, 'norm': norm, 'r': lab, 'class': f'zernike_nm_der:r-as-{lab.split(":")[0]}:{mclass(m)}'}
                ctx.case(desc)
                with guard('zernike_nm_der', desc, lenlabel=mclass(m)):
                    dr, dt = zernike_nm_der(n, m, r, t, norm=norm)
                    with quiet():
                        (rr, ur, rs, fs), (rt_, ut, ts, fs2) = zernike_oracle(zernike_nm, n, m, rf, tf, norm)
                    fl = 'r=integer'
                    judge('zernike_nm_der.dr', dr, rr, ur, f'C09/zernike_nm_der/dr/{mclass(m)}', 'zernike_nm_der: dZ/dr at an integer-typed radius is not the radial derivative of zernike_nm', desc,
                          refsup=rs, fsup=fs, dscale=2.0, form=fl, canonical=lambda: zernike_nm_der(n, m, rf, tf, norm=norm)[0])
                    judge('zernike_nm_der.dt', dt, rt_, ut, f'C09/zernike_nm_der/dt/{mclass(m)}', 'zernike_nm_der: dZ/dt at an integer-typed radius is not the azimuthal derivative of zernike_nm', desc,
                          refsup=ts, fsup=fs2, dscale=1.0, form=fl, canonical=lambda: zernike_nm_der(n, m, rf, tf, norm=norm)[1])
    # conic sag derivatives at integer-typed heights
    for lab, rho in (('int64', np.array([1, 2, 5, 9])), ('int32', np.array([1, 3, 7], dtype=np.int32)), ('pyint', 4)):
        rf = np.asarray(rho, dtype=float)
        for c, k in ((1 / 40.0, 0.0), (-1 / 75.0, -0.6), (0.011, 0.5), (1 / 40.0, -1.0)):
            desc = {'fn': 'surfaces', 'c': c, 'k': k, 'x': lab, 'class': f'conic-sag-der:x-as-{lab}:{kclass(k)}'}
            ctx.case(desc)
            if not conic_domain_ok(c, k, rf * rf):
                ctx.skip('sqrt-branch-point-too-close')
                continue
            with guard('surfaces', desc, lenlabel=kclass(k)):
                judge('surfaces.sag_der', S.sphere_sag_der(c, rho), D.complex_step(lambda z: S.sphere_sag(c, z * z), rf), 0.0, 'C09/sphere_sag_der', 'sphere_sag_der is not d/drho of sphere_sag', desc,
                      fsup=sup(S.sphere_sag(c, rf * rf)), dscale=1 / 12.0, form='rho=integer', canonical=lambda: S.sphere_sag_der(c, rf))
                judge('surfaces.sag_der', S.conic_sag_der(c, k, rho), D.complex_step(lambda z: S.conic_sag(c, k, z * z), rf), 0.0, f'C09/conic_sag_der/{kclass(k)}', 'conic_sag_der is not d/drho of conic_sag',
                      desc, fsup=sup(S.conic_sag(c, k, rf * rf)), dscale=1 / 12.0, form='rho=integer', canonical=lambda: S.conic_sag_der(c, k, rf))
                judge('der_direction_cosine_spheroid', S.der_direction_cosine_spheroid(c, k, rho), D.complex_step(lambda z: 1 / S.phi_spheroid(c, k, z * z), rf), 0.0,
                      f'C09/der_direction_cosine_spheroid/{kclass(k)}', 'der_direction_cosine_spheroid is not d/drho of 1/phi_spheroid', desc, fsup=1.0, dscale=1 / 12.0,
                      form='rho=integer', canonical=lambda: S.der_direction_cosine_spheroid(c, k, rf))


def order_form_units(ctx):
    """Class E, forms of the order arguments: n of every *_der as each ORDER_FORMS element type; order lists of *_der_seq as lists of those, unsigned
    ndarrays, dict key views, one-shot generators where accepted; (n, m) of zernike_nm_der(_seq) as numpy integers (unsigned for n only); j of the
    Clenshaw derivative routines as numpy integers, omitted vs j=1 explicit; norm omitted vs explicit, also after the other explicit value."""
    from prysm.polynomials import zernike_nm, zernike_nm_der, zernike_nm_der_seq, jacobi_sum_clenshaw_der
    from prysm.polynomials.qpoly import clenshaw_qbfs_der, clenshaw_q2d_der
    for name, plist, make, lo, hi, seq2d in families():
        pv = fixed_params(name, plist, 1)
        val, der, dseq = make(pv)
        rng = case_rng('order-forms', name)
        x = lo + (hi - lo) * (0.03 + 0.94 * rng.random(4))
        for lab, mk in ORDER_FORMS:
            for n in (0, 1, 2, 5, 19):
                desc = {'fn': name + '_der', 'n': n, 'n_as': lab, 'params': pv, 'class': f'{name}_der:n-as-{lab}'}
                ctx.case(desc)
                with guard(name + '_der', desc, lenlabel='n=0' if n == 0 else 'n>=1'):
                    der_check(name, val, der, mk(n), x, x, lo, hi, desc, form='n=' + lab, canonical=lambda n=n: der(n, x))
            for ns in ([0, 1, 2, 3], [2, 5, 19], [1]):
                desc = {'fn': name + '_der_seq', 'ns': ns, 'orders_as': 'list-of-' + lab, 'params': pv, 'class': f'{name}_der_seq:orders-as-list-of-{lab}'}
                ctx.case(desc)
                with guard(name + '_der_seq', desc, lenlabel='seq'):
                    der_seq_check(name, val, dseq, ns, [mk(n) for n in ns], x, x, lo, hi, desc, form='orders=list-of-' + lab, canonical=lambda ns=ns: dseq(ns, x))
        for ns in ([0, 1, 2, 3], [2, 5, 19], [1]):
            for lab, mk in more_order_containers(ns, name + '_der_seq'):
                desc = {'fn': name + '_der_seq', 'ns': ns, 'orders_as': lab, 'params': pv, 'class': f'{name}_der_seq:orders-as-{lab}'}
                ctx.case(desc)
                with guard(name + '_der_seq', desc, lenlabel='seq'):
                    der_seq_check(name, val, dseq, ns, mk(), x, x, lo, hi, desc, form='orders=' + lab, canonical=lambda ns=ns: dseq(ns, x), reusable=lab not in ('generator', 'iterator'))
    rng = case_rng('order-forms', 'zernike')
    r, t = 0.03 + 0.94 * rng.random(4), rng.uniform(-1, 7, 4)
    terms = [(4, 2), (5, -3), (6, 0), (3, 1), (3, -1), (2, 2)]
    for lab, mk, both in [(l, f, True) for l, f in NM_FORMS] + [(l, f, False) for l, f in N_ONLY_FORMS]:
        for n, m in terms:
            for norm in (True, False):
                desc = {'fn': 'zernike_nm_der', 'n': n, 'm': m, 'norm': norm, 'nm_as': lab, 'class': f'zernike_nm_der:n,m-as-{lab}'}
                ctx.case(desc)
                with guard('zernike_nm_der', desc, lenlabel=mclass(m)):
                    dr, dt = zernike_nm_der(mk(n), mk(m) if both else m, r, t, norm=norm)
                    with quiet():
                        (rr, ur, rs, fs), (rt_, ut, ts, fs2) = zernike_oracle(zernike_nm, n, m, r, t, norm)
                    judge('zernike_nm_der.dr', dr, rr, ur, f'C09/zernike_nm_der/dr/{mclass(m)}', 'zernike_nm_der: dZ/dr is not the radial derivative of zernike_nm', desc, refsup=rs, fsup=fs, dscale=2.0,
                          form=('n,m=' if both else 'n=') + lab, canonical=lambda: zernike_nm_der(n, m, r, t, norm=norm)[0])
                    judge('zernike_nm_der.dt', dt, rt_, ut, f'C09/zernike_nm_der/dt/{mclass(m)}', 'zernike_nm_der: dZ/dt is not the azimuthal derivative of zernike_nm', desc, refsup=ts, fsup=fs2, dscale=1.0,
                          form=('n,m=' if both else 'n=') + lab, canonical=lambda: zernike_nm_der(n, m, r, t, norm=norm)[1])

    def zseq(cont, lab, kw, norm):
        desc = {'fn': 'zernike_nm_der_seq', 'terms_as': lab, 'opt': str(kw) or 'norm-omitted', 'class': f'zernike_nm_der_seq:terms-as-{lab}:{"norm-omitted" if not kw else "norm=" + str(kw["norm"])}'}
        ctx.case(desc)
        with guard('zernike_nm_der_seq', desc, lenlabel='seq'):
            got = np.asarray(zernike_nm_der_seq(cont, r, t, **kw))
            ctx.observe('zernike_nm_der_seq')
            if got.shape != (len(terms), 2) + r.shape:
                ctx.violation('C09/zernike_nm_der_seq/shape', f'zernike_nm_der_seq returned shape {got.shape}', desc)
                return
            for row, (n, m) in enumerate(terms):
                with quiet():
                    (rr, ur, rs, fs), (rt_, ut, ts, fs2) = zernike_oracle(zernike_nm, n, m, r, t, norm)
                judge('zernike_nm_der_seq', got[row, 0], rr, ur, f'C09/zernike_nm_der_seq/dr/{mclass(m)}', 'zernike_nm_der_seq: radial row is not d/dr of zernike_nm', desc, refsup=rs, fsup=fs, dscale=2.0,
                      form='terms=' + lab if lab != 'list-of-tuples' else ('norm=omitted' if not kw else None), canonical=lambda row=row: np.asarray(zernike_nm_der_seq(terms, r, t, norm=norm))[row, 0])
                judge('zernike_nm_der_seq', got[row, 1], rt_, ut, f'C09/zernike_nm_der_seq/dt/{mclass(m)}', 'zernike_nm_der_seq: azimuthal row is not d/dt of zernike_nm', desc, refsup=ts, fsup=fs2, dscale=1.0,
                      form='terms=' + lab if lab != 'list-of-tuples' else ('norm=omitted' if not kw else None), canonical=lambda row=row: np.asarray(zernike_nm_der_seq(terms, r, t, norm=norm))[row, 1])
    for lab, cont in term_containers(terms):
        zseq(cont, lab, {'norm': False}, False)
        zseq(cont, lab, {}, True)
    for lab, mk in NM_FORMS:
        zseq([(mk(a), mk(b)) for a, b in terms], 'list-of-' + lab, {'norm': True}, True)
    # omitted vs explicit default after the other explicit value (single-order form)
    for step, kw in enumerate(({'norm': False}, {}, {'norm': True}, {}, {'norm': False}, {})):
        norm = kw.get('norm', True)
        for n, m in ((4, 2), (3, -1), (2, 0)):
            desc = {'fn': 'zernike_nm_der', 'n': n, 'm': m, 'opt': str(kw) or 'norm-omitted', 'step': step, 'class': f'zernike_nm_der:{"norm-omitted" if not kw else "norm=" + str(norm)}'}
            ctx.case(desc)
            with guard('zernike_nm_der', desc, lenlabel=mclass(m)):
                dr, dt = zernike_nm_der(n, m, r, t, **kw)
                with quiet():
                    (rr, ur, rs, fs), (rt_, ut, ts, fs2) = zernike_oracle(zernike_nm, n, m, r, t, norm)
                judge('zernike_nm_der.dr', dr, rr, ur, f'C09/zernike_nm_der/dr/{mclass(m)}', 'zernike_nm_der: dZ/dr is not the radial derivative of zernike_nm (norm omitted = norm=True)', desc, refsup=rs, fsup=fs,
                      dscale=2.0, form=None if kw else 'norm=omitted', canonical=lambda: zernike_nm_der(n, m, r, t, norm=True)[0])
    # j of the Clenshaw derivative routines: numpy integers; omitted vs 1 (the contracts judge every row)
    rng = case_rng('order-forms', 'clenshaw')
    x = rng.uniform(-0.9, 0.9, 4)
    u = 0.03 + 0.94 * rng.random(4)
    for L in (1, 4, 9):
        c0 = [float(v) for v in rng.normal(size=L)]
        for lab, mk in (('int64', np.int64), ('int32', np.int32), ('uint32', np.uint32), ('intp', np.intp)):
            for j in (1, 2, 3):
                desc = {'fn': 'clenshaw-der', 'len': L, 'j': j, 'j_as': lab, 'class': f'clenshaw-der:j-as-{lab}'}
                ctx.case(desc)
                with guard('jacobi_sum_clenshaw_der', desc, lenlabel=lenclass(L), jlabel=jclass(j, L)):
                    jacobi_sum_clenshaw_der(c0, -0.25, -0.75, x, j=mk(j))
                with guard('clenshaw_qbfs_der', desc, lenlabel=lenclass(L), jlabel=jclass(j, L)):
                    clenshaw_qbfs_der(c0, u * u, j=mk(j))
                with guard('clenshaw_q2d_der', desc, lenlabel=lenclass(L), jlabel=jclass(j, L)):
                    clenshaw_q2d_der(c0, mk(1 + j % 3), u * u, j=mk(j))
        desc = {'fn': 'clenshaw-der', 'len': L, 'j': 'omitted', 'class': 'clenshaw-der:j-omitted'}
        ctx.case(desc)
        with guard('jacobi_sum_clenshaw_der', desc, lenlabel=lenclass(L), jlabel=jclass(1, L)):
            jacobi_sum_clenshaw_der(c0, 0.25, -0.25, x, j=3)
            keep('jacobi_sum_clenshaw_der', jacobi_sum_clenshaw_der(c0, 0.25, -0.25, x))
        with guard('clenshaw_qbfs_der', desc, lenlabel=lenclass(L), jlabel=jclass(1, L)):
            clenshaw_qbfs_der(c0, u * u, j=3)
            keep('clenshaw_qbfs_der', clenshaw_qbfs_der(c0, u * u))
        with guard('clenshaw_q2d_der', desc, lenlabel=lenclass(L), jlabel=jclass(1, L)):
            clenshaw_q2d_der(c0, 2, u * u, j=3)
            keep('clenshaw_q2d_der', clenshaw_q2d_der(c0, 2, u * u))


JAC_LINES = [(-0.25, -0.75), (-0.75, -0.25), (-0.125, -0.875), (-0.5, -0.5), (0.75, -0.75), (-0.75, 0.75), (-0.25, 0.25), (0.25, -0.25)]


def param_form_units(ctx):
    """Class E, forms of the shape parameters of jacobi_der(_seq), laguerre_der(_seq) and jacobi_sum_clenshaw_der: python float, numpy float64, numpy
    float32 (single-precision class), python int / numpy int64 for integer values; the standing parameter lines alpha + beta = -1 and = 0 with
    alpha != beta (the n = 0 special case of the recurrence coefficients) for the Clenshaw derivative sums; the coordinate of the Clenshaw
    routines as python float / numpy float64 scalar / 0-d array."""
    from prysm import polynomials as p
    from prysm.polynomials.qpoly import clenshaw_qbfs_der, clenshaw_q2d_der, compute_z_zprime_Qbfs, compute_z_zprime_Qcon
    rng = case_rng('param-forms')
    x = np.sort(rng.uniform(-0.95, 0.95, 4))
    xl = 0.2 + 7.5 * rng.random(4)
    for al, be in JAC_LINES + [(1.5, 0.5)]:
        for fl, mk, exact in PARAM_FORMS:
            a_, b_ = mk(al), mk(be)
            for n in (0, 1, 2, 3, 7):
                desc = {'fn': 'jacobi_der', 'n': n, 'params': (al, be), 'params_as': fl, 'class': f'jacobi_der:params-as-{fl}'}
                ctx.case(desc)
                with guard('jacobi_der', desc, lenlabel='n=0' if n == 0 else 'n>=1'):
                    der_check('jacobi', lambda k, xx: p.jacobi(k, al, be, xx), lambda k, xx: p.jacobi_der(k, a_, b_, xx), n, x, x, -1.0, 1.0, desc, f32=not exact,
                              form='alpha,beta=' + fl if fl != 'pyfloat' else None, canonical=lambda n=n: p.jacobi_der(n, al, be, x))
            desc = {'fn': 'jacobi_der_seq', 'ns': [0, 1, 2, 3, 7], 'params': (al, be), 'params_as': fl, 'class': f'jacobi_der_seq:params-as-{fl}'}
            ctx.case(desc)
            with guard('jacobi_der_seq', desc, lenlabel='seq'):
                der_seq_check('jacobi', lambda k, xx: p.jacobi(k, al, be, xx), lambda ns, xx: p.jacobi_der_seq(ns, a_, b_, xx), [0, 1, 2, 3, 7], [0, 1, 2, 3, 7], x, x, -1.0, 1.0, desc,
                              f32=not exact, form='alpha,beta=' + fl if fl != 'pyfloat' else None, canonical=lambda: p.jacobi_der_seq([0, 1, 2, 3, 7], al, be, x))
            for L in (1, 2, 3, 6):
                c0 = [float(v) for v in rng.normal(size=L)]
                for j in (1, 2):
                    desc = {'fn': 'jacobi_sum_clenshaw_der', 'len': L, 'j': j, 'params': (al, be), 'params_as': fl, 'class': f'jacobi_sum_clenshaw_der:{"a+b=-1" if al + be == -1 else "a+b=0" if al + be == 0 else "general"}:params-as-{fl}'}
                    ctx.case(desc)
                    with guard('jacobi_sum_clenshaw_der', desc, lenlabel=lenclass(L), jlabel=jclass(j, L)):
                        p.jacobi_sum_clenshaw_der(c0 if L % 2 else np.array(c0), a_, b_, x if exact else x.astype(np.float32), j=j)
    for al, be in ((0, 4), (1, 0), (2, 1)):
        for fl, mk, exact in INT_PARAM_FORMS:
            for n in (0, 1, 2, 5):
                desc = {'fn': 'jacobi_der', 'n': n, 'params': (al, be), 'params_as': fl, 'class': f'jacobi_der:params-as-{fl}'}
                ctx.case(desc)
                with guard('jacobi_der', desc, lenlabel='n=0' if n == 0 else 'n>=1'):
                    der_check('jacobi', lambda k, xx: p.jacobi(k, float(al), float(be), xx), lambda k, xx: p.jacobi_der(k, mk(al), mk(be), xx), n, x, x, -1.0, 1.0, desc,
                              form='alpha,beta=' + fl, canonical=lambda n=n: p.jacobi_der(n, float(al), float(be), x))
    for al in (0.5, -0.5, 1.5, 2):
        forms = (PARAM_FORMS if al != 2 else INT_PARAM_FORMS)
        for fl, mk, exact in forms:
            for n in (0, 1, 2, 3, 7):
                desc = {'fn': 'laguerre_der', 'n': n, 'params': al, 'params_as': fl, 'class': f'laguerre_der:params-as-{fl}'}
                ctx.case(desc)
                with guard('laguerre_der', desc, lenlabel='n=0' if n == 0 else 'n>=1'):
                    der_check('laguerre', lambda k, xx: p.laguerre(k, float(al), xx), lambda k, xx: p.laguerre_der(k, mk(al), xx), n, xl, xl, 0.0, 8.0, desc, f32=not exact,
                              form='alpha=' + fl if fl != 'pyfloat' else None, canonical=lambda n=n: p.laguerre_der(n, float(al), xl))
            desc = {'fn': 'laguerre_der_seq', 'ns': [0, 1, 2, 7], 'params': al, 'params_as': fl, 'class': f'laguerre_der_seq:params-as-{fl}'}
            ctx.case(desc)
            with guard('laguerre_der_seq', desc, lenlabel='seq'):
                der_seq_check('laguerre', lambda k, xx: p.laguerre(k, float(al), xx), lambda ns, xx: p.laguerre_der_seq(ns, mk(al), xx), [0, 1, 2, 7], [0, 1, 2, 7], xl, xl, 0.0, 8.0, desc,
                              f32=not exact, form='alpha=' + fl if fl != 'pyfloat' else None, canonical=lambda: p.laguerre_der_seq([0, 1, 2, 7], float(al), xl))
    # scalar coordinates of the Clenshaw derivative routines and evaluators (the contracts judge the rows; the slope against the explicit sum)
    for xlab, u in (('pyfloat', 0.40625), ('npfloat64', np.float64(0.71875)), ('0d', np.array(0.21875)), ('pyint:1', 1), ('pyint:0', 0)):
        for L in (1, 4, 9):
            c0 = [float(v) for v in rng.normal(size=L)]
            desc = {'fn': 'clenshaw-der', 'len': L, 'x_as': xlab, 'class': f'clenshaw-der:x-as-{xlab.split(":")[0]}'}
            ctx.case(desc)
            with guard('jacobi_sum_clenshaw_der', desc, lenlabel=lenclass(L), jlabel=jclass(2, L)):
                p.jacobi_sum_clenshaw_der(c0, -0.25, -0.75, 2 * u - 1, j=2)
            with guard('clenshaw_qbfs_der', desc, lenlabel=lenclass(L), jlabel=jclass(2, L)):
                clenshaw_qbfs_der(c0, u * u, j=2)
            with guard('clenshaw_q2d_der', desc, lenlabel=lenclass(L), jlabel=jclass(1, L)):
                clenshaw_q2d_der(c0, 2, u * u, j=1)
            if xlab.startswith('pyint'):
                continue        # the sag-and-slope evaluators are wrong for a python int coordinate today (class E table): out of domain
            for which, fn in (('Qbfs', compute_z_zprime_Qbfs), ('Qcon', compute_z_zprime_Qcon)):
                with guard(f'compute_z_zprime_{which}', desc, lenlabel=lenclass(L), jlabel='j>=len' if L == 1 else 'j=1'):
                    z, zp = fn(c0, u, u * u)
                    ref, unc, refsup, fsup = explicit_slope(which, c0, np.asarray(float(u)))
                    judge(f'compute_z_zprime_{which}.slope', np.asarray(zp), ref, unc, f'C09/compute_z_zprime_{which}/slope/{lenclass(L)}', f'compute_z_zprime_{which}: the slope at a scalar coordinate is not d/du of the explicit sum',
                          desc, refsup=refsup, fsup=fsup, dscale=2.0, form='u=' + xlab, canonical=lambda: fn(c0, np.array([float(u)]), np.array([float(u) ** 2]))[1][0])


def very_high_units(ctx, part, nparts):
    """Class D in the quick tier too: derivative routines at orders 171, 172, 200, 256, 400 (single and sequence forms), per family up to its numerically
    meaningful limit; the spectral oracle carries its own uncertainty (a case it cannot resolve 100x below the tolerance is excluded and counted)."""
    i = -1
    for name, plist, make, lo, hi, seq2d in families():
        for pi, pv in enumerate(plist[:2]):
            i += 1
            if i % nparts != part or pv == 'rand':
                continue
            val, der, dseq = make(pv)
            rng = case_rng('very-high', name, pi)
            x = lo + (hi - lo) * (0.05 + 0.9 * rng.random(3))
            tops = [n for n in high_orders(name, not ctx.quick) if not (name.startswith('hermite') and n > 100)]
            if name.startswith('hermite'):
                tops = [100]         # values ~1e94 at n = 100: the interpolation oracle stays exact in relative terms; beyond, nothing new is exercised
            for n in tops:
                desc = {'fn': name + '_der', 'n': n, 'params': pv, 'class': f'{name}_der:very-high-order'}
                ctx.case(desc)
                ctx.observe('classD.very-high-orders')
                with guard(name + '_der', desc, lenlabel='n>=1'):
                    der_check(name, val, der, n, x, x, lo, hi, desc, keyname='orders>=171' if n >= 171 else None)
                ns = [1, n - 1, n]
                desc = {'fn': name + '_der_seq', 'ns': ns, 'params': pv, 'class': f'{name}_der_seq:very-high-order'}
                ctx.case(desc)
                with guard(name + '_der_seq', desc, lenlabel='seq'):
                    der_seq_check(name, val, dseq, ns, ns, x, x, lo, hi, desc, keyname='orders>=171' if n >= 171 else None)


def foreign_units(ctx):
    """Class F: the other consumers of the shared recurrence tables (value / sequence routines of every family, the fast sums, the change-of-basis
    helpers, the fit; precision 32, numpy-typed orders, in-place-prone paths) run first, unjudged; then every derivative routine is judged as usual."""
    from prysm import polynomials as P
    from prysm.polynomials import zernike_nm, zernike_nm_der, jacobi_sum_clenshaw_der
    from prysm.polynomials.qpoly import clenshaw_qbfs_der, clenshaw_q2d_der, compute_z_zprime_Qbfs, compute_z_zprime_Qcon, compute_z_zprime_Q2d
    rng = case_rng('foreign')
    u = np.array([0.09375, 0.40625, 0.65625, 0.90625])
    t = np.array([0.5, 1.75, 3.0, 5.5])
    for rep, n in enumerate((1, 2, 7, 19, 41)):
        ctx.event('foreign-traffic-raised', foreign_traffic(P, rep))
        ctx.observe('classF.foreign-traffic')
        for name, plist, make, lo, hi, seq2d in families():
            pv = fixed_params(name, plist, rep)
            val, der, dseq = make(pv)
            x = lo + (hi - lo) * np.array([0.09375, 0.40625, 0.65625, 0.90625])
            nn = min(n, 40) if name.startswith(('hermite', 'laguerre')) else n
            desc = {'fn': name + '_der', 'n': nn, 'params': pv, 'class': f'{name}_der:after-foreign-traffic'}
            ctx.case(desc)
            with guard(name + '_der', desc, lenlabel='n>=1'):
                der_check(name, val, der, nn, x, x, lo, hi, desc)
            with guard(name + '_der_seq', desc, lenlabel='seq'):
                der_seq_check(name, val, dseq, [0, 1, nn] if nn > 1 else [0, 1], [0, 1, nn] if nn > 1 else [0, 1], x, x, lo, hi, desc)
        for nz, m in ((2 * n + 1, 1), (2 * n + 4, -4), (2 * n, 0)):
            desc = {'fn': 'zernike_nm_der', 'n': nz, 'm': m, 'class': 'zernike_nm_der:after-foreign-traffic'}
            ctx.case(desc)
            with guard('zernike_nm_der', desc, lenlabel=mclass(m)):
                dr, dt = zernike_nm_der(nz, m, u, t, norm=bool(rep % 2))
                with quiet():
                    (rr, ur, rs, fs), (rt_, ut, ts, fs2) = zernike_oracle(zernike_nm, nz, m, u, t, bool(rep % 2))
                judge('zernike_nm_der.dr', dr, rr, ur, f'C09/zernike_nm_der/dr/{mclass(m)}', 'zernike_nm_der: dZ/dr is not the radial derivative of zernike_nm', desc, refsup=rs, fsup=fs, dscale=2.0)
                judge('zernike_nm_der.dt', dt, rt_, ut, f'C09/zernike_nm_der/dt/{mclass(m)}', 'zernike_nm_der: dZ/dt is not the azimuthal derivative of zernike_nm', desc, refsup=ts, fsup=fs2, dscale=1.0)
        L = n + 1
        c = [float(v) for v in rng.normal(size=L)]
        desc = {'fn': 'clenshaw-der', 'len': L, 'class': 'clenshaw-der:after-foreign-traffic'}
        ctx.case(desc)
        for j in (1, 2):
            with guard('jacobi_sum_clenshaw_der', desc, lenlabel=lenclass(L), jlabel=jclass(j, L)):
                jacobi_sum_clenshaw_der(np.array(c), -0.25, -0.75, 2 * u - 1, j=j)
                jacobi_sum_clenshaw_der(c, 0, 4, 2 * u - 1, j=j)
            with guard('clenshaw_qbfs_der', desc, lenlabel=lenclass(L), jlabel=jclass(j, L)):
                clenshaw_qbfs_der(np.array(c), u * u, j=j)
            with guard('clenshaw_q2d_der', desc, lenlabel=lenclass(L), jlabel=jclass(j, L)):
                clenshaw_q2d_der(c, 1 + rep % 4, u * u, j=j)
        for which, fn in (('Qbfs', compute_z_zprime_Qbfs), ('Qcon', compute_z_zprime_Qcon)):
            slope_check(f'compute_z_zprime_{which}.slope', f'compute_z_zprime_{which}', lambda U: fn(np.array(c), U, U * U), u, desc, f'C09/compute_z_zprime_{which}/slope/{lenclass(L)}', 2 * L + 4, lenclass(L))
        if L <= 20:
            cm0, ams, bms = c, [c[:max(1, L // 2)], c], [c, c[:max(1, L // 3)]]
            deg, mmax = q2d_degree(cm0, ams, bms)
            lab = 'list-len1' if L <= 3 else 'regular'
            polar_check('compute_z_zprime_Q2d', 'compute_z_zprime_Q2d', lambda R, T: compute_z_zprime_Q2d(list(cm0), [list(a) for a in ams], [list(b) for b in bms], R, T),
                        u, t, 0.0, 1.0, deg + 4, 2 * mmax + 4, desc, f'C09/compute_z_zprime_Q2d/{lab}', lab)


# ------------------------------------------------------------------------------------------ hardening pass 3 (HARDENING3.md G, H, I)
def regime(s):
    return 'tiny' if s < 1 else ('huge' if s > 1 else 'unit')


def scale_units(ctx):
    """Class G: the Clenshaw derivative tables and the sag-and-slope evaluators are LINEAR in the coefficients - coefficient vectors scaled by 1e-12 ... 1e12 (not powers of two:
    s * c is rounded like any user input).  Every call is judged by the ordinary oracle (the contracts' / evaluators' tolerances are proportional to the size of the sum, so a
    tiny regime is judged as strictly as a unit one) and by the scale law  f(s c) = s f(c)  row by row, relative to the size of the row.  The evaluation points include both
    ends of the domain and 0 (class H)."""
    from prysm.polynomials import jacobi_sum_clenshaw_der
    from prysm.polynomials.qpoly import clenshaw_qbfs_der, clenshaw_q2d_der, compute_z_zprime_Qbfs, compute_z_zprime_Qcon, compute_z_zprime_Q2d
    rng = case_rng('scale')
    x = np.array([-1.0, -0.8125, -0.21875, 0.0, 0.34375, 1.0])
    u = np.array([0.0, 0.09375, 0.40625, 0.65625, 1.0])
    t = np.array([0.5, 1.75, 3.0, 5.5, 0.0])
    ctx = CTX
    for L in (1, 2, 5, 9) + CTX.pick((), (3, 19)):
        c0 = [float(v) for v in rng.normal(size=L)]
        a0 = [float(v) for v in rng.normal(size=max(1, L - 1))]
        b0 = [float(v) for v in rng.normal(size=L + 1)]
        base = {}
        for s in (1.0,) + tuple(scales(CTX.quick)):
            reg = regime(s)
            cs, as_, bs = [v * s for v in c0], [v * s for v in a0], [v * s for v in b0]
            arr = (lambda v: np.array(v)) if L % 2 else (lambda v: list(v))

            def law(fn, tag, tables, desc):
                """tables: tuple of arrays, each linear in the coefficients"""
                if s == 1.0:
                    base[(fn, tag)] = [np.array(v, dtype=float, copy=True) for v in tables]
                    return
                ref = base.get((fn, tag))
                if ref is None:
                    return
                for k, (g, r0) in enumerate(zip(tables, ref)):
                    g, r0 = np.asarray(g, dtype=float), s * r0
                    rows = range(g.shape[0]) if (g.ndim >= 2 and fn.endswith('_der')) else [None]
                    for row in rows:
                        gg, rr = (g, r0) if row is None else (g[row], r0[row])
                        ctx.close('classG.scale-laws', gg, rr, f'C09/{fn}/scale:{reg}', f'{fn}: the result for coefficients scaled by s is not s times the result for the unscaled coefficients (the routine is linear in them)',
                                  dict(desc, output=k, row=row), rtol=1e-10, atol=1e-300, scale=sup(rr))
            for j in (1, 2):
                for (al, be) in ((0.3, 1.2), (-0.25, -0.75), (0, 4)):
                    desc = {'fn': 'jacobi_sum_clenshaw_der', 'len': L, 'j': j, 'alpha': al, 'beta': be, 'scale': s, 'class': f'jacobi_sum_clenshaw_der:scale:{reg}'}
                    ctx.case(desc)
                    with guard('jacobi_sum_clenshaw_der', desc, lenlabel=lenclass(L), jlabel=jclass(j, L)):
                        law('jacobi_sum_clenshaw_der', (j, al, be), (jacobi_sum_clenshaw_der(arr(cs), al, be, x, j=j),), desc)
                desc = {'fn': 'clenshaw_qbfs_der', 'len': L, 'j': j, 'scale': s, 'class': f'clenshaw_qbfs_der:scale:{reg}'}
                ctx.case(desc)
                with guard('clenshaw_qbfs_der', desc, lenlabel=lenclass(L), jlabel=jclass(j, L)):
                    law('clenshaw_qbfs_der', j, (clenshaw_qbfs_der(arr(cs), u * u, j=j),), desc)
                for m in (1, 2, 4):
                    desc = {'fn': 'clenshaw_q2d_der', 'len': L, 'j': j, 'm': m, 'scale': s, 'class': f'clenshaw_q2d_der:scale:{reg}'}
                    ctx.case(desc)
                    with guard('clenshaw_q2d_der', desc, lenlabel=lenclass(L), jlabel=jclass(j, L)):
                        law('clenshaw_q2d_der', (j, m), (clenshaw_q2d_der(arr(cs), m, u * u, j=j),), desc)
            for which, fn in (('Qbfs', compute_z_zprime_Qbfs), ('Qcon', compute_z_zprime_Qcon)):
                desc = {'fn': f'compute_z_zprime_{which}', 'len': L, 'scale': s, 'class': f'compute_z_zprime_{which}:scale:{reg}'}
                ctx.case(desc)
                slope_check(f'compute_z_zprime_{which}.slope', f'compute_z_zprime_{which}', lambda U: fn(arr(cs), U, U * U), u, desc, f'C09/compute_z_zprime_{which}/slope/{lenclass(L)}', 2 * L + 4, lenclass(L))
                with guard(f'compute_z_zprime_{which}', desc, lenlabel=lenclass(L), jlabel='j>=len' if L == 1 else 'j=1'):
                    law(f'compute_z_zprime_{which}', 0, fn(arr(cs), u, u * u), desc)
            cm0, ams, bms = cs, [as_, bs], [bs, as_]
            deg, mmax = q2d_degree(cm0, ams, bms)
            lab = 'list-len1' if L <= 2 else 'regular'
            desc = {'fn': 'compute_z_zprime_Q2d', 'len': L, 'scale': s, 'class': f'compute_z_zprime_Q2d:scale:{reg}'}
            ctx.case(desc)
            polar_check('compute_z_zprime_Q2d', 'compute_z_zprime_Q2d', lambda R, T: compute_z_zprime_Q2d(list(cm0), [list(a) for a in ams], [list(b) for b in bms], R, T),
                        u, t, 0.0, 1.0, deg + 4, 2 * mmax + 4, desc, f'C09/compute_z_zprime_Q2d/{lab}', lab)
            with guard('compute_z_zprime_Q2d', desc, lenlabel=lab, jlabel='j=1'):
                law('compute_z_zprime_Q2d', 0, compute_z_zprime_Q2d(list(cm0), [list(a) for a in ams], [list(b) for b in bms], u, t), desc)


def special_parameter_units(ctx):
    """Class H, shape parameters special only UP TO ROUNDING (alpha = 0.1 + 0.2, beta = -0.3; alpha + beta = -1 +- 1 ulp; one ulp from 0, +-1/2, an integer; alpha -> -1), the
    exactly special ones and clearly generic neighbours, for jacobi_der, jacobi_der_seq, jacobi_sum_clenshaw_der (judged by its contract), laguerre_der, laguerre_der_seq; the
    evaluation points include 0 and both ends of the domain.  The oracle differentiates the VALUE routine at the same parameters, and both are smooth in them: the ordinary
    tolerance applies.  A failure that disappears at the exactly special neighbour is keyed .../special:<line>."""
    from prysm import polynomials as p
    rng = case_rng('special-parameters')
    x = np.array([-1.0, -0.5625, 0.0, 0.40625, 1.0])
    cases = [('special:' + c, ab, nb) for c, ab, nb in near_special_jacobi(not CTX.quick)] + [('exactly-special', ab, None) for ab in EXACT_SPECIAL_JACOBI] + \
            [('generic-neighbour', ab, None) for ab in GENERIC_NEIGHBOURS_JACOBI]
    for cls, (al, be), nb in cases:
        sp = special_class((al, be))
        for n in CTX.pick((0, 1, 2, 3, 5, 8), tuple(range(10)) + (12, 19)):
            desc = {'fn': 'jacobi_der', 'n': n, 'params': [repr(al), repr(be)], 'pclass': cls, 'class': f'jacobi_der:{cls}'}
            ctx.case(desc)
            ctx.observe('classH.special-parameters')
            with guard('jacobi_der', desc, lenlabel='n=0' if n == 0 else 'n>=1'):
                special = (f'C09/jacobi_der/special:{sp[0]}', lambda n=n: p.jacobi_der(n, nb[0], nb[1], x)) if (sp and nb) else None
                der_check('jacobi', lambda k, xx: p.jacobi(k, al, be, xx), lambda k, xx: p.jacobi_der(k, al, be, xx), n, x, x, -1.0, 1.0, desc, special=special)
        for ns in ([0, 1, 2, 3], [1], [2, 5], [0], [0, 1, 2, 3, 4, 5, 6, 7, 8]):
            desc = {'fn': 'jacobi_der_seq', 'ns': ns, 'params': [repr(al), repr(be)], 'pclass': cls, 'class': f'jacobi_der_seq:{cls}'}
            ctx.case(desc)
            with guard('jacobi_der_seq', desc, lenlabel='seq'):
                special = (f'C09/jacobi_der_seq/special:{sp[0]}', lambda ns=ns: p.jacobi_der_seq(ns, nb[0], nb[1], x)) if (sp and nb) else None
                der_seq_check('jacobi', lambda k, xx: p.jacobi(k, al, be, xx), lambda o, xx: p.jacobi_der_seq(o, al, be, xx), ns, ns, x, x, -1.0, 1.0, desc, special=special)
        for L in (1, 2, 3, 6):
            c0 = [float(v) for v in rng.normal(size=L)]
            for j in (1, 2):
                desc = {'fn': 'jacobi_sum_clenshaw_der', 'len': L, 'j': j, 'params': [repr(al), repr(be)], 'pclass': cls, 'class': f'jacobi_sum_clenshaw_der:{cls}'}
                ctx.case(desc)
                with guard('jacobi_sum_clenshaw_der', desc, lenlabel=lenclass(L), jlabel=jclass(j, L)):
                    p.jacobi_sum_clenshaw_der(c0 if L % 2 else np.array(c0), al, be, x, j=j)
    xl = np.array([0.0, 0.59375, 2.25, 5.5, 8.0])
    for cls, al in [('special:alpha~k/2', v) for c, v, sp_ in near_special_scalar([0.0, 0.5, -0.5, 1.0, 2.0], lower=-1.0, thorough=not CTX.quick)] + [('exactly-special', v) for v in (0.0, 0.5, -0.5, 1.0)]:
        sp = special_class((al,))
        for n in (0, 1, 2, 3, 5, 8):
            desc = {'fn': 'laguerre_der', 'n': n, 'params': repr(al), 'pclass': cls, 'class': f'laguerre_der:{cls}'}
            ctx.case(desc)
            ctx.observe('classH.special-parameters')
            with guard('laguerre_der', desc, lenlabel='n=0' if n == 0 else 'n>=1'):
                special = ('C09/laguerre_der/special:alpha~k/2', lambda n=n: p.laguerre_der(n, sp[1][0], xl)) if sp else None
                der_check('laguerre', lambda k, xx: p.laguerre(k, al, xx), lambda k, xx: p.laguerre_der(k, al, xx), n, xl, xl, 0.0, 8.0, desc, special=special)
        for ns in ([0, 1, 2, 3], [1], [2, 5], [0]):
            desc = {'fn': 'laguerre_der_seq', 'ns': ns, 'params': repr(al), 'pclass': cls, 'class': f'laguerre_der_seq:{cls}'}
            ctx.case(desc)
            with guard('laguerre_der_seq', desc, lenlabel='seq'):
                special = ('C09/laguerre_der_seq/special:alpha~k/2', lambda ns=ns: p.laguerre_der_seq(ns, sp[1][0], xl)) if sp else None
                der_seq_check('laguerre', lambda k, xx: p.laguerre(k, al, xx), lambda o, xx: p.laguerre_der_seq(o, al, xx), ns, ns, xl, xl, 0.0, 8.0, desc, special=special)


def special_point_units(ctx):
    """Class H, evaluation points exactly at 0 / -0.0 / +-1 / the ends of the domain and one ulp inside them, as whole arrays, each point alone (length-1 array, 0-d array, python
    float) for every *_der; arrays for *_der_seq incl. lists containing only order 0; the Clenshaw derivative routines and the sag-and-slope evaluators at x = -1, 0, 1 /
    u = 0, 1 (arrays, 0-d, length-1); zernike_nm_der on the axis (r = 0 with |m| = 0, 1, 2, n = |m| and n > |m|) and on the rim, 0-d / length-1 / python floats."""
    from prysm import polynomials as p
    from prysm.polynomials import zernike_nm, zernike_nm_der, jacobi_sum_clenshaw_der
    from prysm.polynomials.qpoly import clenshaw_qbfs_der, clenshaw_q2d_der, compute_z_zprime_Qbfs, compute_z_zprime_Qcon, compute_z_zprime_Q2d
    rng = case_rng('special-points')
    for name, plist, make, lo, hi, seq2d in families():
        pv = fixed_params(name, plist, 2)
        val, der, dseq = make(pv)
        pts = [lo, hi, 0.0, -0.0, ulps(lo, 1), ulps(hi, -1)] + ([1.0, -1.0] if lo < -1 else []) + ([1.0] if name == 'laguerre' else [])
        xa = np.array(pts)
        for n in (0, 1, 2, 3, 7, 12):
            desc = {'fn': name + '_der', 'n': n, 'params': pv, 'x': 'array-of-special-points', 'class': f'{name}_der:special-points:array'}
            ctx.case(desc)
            ctx.observe('classH.special-points')
            with guard(name + '_der', desc, lenlabel='n=0' if n == 0 else 'n>=1'):
                der_check(name, val, der, n, xa, xa, lo, hi, desc, keyname='special-points' if n else None)
            if n > 3:
                continue
            for v in pts:
                for form, xv in (('pyfloat', float(v)), ('0d', np.array(float(v))), ('len1', np.array([float(v)]))):
                    desc = {'fn': name + '_der', 'n': n, 'params': pv, 'x': form, 'point': repr(v), 'class': f'{name}_der:special-points:{form}'}
                    ctx.case(desc)
                    with guard(name + '_der', desc, lenlabel='n=0' if n == 0 else 'n>=1'):
                        der_check(name, val, der, n, xv, np.asarray(float(v)).reshape(np.shape(xv)), lo, hi, desc, keyname='special-points' if n else None)
        for ns in ([0], [0, 1], [1, 2, 5], [0, 3, 12]):
            for form, xv in (('array', xa), ('len1:end', xa[:1]), ('len1:zero', np.array([0.0]))):
                desc = {'fn': name + '_der_seq', 'ns': ns, 'params': pv, 'x': form, 'class': f'{name}_der_seq:special-points:{form}'}
                ctx.case(desc)
                with guard(name + '_der_seq', desc, lenlabel='seq'):
                    der_seq_check(name, val, dseq, ns, ns, xv, xv, lo, hi, desc)
    xj = np.array([-1.0, 0.0, 1.0, -0.0])
    uq = np.array([0.0, 1.0, 0.25, ulps(1.0, -1)])
    for L in (1, 2, 4, 9):
        c0 = [float(v) for v in rng.normal(size=L)]
        for form, xv, uv in (('array', xj, uq), ('0d:lo', np.array(-1.0), np.array(0.0)), ('0d:hi', np.array(1.0), np.array(1.0)), ('len1:zero', np.array([0.0]), np.array([0.0])), ('2d', xj.reshape(2, 2), uq.reshape(2, 2))):
            for j in (1, 2):
                desc = {'fn': 'clenshaw-der', 'len': L, 'j': j, 'x': form, 'class': f'clenshaw-der:special-points:{form.split(":")[0]}'}
                ctx.case(desc)
                ctx.observe('classH.special-points')
                with guard('jacobi_sum_clenshaw_der', desc, lenlabel=lenclass(L), jlabel=jclass(j, L)):
                    jacobi_sum_clenshaw_der(c0, 0.3, 1.2, xv, j=j)
                    jacobi_sum_clenshaw_der(c0, -0.5, 0.5, xv, j=j)
                with guard('clenshaw_qbfs_der', desc, lenlabel=lenclass(L), jlabel=jclass(j, L)):
                    clenshaw_qbfs_der(c0, uv, j=j)
                with guard('clenshaw_q2d_der', desc, lenlabel=lenclass(L), jlabel=jclass(j, L)):
                    clenshaw_q2d_der(c0, 1, uv, j=j)
                    clenshaw_q2d_der(c0, 3, uv, j=j)
            uu = np.sqrt(uv)
            for which, fn in (('Qbfs', compute_z_zprime_Qbfs), ('Qcon', compute_z_zprime_Qcon)):
                desc = {'fn': f'compute_z_zprime_{which}', 'len': L, 'x': form, 'class': f'compute_z_zprime_{which}:special-points:{form.split(":")[0]}'}
                ctx.case(desc)
                slope_check(f'compute_z_zprime_{which}.slope', f'compute_z_zprime_{which}', lambda U: fn(list(c0), U, U * U), uu, desc, f'C09/compute_z_zprime_{which}/slope/{lenclass(L)}', 2 * L + 4, lenclass(L))
            cm0, ams, bms = c0, [c0[:max(1, L // 2)], c0], [c0, c0[:max(1, L // 3)]]
            deg, mmax = q2d_degree(cm0, ams, bms)
            lab = 'list-len1' if L <= 3 else 'regular'
            desc = {'fn': 'compute_z_zprime_Q2d', 'len': L, 'x': form, 'class': f'compute_z_zprime_Q2d:special-points:{form.split(":")[0]}'}
            ctx.case(desc)
            polar_check('compute_z_zprime_Q2d', 'compute_z_zprime_Q2d', lambda R, T: compute_z_zprime_Q2d(list(cm0), [list(a) for a in ams], [list(b) for b in bms], R, T),
                        uu, np.full(np.shape(uu), 1.25), 0.0, 1.0, deg + 4, 2 * mmax + 4, desc, f'C09/compute_z_zprime_Q2d/{lab}', lab)
    for n, m in ((1, 1), (1, -1), (3, 1), (3, -1), (2, 0), (2, 2), (4, -2), (0, 0), (5, 1), (7, -1), (3, 3), (19, 1)):
        for norm in (True, False):
            for form, r, t in (('array', np.array([0.0, 0.0, 1.0, 1.0, ulps(1.0, -1), 2.0 ** -30]), np.array([0.0, 1.25, 0.0, np.pi / 2, np.pi, 3.0])), ('0d:axis', np.array(0.0), np.array(1.25)),
                               ('len1:axis', np.array([0.0]), np.array([2.0])), ('pyfloat:axis', 0.0, 1.25), ('0d:rim', np.array(1.0), np.array(0.5)), ('pyfloat:rim', 1.0, 0.0)):
                desc = {'fn': 'zernike_nm_der', 'n': n, 'm': m, 'norm': norm, 'x': form, 'class': f'zernike_nm_der:special-points:{form.split(":")[0]}:{mclass(m)}'}
                ctx.case(desc)
                with guard('zernike_nm_der', desc, lenlabel=mclass(m)):
                    dr, dt = zernike_nm_der(n, m, r, t, norm=norm)
                    with quiet():
                        (rr, ur, rs, fs), (rt_, ut, ts, fs2) = zernike_oracle(zernike_nm, n, m, np.asarray(r, dtype=float), np.asarray(t, dtype=float), norm)
                    judge('zernike_nm_der.dr', dr, rr, ur, f'C09/zernike_nm_der/dr/{mclass(m)}', 'zernike_nm_der: dZ/dr on the axis / rim is not the radial derivative of zernike_nm', desc, refsup=rs, fsup=fs, dscale=2.0)
                    judge('zernike_nm_der.dt', dt, rt_, ut, f'C09/zernike_nm_der/dt/{mclass(m)}', 'zernike_nm_der: dZ/dt on the axis / rim is not the azimuthal derivative of zernike_nm', desc, refsup=ts, fsup=fs2, dscale=1.0)


def layout_label(cm0, ams, bms):
    """Mechanism class of a coefficient-set layout: its most specific hostile feature."""
    lists = list(ams) + list(bms)
    pop = [i for i in range(max(len(ams), len(bms))) if (i < len(ams) and len(ams[i])) or (i < len(bms) and len(bms[i]))]
    inner_gap = any(i not in pop for i in range(pop[-1])) if pop else False
    if inner_gap:
        return 'empty-azimuthal-order-between-populated-ones'
    if any((len(a) == 0) != (len(b) == 0) for a, b in zip(ams, bms)):
        return 'empty-list'
    if any(len(v) == 1 for v in lists):
        return 'list-len1'
    if len(cm0) == 1:
        return 'len1'
    return 'regular'


def coef_layout_units(ctx, part, nparts):
    """Class I, coefficient-set layouts: EVERY pattern of empty / length-1 / length-5 lists (length 5 at m = 1: the N > 2 branch with a non-zero correction of sag AND slope) over the azimuthal orders m = 0 .. 4 (3^5 = 243 patterns; the sine lists carry the
    cosine pattern rotated by one order, so that one family may be absent where the other is populated) through compute_z_zprime_Q2d: both slopes against the derivatives of the
    sag the same call returns, at points that include the axis and the rim."""
    from prysm.polynomials.qpoly import compute_z_zprime_Q2d
    u = np.array([0.0, 0.21875, 0.53125, 0.84375, 1.0])
    t = np.array([0.5, 1.75, 3.0, 5.5, 0.0])
    for pi, pat in enumerate(layout_patterns(5)):
        if pi % nparts != part:
            continue
        rng = case_rng('layout-pattern', pi)

        def mk(c):
            return [] if c == 'e' else [float(v) for v in rng.normal(size=1 if c == '1' else 5)]
        cm0 = mk(pat[0])
        ams = [mk(c) for c in pat[1:]]
        rot = pat[2:] + pat[1:2]
        bms = [mk(c) for c in (rot if pi % 2 else pat[1:])]
        lab = layout_label(cm0, ams, bms)
        deg, mmax = q2d_degree(cm0 or [0.0], ams, bms)
        desc = {'fn': 'compute_z_zprime_Q2d', 'pattern': ''.join(pat), 'sine-pattern': 'rotated' if pi % 2 else 'same', 'lens': [len(cm0), [len(a) for a in ams], [len(b) for b in bms]],
                'class': f'compute_z_zprime_Q2d:layout:{lab}'}
        ctx.case(desc, nontrivial=any(c != 'e' for c in pat))
        ctx.observe('classI.layouts')
        polar_check('compute_z_zprime_Q2d', 'compute_z_zprime_Q2d', lambda R, T: compute_z_zprime_Q2d(list(cm0), [list(a) for a in ams], [list(b) for b in bms], R, T),
                    u, t, 0.0, 1.0, deg + 4, 2 * 4 + 4, desc, f'C09/compute_z_zprime_Q2d/{lab}', {'list-len1': 'list-len1', 'len1': 'len1', 'empty-list': 'empty-list'}.get(lab, 'regular'))


def ordering_units(ctx):
    """Class I, every ordering of the term list of zernike_nm_der_seq (ascending, descending, grouped by |m|, radial orders non-ascending inside each |m| group, shuffles, all
    permutations of small same-|m| groups): each row pair against the derivatives of zernike_nm for the term requested at that position."""
    import itertools
    from prysm.polynomials import zernike_nm, zernike_nm_der_seq
    rng = np.random.default_rng([CTX.seed, 9109])
    zset = [(n, m) for n in range(CTX.pick(5, 8)) for m in range(-n, n + 1, 2)]
    jobs = [(lab, o) for lab, o in term_orderings(zset, rng, CTX.pick(2, 6))]
    for am in (0, 1, 2):
        for perm in itertools.permutations([(am + 2 * j, am) for j in range(3)]):
            jobs.append(('permutation-of-one-|m|-group', list(perm)))
            if am:
                jobs.append(('permutation-of-one-|m|-group-mixed-signs', [(n, m if i % 2 else -m) for i, (n, m) in enumerate(perm)] + [(perm[0][0], -am)]))
    r = np.array([0.0, 0.09375, 0.40625, 0.65625, 1.0])
    t = np.array([0.5, 1.75, 3.0, 5.5, 0.0])
    oracle = {}
    for i, (lab, lst) in enumerate(jobs):
        norm = bool(i % 2)
        desc = {'fn': 'zernike_nm_der_seq', 'ordering': lab, 'nms': lst[:10], 'k': len(lst), 'norm': norm, 'class': f'zernike_nm_der_seq:ordering:{lab}'}
        ctx.case(desc)
        ctx.observe('classI.orderings')
        with guard('zernike_nm_der_seq', desc, lenlabel='seq'):
            got = np.asarray(zernike_nm_der_seq(lst if i % 3 else np.array(lst), r, t, norm=norm))
            ctx.observe('zernike_nm_der_seq')
            if got.shape != (len(lst), 2) + r.shape:
                ctx.violation('C09/zernike_nm_der_seq/shape', f'zernike_nm_der_seq returned shape {got.shape}', desc)
                continue
            for row, (n, m) in enumerate(lst):
                if (n, m, norm) not in oracle:
                    with quiet():
                        oracle[(n, m, norm)] = zernike_oracle(zernike_nm, n, m, r, t, norm)
                (rr, ur, rs, fs), (rt_, ut, ts, fs2) = oracle[(n, m, norm)]
                judge('zernike_nm_der_seq', got[row, 0], rr, ur, f'C09/zernike_nm_der_seq/dr/{mclass(m)}', 'zernike_nm_der_seq: radial row is not d/dr of zernike_nm for the term requested at that position', desc,
                      refsup=rs, fsup=fs, dscale=2.0, nm=(n, m), row=row)
                judge('zernike_nm_der_seq', got[row, 1], rt_, ut, f'C09/zernike_nm_der_seq/dt/{mclass(m)}', 'zernike_nm_der_seq: azimuthal row is not d/dt of zernike_nm for the term requested at that position', desc,
                      refsup=ts, fsup=fs2, dscale=1.0, nm=(n, m), row=row)


def run_hardening(ctx, counter):
    def mine():
        counter[0] += 1
        return ctx.mine(counter[0])
    for fi, (name, plist, make, lo, hi) in enumerate(fam_table()):
        variants = HIST_VARIANTS if not ctx.quick else [HIST_VARIANTS[fi % 2], HIST_VARIANTS[2 + (fi // 2) % 2]]
        for v in variants:
            if mine():
                history_1d(ctx, name, plist, make, lo, hi, v)
    for v in HIST_VARIANTS:
        if mine():
            history_zernike(ctx, v)
        if mine():
            history_clenshaw(ctx, v)
    for fn in (alias_coefs, alias_x, layout_units, container_units, cfg32_units, coord_form_units, order_form_units, param_form_units, foreign_units):
        if mine():
            fn(ctx)
            check_kept()
    vp_ = ctx.pick(3, 6)
    for part in range(vp_):
        if mine():
            very_high_units(ctx, part, vp_)
    hp = ctx.pick(2, 4)
    for part in range(hp):
        if mine():
            high_order_units(ctx, part, hp)
    # hardening pass 3: classes G, H, I
    for fn in (scale_units, special_parameter_units, special_point_units, ordering_units):
        if mine():
            fn(ctx)
            check_kept()
    lp = ctx.pick(4, 16)
    for part in range(lp):
        if mine():
            coef_layout_units(ctx, part, lp)
            check_kept()


# ------------------------------------------------------------------------------------------ driver
def run(ctx):
    global CTX
    CTX = ctx
    BLAME[0] = 0
    install()
    try:
        counter = [-1]
        run_hardening(ctx, counter)
        run_1d(ctx, counter)
        run_seq(ctx, counter)
        run_zernike(ctx, counter)
        run_clenshaw(ctx, counter)
        run_q1d(ctx, counter)
        run_q2d(ctx, counter)
        run_surfaces(ctx, counter)
        run_q2d_and_der(ctx, counter)
        run_normals(ctx, counter)
        check_kept()
        ctx.note('orders', f'1-D families: every order 0..{ctx.pick(12, 80)} (+ 18, 19, 41, 60 in the quick tier); Zernike: every (n, m) with n <= {ctx.pick(12, 50)}; '
                           f'Clenshaw sums: lengths 1..{ctx.pick(12, 50)} (+ 19, 41, 42 in the quick tier), j=1..{ctx.pick(4, 6)}')
    finally:
        detach_all()


def replay(ctx, rec):
    run(ctx)
