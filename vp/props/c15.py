"""C15 — image formation obeys the convolution theorem; the MTF is a valid MTF.

Contracts on the real functions (every call is seen, also prysm-internal ones such as x.dm.DM.render):
  conv                       post: equals the explicit origin-centred circular convolution sum (refmodels.imaging)
  apply_transfer_functions   post: equals Re IDFT(DFT(obj) * prod(tfs)) with DFT matrices in the documented convention,
                             callables evaluated on the documented frequency grid; a mismatch is diagnosed against the
                             two mechanisms measured on the pinned tree (spurious output fftshift, centred callable grid)
  mtf/ptf/otf_from_psf       post: equal |D|/|D[c]|, arg(D/D[c]), D/D[c] with D the centred DFT-matrix transform
Law monitors on observed outputs (no model): linearity, commutativity, impulse identity / translation, energy product;
list == product, all-ones == identity, linear phase == translation, callable == array on the documented grid;
MTF[c] == 1, MTF <= 1, point symmetry modulo n, |OTF| == MTF, OTF == MTF exp(i PTF).
"""
import functools
import math

import numpy as np

from ..contracts import attach, detach_all
from ..core import parity, shape_class
from ..refmodels import imaging as ref
from ..util import precision

RULE = ('shapes enumerated smallest first (all (n0,n1) up to a bound incl. 1xN, then random up to 24/40) x PSF class '
        '(random non-negative, delta at origin, delta anywhere incl. edges, double delta, off-centre gaussian, signed) '
        'x transfer-function list class (real / hermitian / generic complex arrays, callables of fx, fy, fx+fy, fr, fr+ft, '
        'prysm analytic FTs, mixed, all-ones, empty, linear phase) x shift convention x grid mode (from dx, explicit 1-D, '
        'explicit 2-D); a case is non-trivial when the array has >= 2 samples; distinct = distinct descriptor '
        '(shape, classes, sub-seed)')
ASSUMPTIONS = ['origin sample of an axis of length n is index n//2 (C04 convention); the routines are FFT based so '
               'circular (roll) shifts are the exact model',
               'documented frequency grid of apply_transfer_functions: zero frequency at the centre sample (n//2) for '
               'shift=True and at sample [0,0] for shift=False (its docstring)',
               'for transfer functions that are not Hermitian-symmetric only the list==product law is checked (the real '
               'part of a genuinely complex image is a convention, not part of the statement)',
               'explicit O(N^2) sums / DFT matrices are exact to ~1e-14 N; thresholds rtol 1e-10 (2e-4 for float32 input)']
REQUIRED = ['conv.model', 'conv.linearity', 'conv.commutativity', 'conv.impulse-identity', 'conv.impulse-translation',
            'conv.energy', 'atf.model', 'atf.list-vs-product', 'atf.ones-identity', 'atf.linear-phase',
            'atf.callable-vs-array', 'mtf.dc', 'mtf.max', 'mtf.point-symmetry', 'otf.abs-vs-mtf', 'otf.arg-vs-ptf',
            'otf.model']

CTX = None
RT = 1e-10
KEY_FFTSHIFT = 'C15/atf/shift=False/output-fftshifted'
KEY_CGRID = 'C15/atf/shift=False/callable-on-centred-grid'
KEY_2DGRID = 'C15/atf/explicit-2d-grid/polar-callable-wrong-shape'
WHAT_2DGRID = ('apply_transfer_functions with explicit 2-D fx, fy (the documented (M,N) shape) and a callable of fr/ft '
               'returns an array that does not have the shape of the object (fr, ft are built with shape (M,1,N))')


def takes_polar(tfs):
    import inspect
    return any(callable(t) and ({'fr', 'ft'} & set(inspect.signature(t).parameters)) for t in tfs)


def par2(shape):
    return '|'.join(sorted(set(parity(s) for s in shape)))


def rtol_for(*arrays):
    return 2e-4 if any(getattr(a, 'dtype', None) in (np.float32, np.complex64) for a in arrays) else RT


# =========================================================================================== model helpers
def doc_grids(shape, dx, centred):
    fy = ref.frequency_axis(shape[0], dx, centred)
    fx = ref.frequency_axis(shape[1], dx, centred)
    return fx, fy


def eval_tf(tf, fx, fy):
    """Evaluate one transfer function (array or callable) on 1-D frequency axes fx (cols), fy (rows)."""
    if not callable(tf):
        return np.asarray(tf)
    import inspect
    params = inspect.signature(tf).parameters
    FX = fx.reshape(1, -1)
    FY = fy.reshape(-1, 1)
    kw = {}
    if 'fx' in params:
        kw['fx'] = FX
    if 'fy' in params:
        kw['fy'] = FY
    if 'fr' in params:
        kw['fr'] = np.hypot(FX, FY)
    if 'ft' in params:
        kw['ft'] = np.arctan2(FY, FX) + np.zeros((fy.size, fx.size))
    return np.asarray(tf(**kw))


def product_tf(tfs, shape, fx, fy):
    p = np.ones(shape, dtype=complex)
    for tf in tfs:
        p = p * eval_tf(tf, fx, fy)
    return p


def is_hermitian(tf, centred, tol=1e-12):
    """tf[-k] == conj(tf[k]) in the stated index convention (modulo n)."""
    n0, n1 = tf.shape
    c0, c1 = (n0 // 2, n1 // 2) if centred else (0, 0)
    i0 = (2 * c0 - np.arange(n0)) % n0
    i1 = (2 * c1 - np.arange(n1)) % n1
    m = tf[np.ix_(i0, i1)]
    s = float(np.max(np.abs(tf))) if tf.size else 0.0
    return bool(np.max(np.abs(m - np.conj(tf))) <= tol * max(s, 1e-300)) if tf.size else True


def close(a, b, rtol, scale):
    from ..core import max_err
    if a.shape != b.shape:
        return False
    return max_err(a, b) <= rtol * scale


# =========================================================================================== contracts
def post_conv(token, args, kwargs, result):
    a = dict(zip(['obj', 'psf'], args))
    a.update(kwargs)
    o, h = np.asarray(a['obj']), np.asarray(a['psf'])
    if o.ndim != 2 or o.shape != h.shape or o.dtype.kind not in 'fiu' or h.dtype.kind not in 'fiu':
        return
    if o.size > 512 * 512:
        CTX.skip('conv.model: array larger than 512x512, model not evaluated')
        return
    if not (np.isfinite(o).all() and np.isfinite(h).all()):
        return
    desc = {'fn': 'conv', 'shape': o.shape, 'dtype': [str(o.dtype), str(h.dtype)]}
    if o.size <= 24 * 24:
        want = ref.circular_convolution(o, h)
    else:
        want = ref.filter_image(o.astype(float), ref.dft2(h.astype(float), True), True).real
    scale = float(np.abs(o).sum() * np.abs(h).max()) if o.size else 0.0
    CTX.close('conv.model', result, want, f'C15/conv/vs-direct-sum/{par2(o.shape)}',
              'conv(obj, psf) differs from the origin-centred circular convolution sum', desc,
              rtol=rtol_for(o, h), scale=max(scale, 1e-300))


def post_atf(token, args, kwargs, result):
    names = ['obj', 'dx', 'tfs', 'fx', 'fy', 'ft', 'fr', 'shift']
    a = dict(zip(names, args))
    a.update(kwargs)
    o = np.asarray(a['obj'])
    tfs = list(a['tfs'])
    shift = bool(a.get('shift', False))
    dx, ufx, ufy = a.get('dx'), a.get('fx'), a.get('fy')
    if o.ndim != 2 or o.dtype.kind not in 'fiu' or not np.isfinite(o).all():
        return
    if o.size > 512 * 512:
        CTX.skip('atf.model: array larger than 512x512, model not evaluated')
        return
    has_callable = any(callable(t) for t in tfs)
    desc = {'fn': 'apply_transfer_functions', 'shape': o.shape, 'shift': shift, 'n_tf': len(tfs),
            'callables': has_callable, 'grid': 'explicit' if ufx is not None else 'dx'}
    # documented grid: the user's explicit axes, else from dx in the convention selected by `shift`
    alt = None
    if has_callable:
        if ufx is not None:
            fx = np.asarray(ufx)
            fy = np.asarray(ufy)
            fx = fx[0, :] if fx.ndim == 2 else fx.ravel()
            fy = fy[:, 0] if fy.ndim == 2 else fy.ravel()
        else:
            if dx is None:
                return
            fx, fy = doc_grids(o.shape, dx, shift)
            alt = doc_grids(o.shape, dx, not shift)
    else:
        fx = fy = None
    try:
        tf = product_tf(tfs, o.shape, fx, fy)
        tf = np.broadcast_to(tf, o.shape)
    except Exception:
        CTX.skip('atf.model: transfer functions not broadcastable to the object shape')
        return
    if not np.isfinite(tf).all():
        CTX.skip('atf.model: non-finite transfer function')
        return
    if not is_hermitian(tf, shift):
        CTX.skip('atf.model: non-Hermitian transfer function (laws only)')
        return
    of = o.astype(float)
    want = ref.filter_image(of, tf, shift).real
    scale = max(float(np.abs(want).max()), float(np.abs(of).max()) * 1e-3, 1e-300)
    rt = rtol_for(o)
    CTX.observe('atf.model')
    got = np.asarray(result)
    if got.shape != o.shape:
        if ufx is not None and np.ndim(ufx) == 2 and takes_polar(tfs):
            CTX.violation(KEY_2DGRID, WHAT_2DGRID, desc, got_shape=list(got.shape))
        else:
            CTX.violation(f'C15/atf/shift={shift}/output-shape', 'apply_transfer_functions returns an array whose shape '
                          'is not the shape of the object', desc, got_shape=list(got.shape))
        return
    if close(got, want, rt, scale):
        return
    # diagnose against the mechanisms measured on the pinned tree
    cands = [('fftshift', tf)]
    if alt is not None:
        tfa = np.broadcast_to(product_tf(tfs, o.shape, *alt), o.shape)
        cands += [('grid', tfa), ('grid+fftshift', tfa)]
    for name, t in cands:
        w = ref.filter_image(of, t, shift).real
        if 'fftshift' in name:
            w = np.roll(w, (o.shape[0] // 2, o.shape[1] // 2), axis=(0, 1))
        if got.shape == w.shape and close(got, w, rt, scale):
            if 'fftshift' in name and not shift:
                CTX.violation(KEY_FFTSHIFT, 'apply_transfer_functions(shift=False) returns fftshift(image): the all-ones '
                              'transfer function is not the identity', desc)
            if 'grid' in name and not shift:
                CTX.violation(KEY_CGRID, 'apply_transfer_functions(shift=False) evaluates callables on the centred '
                              'frequency grid although the spectrum it multiplies has zero frequency at [0,0]', desc)
            if shift:
                CTX.violation(f'C15/atf/shift=True/vs-dft-model/{name}', 'apply_transfer_functions(shift=True) differs '
                              'from IDFT(DFT(obj) prod(tf)) by ' + name, desc)
            return
    kind = 'callables' if has_callable else 'arrays'
    CTX.violation(f'C15/atf/shift={shift}/vs-dft-model/{kind}/{par2(o.shape)}',
                  'apply_transfer_functions differs from Re IDFT(DFT(obj) prod(tf)) in the documented convention', desc,
                  err=float(np.abs(got - want).max()) if got.shape == want.shape else 'shape', scale=scale)


def _psf_of(args, kwargs):
    a = dict(zip(['psf', 'dx'], args))
    a.update(kwargs)
    p = a['psf']
    if not hasattr(p, 'ndim'):
        p = p.data
    return np.asarray(p)


def _otf_model(p):
    D = ref.dft2(p.astype(float), True)
    return D / D[p.shape[0] // 2, p.shape[1] // 2]


def _psf_ok(p):
    return (p.ndim == 2 and p.dtype.kind in 'fiu' and p.size <= 512 * 512 and np.isfinite(p).all()
            and abs(float(p.sum())) > 1e-9 * float(np.abs(p).sum() + 1e-300))


def make_post_otf(which):
    def post(token, args, kwargs, result):
        p = _psf_of(args, kwargs)
        if not _psf_ok(p):
            return
        desc = {'fn': f'{which}_from_psf', 'shape': p.shape, 'dtype': str(p.dtype)}
        want = _otf_model(p)
        got = np.asarray(result.data)
        rt = rtol_for(p)
        scale = max(1.0, float(np.abs(want).max()))
        key = f'C15/{which}/vs-dft-model/{par2(p.shape)}'
        if which == 'mtf':
            CTX.close('otf.model', got, np.abs(want), key, 'mtf_from_psf differs from |D|/|D[c]| (centred DFT-matrix model)', desc,
                      rtol=rt, scale=scale)
        elif which == 'otf':
            CTX.close('otf.model', got, want, key, 'otf_from_psf differs from D/D[c] (centred DFT-matrix model)', desc,
                      rtol=rt, scale=scale)
        else:
            # the phase is ill-conditioned where |OTF| ~ 0: compare |OTF| exp(i PTF) with the OTF
            if got.shape != want.shape:
                CTX.violation(key + '/shape', 'ptf_from_psf has the wrong shape', desc)
                return
            CTX.close('otf.model', np.abs(want) * np.exp(1j * got), want, key,
                      'ptf_from_psf differs from arg(D/D[c]) (centred DFT-matrix model)', desc, rtol=rt, scale=scale)
    return post


def install():
    from prysm import convolution, otf
    attach(convolution, 'conv', post=post_conv)
    attach(convolution, 'apply_transfer_functions', post=post_atf)
    attach(otf, 'mtf_from_psf', post=make_post_otf('mtf'))
    attach(otf, 'ptf_from_psf', post=make_post_otf('ptf'))
    attach(otf, 'otf_from_psf', post=make_post_otf('otf'))


# =========================================================================================== generators
def shapes_for(ctx, rng, n_enum, n_rand, hi):
    """All (n0,n1) with 1<=n<=n_enum ordered by size (smallest first), then n_rand random shapes up to hi."""
    base = sorted(((a, b) for a in range(1, n_enum + 1) for b in range(1, n_enum + 1)), key=lambda s: (s[0] * s[1], s))
    out = list(base)
    for _ in range(n_rand):
        out.append((int(rng.integers(3, hi + 1)), int(rng.integers(3, hi + 1))))
    return out


PSF_CLASSES = ['rand-nonneg', 'delta-origin', 'delta-anywhere', 'double-delta', 'gauss-offcentre', 'rand-signed']


def make_psf(cls, shape, rng):
    n0, n1 = shape
    c0, c1 = n0 // 2, n1 // 2
    info = {}
    if cls == 'rand-nonneg':
        h = rng.random(shape)
    elif cls == 'rand-signed':
        h = rng.standard_normal(shape)
    elif cls == 'delta-origin':
        h = np.zeros(shape)
        h[c0, c1] = 1.0
        info['k'] = (0, 0)
    elif cls == 'delta-anywhere':
        h = np.zeros(shape)
        edge = int(rng.integers(4))
        i0, i1 = int(rng.integers(n0)), int(rng.integers(n1))
        if edge == 0:
            i0 = [0, n0 - 1][int(rng.integers(2))]
        elif edge == 1:
            i1 = [0, n1 - 1][int(rng.integers(2))]
        h[i0, i1] = 1.0
        info['k'] = (i0 - c0, i1 - c1)
    elif cls == 'double-delta':
        h = np.zeros(shape)
        h[int(rng.integers(n0)), int(rng.integers(n1))] += 1.0
        h[int(rng.integers(n0)), int(rng.integers(n1))] += 0.5
    elif cls == 'gauss-offcentre':
        y = np.arange(n0)[:, None] - c0 - float(rng.uniform(-1, 1)) * max(1, n0 // 4)
        x = np.arange(n1)[None, :] - c1 - float(rng.uniform(-1, 1)) * max(1, n1 // 4)
        s = float(rng.uniform(0.6, 2.5))
        h = np.exp(-(x * x + y * y) / (2 * s * s))
    else:
        raise ValueError(cls)
    return h, info


# ---- transfer-function material ---------------------------------------------------------------------------------
def herm_random(shape, rng, centred, complex_=True):
    """Random Hermitian-symmetric transfer function = DFT (in the stated convention) of a random real kernel."""
    k = rng.standard_normal(shape)
    t = ref.dft2(k, centred) / max(1.0, math.sqrt(shape[0] * shape[1]))
    return t if complex_ else None


def even_real(shape, rng, centred):
    """Real, point-symmetric (hence Hermitian) random transfer function."""
    k = rng.random(shape)
    n0, n1 = shape
    c0, c1 = (n0 // 2, n1 // 2) if centred else (0, 0)
    i0 = (2 * c0 - np.arange(n0)) % n0
    i1 = (2 * c1 - np.arange(n1)) % n1
    return 0.5 * (k + k[np.ix_(i0, i1)])


# callables: every signature the documentation names.  Each returns something broadcastable to the grid.
def c_fx(fx, p=0.7):
    return np.exp(-(fx * p) ** 2) * np.exp(-2j * np.pi * fx * p)     # hermitian in fx


def c_fy(fy, p=0.4):
    return np.cos(fy * p) + 1j * np.sin(fy * p * 0.5)


def c_fxfy(fx, fy, p=0.5):
    return np.sinc(fx * p) * np.sinc(fy * p * 0.7) * np.exp(-2j * np.pi * (fx - 2 * fy) * p)


def c_fr(fr, p=0.8):
    return np.exp(-(fr * p) ** 2)


def c_frft(fr, ft, p=0.6):
    return np.exp(-(fr * p) ** 2) * (1 + 0.5 * np.cos(2 * ft))


def c_all(fx, fy, fr, ft, p=0.3):
    return (1 + 0.1 * np.cos(fx * p) + 0.2 * np.sin(fy * p) ** 2) * np.exp(-fr * p) * (1 + 0.25 * np.cos(4 * ft))


class OnesTF:
    """All-ones transfer function as a callable object (signature (fx, fy))."""

    def __call__(self, fx, fy):
        return np.ones(np.broadcast(fx, fy).shape)


def linear_phase(k0, k1, dx):
    def lp(fx, fy):
        return np.exp(-2j * np.pi * dx * (fx * k1 + fy * k0))
    return lp


def callable_pool(rng, dx):
    from prysm import degredations, detector, objects
    P = functools.partial
    pool = {
        'fx': P(c_fx, p=float(rng.uniform(0.2, 1.5)) * dx),
        'fy': P(c_fy, p=float(rng.uniform(0.2, 1.5)) * dx),
        'fx+fy': P(c_fxfy, p=float(rng.uniform(0.2, 1.5)) * dx),
        'fr': P(c_fr, p=float(rng.uniform(0.2, 1.5)) * dx),
        'fr+ft': P(c_frft, p=float(rng.uniform(0.2, 1.5)) * dx),
        'fx+fy+fr+ft': P(c_all, p=float(rng.uniform(0.2, 1.5)) * dx),
        'prysm:smear_ft': P(degredations.smear_ft, width=float(rng.uniform(0.3, 2)) * dx, height=float(rng.uniform(0, 2)) * dx),
        'prysm:jitter_ft': P(degredations.jitter_ft, scale=float(rng.uniform(0.1, 1)) * dx),
        'prysm:pixel_ft': P(detector.pixel_ft, width_x=float(rng.uniform(0.5, 2)) * dx, width_y=float(rng.uniform(0.5, 2)) * dx),
        'prysm:olpf_ft': P(detector.olpf_ft, width_x=float(rng.uniform(0.1, 1)) * dx, width_y=float(rng.uniform(0.1, 1)) * dx),
        'prysm:slit_ft': P(objects.slit_ft, float(rng.uniform(0.5, 2)) * dx, float(rng.uniform(0.5, 2)) * dx),
    }
    return pool


def prod_callable(cs):
    """Product of callables as one callable taking (fx, fy, fr, ft): 'their product' without choosing a grid."""
    import inspect
    sigs = [inspect.signature(c).parameters for c in cs]

    def prod(fx, fy, fr, ft):
        env = {'fx': fx, 'fy': fy, 'fr': fr, 'ft': ft}
        out = 1.0
        for c, s in zip(cs, sigs):
            out = out * c(**{k: env[k] for k in ('fx', 'fy', 'fr', 'ft') if k in s})
        return out
    return prod


def times_array(c, A):
    import inspect
    s = inspect.signature(c).parameters

    def prod(fx, fy, fr, ft):
        env = {'fx': fx, 'fy': fy, 'fr': fr, 'ft': ft}
        return c(**{k: env[k] for k in ('fx', 'fy', 'fr', 'ft') if k in s}) * A
    return prod


# =========================================================================================== run
def run(ctx):
    global CTX
    CTX = ctx
    install()
    try:
        _run_conv(ctx)
        _run_atf(ctx)
        _run_otf(ctx)
        _run_rejections(ctx)
        _run_internal(ctx)
    finally:
        detach_all()


def _law(ctx, monitor, got, want, key, what, desc, rtol, scale):
    return ctx.close(monitor, got, want, key, what, desc, rtol=rtol, scale=max(scale, 1e-300))


# ------------------------------------------------------------------------------------------- conv
def _run_conv(ctx):
    from prysm.convolution import conv
    rng = ctx.rng('c15-conv')
    shapes = shapes_for(ctx, rng, ctx.pick(8, 14), ctx.pick(120, 2400), ctx.pick(24, 40))
    k = -1
    for shape in shapes:
        for cls in PSF_CLASSES:
            k += 1
            if not ctx.mine(k):
                continue
            sub = ctx.subseed(rng)
            r = np.random.default_rng(sub)
            f32 = (k % 11 == 5)
            desc = {'wl': 'conv', 'shape': shape, 'psf': cls, 'seed': sub, 'dtype': 'float32' if f32 else 'float64',
                    'class': f'conv:{shape_class(shape)}:{cls}' + (':f32' if f32 else '')}
            ctx.case(desc, nontrivial=shape[0] * shape[1] >= 2)
            a = r.standard_normal(shape)
            b = r.standard_normal(shape)
            h, info = make_psf(cls, shape, r)
            if f32:
                a, b, h = a.astype(np.float32), b.astype(np.float32), h.astype(np.float32)
            al, be = float(r.uniform(-2, 2)), float(r.uniform(-2, 2))
            rt = rtol_for(a)
            with ctx.guard(f'C15/conv/{par2(shape)}', desc):
                ia = conv(a, h)
                ib = conv(b, h)
                scale = float(np.abs(a).sum() + np.abs(b).sum()) * float(np.abs(h).max())
                il = conv(al * a + be * b, h)
                _law(ctx, 'conv.linearity', il, al * ia + be * ib, 'C15/conv/linearity',
                     'conv(alpha a + beta b, h) != alpha conv(a,h) + beta conv(b,h)', desc, rt, scale)
                ic = conv(h, a)
                _law(ctx, 'conv.commutativity', ic, ia, 'C15/conv/commutativity', 'conv(a,h) != conv(h,a)', desc, rt, scale)
                tot = float(np.abs(a).sum() * np.abs(h).sum())
                _law(ctx, 'conv.energy', np.asarray(ia, dtype=float).sum(), float(a.astype(float).sum() * h.astype(float).sum()),
                     'C15/conv/energy', 'sum(conv(a,h)) != sum(a) sum(h)', desc, rt, tot)
                if 'k' in info:
                    k0, k1 = info['k']
                    which = 'impulse-identity' if (k0, k1) == (0, 0) else 'impulse-translation'
                    _law(ctx, f'conv.{which}', ia, np.roll(a, (k0, k1), axis=(0, 1)), f'C15/conv/{which}/{par2(shape)}',
                         'conv(a, delta at origin+k) != roll(a, k)' if which != 'impulse-identity' else
                         'conv(a, unit impulse at n//2) != a', desc, rt, float(np.abs(a).max()))
    # every impulse position on small shapes (exhaustive), incl. edges and corners
    small = [s for s in shapes_for(ctx, rng, ctx.pick(5, 9), 0, 0)]
    k = -1
    for shape in small:
        n0, n1 = shape
        for i0 in range(n0):
            for i1 in range(n1):
                k += 1
                if not ctx.mine(k):
                    continue
                desc = {'wl': 'conv-impulse', 'shape': shape, 'at': (i0, i1), 'class': f'impulse-all:{shape_class(shape)}'}
                ctx.case(desc, nontrivial=n0 * n1 >= 2)
                a = (np.arange(n0 * n1, dtype=float).reshape(shape) + 1.0) * (1 + 0.01 * np.cos(np.arange(n1)))[None, :]
                d = np.zeros(shape)
                d[i0, i1] = 1.0
                k0, k1 = i0 - n0 // 2, i1 - n1 // 2
                which = 'impulse-identity' if (k0, k1) == (0, 0) else 'impulse-translation'
                with ctx.guard(f'C15/conv/{par2(shape)}', desc):
                    _law(ctx, f'conv.{which}', conv(a, d), np.roll(a, (k0, k1), axis=(0, 1)), f'C15/conv/{which}/{par2(shape)}',
                         'conv(a, delta at origin+k) != roll(a, k)', desc, RT, float(np.abs(a).max()))
    ctx.note('impulse_positions', f'every impulse position for every shape up to {ctx.pick(5, 9)}x{ctx.pick(5, 9)}')


# ------------------------------------------------------------------------------------------- apply_transfer_functions
TF_CLASSES = ['arrays-real', 'arrays-hermitian', 'arrays-generic', 'callables', 'prysm-fts', 'mixed', 'ones-array',
              'ones-callable', 'ones-scalar-array', 'empty', 'linear-phase-array', 'linear-phase-callable']
GRID_MODES = ['dx', 'explicit-1d', 'explicit-2d']


def _grids_for(mode, shape, dx, shift):
    if mode == 'dx':
        return {}
    fx, fy = doc_grids(shape, dx, shift)
    if mode == 'explicit-2d':
        FX, FY = np.meshgrid(fx, fy)
        return {'fx': FX, 'fy': FY}
    return {'fx': fx, 'fy': fy}


def _run_atf(ctx):
    from prysm.convolution import apply_transfer_functions as atf
    rng = ctx.rng('c15-atf')
    shapes = shapes_for(ctx, rng, ctx.pick(6, 10), ctx.pick(60, 1500), ctx.pick(24, 40))
    k = -1
    for shape in shapes:
        for cls in TF_CLASSES:
            for shift in (False, True):
                k += 1
                if not ctx.mine(k):
                    continue
                sub = ctx.subseed(rng)
                r = np.random.default_rng(sub)
                mode = GRID_MODES[int(r.integers(3))] if ('callable' in cls or cls in ('prysm-fts', 'mixed')) else 'dx'
                dx = [1.0, 0.25, 3.7][int(r.integers(3))]
                desc = {'wl': 'atf', 'shape': shape, 'tf': cls, 'shift': shift, 'grid': mode, 'dx': dx, 'seed': sub,
                        'class': f'atf:{shape_class(shape)}:{cls}:shift={shift}:{mode}'}
                ctx.case(desc, nontrivial=shape[0] * shape[1] >= 2)
                with ctx.guard(f'C15/atf/shift={shift}/{cls}', desc):
                    _atf_case(ctx, atf, r, shape, cls, shift, mode, dx, desc)


def _identity_law(ctx, out, o, shift, desc, what):
    ctx.observe('atf.ones-identity')
    scale = max(float(np.abs(o).max()), 1e-300)
    if close(np.asarray(out), o, RT, scale):
        return
    sh = np.roll(o, (o.shape[0] // 2, o.shape[1] // 2), axis=(0, 1))
    if not shift and close(np.asarray(out), sh, RT, scale):
        ctx.violation(KEY_FFTSHIFT, 'apply_transfer_functions(shift=False) returns fftshift(image): the all-ones transfer '
                      'function is not the identity', desc)
    else:
        ctx.violation(f'C15/atf/shift={shift}/ones-not-identity', what, desc)


def _atf_case(ctx, atf, r, shape, cls, shift, mode, dx, desc):
    o = r.standard_normal(shape)
    gk = _grids_for(mode, shape, dx, shift)
    fxd, fyd = doc_grids(shape, dx, shift)
    omax = max(float(np.abs(o).max()), 1e-300)
    pool = callable_pool(r, dx)
    names = list(pool)

    def lp_key(kind):
        return f'C15/atf/shift={shift}/linear-phase-translation/{kind}'

    if cls in ('arrays-real', 'arrays-hermitian', 'arrays-generic'):
        n = int(r.integers(1, 5))
        if cls == 'arrays-real':
            tfs = [even_real(shape, r, shift) for _ in range(n)]
        elif cls == 'arrays-hermitian':
            tfs = [herm_random(shape, r, shift) for _ in range(n)]
        else:
            tfs = [r.standard_normal(shape) + 1j * r.standard_normal(shape) for _ in range(n)]
        p = functools.reduce(lambda x, y: x * y, tfs)
        a1 = atf(o, dx, tfs, shift=shift)
        a2 = atf(o, dx, [p], shift=shift)
        a3 = atf(o, None, tuple(tfs), shift=shift)         # dx is documented as ignored for arrays; tuple is a sequence
        sc = max(float(np.abs(a2).max()), omax * 1e-3)
        _law(ctx, 'atf.list-vs-product', a1, a2, f'C15/atf/shift={shift}/list-vs-product/arrays',
             'apply_transfer_functions(o, [t1..tk]) != apply_transfer_functions(o, [t1*..*tk])', desc, RT, sc)
        _law(ctx, 'atf.list-vs-product', a3, a1, f'C15/atf/shift={shift}/list-vs-product/arrays',
             'result depends on dx / on list vs tuple although only arrays were given', desc, RT, sc)
    elif cls in ('callables', 'prysm-fts'):
        cand = [n for n in names if n.startswith('prysm:')] if cls == 'prysm-fts' else [n for n in names if not n.startswith('prysm:')]
        n = int(r.integers(1, 4))
        pick = [cand[int(r.integers(len(cand)))] for _ in range(n)]
        desc['callables'] = pick
        cs = [pool[p] for p in pick]
        a1 = atf(o, dx, cs, shift=shift, **gk)
        a2 = atf(o, dx, [prod_callable(cs)], shift=shift, **gk)
        sc = max(float(np.abs(a2).max()), omax * 1e-3)
        _law(ctx, 'atf.list-vs-product', a1, a2, f'C15/atf/shift={shift}/list-vs-product/callables',
             'apply_transfer_functions(o, [c1..ck]) != apply_transfer_functions(o, [c1*..*ck]) for callables', desc, RT, sc)
        # a callable and the array it evaluates to on the documented grid are the same transfer function
        arr = np.broadcast_to(product_tf(cs, shape, fxd, fyd), shape)
        a4 = atf(o, dx, [arr], shift=shift)
        ctx.observe('atf.callable-vs-array')
        if np.shape(a1) != shape and mode == 'explicit-2d' and takes_polar(cs):
            ctx.violation(KEY_2DGRID, WHAT_2DGRID, desc, got_shape=list(np.shape(a1)))
        elif not close(np.asarray(a1), np.asarray(a4), RT, sc):
            fxa, fya = doc_grids(shape, dx, not shift)
            a5 = atf(o, dx, [np.broadcast_to(product_tf(cs, shape, fxa, fya), shape)], shift=shift)
            if mode == 'dx' and not shift and close(np.asarray(a1), np.asarray(a5), RT, sc):
                ctx.violation(KEY_CGRID, 'apply_transfer_functions(shift=False) evaluates callables on the centred frequency '
                              'grid although the spectrum it multiplies has zero frequency at [0,0]', desc)
            else:
                ctx.violation(f'C15/atf/shift={shift}/callable-vs-array/{mode}',
                              'a callable transfer function and the array it evaluates to on the documented grid give '
                              'different images', desc, callables=pick)
    elif cls == 'mixed':
        c = pool[names[int(r.integers(len(names)))]]
        A = herm_random(shape, r, shift)
        B = even_real(shape, r, shift)
        order = int(r.integers(3))
        tfs = [[c, A, B], [A, c, B], [A, B, c]][order]
        a1 = atf(o, dx, tfs, shift=shift, **gk)
        a2 = atf(o, dx, [times_array(c, A * B)], shift=shift, **gk)
        sc = max(float(np.abs(a2).max()), omax * 1e-3)
        _law(ctx, 'atf.list-vs-product', a1, a2, f'C15/atf/shift={shift}/list-vs-product/mixed',
             'a mixed list of arrays and callables != its product applied at once', desc, RT, sc)
    elif cls in ('ones-array', 'ones-scalar-array', 'empty', 'ones-callable'):
        if cls == 'ones-array':
            tfs, kw = [np.ones(shape)], {}
        elif cls == 'ones-scalar-array':
            tfs, kw = [np.ones((1, 1)), np.ones(shape, dtype=complex)], {}
        elif cls == 'empty':
            tfs, kw = [], {}
        else:
            tfs, kw = [OnesTF()], gk
        out = atf(o, dx, tfs, shift=shift, **kw)
        _identity_law(ctx, out, o, shift, desc, 'the all-ones transfer function does not return the object')
    elif cls in ('linear-phase-array', 'linear-phase-callable'):
        n0, n1 = shape
        k0, k1 = int(r.integers(-n0, n0 + 1)), int(r.integers(-n1, n1 + 1))
        desc['k'] = (k0, k1)
        lp = linear_phase(k0, k1, dx)
        base = atf(o, dx, [np.ones(shape)], shift=shift)          # shares whatever output placement the routine has
        want = np.roll(np.asarray(base), (k0, k1), axis=(0, 1))
        if cls == 'linear-phase-array':
            t = lp(fxd.reshape(1, -1), fyd.reshape(-1, 1))
            out = atf(o, dx, [t], shift=shift)
            _law(ctx, 'atf.linear-phase', out, want, lp_key('array'),
                 'the transfer function exp(-2 pi i f.k dx) does not translate the image by k samples', desc, RT, omax)
        else:
            out = atf(o, dx, [lp], shift=shift, **gk)
            ctx.observe('atf.linear-phase')
            if not close(np.asarray(out), want, RT, omax):
                fxa, fya = doc_grids(shape, dx, not shift)
                alt = atf(o, dx, [lp(fxa.reshape(1, -1), fya.reshape(-1, 1))], shift=shift)
                if mode == 'dx' and not shift and close(np.asarray(out), np.asarray(alt), RT, omax):
                    ctx.violation(KEY_CGRID, 'apply_transfer_functions(shift=False) evaluates callables on the centred '
                                  'frequency grid although the spectrum it multiplies has zero frequency at [0,0]', desc)
                else:
                    ctx.violation(lp_key(f'callable/{mode}'), 'the callable transfer function exp(-2 pi i f.k dx) does not '
                                  'translate the image by k samples', desc)


# ------------------------------------------------------------------------------------------- MTF / OTF / PTF
def _run_otf(ctx):
    from prysm import otf
    from prysm._richdata import RichData
    rng = ctx.rng('c15-otf')
    shapes = shapes_for(ctx, rng, ctx.pick(7, 12), ctx.pick(80, 2000), ctx.pick(24, 40))
    classes = [c for c in PSF_CLASSES if c != 'rand-signed']
    k = -1
    for shape in shapes:
        for cls in classes:
            k += 1
            if not ctx.mine(k):
                continue
            sub = ctx.subseed(rng)
            r = np.random.default_rng(sub)
            container = ['array', 'RichData'][k % 2]
            f32 = (k % 13 == 7)
            dx = [1.0, 0.1, 5.5][k % 3]
            desc = {'wl': 'otf', 'shape': shape, 'psf': cls, 'input': container, 'dx': dx, 'seed': sub,
                    'dtype': 'float32' if f32 else 'float64',
                    'class': f'otf:{shape_class(shape)}:{cls}:{container}' + (':f32' if f32 else '')}
            ctx.case(desc, nontrivial=shape[0] * shape[1] >= 2)
            p, _ = make_psf(cls, shape, r)
            if f32:
                p = p.astype(np.float32)
            rt = rtol_for(p)
            n0, n1 = shape
            c0, c1 = n0 // 2, n1 // 2
            with ctx.guard(f'C15/otf/{par2(shape)}', desc):
                if container == 'RichData':
                    arg = (RichData(p.copy(), dx, None),)
                else:
                    arg = (p.copy(), dx)
                m = np.asarray(otf.mtf_from_psf(*arg).data)
                O = np.asarray(otf.otf_from_psf(*arg).data)
                ph = np.asarray(otf.ptf_from_psf(*arg).data)
                ctx.require('mtf.dc', m.shape == shape and abs(float(m[c0, c1]) - 1.0) <= (1e-5 if f32 else 1e-12), f'C15/mtf/dc-not-1/{par2(shape)}',
                            'MTF at zero frequency (sample n//2) is not 1', desc, got=float(m[c0, c1]) if m.shape == shape else None)
                ctx.require('mtf.max', bool(np.nanmax(m) <= 1 + (1e-12 if not f32 else 1e-5)) and not np.isnan(m).any(),
                            'C15/mtf/exceeds-1', 'MTF of a non-negative PSF exceeds 1 (or is NaN)', desc, got=float(np.nanmax(m)))
                i0 = (2 * c0 - np.arange(n0)) % n0
                i1 = (2 * c1 - np.arange(n1)) % n1
                _law(ctx, 'mtf.point-symmetry', m[np.ix_(i0, i1)], m, f'C15/mtf/point-symmetry/{par2(shape)}',
                     'MTF(c+k) != MTF(c-k) (indices modulo n)', desc, rt, 1.0)
                _law(ctx, 'otf.abs-vs-mtf', np.abs(O), m, 'C15/otf/abs-vs-mtf', '|OTF| != MTF', desc, rt, 1.0)
                # arg OTF == PTF wherever the phase is defined (|OTF| > 1e-6); elsewhere excluded and counted
                floor = 1e-2 if f32 else 1e-6
                good = np.abs(O) > floor
                ctx.skip('otf.arg-vs-ptf: samples with |OTF| <= 1e-6 (1e-2 for float32 input): phase undefined', int((~good).sum()))
                if ph.shape == O.shape:
                    _law(ctx, 'otf.arg-vs-ptf', np.exp(1j * ph[good]), (O / np.where(good, np.abs(O), 1))[good], 'C15/otf/arg-vs-ptf',
                         'arg(OTF) != PTF (modulo 2 pi) where |OTF| is not negligible', desc, 2e-2 if f32 else 1e-6, 1.0)
                else:
                    ctx.violation('C15/otf/arg-vs-ptf/shape', 'PTF and OTF have different shapes', desc)


def _run_rejections(ctx):
    from prysm import otf
    if ctx.shard != 0:
        return
    desc = {'wl': 'otf-reject', 'class': 'otf:array-without-dx (documented ValueError)'}
    ctx.case(desc, nontrivial=False)
    with ctx.guard('C15/otf/array-without-dx', desc, allow=(ValueError,)):
        otf.mtf_from_psf(np.ones((3, 3)))
        ctx.violation('C15/otf/array-without-dx/accepted', 'mtf_from_psf(array) without dx did not raise the documented ValueError', desc)


# ------------------------------------------------------------------------------------------- prysm-internal traffic
def _run_internal(ctx):
    """x.dm.DM.render calls apply_transfer_functions(shift=False) internally; the contract sees those calls."""
    if ctx.shard != 0:
        return
    try:
        from prysm.x.dm import DM
    except Exception:       # optional module
        ctx.skip('internal: prysm.x.dm not importable')
        return
    rng = ctx.rng('c15-dm')
    for n, nact, sep in ((32, 4, 4), (33, 3, 5)):
        desc = {'wl': 'dm.render', 'n': n, 'Nact': nact, 'sep': sep, 'class': f'internal:dm.render:{parity(n)}'}
        ctx.case(desc)
        y, x = np.mgrid[:n, :n] - n // 2
        ifn = np.exp(-(x * x + y * y) / 6.0)
        with ctx.guard('C15/internal/dm.render', desc):
            dm = DM(ifn, Nout=n, Nact=nact, sep=sep)
            dm.actuators[:] = rng.standard_normal(dm.actuators.shape)
            dm.render(wfe=False)


def replay(ctx, rec):
    run(ctx)
