"""C15 — image formation obeys the convolution theorem; the MTF is a valid MTF.

Contracts on the real functions (every call is seen, also prysm-internal ones such as x.dm.DM.render):
  conv                       post: equals the explicit origin-centred circular convolution sum (refmodels.imaging)
  apply_transfer_functions   post: equals Re IDFT(DFT(obj) * prod(tfs)) with DFT matrices in the documented convention,
                             callables evaluated on the documented frequency grid; a mismatch is diagnosed against the
                             two mechanisms measured on the pinned tree (spurious output fftshift, centred callable grid)
  mtf/ptf/otf_from_psf       post: equal |D|/|D[c]|, arg(D/D[c]), D/D[c] with D the centred DFT-matrix transform
Law monitors on observed outputs (no model): linearity, commutativity, impulse identity / translation, energy product;
list == product, all-ones == identity, linear phase == translation, callable == array on the documented grid;
MTF[c] == 1, MTF <= 1, point symmetry modulo n, |OTF| == MTF, OTF == MTF exp(i PTF).

Hardening pass (blind-spot classes of HARDENING.md).  Every contract snapshots its array arguments *before* the call and
judges the result against the snapshot, so a routine that writes into the caller's array cannot drag the oracle along.
  A repeat / aliasing   the same argument objects passed again (same routine, another routine of the property, keyword form),
                        in every memory layout (C, F, transposed view, strided slice, reversed view) and image dtype (float64,
                        float32, int64/32/16, uint8, bool); transfer functions as list / tuple of
                        complex128 / complex64 / float64 / float32 / int64 arrays; explicit fx, fy ndarrays re-used; results the
                        caller edits in place before calling again; conv == atf([sum(h) OTF(h)]) across the three routines
  B histories           one PSF container through mtf/ptf/otf (all 9 ordered pairs) with its data reassigned / overwritten in
                        place / edited in place / replaced by conv(data, pixel) / container deep-copied / shape changed / dx
                        changed in between, judged against the array form and a fresh container; the array form edited in
                        place; random longer sequences; conv with operands edited in place or other operands of the same
                        shape in between; apply_transfer_functions on one shape while dx, shift and grid form change
  C configuration       config.precision = 32 with float32 and float64 data (float32 tolerances), then the same routines on
                        the same grids under precision 64 at full tolerance (keys carry /precision=32, /after-precision-32)
  D regimes             1xN, Nx1, 2xN, Nx3 arrays up to N = 256 (quick) / 1024 (thorough)

Hardening pass 2 (HARDENING2.md).
  E argument forms      every form of an argument that the current tree accepts as the same mathematical input must give the
                        result of the canonical form (tables *_FORMS below; established by running the current tree, see
                        FORMS_NOTE): callable transfer functions declaring any ordered subset of fx, fy, fr, ft (64
                        signatures) as def / lambda / functools.partial (keyword- and position-curried) / callable object /
                        bound method, asymmetric in their arguments, both shift conventions, grids from dx / explicit 1-D /
                        row+column / meshgrid / read-only broadcast views / float32; object x PSF dtype kinds of conv (all 64
                        ordered pairs of bool, uint8, uint16, int16, int32, int64, float32, float64), object x
                        transfer-function dtype kinds, PSF dtype kinds of mtf/otf/ptf in array and RichData form; dx as python
                        float / int, numpy float64 / float32 / int64 scalars and 0-d arrays; keyword vs positional, omitted vs
                        explicit default (also after a call that passed the other value); tfs as list / tuple
  F foreign traffic     before part of the callable workload the other public consumers of forward_ft_unit, make_xy_grid,
                        optimize_xy_separable and cart_to_polar run with hostile arguments (shift on/off, precision 32,
                        returned grids edited in place), then apply_transfer_functions is judged on the same (dx, n)

Hardening pass 3 (HARDENING3.md).
  G magnitudes / units  conv(s a, t h) = s t conv(a, h), apply_transfer_functions(s o, [t T1, T2]) = s t (...) for arrays and callables,
                        OTF / MTF / PTF unchanged by a constant factor on the PSF, s and t from 1e-12 to 1e12; dx -> k dx with every
                        length parameter of the callables rescaled (k = 1e-6 ... 1e9) leaves the image unchanged
  H special values      impulses exactly at every corner / edge mid-point / next to the origin of every shape (incl. 1xN and sizes
                        >= 64); all-ones / all-zero PSFs, objects and transfer functions; phase ramps translating by exactly one
                        non-zero component, +-1, +-n/2, n-1, +-n; single-sample and constant PSFs through mtf/otf/ptf
  I structure           transfer functions as the equivalent (K, M, N) ndarray stack (np.stack / np.array / Fortran order / strided
                        view / np.conj, K = 1, 2, 3 incl. K == M == N), judged against the list form and the product law;
                        DM.render_backprop (which passes such a stack) under the contract; prime / awkward sizes >= 64 (65, 67, 74,
                        101, 127, 129, 131; thorough to 521) with dense content that wraps around the border

Hardening pass 4 (HARDENING4.md), class G again.
  G absolute energy     mtf / otf / ptf_from_psf of one non-negative PSF whose total energy (= DC term) runs over 1e-30 ... 1e30 in
                        float64 and 1e-12 ... 1e12 in float32 (also under config.precision = 32), on both sides of eps, sqrt(eps) and
                        1/eps of the dtype, array and RichData form: MTF(0) == 1 and OTF(0) == 1+0j to round-off, MTF <= 1, symmetry,
                        OTF/MTF/PTF consistency, equality with the unit-energy float64 result, DFT-matrix contract (keys carry
                        /scale:energy=<below-eps|tiny|huge|above-inverse-eps>/<dtype>); conv and apply_transfer_functions bilinear at
                        factors 1e-30 ... 1e30 (float64) / 1e-12 ... 1e12 (float32 operands, complex64 transfer functions)
"""
import functools
import math

import numpy as np

from ..contracts import attach, detach_all
from ..core import Ctx, parity, shape_class
from ..refmodels import imaging as ref
from ..util import precision

RULE = ('shapes enumerated smallest first (all (n0,n1) up to a bound incl. 1xN, then random up to 24/40) x PSF class '
        '(random non-negative, delta at origin, delta anywhere incl. edges, double delta, off-centre gaussian, signed) '
        'x transfer-function list class (real / hermitian / generic complex arrays, callables of fx, fy, fx+fy, fr, fr+ft, '
        'prysm analytic FTs, mixed, all-ones, empty, linear phase) x shift convention x grid mode (from dx, explicit 1-D, '
        'explicit 2-D); a case is non-trivial when the array has >= 2 samples; distinct = distinct descriptor '
        '(shape, classes, sub-seed).  Hardening workloads: repeat (same argument objects again, x 5 memory layouts x 7 image '
        'dtypes x 2 transfer-function containers x 5 transfer-function dtypes), histories (PSF container: 8 kinds of change x 9 '
        'ordered routine pairs per shape, random sequences; conv: 5 kinds; apply_transfer_functions: dx/shift/grid sequences on '
        'one shape), configuration (precision 32 with float32/float64 data, then 64 on the same grids), extreme aspect ratios.  '
        'Argument forms (hardening pass 2): 64 callable signatures (every ordered subset of fx, fy, fr, ft) x 6 python forms (def, '
        'lambda, partial by keyword / by position, callable object, bound method) x 2 shift conventions x 3 grid modes, each an '
        'asymmetric function of its arguments judged against the array it evaluates to by parameter name; 64 ordered dtype pairs '
        'of conv operands (small and full-range integers), 8 object dtypes x 8 transfer-function kinds, 8 PSF dtypes x array / '
        'RichData; 8 dx forms, 8 explicit-grid forms, keyword / positional / omitted-default call syntax, 3 tfs containers; '
        'foreign-traffic preludes (3 kinds) before part of the callable workload.  Hardening pass 3: per shape x shift convention a '
        'container workload (K = 1, 2, 3 transfer functions of 4 dtype kinds as a (K, M, N) ndarray in 5 forms, all-ones / all-zero '
        'stacks), a magnitude workload (8 factor pairs 1e-12 ... 1e12 through conv, array and callable transfer functions, 4 factors '
        'through mtf/otf/ptf, 4 unit factors) and a special-value workload (impulses at up to 25 edge / corner / origin-adjacent '
        'positions, 16 special translations as array and as callable, constant / zero operands); awkward sizes >= 64 with dense operands.  '
        'Hardening pass 4: per shape (12 fixed incl. 1xN, 65x64 + random) x (float64, float32, float32 under precision 32) one non-negative '
        'unit-energy PSF (random / off-centre gaussian / double delta) scaled to 14 (float64: 1e-30 ... 1e30) or 13 (float32: 1e-12 ... 1e12) '
        'total energies, alternately as array and RichData, through mtf / otf / ptf_from_psf; 7 extreme factor pairs through conv and '
        'apply_transfer_functions in the same dtype')
ASSUMPTIONS = ['origin sample of an axis of length n is index n//2 (C04 convention); the routines are FFT based so '
               'circular (roll) shifts are the exact model',
               'documented frequency grid of apply_transfer_functions: zero frequency at the centre sample (n//2) for '
               'shift=True and at sample [0,0] for shift=False (its docstring)',
               'for transfer functions that are not Hermitian-symmetric only the list==product law is checked (the real '
               'part of a genuinely complex image is a convention, not part of the statement)',
               'explicit O(N^2) sums / DFT matrices are exact to ~1e-14 N; thresholds rtol 1e-10 (2e-4 for float32 input '
               'and for every call made while prysm.conf.config.precision is 32: a routine may then cast to single precision; '
               'measured float32 round-off 3e-8..4e-7 of the scales used)',
               'the routines are deterministic functions of the values of their arguments (they draw no random numbers), so a '
               'second call with the same objects must reproduce the first and a used container must behave like a fresh one '
               'holding the same data; the contracts judge against a copy of the arguments taken before the call',
               'integer and boolean images are in the domain (the FFT promotes them); a PSF whose sum is zero after an integer '
               'cast has no MTF and is excluded and counted',
               'argument forms (FORMS_NOTE): a form is demanded only when the current tree returns, for it, the result of the canonical '
               'form; callables are plain functions of positional-or-keyword parameters named by a subset of fx, fy, fr, ft in any order '
               '(the documentation names the parameters, not their order); a float32 dx or explicit grid is single-precision input (2e-4); '
               'integer images span the whole range of their dtype in half of the dtype cases (int64 below 2**40 so that the float64 copy '
               'of the oracle is exact)',
               'an array a helper returned (forward_ft_unit, make_xy_grid, cart_to_polar, optimize_xy_separable) belongs to the caller: '
               'editing it in place must not change later results of the routines of this property',
               'a (K, M, N) ndarray is a sequence of K transfer functions: the current tree iterates it exactly like a list and prysm '
               'itself passes one (x.dm.DM.render_backprop: np.conj(self.tf)); a bare 2-D array as `tfs` is iterated row by row today, '
               'means something else and is not driven',
               'magnitudes: every scale in the laws is relative (reference norm), so factors 1e-12 ... 1e12 are judged at the ordinary 1e-10; '
               'the unit-change law is judged at 1e-9 (the rescaled frequency x length products differ by a few ulp in their arguments)',
               'a non-negative PSF is a PSF in any radiometric units: total energies 1e-30 ... 1e30 (float64) and 1e-12 ... 1e12 (float32) keep '
               'every sample, spectrum and product of two spectra inside the normal range of the dtype, so the FFT and the division by the DC '
               'term are scale invariant to round-off and the ordinary thresholds (1e-10; 2e-4 / MTF(0) 1e-5 for float32) apply unchanged']
REQUIRED = ['conv.model', 'conv.linearity', 'conv.commutativity', 'conv.impulse-identity', 'conv.impulse-translation',
            'conv.energy', 'atf.model', 'atf.list-vs-product', 'atf.ones-identity', 'atf.linear-phase',
            'atf.callable-vs-array', 'mtf.dc', 'mtf.max', 'mtf.point-symmetry', 'otf.abs-vs-mtf', 'otf.arg-vs-ptf',
            'otf.model', 'repeat.cases', 'repeat.same-args', 'repeat.cross-routine', 'cross.conv-vs-atf-otf',
            'otf.container-vs-array', 'history.otf-container', 'history.otf-array', 'history.conv', 'history.atf',
            'precision32.cases', 'precision32-then-64.cases', 'regime.aspect',
            'form.callable-signature', 'form.conv-dtype', 'form.atf-dtype', 'form.otf-dtype', 'form.dx', 'form.grid',
            'form.call-syntax', 'foreign.cases',
            'form.tfs-stack', 'scale.conv', 'scale.atf', 'scale.units', 'scale.otf', 'special.conv', 'special.atf', 'special.otf',
            'size.awkward', 'scale.otf-energy']

CTX = None
WL = {}          # label of the workload that is driving the contracts right now (goes into contract witnesses)
RT = 1e-10
KEY_FFTSHIFT = 'C15/atf/shift=False/output-fftshifted'
KEY_CGRID = 'C15/atf/shift=False/callable-on-centred-grid'
KEY_2DGRID = 'C15/atf/explicit-2d-grid/polar-callable-wrong-shape'
WHAT_2DGRID = ('apply_transfer_functions with explicit 2-D fx, fy (the documented (M,N) shape) and a callable of fr/ft '
               'returns an array that does not have the shape of the object (fr, ft are built with shape (M,1,N))')


def takes_polar(tfs):
    import inspect
    return any(callable(t) and ({'fr', 'ft'} & set(inspect.signature(t).parameters)) for t in tfs)


def par2(shape):
    return '|'.join(sorted(set(parity(s) for s in shape)))


def p32():
    from prysm.conf import config
    return config.precision is np.float32


def rtol_for(*arrays):
    """float32 tolerance when any operand is single precision or prysm is configured for 32 bits (a routine may then
    legitimately cast to config.precision); measured float32 round-off is 3e-8..4e-7 of the scales used."""
    if p32() or any(getattr(a, 'dtype', None) in (np.float32, np.complex64, np.float16) for a in arrays):
        return 2e-4
    return RT


# =========================================================================================== model helpers
def doc_grids(shape, dx, centred):
    fy = ref.frequency_axis(shape[0], dx, centred)
    fx = ref.frequency_axis(shape[1], dx, centred)
    return fx, fy


def eval_tf(tf, fx, fy):
    """Evaluate one transfer function (array or callable) on 1-D frequency axes fx (cols), fy (rows)."""
    if not callable(tf):
        return np.asarray(tf)
    import inspect
    params = inspect.signature(tf).parameters
    FX = fx.reshape(1, -1)
    FY = fy.reshape(-1, 1)
    kw = {}
    if 'fx' in params:
        kw['fx'] = FX
    if 'fy' in params:
        kw['fy'] = FY
    if 'fr' in params:
        kw['fr'] = np.hypot(FX, FY)
    if 'ft' in params:
        kw['ft'] = np.arctan2(FY, FX) + np.zeros((fy.size, fx.size))
    return np.asarray(tf(**kw))


def product_tf(tfs, shape, fx, fy):
    p = np.ones(shape, dtype=complex)
    for tf in tfs:
        p = p * eval_tf(tf, fx, fy)
    return p


def is_hermitian(tf, centred, tol=1e-12):
    """tf[-k] == conj(tf[k]) in the stated index convention (modulo n)."""
    n0, n1 = tf.shape
    c0, c1 = (n0 // 2, n1 // 2) if centred else (0, 0)
    i0 = (2 * c0 - np.arange(n0)) % n0
    i1 = (2 * c1 - np.arange(n1)) % n1
    m = tf[np.ix_(i0, i1)]
    s = float(np.max(np.abs(tf))) if tf.size else 0.0
    return bool(np.max(np.abs(m - np.conj(tf))) <= tol * max(s, 1e-300)) if tf.size else True


def close(a, b, rtol, scale):
    from ..core import max_err
    if a.shape != b.shape:
        return False
    return max_err(a, b) <= rtol * scale


# =========================================================================================== contracts
SNAP_MAX = 512 * 512


def _snap(x):
    """Copy of an array argument taken *before* the call: the models judge the result against what was passed in, so a
    routine that writes into the caller's array cannot drag the oracle along."""
    if callable(x) or x is None:
        return x
    try:
        a = np.asarray(x)
    except Exception:
        return None
    if a.dtype == object or a.size > SNAP_MAX:
        return None
    return a.copy()


def pre_conv(args, kwargs):
    a = dict(zip(['obj', 'psf'], args))
    a.update(kwargs)
    return _snap(a.get('obj')), _snap(a.get('psf'))


def post_conv(token, args, kwargs, result):
    o, h = token
    if o is None or h is None:
        CTX.skip('conv.model: array larger than 512x512 (or not an array), model not evaluated')
        return
    if o.ndim != 2 or o.shape != h.shape or o.dtype.kind not in 'fiub' or h.dtype.kind not in 'fiub':
        return
    if o.size > 512 * 512:
        CTX.skip('conv.model: array larger than 512x512, model not evaluated')
        return
    if not (np.isfinite(o).all() and np.isfinite(h).all()):
        return
    desc = {'fn': 'conv', 'shape': o.shape, 'dtype': [str(o.dtype), str(h.dtype)]}
    desc.update(WL)
    if o.size <= 24 * 24:
        want = ref.circular_convolution(o, h)
    else:
        want = ref.filter_image(o.astype(float), ref.dft2(h.astype(float), True), True).real
    scale = float(np.abs(o.astype(float)).sum() * np.abs(h.astype(float)).max()) if o.size else 0.0
    CTX.close('conv.model', result, want, f'C15/conv/vs-direct-sum/{par2(o.shape)}',
              'conv(obj, psf) differs from the origin-centred circular convolution sum', desc,
              rtol=rtol_for(o, h), scale=max(scale, 1e-300))


ATF_NAMES = ['obj', 'dx', 'tfs', 'fx', 'fy', 'ft', 'fr', 'shift']


def pre_atf(args, kwargs):
    a = dict(zip(ATF_NAMES, args))
    a.update(kwargs)
    try:
        tfs = [_snap(t) for t in a['tfs']]
    except Exception:
        tfs = None
    return {'obj': _snap(a.get('obj')), 'tfs': tfs, 'fx': _snap(a.get('fx')), 'fy': _snap(a.get('fy'))}


def post_atf(token, args, kwargs, result):
    a = dict(zip(ATF_NAMES, args))
    a.update(kwargs)
    o = token['obj']
    tfs = token['tfs']
    if o is None or tfs is None or any(t is None for t in tfs):
        CTX.skip('atf.model: array larger than 512x512 (or not an array), model not evaluated')
        return
    shift = bool(a.get('shift', False))
    dx, ufx, ufy = a.get('dx'), token['fx'], token['fy']
    if o.ndim != 2 or o.dtype.kind not in 'fiub' or not np.isfinite(o).all():
        return
    has_callable = any(callable(t) for t in tfs)
    desc = {'fn': 'apply_transfer_functions', 'shape': o.shape, 'shift': shift, 'n_tf': len(tfs),
            'callables': has_callable, 'grid': 'explicit' if ufx is not None else 'dx'}
    desc.update(WL)
    # documented grid: the user's explicit axes, else from dx in the convention selected by `shift`
    alt = None
    if has_callable:
        if ufx is not None:
            fx = np.asarray(ufx)
            fy = np.asarray(ufy)
            fx = fx[0, :] if fx.ndim == 2 else fx.ravel()
            fy = fy[:, 0] if fy.ndim == 2 else fy.ravel()
        else:
            if dx is None:
                return
            fx, fy = doc_grids(o.shape, dx, shift)
            alt = doc_grids(o.shape, dx, not shift)
    else:
        fx = fy = None
    try:
        tf = product_tf(tfs, o.shape, fx, fy)
        tf = np.broadcast_to(tf, o.shape)
    except Exception:
        CTX.skip('atf.model: transfer functions not broadcastable to the object shape')
        return
    if not np.isfinite(tf).all():
        CTX.skip('atf.model: non-finite transfer function')
        return
    if not is_hermitian(tf, shift):
        CTX.skip('atf.model: non-Hermitian transfer function (laws only)')
        return
    of = o.astype(float)
    want = ref.filter_image(of, tf, shift).real
    scale = max(float(np.abs(want).max()), float(np.abs(of).max()) * 1e-3, 1e-300)
    rt = rtol_for(o, dx, ufx, ufy, *[t for t in tfs if not callable(t)])     # a float32 dx / grid is a single-precision input
    CTX.observe('atf.model')
    got = np.asarray(result)
    if got.shape != o.shape:
        if ufx is not None and np.ndim(ufx) == 2 and takes_polar(tfs):
            CTX.violation(KEY_2DGRID, WHAT_2DGRID, desc, got_shape=list(got.shape))
        else:
            CTX.violation(f'C15/atf/shift={shift}/output-shape', 'apply_transfer_functions returns an array whose shape '
                          'is not the shape of the object', desc, got_shape=list(got.shape))
        return
    if close(got, want, rt, scale):
        return
    # diagnose against the mechanisms measured on the pinned tree
    cands = [('fftshift', tf)]
    if alt is not None:
        tfa = np.broadcast_to(product_tf(tfs, o.shape, *alt), o.shape)
        cands += [('grid', tfa), ('grid+fftshift', tfa)]
    for name, t in cands:
        w = ref.filter_image(of, t, shift).real
        if 'fftshift' in name:
            w = np.roll(w, (o.shape[0] // 2, o.shape[1] // 2), axis=(0, 1))
        if got.shape == w.shape and close(got, w, rt, scale):
            if 'fftshift' in name and not shift:
                CTX.violation(KEY_FFTSHIFT, 'apply_transfer_functions(shift=False) returns fftshift(image): the all-ones '
                              'transfer function is not the identity', desc)
            if 'grid' in name and not shift:
                CTX.violation(KEY_CGRID, 'apply_transfer_functions(shift=False) evaluates callables on the centred '
                              'frequency grid although the spectrum it multiplies has zero frequency at [0,0]', desc)
            if shift:
                CTX.violation(f'C15/atf/shift=True/vs-dft-model/{name}', 'apply_transfer_functions(shift=True) differs '
                              'from IDFT(DFT(obj) prod(tf)) by ' + name, desc)
            return
    kind = 'callables' if has_callable else 'arrays'
    CTX.violation(f'C15/atf/shift={shift}/vs-dft-model/{kind}/{par2(o.shape)}',
                  'apply_transfer_functions differs from Re IDFT(DFT(obj) prod(tf)) in the documented convention', desc,
                  err=float(np.abs(got - want).max()) if got.shape == want.shape else 'shape', scale=scale)


def _otf_model(p):
    D = ref.dft2(p.astype(float), True)
    return D / D[p.shape[0] // 2, p.shape[1] // 2]


def _psf_ok(p):
    return (p.ndim == 2 and p.dtype.kind in 'fiub' and p.size <= 512 * 512 and np.isfinite(p).all()
            and abs(float(p.astype(float).sum())) > 1e-9 * float(np.abs(p.astype(float)).sum() + 1e-300))


def pre_otf(args, kwargs):
    a = dict(zip(['psf', 'dx'], args))
    a.update(kwargs)
    p = a['psf']
    form = 'array' if hasattr(p, 'ndim') else 'container'
    if form == 'container':
        p = p.data
    return _snap(p), form


def make_post_otf(which):
    def post(token, args, kwargs, result):
        p, form = token
        if p is None or not _psf_ok(p):
            return
        desc = {'fn': f'{which}_from_psf', 'shape': p.shape, 'dtype': str(p.dtype), 'form': form}
        desc.update(WL)
        want = _otf_model(p)
        got = np.asarray(result.data)
        rt = rtol_for(p)
        scale = max(1.0, float(np.abs(want).max()))
        key = f'C15/{which}/vs-dft-model/' + ('container-form/' if form == 'container' else '') + par2(p.shape)
        if which == 'mtf':
            CTX.close('otf.model', got, np.abs(want), key, 'mtf_from_psf differs from |D|/|D[c]| (centred DFT-matrix model)', desc,
                      rtol=rt, scale=scale)
        elif which == 'otf':
            CTX.close('otf.model', got, want, key, 'otf_from_psf differs from D/D[c] (centred DFT-matrix model)', desc,
                      rtol=rt, scale=scale)
        else:
            # the phase is ill-conditioned where |OTF| ~ 0: compare |OTF| exp(i PTF) with the OTF
            if got.shape != want.shape:
                CTX.violation(key + '/shape', 'ptf_from_psf has the wrong shape', desc)
                return
            CTX.close('otf.model', np.abs(want) * np.exp(1j * got), want, key,
                      'ptf_from_psf differs from arg(D/D[c]) (centred DFT-matrix model)', desc, rtol=rt, scale=scale)
    return post


def install():
    from prysm import convolution, otf
    attach(convolution, 'conv', pre=pre_conv, post=post_conv)
    attach(convolution, 'apply_transfer_functions', pre=pre_atf, post=post_atf)
    attach(otf, 'mtf_from_psf', pre=pre_otf, post=make_post_otf('mtf'))
    attach(otf, 'ptf_from_psf', pre=pre_otf, post=make_post_otf('ptf'))
    attach(otf, 'otf_from_psf', pre=pre_otf, post=make_post_otf('otf'))


# =========================================================================================== generators
def shapes_for(ctx, rng, n_enum, n_rand, hi):
    """All (n0,n1) with 1<=n<=n_enum ordered by size (smallest first), then n_rand random shapes up to hi."""
    base = sorted(((a, b) for a in range(1, n_enum + 1) for b in range(1, n_enum + 1)), key=lambda s: (s[0] * s[1], s))
    out = list(base)
    for _ in range(n_rand):
        out.append((int(rng.integers(3, hi + 1)), int(rng.integers(3, hi + 1))))
    return out


PSF_CLASSES = ['rand-nonneg', 'delta-origin', 'delta-anywhere', 'double-delta', 'gauss-offcentre', 'rand-signed']


def make_psf(cls, shape, rng):
    n0, n1 = shape
    c0, c1 = n0 // 2, n1 // 2
    info = {}
    if cls == 'rand-nonneg':
        h = rng.random(shape)
    elif cls == 'rand-signed':
        h = rng.standard_normal(shape)
    elif cls == 'delta-origin':
        h = np.zeros(shape)
        h[c0, c1] = 1.0
        info['k'] = (0, 0)
    elif cls == 'delta-anywhere':
        h = np.zeros(shape)
        edge = int(rng.integers(4))
        i0, i1 = int(rng.integers(n0)), int(rng.integers(n1))
        if edge == 0:
            i0 = [0, n0 - 1][int(rng.integers(2))]
        elif edge == 1:
            i1 = [0, n1 - 1][int(rng.integers(2))]
        h[i0, i1] = 1.0
        info['k'] = (i0 - c0, i1 - c1)
    elif cls == 'double-delta':
        h = np.zeros(shape)
        h[int(rng.integers(n0)), int(rng.integers(n1))] += 1.0
        h[int(rng.integers(n0)), int(rng.integers(n1))] += 0.5
    elif cls == 'gauss-offcentre':
        y = np.arange(n0)[:, None] - c0 - float(rng.uniform(-1, 1)) * max(1, n0 // 4)
        x = np.arange(n1)[None, :] - c1 - float(rng.uniform(-1, 1)) * max(1, n1 // 4)
        s = float(rng.uniform(0.6, 2.5))
        h = np.exp(-(x * x + y * y) / (2 * s * s))
    else:
        raise ValueError(cls)
    return h, info


# ---- transfer-function material ---------------------------------------------------------------------------------
def herm_random(shape, rng, centred, complex_=True):
    """Random Hermitian-symmetric transfer function = DFT (in the stated convention) of a random real kernel."""
    k = rng.standard_normal(shape)
    t = ref.dft2(k, centred) / max(1.0, math.sqrt(shape[0] * shape[1]))
    return t if complex_ else None


def even_real(shape, rng, centred):
    """Real, point-symmetric (hence Hermitian) random transfer function."""
    k = rng.random(shape)
    n0, n1 = shape
    c0, c1 = (n0 // 2, n1 // 2) if centred else (0, 0)
    i0 = (2 * c0 - np.arange(n0)) % n0
    i1 = (2 * c1 - np.arange(n1)) % n1
    return 0.5 * (k + k[np.ix_(i0, i1)])


# callables: every signature the documentation names.  Each returns something broadcastable to the grid.
def c_fx(fx, p=0.7):
    return np.exp(-(fx * p) ** 2) * np.exp(-2j * np.pi * fx * p)     # hermitian in fx


def c_fy(fy, p=0.4):
    return np.cos(fy * p) + 1j * np.sin(fy * p * 0.5)


def c_fxfy(fx, fy, p=0.5):
    return np.sinc(fx * p) * np.sinc(fy * p * 0.7) * np.exp(-2j * np.pi * (fx - 2 * fy) * p)


def c_fr(fr, p=0.8):
    return np.exp(-(fr * p) ** 2)


def c_frft(fr, ft, p=0.6):
    return np.exp(-(fr * p) ** 2) * (1 + 0.5 * np.cos(2 * ft))


def c_all(fx, fy, fr, ft, p=0.3):
    return (1 + 0.1 * np.cos(fx * p) + 0.2 * np.sin(fy * p) ** 2) * np.exp(-fr * p) * (1 + 0.25 * np.cos(4 * ft))


class OnesTF:
    """All-ones transfer function as a callable object (signature (fx, fy))."""

    def __call__(self, fx, fy):
        return np.ones(np.broadcast(fx, fy).shape)


def linear_phase(k0, k1, dx):
    def lp(fx, fy):
        return np.exp(-2j * np.pi * dx * (fx * k1 + fy * k0))
    return lp


def callable_pool(rng, dx):
    from prysm import degredations, detector, objects
    P = functools.partial
    pool = {
        'fx': P(c_fx, p=float(rng.uniform(0.2, 1.5)) * dx),
        'fy': P(c_fy, p=float(rng.uniform(0.2, 1.5)) * dx),
        'fx+fy': P(c_fxfy, p=float(rng.uniform(0.2, 1.5)) * dx),
        'fr': P(c_fr, p=float(rng.uniform(0.2, 1.5)) * dx),
        'fr+ft': P(c_frft, p=float(rng.uniform(0.2, 1.5)) * dx),
        'fx+fy+fr+ft': P(c_all, p=float(rng.uniform(0.2, 1.5)) * dx),
        'prysm:smear_ft': P(degredations.smear_ft, width=float(rng.uniform(0.3, 2)) * dx, height=float(rng.uniform(0, 2)) * dx),
        'prysm:jitter_ft': P(degredations.jitter_ft, scale=float(rng.uniform(0.1, 1)) * dx),
        'prysm:pixel_ft': P(detector.pixel_ft, width_x=float(rng.uniform(0.5, 2)) * dx, width_y=float(rng.uniform(0.5, 2)) * dx),
        'prysm:olpf_ft': P(detector.olpf_ft, width_x=float(rng.uniform(0.1, 1)) * dx, width_y=float(rng.uniform(0.1, 1)) * dx),
        'prysm:slit_ft': P(objects.slit_ft, float(rng.uniform(0.5, 2)) * dx, float(rng.uniform(0.5, 2)) * dx),
    }
    return pool


def prod_callable(cs):
    """Product of callables as one callable taking (fx, fy, fr, ft): 'their product' without choosing a grid."""
    import inspect
    sigs = [inspect.signature(c).parameters for c in cs]

    def prod(fx, fy, fr, ft):
        env = {'fx': fx, 'fy': fy, 'fr': fr, 'ft': ft}
        out = 1.0
        for c, s in zip(cs, sigs):
            out = out * c(**{k: env[k] for k in ('fx', 'fy', 'fr', 'ft') if k in s})
        return out
    return prod


def times_array(c, A):
    import inspect
    s = inspect.signature(c).parameters

    def prod(fx, fy, fr, ft):
        env = {'fx': fx, 'fy': fy, 'fr': fr, 'ft': ft}
        return c(**{k: env[k] for k in ('fx', 'fy', 'fr', 'ft') if k in s}) * A
    return prod


# =========================================================================================== run
class Tagged:
    """View of the run context that appends a class label to every violation key raised through it (used for the
    configuration workloads: a defect that only exists under precision 32, or only after a 32 -> 64 switch, gets its own
    key).  Everything else is forwarded."""

    def __init__(self, ctx, suffix):
        self._ctx = ctx
        self._suffix = suffix

    def __getattr__(self, k):
        return getattr(self._ctx, k)

    def violation(self, key, what, desc=None, **detail):
        self._ctx.violation(key + self._suffix, what, desc, **detail)

    close = Ctx.close
    equal = Ctx.equal
    require = Ctx.require
    guard = Ctx.guard


class driving:
    """with driving(ctx, wl='...'): contracts report to ctx and carry the workload label in their witnesses."""

    def __init__(self, ctx, **labels):
        self.ctx, self.labels = ctx, labels

    def __enter__(self):
        global CTX
        self.old = (CTX, dict(WL))
        CTX = self.ctx
        WL.clear()
        WL.update(self.labels)
        return self.ctx

    def __exit__(self, *a):
        global CTX
        CTX = self.old[0]
        WL.clear()
        WL.update(self.old[1])


def run(ctx):
    global CTX
    CTX = ctx
    WL.clear()
    install()
    try:
        _run_precision(ctx)      # first: its 32-bit warm-up must be the first use of its grids in this process
        _run_conv(ctx)
        _run_atf(ctx)
        _run_otf(ctx)
        _run_repeat(ctx)
        _run_histories(ctx)
        _run_regimes(ctx)
        _run_forms(ctx)
        _run_foreign(ctx)
        _run_pass3(ctx)
        _run_pass4(ctx)
        _run_rejections(ctx)
        _run_internal(ctx)
    finally:
        WL.clear()
        detach_all()


def _law(ctx, monitor, got, want, key, what, desc, rtol, scale):
    return ctx.close(monitor, got, want, key, what, desc, rtol=rtol, scale=max(scale, 1e-300))


# ---- argument forms ---------------------------------------------------------------------------------------------
LAYOUTS = ['C', 'F', 'transposed-view', 'strided-slice', 'reversed-view']
IMG_DTYPES = ['float64', 'float32', 'int64', 'int32', 'int16', 'uint8', 'bool']


def lay(a, how):
    """The same values in another memory layout."""
    if how == 'C':
        return np.ascontiguousarray(a)
    if how == 'F':
        return np.asfortranarray(a)
    if how == 'transposed-view':
        return np.ascontiguousarray(a.T).T
    if how == 'strided-slice':
        big = np.zeros((a.shape[0] * 2 + 1, a.shape[1] * 3 + 2), dtype=a.dtype)
        big[1::2, 2::3] = a
        return big[1::2, 2::3]
    if how == 'reversed-view':
        return np.ascontiguousarray(a[::-1, ::-1])[::-1, ::-1]
    raise ValueError(how)


def cast_img(x, dt):
    """A real image in the requested dtype (integers: rounded multiples, bool: thresholded)."""
    if dt.startswith('float'):
        return x.astype(dt)
    if dt == 'bool':
        out = x > np.median(x)
        if not out.any():
            out.flat[0] = True
        return out
    if dt == 'uint8':
        return np.clip(np.round(np.abs(x) * 40), 0, 255).astype(np.uint8)
    return np.round(x * 20).astype(dt)


# ------------------------------------------------------------------------------------------- conv
def _conv_laws(ctx, conv, r, shape, cls, desc, dtype='float64', layout='C'):
    """The statement's laws for one (object pair, PSF); the conv contract judges every call as well."""
    a = lay(cast_img(r.standard_normal(shape), dtype), layout)
    b = lay(cast_img(r.standard_normal(shape), dtype), layout)
    h, info = make_psf(cls, shape, r)
    h = lay(cast_img(h, dtype), layout) if 'k' not in info else lay(h.astype(dtype), layout)
    al, be = float(r.uniform(-2, 2)), float(r.uniform(-2, 2))
    if not dtype.startswith('float'):
        al, be = float(int(r.integers(-3, 4))), float(int(r.integers(-3, 4)))
    rt = rtol_for(a, h)
    af, bf, hf = a.astype(float), b.astype(float), h.astype(float)
    ia = conv(a, h)
    ib = conv(b, h)
    scale = float(np.abs(af).sum() + np.abs(bf).sum()) * float(np.abs(hf).max())
    combo = al * af + be * bf
    if dtype == 'float32':
        combo = combo.astype(np.float32)
    il = conv(combo, h)
    _law(ctx, 'conv.linearity', il, al * np.asarray(ia, dtype=float) + be * np.asarray(ib, dtype=float), 'C15/conv/linearity',
         'conv(alpha a + beta b, h) != alpha conv(a,h) + beta conv(b,h)', desc, rt, scale * max(1.0, abs(al), abs(be)))
    ic = conv(h, a)
    _law(ctx, 'conv.commutativity', ic, ia, 'C15/conv/commutativity', 'conv(a,h) != conv(h,a)', desc, rt, scale)
    tot = float(np.abs(af).sum() * np.abs(hf).sum())
    _law(ctx, 'conv.energy', np.asarray(ia, dtype=float).sum(), float(af.sum() * hf.sum()),
         'C15/conv/energy', 'sum(conv(a,h)) != sum(a) sum(h)', desc, rt, tot)
    if 'k' in info:
        k0, k1 = info['k']
        which = 'impulse-identity' if (k0, k1) == (0, 0) else 'impulse-translation'
        _law(ctx, f'conv.{which}', ia, np.roll(af, (k0, k1), axis=(0, 1)), f'C15/conv/{which}/{par2(shape)}',
             'conv(a, delta at origin+k) != roll(a, k)' if which != 'impulse-identity' else
             'conv(a, unit impulse at n//2) != a', desc, rt, float(np.abs(af).max()))


def _run_conv(ctx):
    from prysm.convolution import conv
    rng = ctx.rng('c15-conv')
    shapes = shapes_for(ctx, rng, ctx.pick(8, 16), ctx.pick(120, 8000), ctx.pick(24, 96))
    k = -1
    with driving(ctx, wl='conv'):
        for shape in shapes:
            for cls in PSF_CLASSES:
                k += 1
                if not ctx.mine(k):
                    continue
                sub = ctx.subseed(rng)
                r = np.random.default_rng(sub)
                f32 = (k % 11 == 5)
                desc = {'wl': 'conv', 'shape': shape, 'psf': cls, 'seed': sub, 'dtype': 'float32' if f32 else 'float64',
                        'class': f'conv:{shape_class(shape)}:{cls}' + (':f32' if f32 else '')}
                ctx.case(desc, nontrivial=shape[0] * shape[1] >= 2)
                with ctx.guard(f'C15/conv/{par2(shape)}', desc):
                    _conv_laws(ctx, conv, r, shape, cls, desc, 'float32' if f32 else 'float64')
        # every impulse position on small shapes (exhaustive), incl. edges and corners
        small = [s for s in shapes_for(ctx, rng, ctx.pick(5, 10), 0, 0)]
        k = -1
        for shape in small:
            n0, n1 = shape
            for i0 in range(n0):
                for i1 in range(n1):
                    k += 1
                    if not ctx.mine(k):
                        continue
                    desc = {'wl': 'conv-impulse', 'shape': shape, 'at': (i0, i1), 'class': f'impulse-all:{shape_class(shape)}'}
                    ctx.case(desc, nontrivial=n0 * n1 >= 2)
                    a = (np.arange(n0 * n1, dtype=float).reshape(shape) + 1.0) * (1 + 0.01 * np.cos(np.arange(n1)))[None, :]
                    d = np.zeros(shape)
                    d[i0, i1] = 1.0
                    k0, k1 = i0 - n0 // 2, i1 - n1 // 2
                    which = 'impulse-identity' if (k0, k1) == (0, 0) else 'impulse-translation'
                    with ctx.guard(f'C15/conv/{par2(shape)}', desc):
                        _law(ctx, f'conv.{which}', conv(a, d), np.roll(a, (k0, k1), axis=(0, 1)), f'C15/conv/{which}/{par2(shape)}',
                             'conv(a, delta at origin+k) != roll(a, k)', desc, RT, float(np.abs(a).max()))
    ctx.note('impulse_positions', f'every impulse position for every shape up to {ctx.pick(5, 10)}x{ctx.pick(5, 10)}')


# ------------------------------------------------------------------------------------------- apply_transfer_functions
TF_CLASSES = ['arrays-real', 'arrays-hermitian', 'arrays-generic', 'callables', 'prysm-fts', 'mixed', 'ones-array',
              'ones-callable', 'ones-scalar-array', 'empty', 'linear-phase-array', 'linear-phase-callable']
GRID_MODES = ['dx', 'explicit-1d', 'explicit-2d']


def _grids_for(mode, shape, dx, shift):
    if mode == 'dx':
        return {}
    fx, fy = doc_grids(shape, dx, shift)
    if mode == 'explicit-2d':
        FX, FY = np.meshgrid(fx, fy)
        return {'fx': FX, 'fy': FY}
    return {'fx': fx, 'fy': fy}


def _run_atf(ctx):
    from prysm.convolution import apply_transfer_functions as atf
    rng = ctx.rng('c15-atf')
    shapes = shapes_for(ctx, rng, ctx.pick(6, 11), ctx.pick(60, 5000), ctx.pick(24, 96))
    k = -1
    with driving(ctx, wl='atf'):
        for shape in shapes:
            for cls in TF_CLASSES:
                for shift in (False, True):
                    k += 1
                    if not ctx.mine(k):
                        continue
                    sub = ctx.subseed(rng)
                    r = np.random.default_rng(sub)
                    mode = GRID_MODES[int(r.integers(3))] if ('callable' in cls or cls in ('prysm-fts', 'mixed')) else 'dx'
                    dx = [1.0, 0.25, 3.7][int(r.integers(3))]
                    desc = {'wl': 'atf', 'shape': shape, 'tf': cls, 'shift': shift, 'grid': mode, 'dx': dx, 'seed': sub,
                            'class': f'atf:{shape_class(shape)}:{cls}:shift={shift}:{mode}'}
                    ctx.case(desc, nontrivial=shape[0] * shape[1] >= 2)
                    with ctx.guard(f'C15/atf/shift={shift}/{cls}', desc):
                        _atf_case(ctx, atf, r, shape, cls, shift, mode, dx, desc)


def _identity_law(ctx, out, o, shift, desc, what, rt=RT):
    ctx.observe('atf.ones-identity')
    o = np.asarray(o, dtype=float)
    scale = max(float(np.abs(o).max()), 1e-300)
    if close(np.asarray(out), o, rt, scale):
        return
    sh = np.roll(o, (o.shape[0] // 2, o.shape[1] // 2), axis=(0, 1))
    if not shift and close(np.asarray(out), sh, rt, scale):
        ctx.violation(KEY_FFTSHIFT, 'apply_transfer_functions(shift=False) returns fftshift(image): the all-ones transfer '
                      'function is not the identity', desc)
    else:
        ctx.violation(f'C15/atf/shift={shift}/ones-not-identity', what, desc)


def _atf_case(ctx, atf, r, shape, cls, shift, mode, dx, desc, dtype='float64', pool=None):
    o = cast_img(r.standard_normal(shape), dtype)
    RTc = rtol_for(o)
    gk = _grids_for(mode, shape, dx, shift)
    fxd, fyd = doc_grids(shape, dx, shift)
    omax = max(float(np.abs(o.astype(float)).max()), 1e-300)
    if pool is None:
        pool = callable_pool(r, dx)
    names = list(pool)

    def lp_key(kind):
        return f'C15/atf/shift={shift}/linear-phase-translation/{kind}'

    if cls in ('arrays-real', 'arrays-hermitian', 'arrays-generic'):
        n = int(r.integers(1, 5))
        if cls == 'arrays-real':
            tfs = [even_real(shape, r, shift) for _ in range(n)]
        elif cls == 'arrays-hermitian':
            tfs = [herm_random(shape, r, shift) for _ in range(n)]
        else:
            tfs = [r.standard_normal(shape) + 1j * r.standard_normal(shape) for _ in range(n)]
        p = functools.reduce(lambda x, y: x * y, tfs)
        a1 = atf(o, dx, tfs, shift=shift)
        a2 = atf(o, dx, [p], shift=shift)
        a3 = atf(o, None, tuple(tfs), shift=shift)         # dx is documented as ignored for arrays; tuple is a sequence
        sc = max(float(np.abs(a2).max()), omax * 1e-3)
        _law(ctx, 'atf.list-vs-product', a1, a2, f'C15/atf/shift={shift}/list-vs-product/arrays',
             'apply_transfer_functions(o, [t1..tk]) != apply_transfer_functions(o, [t1*..*tk])', desc, RTc, sc)
        _law(ctx, 'atf.list-vs-product', a3, a1, f'C15/atf/shift={shift}/list-vs-product/arrays',
             'result depends on dx / on list vs tuple although only arrays were given', desc, RTc, sc)
    elif cls in ('callables', 'prysm-fts'):
        cand = [n for n in names if n.startswith('prysm:')] if cls == 'prysm-fts' else [n for n in names if not n.startswith('prysm:')]
        n = int(r.integers(1, 4))
        pick = [cand[int(r.integers(len(cand)))] for _ in range(n)]
        desc['callables'] = pick
        cs = [pool[p] for p in pick]
        a1 = atf(o, dx, cs, shift=shift, **gk)
        a2 = atf(o, dx, [prod_callable(cs)], shift=shift, **gk)
        sc = max(float(np.abs(a2).max()), omax * 1e-3)
        _law(ctx, 'atf.list-vs-product', a1, a2, f'C15/atf/shift={shift}/list-vs-product/callables',
             'apply_transfer_functions(o, [c1..ck]) != apply_transfer_functions(o, [c1*..*ck]) for callables', desc, RTc, sc)
        # a callable and the array it evaluates to on the documented grid are the same transfer function
        arr = np.broadcast_to(product_tf(cs, shape, fxd, fyd), shape)
        a4 = atf(o, dx, [arr], shift=shift)
        ctx.observe('atf.callable-vs-array')
        if np.shape(a1) != shape and mode == 'explicit-2d' and takes_polar(cs):
            ctx.violation(KEY_2DGRID, WHAT_2DGRID, desc, got_shape=list(np.shape(a1)))
        elif not close(np.asarray(a1), np.asarray(a4), RTc, sc):
            fxa, fya = doc_grids(shape, dx, not shift)
            a5 = atf(o, dx, [np.broadcast_to(product_tf(cs, shape, fxa, fya), shape)], shift=shift)
            if mode == 'dx' and not shift and close(np.asarray(a1), np.asarray(a5), RTc, sc):
                ctx.violation(KEY_CGRID, 'apply_transfer_functions(shift=False) evaluates callables on the centred frequency '
                              'grid although the spectrum it multiplies has zero frequency at [0,0]', desc)
            else:
                ctx.violation(f'C15/atf/shift={shift}/callable-vs-array/{mode}',
                              'a callable transfer function and the array it evaluates to on the documented grid give '
                              'different images', desc, callables=pick)
    elif cls == 'mixed':
        c = pool[names[int(r.integers(len(names)))]]
        A = herm_random(shape, r, shift)
        B = even_real(shape, r, shift)
        order = int(r.integers(3))
        tfs = [[c, A, B], [A, c, B], [A, B, c]][order]
        a1 = atf(o, dx, tfs, shift=shift, **gk)
        a2 = atf(o, dx, [times_array(c, A * B)], shift=shift, **gk)
        sc = max(float(np.abs(a2).max()), omax * 1e-3)
        _law(ctx, 'atf.list-vs-product', a1, a2, f'C15/atf/shift={shift}/list-vs-product/mixed',
             'a mixed list of arrays and callables != its product applied at once', desc, RTc, sc)
    elif cls in ('ones-array', 'ones-scalar-array', 'empty', 'ones-callable'):
        if cls == 'ones-array':
            tfs, kw = [np.ones(shape)], {}
        elif cls == 'ones-scalar-array':
            tfs, kw = [np.ones((1, 1)), np.ones(shape, dtype=complex)], {}
        elif cls == 'empty':
            tfs, kw = [], {}
        else:
            tfs, kw = [OnesTF()], gk
        out = atf(o, dx, tfs, shift=shift, **kw)
        _identity_law(ctx, out, o, shift, desc, 'the all-ones transfer function does not return the object', RTc)
    elif cls in ('linear-phase-array', 'linear-phase-callable'):
        n0, n1 = shape
        k0, k1 = int(r.integers(-n0, n0 + 1)), int(r.integers(-n1, n1 + 1))
        desc['k'] = (k0, k1)
        lp = linear_phase(k0, k1, dx)
        base = atf(o, dx, [np.ones(shape)], shift=shift)          # shares whatever output placement the routine has
        want = np.roll(np.asarray(base), (k0, k1), axis=(0, 1))
        if cls == 'linear-phase-array':
            t = lp(fxd.reshape(1, -1), fyd.reshape(-1, 1))
            out = atf(o, dx, [t], shift=shift)
            _law(ctx, 'atf.linear-phase', out, want, lp_key('array'),
                 'the transfer function exp(-2 pi i f.k dx) does not translate the image by k samples', desc, RTc, omax)
        else:
            out = atf(o, dx, [lp], shift=shift, **gk)
            ctx.observe('atf.linear-phase')
            if not close(np.asarray(out), want, RTc, omax):
                fxa, fya = doc_grids(shape, dx, not shift)
                alt = atf(o, dx, [lp(fxa.reshape(1, -1), fya.reshape(-1, 1))], shift=shift)
                if mode == 'dx' and not shift and close(np.asarray(out), np.asarray(alt), RTc, omax):
                    ctx.violation(KEY_CGRID, 'apply_transfer_functions(shift=False) evaluates callables on the centred '
                                  'frequency grid although the spectrum it multiplies has zero frequency at [0,0]', desc)
                else:
                    ctx.violation(lp_key(f'callable/{mode}'), 'the callable transfer function exp(-2 pi i f.k dx) does not '
                                  'translate the image by k samples', desc)


# ------------------------------------------------------------------------------------------- MTF / OTF / PTF
def _mtf_validity(ctx, m, O, ph, shape, desc, f32):
    """The statement's MTF/OTF/PTF laws on one set of observed outputs."""
    n0, n1 = shape
    c0, c1 = n0 // 2, n1 // 2
    rt = 2e-4 if f32 else RT
    ok_shape = m.shape == shape
    ctx.require('mtf.dc', ok_shape and abs(float(m[c0, c1]) - 1.0) <= (1e-5 if f32 else 1e-12), f'C15/mtf/dc-not-1/{par2(shape)}',
                'MTF at zero frequency (sample n//2) is not 1', desc, got=float(m[c0, c1]) if ok_shape else None)
    if not ok_shape:
        return
    ctx.require('mtf.max', bool(np.nanmax(m) <= 1 + (1e-12 if not f32 else 1e-5)) and not np.isnan(m).any(),
                'C15/mtf/exceeds-1', 'MTF of a non-negative PSF exceeds 1 (or is NaN)', desc, got=float(np.nanmax(m)))
    i0 = (2 * c0 - np.arange(n0)) % n0
    i1 = (2 * c1 - np.arange(n1)) % n1
    _law(ctx, 'mtf.point-symmetry', m[np.ix_(i0, i1)], m, f'C15/mtf/point-symmetry/{par2(shape)}',
         'MTF(c+k) != MTF(c-k) (indices modulo n)', desc, rt, 1.0)
    _law(ctx, 'otf.abs-vs-mtf', np.abs(O), m, 'C15/otf/abs-vs-mtf', '|OTF| != MTF', desc, rt, 1.0)
    # arg OTF == PTF wherever the phase is defined (|OTF| > 1e-6); elsewhere excluded and counted
    floor = 1e-2 if f32 else 1e-6
    if O.shape != shape:
        return
    good = np.abs(O) > floor
    ctx.skip('otf.arg-vs-ptf: samples with |OTF| <= 1e-6 (1e-2 for float32 input): phase undefined', int((~good).sum()))
    if ph.shape == O.shape:
        _law(ctx, 'otf.arg-vs-ptf', np.exp(1j * ph[good]), (O / np.where(good, np.abs(O), 1))[good], 'C15/otf/arg-vs-ptf',
             'arg(OTF) != PTF (modulo 2 pi) where |OTF| is not negligible', desc, 2e-2 if f32 else 1e-6, 1.0)
    else:
        ctx.violation('C15/otf/arg-vs-ptf/shape', 'PTF and OTF have different shapes', desc)


def _otf_laws(ctx, otf, r, shape, cls, container, dx, desc, dtype='float64', layout='C'):
    from prysm._richdata import RichData
    p, _ = make_psf(cls, shape, r)
    p = lay(cast_img(p, dtype) if dtype != 'float64' else p, layout)
    if float(p.astype(float).sum()) == 0.0:
        ctx.skip('otf: PSF with zero sum after the integer cast (MTF undefined)')
        return
    f32 = rtol_for(p) != RT
    if container == 'RichData':
        arg = (RichData(p.copy(), dx, None),)
    else:
        arg = (p.copy(), dx)
    m = np.asarray(otf.mtf_from_psf(*arg).data)
    O = np.asarray(otf.otf_from_psf(*arg).data)
    ph = np.asarray(otf.ptf_from_psf(*arg).data)
    _mtf_validity(ctx, m, O, ph, shape, desc, f32)


def _run_otf(ctx):
    from prysm import otf
    rng = ctx.rng('c15-otf')
    shapes = shapes_for(ctx, rng, ctx.pick(7, 13), ctx.pick(80, 8000), ctx.pick(24, 96))
    classes = [c for c in PSF_CLASSES if c != 'rand-signed']
    k = -1
    with driving(ctx, wl='otf'):
        for shape in shapes:
            for cls in classes:
                k += 1
                if not ctx.mine(k):
                    continue
                sub = ctx.subseed(rng)
                r = np.random.default_rng(sub)
                container = ['array', 'RichData'][k % 2]
                f32 = (k % 13 == 7)
                dx = [1.0, 0.1, 5.5][k % 3]
                desc = {'wl': 'otf', 'shape': shape, 'psf': cls, 'input': container, 'dx': dx, 'seed': sub,
                        'dtype': 'float32' if f32 else 'float64',
                        'class': f'otf:{shape_class(shape)}:{cls}:{container}' + (':f32' if f32 else '')}
                ctx.case(desc, nontrivial=shape[0] * shape[1] >= 2)
                with ctx.guard(f'C15/otf/{par2(shape)}', desc):
                    _otf_laws(ctx, otf, r, shape, cls, container, dx, desc, 'float32' if f32 else 'float64')


# ------------------------------------------------------------------------------------------- class A: repeat / aliasing
REPEAT_SHAPES_Q = [(1, 2), (2, 2), (3, 3), (3, 4), (4, 4), (5, 5), (4, 7), (7, 4), (8, 8), (9, 6), (11, 11), (12, 15), (16, 16), (17, 20)]
TF_CONTAINERS = ['list', 'tuple']     # the documented type is 'sequence'; the 3-D ndarray stack has its own workload (_p3_stack)
TF_DTYPES = ['complex128', 'complex64', 'float64', 'float32', 'int64']


def _run_repeat(ctx):
    """The same argument *objects* passed again (to the same routine, to another routine of the property, in the keyword
    form); arguments in every memory layout and image dtype; results the caller edits.  The later call is judged."""
    from prysm import otf
    from prysm._richdata import RichData
    from prysm.convolution import apply_transfer_functions as atf, conv
    rng = ctx.rng('c15-repeat')
    shapes = list(REPEAT_SHAPES_Q)
    for _ in range(ctx.pick(6, 900)):
        shapes.append((int(rng.integers(2, ctx.pick(24, 64) + 1)), int(rng.integers(2, ctx.pick(24, 64) + 1))))
    combos = [(lo, dt) for dt in IMG_DTYPES for lo in LAYOUTS]
    k = -1
    with driving(ctx, wl='repeat'):
        for si, shape in enumerate(shapes):
            # every (layout, dtype) pair on the first shapes, then a rotating subset
            mine = combos if si < ctx.pick(3, 14) else [combos[(si * 7 + j * 11) % len(combos)] for j in range(ctx.pick(4, 8))]
            for layout, dtype in mine:
                for routine in ('conv', 'atf', 'otf'):
                    k += 1
                    if not ctx.mine(k):
                        continue
                    sub = ctx.subseed(rng)
                    r = np.random.default_rng(sub)
                    shift = bool(k % 2)
                    desc = {'wl': 'repeat', 'routine': routine, 'shape': shape, 'layout': layout, 'dtype': dtype, 'seed': sub,
                            'class': f'repeat:{routine}:{layout}:{dtype}'}
                    if routine == 'atf':
                        desc['shift'] = shift
                    ctx.case(desc, nontrivial=True)
                    ctx.observe('repeat.cases')
                    with ctx.guard(f'C15/repeat/{routine}/{layout}/{"float" if dtype.startswith("float") else "integer" if dtype != "bool" else "bool"}', desc):
                        if routine == 'conv':
                            _repeat_conv(ctx, conv, atf, otf, r, shape, layout, dtype, desc)
                        elif routine == 'atf':
                            _repeat_atf(ctx, atf, r, shape, layout, dtype, shift, desc, k)
                        else:
                            _repeat_otf(ctx, otf, RichData, r, shape, layout, dtype, desc)


def _repeat_conv(ctx, conv, atf, otf, r, shape, layout, dtype, desc):
    a = lay(cast_img(r.standard_normal(shape), dtype), layout)
    h = lay(cast_img(r.random(shape) + 0.05, dtype), layout)
    if float(h.astype(float).sum()) == 0.0:
        h = lay(cast_img(np.ones(shape), dtype), layout)
    af, hf = a.astype(float), h.astype(float)
    rt = rtol_for(a, h)
    scale = float(np.abs(af).sum()) * float(np.abs(hf).max())
    i1 = np.array(conv(a, h), dtype=float)
    i2 = conv(a, h)
    _law(ctx, 'repeat.same-args', i2, i1, 'C15/conv/repeat/same-argument-objects',
         'conv(a, h) called twice with the same array objects gives two different images', desc, rt, scale)
    # the same PSF object goes through the otf routines, then conv is judged again
    dx = 0.5
    m = np.array(otf.mtf_from_psf(h, dx).data)
    O = np.array(otf.otf_from_psf(h, dx).data)
    otf.ptf_from_psf(h, dx)
    i3 = conv(a, h)
    _law(ctx, 'repeat.cross-routine', i3, i1, 'C15/conv/repeat/after-otf-of-the-same-psf',
         'conv(a, h) changes after mtf/otf/ptf_from_psf were called with the same PSF array', desc, rt, scale)
    ic = conv(h, a)
    _law(ctx, 'conv.commutativity', ic, i1, 'C15/conv/commutativity', 'conv(h,a) != conv(a,h) (arguments re-used)', desc, rt, scale)
    _law(ctx, 'otf.abs-vs-mtf', np.abs(O), m, 'C15/otf/abs-vs-mtf', '|OTF| != MTF (PSF array shared with conv)', desc, rt, 1.0)
    # convolution theorem across the three routines: conv(a,h) == atf(a, [sum(h) OTF(h)], shift=True)
    D = O.astype(complex) * float(hf.sum())
    i4 = atf(a, dx, [D], shift=True)
    _law(ctx, 'cross.conv-vs-atf-otf', i4, i1, 'C15/cross/conv-vs-atf-with-otf',
         'conv(a, h) != apply_transfer_functions(a, [sum(h) * otf_from_psf(h)], shift=True)', desc, rt, scale)
    i5 = conv(a, h)
    _law(ctx, 'repeat.cross-routine', i5, i1, 'C15/conv/repeat/after-atf-of-the-same-object',
         'conv(a, h) changes after apply_transfer_functions was called with the same object array', desc, rt, scale)


def _tf_material(r, shape, shift, tdt, n):
    if tdt in ('complex128', 'complex64'):
        ts = [herm_random(shape, r, shift).astype(tdt) for _ in range(n)]
    elif tdt in ('float64', 'float32'):
        ts = [even_real(shape, r, shift).astype(tdt) for _ in range(n)]
    else:
        ts = [np.round(even_real(shape, r, shift) * 4).astype(tdt) - 1 for _ in range(n)]
    return ts


def _repeat_atf(ctx, atf, r, shape, layout, dtype, shift, desc, k):
    o1 = lay(cast_img(r.standard_normal(shape), dtype), layout)
    o2 = lay(cast_img(r.standard_normal(shape), dtype), layout)
    tdt = TF_DTYPES[k % len(TF_DTYPES)]
    cont = TF_CONTAINERS[(k // len(TF_DTYPES)) % len(TF_CONTAINERS)]
    desc['tf_dtype'], desc['tf_container'] = tdt, cont
    n = int(r.integers(2, 4))
    ts = [lay(t, layout) for t in _tf_material(r, shape, shift, tdt, n)]
    pristine = [np.array(t, dtype=complex) for t in ts]
    P = functools.reduce(lambda x, y: x * y, pristine)
    tfs = ts if cont == 'list' else tuple(ts)
    rt = rtol_for(o1, *ts)
    dx = 0.8
    omax = max(float(np.abs(o1.astype(float)).max()), float(np.abs(o2.astype(float)).max()), 1e-300)
    a1 = np.array(atf(o1, dx, tfs, shift=shift), dtype=float)
    a2 = atf(o1, dx, tfs, shift=shift)
    sc = max(float(np.abs(a1).max()), omax * 1e-3)
    _law(ctx, 'repeat.same-args', a2, a1, f'C15/atf/shift={shift}/repeat/same-argument-objects',
         'apply_transfer_functions called twice with the same object and the same transfer-function arrays gives two images',
         desc, rt, sc)
    a3 = atf(o2, dx, tfs=tfs, shift=shift)                      # keyword form, third use of the same arrays
    a4 = atf(o2, dx, [P], shift=shift)
    sc2 = max(float(np.abs(a4).max()), omax * 1e-3)
    _law(ctx, 'atf.list-vs-product', a3, a4, f'C15/atf/shift={shift}/list-vs-product/arrays-reused',
         'after earlier calls with the same transfer-function arrays, apply_transfer_functions(o, tfs) != '
         'apply_transfer_functions(o, [product of the arrays as they were given])', desc, rt, sc2)
    # explicit frequency grids passed as float64 ndarrays and re-used; callable judged against its array on the pristine grid
    pool = callable_pool(r, dx)
    names = list(pool)
    name = names[int(r.integers(len(names)))]
    c = pool[name]
    desc['callable'] = name
    mode = ['explicit-1d', 'explicit-2d'][k % 2]
    gk = _grids_for(mode, shape, dx, shift)
    fxd, fyd = doc_grids(shape, dx, shift)
    b1 = atf(o1, dx, [c], shift=shift, **gk)
    b2 = atf(o2, dx, [c], shift=shift, **gk)
    arr = np.broadcast_to(product_tf([c], shape, fxd, fyd), shape)
    b3 = atf(o2, dx, [arr], shift=shift)
    ctx.observe('atf.callable-vs-array')
    sc3 = max(float(np.abs(b3).max()), omax * 1e-3)
    if np.shape(b2) != shape and mode == 'explicit-2d' and takes_polar([c]):
        ctx.violation(KEY_2DGRID, WHAT_2DGRID, desc, got_shape=list(np.shape(b2)))
    elif not close(np.asarray(b2), np.asarray(b3), rt, sc3):
        ctx.violation(f'C15/atf/shift={shift}/callable-vs-array/grid-arrays-reused',
                      'with the caller\'s fx, fy arrays passed a second time, a callable transfer function and the array it '
                      'evaluates to on that grid give different images', desc)
    del b1


def _repeat_otf(ctx, otf, RichData, r, shape, layout, dtype, desc):
    cls = ['rand-nonneg', 'gauss-offcentre', 'double-delta'][int(r.integers(3))]
    p, _ = make_psf(cls, shape, r)
    p = lay(cast_img(p, dtype) if dtype != 'float64' else p, layout)
    if float(p.astype(float).sum()) == 0.0:
        ctx.skip('otf: PSF with zero sum after the integer cast (MTF undefined)')
        return
    f32 = rtol_for(p) != RT
    rt = rtol_for(p)
    dx = 2.5
    fns = {'mtf': otf.mtf_from_psf, 'otf': otf.otf_from_psf, 'ptf': otf.ptf_from_psf}
    first = {w: np.array(f(p, dx).data) for w, f in fns.items()}
    _mtf_validity(ctx, first['mtf'], first['otf'], first['ptf'], shape, desc, f32)
    # second round on the same array object, after the caller has scribbled over the first results
    again = {}
    for w, f in fns.items():
        res = f(p, dx)
        again[w] = np.array(res.data)
        res.data[...] = 0                # the caller owns what it was handed
    for w in ('mtf', 'otf'):
        _law(ctx, 'repeat.same-args', again[w], first[w], f'C15/{w}/repeat/same-argument-object',
             f'{w}_from_psf(psf, dx) called twice with the same array gives two results', desc, rt, 1.0)
    third = {w: np.array(f(p, dx).data) for w, f in fns.items()}
    for w in ('mtf', 'otf'):
        _law(ctx, 'repeat.same-args', third[w], first[w], f'C15/{w}/repeat/after-caller-edits-result',
             f'{w}_from_psf returns something else after the caller modified the array a previous call returned', desc, rt, 1.0)
    # container form sharing the very same array, every routine twice, results edited in between
    c = RichData(p, dx, None)
    for rnd in (0, 1):
        got = {}
        for w, f in fns.items():
            res = f(c)
            got[w] = np.array(res.data)
            res.data[...] = 0
        for w in ('mtf', 'otf'):
            _law(ctx, 'otf.container-vs-array', got[w], first[w], f'C15/{w}/container-vs-array',
                 f'{w}_from_psf(container) != {w}_from_psf(container.data, container.dx)', desc, rt, 1.0, )
        _mtf_validity(ctx, got['mtf'], got['otf'], got['ptf'], shape, desc, f32)


# ------------------------------------------------------------------------------------------- class B: histories
OTF_CHANGES = ['reassign-data', 'inplace-overwrite', 'inplace-edit-region', 'conv-stored-back', 'copy-of-used-container',
               'array-form-inplace-edit', 'reassign-other-shape', 'data-and-dx']
OTF_FNS = ['mtf', 'ptf', 'otf']


def _run_histories(ctx):
    from prysm import otf
    from prysm._richdata import RichData
    from prysm.convolution import apply_transfer_functions as atf, conv
    rng = ctx.rng('c15-hist')
    fns = {'mtf': otf.mtf_from_psf, 'otf': otf.otf_from_psf, 'ptf': otf.ptf_from_psf}
    shapes = [(3, 3), (4, 5), (8, 8), (9, 12), (16, 11)]
    for _ in range(ctx.pick(3, 320)):
        shapes.append((int(rng.integers(2, ctx.pick(28, 64) + 1)), int(rng.integers(2, ctx.pick(28, 64) + 1))))
    k = -1
    with driving(ctx, wl='history'):
        # ---- MTF/PTF/OTF of one PSF object whose content changes between calls
        for shape in shapes:
            for change in OTF_CHANGES:
                for first in OTF_FNS:
                    for second in OTF_FNS:
                        k += 1
                        if not ctx.mine(k):
                            continue
                        sub = ctx.subseed(rng)
                        r = np.random.default_rng(sub)
                        desc = {'wl': 'otf-history', 'shape': shape, 'change': change, 'first': first, 'second': second,
                                'seed': sub, 'class': f'history:otf:{change}:{first}->{second}'}
                        ctx.case(desc)
                        with ctx.guard(f'C15/otf/history/{change}', desc):
                            _otf_history(ctx, fns, conv, RichData, r, shape, change, first, second, desc)
        # ---- longer random histories on one container
        for hi in range(ctx.pick(12, 2000)):
            k += 1
            if not ctx.mine(k):
                continue
            sub = ctx.subseed(rng)
            r = np.random.default_rng(sub)
            shape = shapes[int(r.integers(len(shapes)))]
            steps = int(r.integers(3, ctx.pick(7, 16)))
            desc = {'wl': 'otf-history-long', 'shape': shape, 'steps': steps, 'seed': sub, 'class': 'history:otf:random-sequence'}
            ctx.case(desc)
            with ctx.guard('C15/otf/history/random-sequence', desc):
                dx = float(r.uniform(0.1, 4))
                p = r.random(shape)
                c = RichData(p.copy(), dx, None)
                for s in range(steps):
                    w = OTF_FNS[int(r.integers(3))]
                    ch = OTF_CHANGES[int(r.integers(4))]
                    got = np.array(fns[w](c).data)
                    cur = np.array(c.data)
                    if w != 'ptf':
                        want = np.array(fns[w](cur.copy(), c.dx).data)
                        _law(ctx, 'history.otf-container', got, want, 'C15/otf/history/random-sequence/container-vs-array',
                             'after a history of calls and data changes on one container, the container form differs from '
                             'the array form of its current data', dict(desc, step=s, fn=w), RT, 1.0)
                    _apply_change(c, ch, r, conv)
        # ---- conv: operands edited in place / other operands of the same shape between calls
        for shape in shapes:
            for change in ('psf-inplace-to-impulse', 'psf-inplace-edit', 'obj-inplace-edit', 'other-psf-same-shape', 'other-shape-between'):
                k += 1
                if not ctx.mine(k):
                    continue
                sub = ctx.subseed(rng)
                r = np.random.default_rng(sub)
                desc = {'wl': 'conv-history', 'shape': shape, 'change': change, 'seed': sub, 'class': f'history:conv:{change}'}
                ctx.case(desc)
                with ctx.guard(f'C15/conv/history/{change}', desc):
                    _conv_history(ctx, conv, r, shape, change, desc)
        # ---- apply_transfer_functions: one shape, the sampling / convention / grid form changes from call to call
        for shape in shapes:
            for rep in range(ctx.pick(1, 3)):
                k += 1
                if not ctx.mine(k):
                    continue
                sub = ctx.subseed(rng)
                r = np.random.default_rng(sub)
                pool = callable_pool(r, 1.0)
                steps = ctx.pick(6, 12)
                for s in range(steps):
                    cls = ['callables', 'prysm-fts', 'linear-phase-callable', 'mixed', 'ones-callable', 'arrays-hermitian'][int(r.integers(6))]
                    shift = bool(r.integers(2))
                    mode = GRID_MODES[int(r.integers(3))] if cls != 'arrays-hermitian' else 'dx'
                    dx = [1.0, 0.25, 3.7, 0.5][int(r.integers(4))]
                    desc = {'wl': 'atf-history', 'shape': shape, 'step': s, 'tf': cls, 'shift': shift, 'grid': mode, 'dx': dx,
                            'seed': sub, 'class': f'history:atf:{cls}:shift={shift}:{mode}'}
                    ctx.case(desc)
                    ctx.observe('history.atf')
                    with ctx.guard(f'C15/atf/history/shift={shift}/{cls}', desc):
                        _atf_case(ctx, atf, r, shape, cls, shift, mode, dx, desc, pool=pool)


def _apply_change(c, change, r, conv):
    shape = c.data.shape
    if change == 'reassign-data':
        c.data = r.random(shape)
    elif change == 'inplace-overwrite':
        c.data[...] = r.random(shape)
    elif change == 'inplace-edit-region':
        c.data[: shape[0] // 2 + 1, : shape[1] // 2 + 1] *= 0.2
        c.data[-1, -1] += 1.0
    elif change == 'conv-stored-back':
        pix = np.zeros(shape)
        c0, c1 = shape[0] // 2, shape[1] // 2
        pix[max(c0 - 1, 0): c0 + 2, max(c1 - 1, 0): c1 + 1] = 1.0
        c.data = conv(c.data, pix)
    else:
        raise ValueError(change)


def _otf_history(ctx, fns, conv, RichData, r, shape, change, first, second, desc):
    dx = float(r.uniform(0.1, 4))
    p0 = r.random(shape)
    key = f'C15/otf/history/{change}'
    if change == 'array-form-inplace-edit':
        p = p0.copy()
        fns[first](p, dx)
        p[...] = r.random(shape)
        p[0, 0] += 2.0
        cur = p.copy()
        got = np.array(fns[second](p, dx).data)
        fresh = np.array(fns[second](cur.copy(), dx).data)
        ctx.observe('history.otf-container')
        if second == 'ptf':
            m = np.array(fns['mtf'](cur.copy(), dx).data)
            got, fresh = m * np.exp(1j * got), m * np.exp(1j * fresh)
        _law(ctx, 'history.otf-array', got, fresh, key + '/same-array-vs-fresh-copy',
             f'{second}_from_psf(psf, dx) on an array that was edited in place after an earlier {first}_from_psf call '
             'differs from the result for a fresh copy of the same data', desc, RT, 1.0)
        return
    c = RichData(p0.copy(), dx, None)
    fns[first](c)
    if change == 'copy-of-used-container':
        c = c.copy()
        c.data = r.random(shape)
    elif change == 'reassign-other-shape':
        c.data = r.random(shape[::-1] if shape[0] != shape[1] else (shape[0] + 1, shape[1]))
    elif change == 'data-and-dx':
        c.data = r.random(shape)
        c.dx = dx * 1.5
    else:
        _apply_change(c, change, r, conv)
    cur = np.array(c.data)
    got_all = {second: np.array(fns[second](c).data)}
    # the later call is judged: container form == array form of the data it holds now == a fresh container
    arr = np.array(fns[second](cur.copy(), c.dx).data)
    fresh = np.array(fns[second](RichData(cur.copy(), c.dx, None)).data)
    got = got_all[second]
    if second == 'ptf':
        m = np.array(fns['mtf'](cur.copy(), c.dx).data)       # compare phasors weighted by the MTF (phase undefined at nulls)
        if got.shape == m.shape:
            got, arr, fresh = m * np.exp(1j * got), m * np.exp(1j * arr), m * np.exp(1j * fresh)
    _law(ctx, 'history.otf-container', got, arr, key,
         f'{second}_from_psf(container) after a {first}_from_psf call and a change of the container ({change}) differs from '
         f'{second}_from_psf(container.data, container.dx)', desc, RT, 1.0)
    _law(ctx, 'history.otf-container', got, fresh, key,
         f'{second}_from_psf(container) after a {first}_from_psf call and a change of the container ({change}) differs from '
         'the result for a fresh container holding the same data', desc, RT, 1.0)
    # and the full set of the statement's laws through the used container
    m = np.array(fns['mtf'](c).data)
    O = np.array(fns['otf'](c).data)
    ph = np.array(fns['ptf'](c).data)
    _mtf_validity(ctx, m, O, ph, cur.shape, desc, False)
    ma = np.array(fns['mtf'](cur.copy(), c.dx).data)
    _law(ctx, 'otf.abs-vs-mtf', np.abs(O), ma, key,
         '|OTF(container)| != MTF(container.data) after the container changed', desc, RT, 1.0)


def _conv_history(ctx, conv, r, shape, change, desc):
    a = r.standard_normal(shape)
    h = r.random(shape)
    n0, n1 = shape
    scale = float(np.abs(a).sum()) * 2.0
    conv(a, h)
    if change == 'psf-inplace-to-impulse':
        i0, i1 = int(r.integers(n0)), int(r.integers(n1))
        h[...] = 0
        h[i0, i1] = 1.0
        k0, k1 = i0 - n0 // 2, i1 - n1 // 2
        which = 'impulse-identity' if (k0, k1) == (0, 0) else 'impulse-translation'
        _law(ctx, 'history.conv', conv(a, h), np.roll(a, (k0, k1), axis=(0, 1)), f'C15/conv/history/{change}/{which}',
             'conv(a, h) after h was overwritten in place with a unit impulse does not translate a', desc, RT, float(np.abs(a).max()))
        return
    if change == 'psf-inplace-edit':
        h[: n0 // 2 + 1] *= 0.3
        h[-1, -1] += 1
    elif change == 'obj-inplace-edit':
        a[...] = r.standard_normal(shape)
    elif change == 'other-psf-same-shape':
        h = r.random(shape)
    elif change == 'other-shape-between':
        s2 = (n0 + 1, n1) if n0 != n1 + 1 else (n0 + 2, n1)
        conv(r.standard_normal(s2), r.random(s2))
        conv(r.standard_normal(shape[::-1]), r.random(shape[::-1]))
    got = conv(a, h)
    want = conv(a.copy(), h.copy())
    _law(ctx, 'history.conv', got, want, f'C15/conv/history/{change}/vs-fresh-copies',
         'conv(a, h) after an earlier call and a change of the operands differs from conv of fresh copies', desc, RT, scale)
    ic = conv(h, a)
    _law(ctx, 'conv.commutativity', ic, got, 'C15/conv/commutativity', 'conv(a,h) != conv(h,a) (after a history)', desc, RT, scale)


# ------------------------------------------------------------------------------------------- class C: configuration
PREC_SHAPES = [(2, 3), (5, 5), (6, 9), (8, 8), (13, 10), (16, 16), (21, 17)]


def _run_precision(ctx):
    """prysm.conf.config.precision = 32 with float32 and float64 data (float32 tolerances), then the same routines on the
    same grids under precision 64 judged at full tolerance (a cache keyed without the precision would poison them)."""
    from prysm import otf
    from prysm.convolution import apply_transfer_functions as atf, conv
    rng = ctx.rng('c15-precision')
    shapes = list(PREC_SHAPES)
    for _ in range(ctx.pick(2, 260)):
        shapes.append((int(rng.integers(2, ctx.pick(24, 64) + 1)), int(rng.integers(2, ctx.pick(24, 64) + 1))))
    t32 = Tagged(ctx, '/precision=32')
    t64 = Tagged(ctx, '/after-precision-32')
    classes = [c for c in PSF_CLASSES if c != 'rand-signed']
    k = -1
    for shape in shapes:
        k += 1
        if not ctx.mine(k):
            continue
        sub = ctx.subseed(rng)
        dx = 0.37 + 0.01 * (k % 5)            # samplings no other workload uses
        for phase, tctx, dtypes in (('precision=32', t32, ('float32', 'float64')), ('after-precision-32', t64, ('float64',))):
            for dtype in dtypes:
                r = np.random.default_rng(sub)
                desc = {'wl': 'precision', 'phase': phase, 'shape': shape, 'dtype': dtype, 'dx': dx, 'seed': sub,
                        'class': f'{phase}:{dtype}:{shape_class(shape)}'}
                ctx.case(desc, nontrivial=True)
                ctx.observe('precision32.cases' if phase == 'precision=32' else 'precision32-then-64.cases')
                ctxm = precision(32) if phase == 'precision=32' else _null()
                with ctxm, driving(tctx, wl=phase):
                    with tctx.guard(f'C15/conv/{par2(shape)}', desc):
                        for cls in ('rand-nonneg', 'delta-anywhere'):
                            _conv_laws(tctx, conv, r, shape, cls, desc, dtype)
                    for cls in ('arrays-hermitian', 'callables', 'prysm-fts', 'mixed', 'ones-callable', 'linear-phase-callable',
                                'linear-phase-array', 'ones-array'):
                        for shift in (False, True):
                            d2 = dict(desc, tf=cls, shift=shift)
                            with tctx.guard(f'C15/atf/shift={shift}/{cls}', d2):
                                _atf_case(tctx, atf, r, shape, cls, shift, 'dx', dx, d2, dtype=dtype)
                    with tctx.guard(f'C15/otf/{par2(shape)}', desc):
                        for ci, cls in enumerate(classes):
                            _otf_laws(tctx, otf, r, shape, cls, ['array', 'RichData'][ci % 2], dx, desc, dtype)


class _null:
    def __enter__(self):
        return None

    def __exit__(self, *a):
        return False


# ------------------------------------------------------------------------------------------- class D: numeric regimes
def _run_regimes(ctx):
    """Extreme aspect ratios (1xN, Nx1, 2xN, Nx3, ...) for every routine of the property."""
    from prysm import otf
    from prysm.convolution import apply_transfer_functions as atf, conv
    rng = ctx.rng('c15-regimes')
    longs = ctx.pick([31, 64, 127, 256], [31, 64, 127, 256, 511, 1024])
    shorts = [1, 2, 3]
    shapes = []
    for n in longs:
        for m in shorts:
            if n * m <= 4096:
                shapes += [(m, n), (n, m)]
    for _ in range(ctx.pick(0, 260)):
        n, m = int(rng.integers(100, 1100)), int(rng.integers(1, 4))
        shapes.append((m, n) if rng.integers(2) else (n, m))
    classes = [c for c in PSF_CLASSES if c != 'rand-signed']
    k = -1
    with driving(ctx, wl='aspect'):
        for shape in shapes:
            k += 1
            if not ctx.mine(k):
                continue
            sub = ctx.subseed(rng)
            r = np.random.default_rng(sub)
            desc = {'wl': 'aspect', 'shape': shape, 'seed': sub, 'class': f'aspect:{shape_class(shape)}:{min(shape)}xN'}
            ctx.case(desc)
            ctx.observe('regime.aspect')
            with ctx.guard(f'C15/conv/{par2(shape)}', desc):
                for cls in ('rand-nonneg', 'delta-anywhere', 'gauss-offcentre'):
                    _conv_laws(ctx, conv, r, shape, cls, desc)
            for cls in ('arrays-hermitian', 'callables', 'prysm-fts', 'ones-callable', 'linear-phase-callable', 'linear-phase-array'):
                for shift in (False, True):
                    mode = GRID_MODES[int(r.integers(3))]
                    d2 = dict(desc, tf=cls, shift=shift, grid=mode)
                    with ctx.guard(f'C15/atf/shift={shift}/{cls}', d2):
                        _atf_case(ctx, atf, r, shape, cls, shift, mode, [1.0, 0.25, 3.7][int(r.integers(3))], d2)
            with ctx.guard(f'C15/otf/{par2(shape)}', desc):
                for ci, cls in enumerate(classes):
                    _otf_laws(ctx, otf, r, shape, cls, ['array', 'RichData'][ci % 2], 1.3, desc)


# ------------------------------------------------------------------------------------------- class E: argument forms
FORMS_NOTE = ('accepted forms established by running the current tree (/repo @ faa8443) with every candidate form: a form is in '
              'the tables below when the call returns and equals the canonical form; forms the tree rejects (explicit fx, fy as '
              'lists, a 1-element array for dx, list objects for apply_transfer_functions / mtf_from_psf) or silently treats as '
              'something else (generators / iterators for tfs: consumed by the any(callable) scan) are out of domain.  '
              'Callables: positional-or-keyword parameters without defaults named by any ordered subset of fx, fy, fr, ft '
              '(keyword-only parameters, defaults and **kwargs are not demanded)')
GRID_NAMES = ('fx', 'fy', 'fr', 'ft')
CALLABLE_KINDS = ['def', 'lambda', 'partial-keyword', 'partial-positional', 'callable-object', 'bound-method']
DT_ALL = ['bool', 'uint8', 'uint16', 'int16', 'int32', 'int64', 'float32', 'float64']
DX_FORMS = ['python-float', 'python-int', 'numpy-float64', 'numpy-float32', 'numpy-int64', '0d-float64', '0d-float32', '0d-int64']
GRID_FORMS = ['1d', 'row+column', 'meshgrid', 'meshgrid-F-order', 'broadcast-view-readonly', '1d-float32', 'meshgrid-float32',
              '1d-strided-view']
TFS_CONTAINERS = ['list', 'tuple']          # the documented type is 'sequence'; views / generators are not demanded; 3-D stacks: _p3_stack


def cast_full(x, dt):
    """Like cast_img, but integer images span the whole range of their dtype (detector counts near saturation): a routine
    that narrows or truncates an integer operand is only exposed by such values.  int64 stays below 2**40 so that the
    float64 copy used by the oracle is exact."""
    if dt.startswith('float') or dt == 'bool':
        return cast_img(x, dt)
    top = float(np.abs(x).max()) or 1.0
    hi = min(float(np.iinfo(dt).max), 2.0 ** 40)
    if dt.startswith('uint'):
        return np.round(np.abs(x) / top * hi).astype(dt)
    return np.round(x / top * hi).astype(dt)


def signatures():
    """Every ordered non-empty subset of (fx, fy, fr, ft): 4 + 12 + 24 + 24 = 64 parameter lists."""
    import itertools
    out = []
    for k in range(1, 5):
        out += list(itertools.permutations(GRID_NAMES, k))
    return out


def order_class(ps):
    canon = tuple(n for n in GRID_NAMES if n in ps)
    return 'canonical-order' if tuple(ps) == canon else 'permuted-order'


def dkind(dt):
    dt = str(dt)
    return 'bool' if dt == 'bool' else 'uint' if dt.startswith('uint') else 'int' if dt.startswith('int') else dt


def asym_functions(r, dx):
    """One real, even, *different* function per grid name (so that a grid handed to the wrong parameter changes the
    transfer function), times a linear phase in fx and fy (translation by different amounts along the two axes)."""
    a = {n: float(r.uniform(0.8, 1.6)) for n in GRID_NAMES}
    sx, sy = int(r.integers(1, 3)), -int(r.integers(2, 4))
    return {
        'fx': lambda v: np.exp(-(a['fx'] * dx * v) ** 2) * np.exp(-2j * np.pi * dx * sx * v),
        'fy': lambda v: np.exp(-2j * np.pi * dx * sy * v) / (1.0 + (2.5 * a['fy'] * dx * v) ** 2),
        'fr': lambda v: np.exp(-a['fr'] * dx * np.abs(v)),
        'ft': lambda v: 1.0 + 0.4 * np.cos(2 * v) + 0.15 * np.cos(4 * v + 0.0),
    }


def make_callable(kind, ps, G):
    """A transfer function with parameter list `ps` (in that order) of the requested python form, and the constant it
    was curried with.  Built from source so that inspect.signature shows exactly `ps`."""
    args = ', '.join(ps)
    body = ' * '.join(f"G['{p}']({p})" for p in ps)
    ns = {'G': G, 'np': np}
    if kind == 'def':
        exec(f'def tf({args}):\n    return {body}\n', ns)
        return ns['tf'], 1.0
    if kind == 'lambda':
        return eval(f'lambda {args}: {body}', ns), 1.0
    if kind == 'partial-keyword':
        exec(f'def tf({args}, gain):\n    return gain * ({body})\n', ns)
        return functools.partial(ns['tf'], gain=0.5), 0.5
    if kind == 'partial-positional':
        exec(f'def tf(gain, {args}):\n    return gain * ({body})\n', ns)
        return functools.partial(ns['tf'], 0.25), 0.25
    if kind == 'callable-object':
        exec(f'class TF:\n    gain = 2.0\n    def __call__(self, {args}):\n        return self.gain * ({body})\n', ns)
        return ns['TF'](), 2.0
    if kind == 'bound-method':
        exec(f'class TF:\n    gain = 1.5\n    def evaluate(self, {args}):\n        return self.gain * ({body})\n', ns)
        return ns['TF']().evaluate, 1.5
    raise ValueError(kind)


def array_of(ps, G, gain, shape, dx, shift):
    """The array the callable stands for: its factors evaluated *by name* on the documented grid."""
    fx, fy = doc_grids(shape, dx, shift)
    FX, FY = fx.reshape(1, -1), fy.reshape(-1, 1)
    env = {'fx': FX, 'fy': FY, 'fr': np.hypot(FX, FY), 'ft': np.arctan2(FY, FX) + np.zeros(shape)}
    out = np.full(shape, gain, dtype=complex)
    for p in ps:
        out = out * G[p](env[p])
    return out


def grid_form(form, shape, dx, shift):
    fx, fy = doc_grids(shape, dx, shift)
    if form == '1d':
        return fx.copy(), fy.copy()
    if form == 'row+column':
        return fx.reshape(1, -1).copy(), fy.reshape(-1, 1).copy()
    if form == 'meshgrid':
        FX, FY = np.meshgrid(fx, fy)
        return FX, FY
    if form == 'meshgrid-F-order':
        FX, FY = np.meshgrid(fx, fy)
        return np.asfortranarray(FX), np.asfortranarray(FY)
    if form == 'broadcast-view-readonly':
        return np.broadcast_to(fx.reshape(1, -1), shape), np.broadcast_to(fy.reshape(-1, 1), shape)
    if form == '1d-float32':
        return fx.astype(np.float32), fy.astype(np.float32)
    if form == 'meshgrid-float32':
        FX, FY = np.meshgrid(fx.astype(np.float32), fy.astype(np.float32))
        return FX, FY
    if form == '1d-strided-view':
        bx, by = np.zeros(fx.size * 2), np.zeros(fy.size * 3)
        bx[::2], by[1::3] = fx, fy
        return bx[::2], by[1::3]
    raise ValueError(form)


def dx_form(form, dx):
    if form == 'python-float':
        return float(dx)
    if form == 'python-int':
        return int(dx)
    if form == 'numpy-float64':
        return np.float64(dx)
    if form == 'numpy-float32':
        return np.float32(dx)
    if form == 'numpy-int64':
        return np.int64(dx)
    if form == '0d-float64':
        return np.array(float(dx))
    if form == '0d-float32':
        return np.array(dx, dtype=np.float32)
    if form == '0d-int64':
        return np.array(int(dx))
    raise ValueError(form)


FORM_SHAPES = [(5, 8), (8, 5), (7, 7), (6, 6), (4, 9), (9, 4), (1, 6), (6, 1), (12, 12), (11, 16)]


def _run_forms(ctx):
    from prysm import otf
    from prysm._richdata import RichData
    from prysm.convolution import apply_transfer_functions as atf, conv
    rng = ctx.rng('c15-forms')
    shapes = list(FORM_SHAPES)
    for _ in range(ctx.pick(0, 40)):
        shapes.append((int(rng.integers(2, 41)), int(rng.integers(2, 41))))
    sigs = signatures()
    k = -1
    with driving(ctx, wl='forms'):
        # ---- E1: callable forms.  quick: every (signature, kind, shift, grid mode) once, shapes rotating; thorough: x shapes
        reps = ctx.pick(1, len(shapes))
        for rep in range(reps):
            for si, ps in enumerate(sigs):
                bad_def = {}
                for kind in CALLABLE_KINDS:
                    for shift in (False, True):
                        for mi, mode in enumerate(GRID_MODES):
                            k += 1
                            if not ctx.mine(si + rep):       # one signature stays on one shard (the def form is the yardstick)
                                continue
                            shape = shapes[(si + 3 * mi + rep) % len(shapes)] if reps == 1 else shapes[(rep + si) % len(shapes)]
                            sub = ctx.subseed(rng)
                            r = np.random.default_rng(sub)
                            dx = [1.0, 0.25, 3.7][(si + mi) % 3]
                            oc = order_class(ps)
                            desc = {'wl': 'form-callable', 'params': list(ps), 'kind': kind, 'shift': shift, 'grid': mode, 'dx': dx,
                                    'shape': shape, 'seed': sub, 'class': f'form:callable:{kind}:{len(ps)}-params:{oc}:shift={shift}:{mode}'}
                            ctx.case(desc)
                            with ctx.guard(f'C15/atf/form:tf=callable/{oc}/kind={kind}', desc):
                                ok = _form_callable(ctx, atf, r, shape, ps, kind, shift, mode, dx, desc, bad_def)
                                if kind == 'def' and not ok:
                                    bad_def[(shift, mode)] = True
        # ---- E2: dtype kinds of conv operands (all ordered pairs), of atf object x transfer function, of the PSF of mtf/otf/ptf
        pairs = [(a, b) for a in DT_ALL for b in DT_ALL]
        for si, shape in enumerate(shapes[: ctx.pick(3, len(shapes))]):
            for (da, db) in pairs:
                k += 1
                if not ctx.mine(k):
                    continue
                sub = ctx.subseed(rng)
                r = np.random.default_rng(sub)
                desc = {'wl': 'form-conv-dtype', 'shape': shape, 'obj': da, 'psf': db, 'seed': sub,
                        'class': f'form:conv:dtype:{da}+{db}'}
                ctx.case(desc)
                with ctx.guard(f'C15/conv/form:dtype={dkind(da)}+{dkind(db)}', desc):
                    _form_conv_dtype(ctx, conv, r, shape, da, db, desc)
            for da in DT_ALL:
                for tk in ('callable', 'float64', 'complex128', 'float32', 'complex64', 'int64', 'uint8', 'bool'):
                    k += 1
                    if not ctx.mine(k):
                        continue
                    sub = ctx.subseed(rng)
                    r = np.random.default_rng(sub)
                    shift = bool(k % 2)
                    desc = {'wl': 'form-atf-dtype', 'shape': shape, 'obj': da, 'tf': tk, 'shift': shift, 'seed': sub,
                            'class': f'form:atf:dtype:{da}+{tk}:shift={shift}'}
                    ctx.case(desc)
                    with ctx.guard(f'C15/atf/form:dtype={dkind(da)}+tf:{dkind(tk)}', desc):
                        _form_atf_dtype(ctx, atf, r, shape, da, tk, shift, desc)
                for container in ('array', 'RichData'):
                    k += 1
                    if not ctx.mine(k):
                        continue
                    sub = ctx.subseed(rng)
                    r = np.random.default_rng(sub)
                    desc = {'wl': 'form-otf-dtype', 'shape': shape, 'psf': da, 'input': container, 'seed': sub,
                            'class': f'form:otf:dtype:{da}:{container}'}
                    ctx.case(desc)
                    with ctx.guard(f'C15/otf/form:dtype={dkind(da)}/{container}', desc):
                        _form_otf_dtype(ctx, otf, RichData, r, shape, da, container, desc)
        # ---- E3: dx forms, explicit grid forms, call syntax, tfs containers
        for si, shape in enumerate(shapes[: ctx.pick(4, len(shapes))]):
            for shift in (False, True):
                k += 1
                if not ctx.mine(k):
                    continue
                sub = ctx.subseed(rng)
                r = np.random.default_rng(sub)
                desc = {'wl': 'form-args', 'shape': shape, 'shift': shift, 'seed': sub, 'class': f'form:args:shift={shift}'}
                ctx.case(desc)
                _form_args(ctx, atf, conv, otf, RichData, r, shape, shift, desc)


def _form_callable(ctx, atf, r, shape, ps, kind, shift, mode, dx, desc, bad_def, by_kind=True):
    G = asym_functions(r, dx)
    c, gain = make_callable(kind, ps, G)
    o = r.standard_normal(shape)
    gk = _grids_for(mode, shape, dx, shift)
    arr = array_of(ps, G, gain, shape, dx, shift)
    a1 = atf(o, dx, [c], shift=shift, **gk)
    a2 = atf(o, dx, [arr], shift=shift)
    sc = max(float(np.abs(a2).max()), float(np.abs(o).max()) * 1e-3, 1e-300)
    ctx.observe('form.callable-signature')
    ctx.observe('atf.callable-vs-array')
    oc = order_class(ps)
    if np.shape(a1) == shape and close(np.asarray(a1), np.asarray(a2), RT, sc):
        return True
    # one defect, one key: the plain function decides the signature-order key; another python form is keyed by its kind only
    # when the plain function with the same parameter list was right
    if kind == 'def' or not bad_def.get((shift, mode)):
        which = f'params={oc}' if kind == 'def' or not by_kind else f'kind={kind}/params={oc}'
        ctx.violation(f'C15/atf/form:tf=callable/{which}',
                      'a callable transfer function whose parameters are ' + ('not ' if oc != 'canonical-order' else '') +
                      'declared in the order fx, fy, fr, ft gives a different image than the array it evaluates to (by parameter '
                      'name) on the documented grid', desc, got_shape=list(np.shape(a1)),
                      err=float(np.abs(np.asarray(a1) - np.asarray(a2)).max()) if np.shape(a1) == shape else 'shape', scale=sc)
    return False


def _form_conv_dtype(ctx, conv, r, shape, da, db, desc):
    cast = [cast_img, cast_full][int(r.integers(2))]
    desc['range'] = 'small' if cast is cast_img else 'full-range'
    a = cast(r.standard_normal(shape), da)
    cls = ['rand-nonneg', 'delta-anywhere', 'double-delta'][int(r.integers(3))]
    h, info = make_psf(cls, shape, r)
    h = cast(h, db) if 'k' not in info else h.astype(db)
    if not h.any():
        h.flat[0] = 1
    af, hf = a.astype(float), h.astype(float)
    got = conv(a, h)
    canon = conv(af, hf)
    rt = rtol_for(a, h)
    scale = max(float(np.abs(af).sum()) * float(np.abs(hf).max()), 1e-300)
    key = f'C15/conv/form:dtype={dkind(da)}+{dkind(db)}'
    _law(ctx, 'form.conv-dtype', np.asarray(got, dtype=float), canon, key,
         f'conv of a {da} object with a {db} PSF differs from conv of the same values stored as float64', desc, rt, scale)
    ic = conv(h, a)
    _law(ctx, 'conv.commutativity', np.asarray(ic, dtype=float), np.asarray(got, dtype=float), key + '/commutativity',
         'conv(a,h) != conv(h,a) for operands of these dtypes', desc, rt, scale)
    _law(ctx, 'conv.energy', float(np.asarray(got, dtype=float).sum()), float(af.sum() * hf.sum()), key + '/energy',
         'sum(conv(a,h)) != sum(a) sum(h) for operands of these dtypes', desc, rt, max(float(np.abs(af).sum() * np.abs(hf).sum()), 1e-300))
    if 'k' in info:
        k0, k1 = info['k']
        which = 'impulse-identity' if (k0, k1) == (0, 0) else 'impulse-translation'
        _law(ctx, f'conv.{which}', np.asarray(got, dtype=float), np.roll(af, (k0, k1), axis=(0, 1)), key + f'/{which}',
             'conv(a, unit impulse at origin+k) != roll(a, k) for operands of these dtypes', desc, rt, max(float(np.abs(af).max()), 1e-300))


def _form_atf_dtype(ctx, atf, r, shape, da, tk, shift, desc):
    cast = [cast_img, cast_full][int(r.integers(2))]
    desc['range'] = 'small' if cast is cast_img else 'full-range'
    o = cast(r.standard_normal(shape), da)
    of = o.astype(float)
    dx = 0.6
    if tk == 'callable':
        G = asym_functions(r, dx)
        ps = [('fy', 'fx'), ('fx', 'fy'), ('ft', 'fr'), ('fr',)][int(r.integers(4))]
        c, gain = make_callable('def', ps, G)
        tfs, tfc = [c], [c]
    else:
        if tk.startswith('complex'):
            t = herm_random(shape, r, shift).astype(tk)
        elif tk.startswith('float'):
            t = even_real(shape, r, shift).astype(tk)
        elif tk == 'bool':
            t = even_real(shape, r, shift) > 0.5
        else:
            t = np.round(even_real(shape, r, shift) * 5).astype(tk)
        tfs, tfc = [t], [np.array(t, dtype=complex)]
    got = atf(o, dx, tfs, shift=shift)
    canon = atf(of, dx, tfc, shift=shift)
    rt = rtol_for(o, *[t for t in tfs if not callable(t)])
    sc = max(float(np.abs(canon).max()), float(np.abs(of).max()) * 1e-3, 1e-300)
    _law(ctx, 'form.atf-dtype', np.asarray(got, dtype=float), canon, f'C15/atf/form:dtype={dkind(da)}+tf:{dkind(tk)}',
         f'apply_transfer_functions of a {da} object with a {tk} transfer function differs from the same values as float64 / '
         'complex128', desc, rt, sc)
    one = atf(o, dx, [np.ones(shape, dtype=tk if tk != 'callable' else float)], shift=shift)
    _identity_law(ctx, np.asarray(one, dtype=float), of, shift, desc, f'the all-ones transfer function ({tk}) does not return the {da} object', rt)


def _form_otf_dtype(ctx, otf, RichData, r, shape, da, container, desc):
    cls = ['rand-nonneg', 'gauss-offcentre', 'double-delta', 'delta-anywhere'][int(r.integers(4))]
    p, _ = make_psf(cls, shape, r)
    cast = [cast_img, cast_full][int(r.integers(2))]
    desc['range'] = 'small' if cast is cast_img else 'full-range'
    p = cast(p, da) if da != 'float64' else p
    if float(p.astype(float).sum()) == 0.0:
        p.flat[p.size // 2] = 1
    pf = p.astype(float)
    dx = 1.7
    arg = (RichData(p.copy(), dx, None),) if container == 'RichData' else (p.copy(), dx)
    rt = rtol_for(p)
    key = f'C15/otf/form:dtype={dkind(da)}/{container}'
    m = np.asarray(otf.mtf_from_psf(*arg).data)
    O = np.asarray(otf.otf_from_psf(*arg).data)
    ph = np.asarray(otf.ptf_from_psf(*arg).data)
    mc = np.asarray(otf.mtf_from_psf(pf, dx).data)
    Oc = np.asarray(otf.otf_from_psf(pf, dx).data)
    _law(ctx, 'form.otf-dtype', m, mc, key, f'mtf_from_psf of a {da} PSF differs from the MTF of the same values as float64', desc, rt, 1.0)
    _law(ctx, 'form.otf-dtype', O, Oc, key, f'otf_from_psf of a {da} PSF differs from the OTF of the same values as float64', desc, rt, 1.0)
    if ph.shape == Oc.shape:
        _law(ctx, 'form.otf-dtype', np.abs(Oc) * np.exp(1j * ph), Oc, key,
             f'ptf_from_psf of a {da} PSF differs from the phase of the OTF of the same values as float64', desc, max(rt, 1e-9), 1.0)
    else:
        ctx.violation(key + '/shape', 'ptf_from_psf has the wrong shape', desc)
    _mtf_validity(ctx, m, O, ph, shape, desc, rt != RT)


def _form_args(ctx, atf, conv, otf, RichData, r, shape, shift, desc):
    o = r.standard_normal(shape)
    omax = float(np.abs(o).max())
    # ---- dx forms (dx matters only for callables).  Integral dx for the integer forms
    for form in DX_FORMS:
        dxv = 2.0 if 'int' in form else 0.5
        G = asym_functions(r, dxv)
        ps = [('fy', 'fx'), ('fx', 'fy', 'fr', 'ft'), ('ft', 'fr', 'fy')][int(r.integers(3))]
        c, gain = make_callable('def', ps, G)
        d = dict(desc, dx_form=form, params=list(ps))
        with ctx.guard(f'C15/atf/form:dx={form}', d):
            got = atf(o, dx_form(form, dxv), [c], shift=shift)
            canon = atf(o, float(dxv), [c], shift=shift)
            arr = atf(o, None, [array_of(ps, G, gain, shape, dxv, shift)], shift=shift)
            sc = max(float(np.abs(arr).max()), omax * 1e-3, 1e-300)
            rt = 2e-4 if 'float32' in form else RT
            _law(ctx, 'form.dx', got, canon, f'C15/atf/form:dx={form}', f'apply_transfer_functions with dx given as {form} differs '
                 'from dx given as a python float of the same value', d, rt, sc)
            _law(ctx, 'form.dx', canon, arr, f'C15/atf/form:tf=callable/params={order_class(ps)}', 'a callable transfer function '
                 'gives a different image than the array it evaluates to (by parameter name) on the documented grid', d, RT, sc)
        p = r.random(shape) + 0.01
        with ctx.guard(f'C15/otf/form:dx={form}', d):
            for w, f in (('mtf', otf.mtf_from_psf), ('otf', otf.otf_from_psf)):
                got = np.asarray(f(p, dx_form(form, dxv)).data)
                canon = np.asarray(f(p, float(dxv)).data)
                viac = np.asarray(f(RichData(p.copy(), dx_form(form, dxv), None)).data)
                _law(ctx, 'form.dx', got, canon, f'C15/{w}/form:dx={form}', f'{w}_from_psf with dx given as {form} differs from dx given '
                     'as a python float', d, RT, 1.0)
                _law(ctx, 'form.dx', viac, canon, f'C15/{w}/form:dx={form}/container', f'{w}_from_psf(RichData with dx stored as {form}) '
                     'differs from the array form with a python float dx', d, RT, 1.0)
    # ---- explicit grid forms
    dxv = [1.0, 0.25, 3.7][int(r.integers(3))]
    for form in GRID_FORMS:
        G = asym_functions(r, dxv)
        ps = [('fy', 'fx'), ('ft', 'fr'), ('fr', 'fx', 'ft', 'fy'), ('fx', 'fy'), ('fr', 'ft')][int(r.integers(5))]
        c, gain = make_callable(['def', 'callable-object', 'partial-keyword'][int(r.integers(3))], ps, G)
        d = dict(desc, grid_form=form, params=list(ps), dx=dxv)
        with ctx.guard(f'C15/atf/form:fx,fy={form}', d):
            gx, gy = grid_form(form, shape, dxv, shift)
            keep = (np.array(gx), np.array(gy))
            got = atf(o, None, [c], fx=gx, fy=gy, shift=shift)
            pos = atf(o, dxv * 3.0, [c], gx, gy, None, None, shift)          # positional form; dx is documented as ignored here
            canon = atf(o, dxv, [c], shift=shift)
            arr = atf(o, None, [array_of(ps, G, gain, shape, dxv, shift)], shift=shift)
            sc = max(float(np.abs(arr).max()), omax * 1e-3, 1e-300)
            rt = 2e-4 if 'float32' in form else RT
            key = f'C15/atf/form:fx,fy={form}'
            _law(ctx, 'form.grid', got, canon, key, f'apply_transfer_functions with the documented frequency grid passed explicitly '
                 f'({form}) differs from the grid built from dx', d, rt, sc)
            _law(ctx, 'form.grid', canon, arr, f'C15/atf/form:tf=callable/params={order_class(ps)}', 'a callable transfer function '
                 'gives a different image than the array it evaluates to (by parameter name) on the documented grid', d, RT, sc)
            _law(ctx, 'form.call-syntax', pos, got, key + '/positional', 'fx, fy, ft, fr, shift passed positionally give a different '
                 'image than passed by keyword', d, rt, sc)
            ctx.require('form.grid', np.array_equal(keep[0], gx) and np.array_equal(keep[1], gy), key + '/grid-arrays-modified',
                        'apply_transfer_functions modified the caller\'s fx / fy arrays', d)
            again = atf(o, None, [c], fx=gx, fy=gy, shift=shift)
            _law(ctx, 'form.grid', again, canon, key + '/second-use', f'second call with the same explicit grid arrays ({form}) '
                 'differs from the grid built from dx', d, rt, sc)
    # ---- call syntax: keyword vs positional, omitted vs explicit default (also after a call with the other value)
    dxv = 0.8
    G = asym_functions(r, dxv)
    c, gain = make_callable('lambda', ('fy', 'fr', 'fx'), G)
    T = [herm_random(shape, r, shift), even_real(shape, r, shift)]
    d = dict(desc, what='call-syntax')
    with ctx.guard('C15/atf/form:call-syntax', d):
        for tfs, label in (([c], 'callable'), (T, 'arrays'), ([c] + T, 'mixed')):
            ref_ = atf(o, dxv, tfs, shift=shift)
            sc = max(float(np.abs(ref_).max()), omax * 1e-3, 1e-300)
            kw = atf(obj=o, dx=dxv, tfs=tfs, fx=None, fy=None, ft=None, fr=None, shift=shift)
            _law(ctx, 'form.call-syntax', kw, ref_, f'C15/atf/form:call=all-keywords/{label}',
                 'apply_transfer_functions called with every argument by keyword (defaults explicit) differs from the usual call', d, RT, sc)
            ps_ = atf(o, dxv, tfs, None, None, None, None, shift)
            _law(ctx, 'form.call-syntax', ps_, ref_, f'C15/atf/form:call=all-positional/{label}',
                 'apply_transfer_functions called with every argument positionally differs from the usual call', d, RT, sc)
            # omitted shift == shift=False, also right after a shift=True call
            atf(o, dxv, tfs, shift=True)
            om = atf(o, dxv, tfs)
            ex = atf(o, dxv, tfs, shift=False)
            sc2 = max(float(np.abs(ex).max()), omax * 1e-3, 1e-300)
            _law(ctx, 'form.call-syntax', om, ex, f'C15/atf/form:shift=omitted/{label}',
                 'apply_transfer_functions without shift= differs from shift=False (the documented default) after a shift=True call',
                 d, RT, sc2)
            for cont in TFS_CONTAINERS:
                cc = list(tfs) if cont == 'list' else tuple(tfs)
                out = atf(o, dxv, cc, shift=shift)
                _law(ctx, 'form.call-syntax', out, ref_, f'C15/atf/form:tfs={cont}/{label}',
                     f'transfer functions passed as a {cont} give a different image than as a list', d, RT, sc)
    h = r.random(shape)
    with ctx.guard('C15/conv/form:call-syntax', d):
        i1 = conv(o, h)
        sc = max(float(np.abs(o).sum()) * float(h.max()), 1e-300)
        _law(ctx, 'form.call-syntax', conv(obj=o, psf=h), i1, 'C15/conv/form:call=keywords', 'conv(obj=, psf=) != conv(obj, psf)', d, RT, sc)
        _law(ctx, 'form.call-syntax', conv(psf=h, obj=o), i1, 'C15/conv/form:call=keywords', 'conv(psf=, obj=) != conv(obj, psf)', d, RT, sc)
    with ctx.guard('C15/otf/form:call-syntax', d):
        for w, f in (('mtf', otf.mtf_from_psf), ('otf', otf.otf_from_psf)):
            a0 = np.asarray(f(h, 1.3).data)
            _law(ctx, 'form.call-syntax', np.asarray(f(psf=h, dx=1.3).data), a0, f'C15/{w}/form:call=keywords',
                 f'{w}_from_psf(psf=, dx=) != {w}_from_psf(psf, dx)', d, RT, 1.0)
            _law(ctx, 'form.call-syntax', np.asarray(f(RichData(h.copy(), 1.3, None), None).data), a0, f'C15/{w}/form:call=container+dx=None',
                 f'{w}_from_psf(container, None) != {w}_from_psf(container.data, container.dx)', d, RT, 1.0)
            _law(ctx, 'form.call-syntax', np.asarray(f(psf=RichData(h.copy(), 1.3, None)).data), a0, f'C15/{w}/form:call=container-keyword',
                 f'{w}_from_psf(psf=container) != {w}_from_psf(container.data, container.dx)', d, RT, 1.0)


# ------------------------------------------------------------------------------------------- hardening pass 3 (HARDENING3.md)
# G  magnitudes / units: conv is bilinear, apply_transfer_functions is linear in the object and in every transfer function, the
#    OTF / MTF / PTF are homogeneous of degree 0 in the PSF -- for factors 1e-12 ... 1e12; a consistent change of units
#    (dx -> k dx with every callable's parameters rescaled) leaves the image unchanged.
# H  special values: impulses exactly at every corner / edge mid-point / next to the origin of any shape (incl. 1xN), all-ones
#    and all-zero PSFs and transfer functions, translations with exactly one zero component and by exactly +-n/2, +-(n-1), +-n.
# I  structure: transfer functions given as the equivalent (K, M, N) ndarray stack (np.stack / np.array / np.conj of a list:
#    what prysm's own DM.render_backprop passes), K = 1, 2, 3, also where K == M == N; prime / awkward sizes >= 64 with content
#    that wraps around the border.
# Accepted forms established on /repo @ c2c1d7f: `for tf in tfs` iterates a 3-D ndarray along its first axis exactly as it
# iterates a list (any memory order, any dtype); a bare 2-D array is iterated row by row, i.e. means something else: out of domain.
P3_SHAPES = [(1, 7), (6, 1), (2, 2), (3, 3), (2, 3), (4, 4), (5, 5), (5, 8), (8, 5), (7, 7), (12, 9), (16, 16)]
AWKWARD_Q = [(65, 65), (67, 64), (64, 129), (101, 74), (127, 66), (1, 131), (74, 1), (129, 3)]
AWKWARD_T = [(127, 127), (257, 64), (64, 257), (131, 257), (263, 67), (1, 521), (509, 2), (97, 101), (113, 128), (149, 83)]
FACTORS = [(1e-12, 1.0), (1.0, 1e-12), (1e-9, 1e-9), (1e12, 1.0), (1.0, 1e12), (1e9, 1e9), (1e-12, 1e12), (1e12, 1e-9)]
STACK_FORMS = ['np.stack', 'np.array', 'F-order', 'strided-view', 'np.conj']


def _mag(s):
    return 'one' if s == 1.0 else ('tiny' if s < 1 else 'huge')


def _stack_form(form, L):
    """The list L of equal-shape arrays as one (K, M, N) ndarray."""
    if form == 'np.stack':
        return np.stack(L)
    if form == 'np.array':
        return np.array(L)
    if form == 'F-order':
        return np.asfortranarray(np.stack(L))
    if form == 'strided-view':
        big = np.full((2 * len(L) + 1,) + L[0].shape, 7.0, dtype=np.result_type(*L))
        big[1::2] = np.stack(L)
        return big[1::2]
    if form == 'np.conj':       # what DM.render_backprop does with its list
        return np.conj([np.conj(t) for t in L])
    raise ValueError(form)


def _p3_stack(ctx, atf, r, shape, shift, desc, light=False):
    o = r.standard_normal(shape)
    omax = max(float(np.abs(o).max()), 1e-300)
    j = int(r.integers(len(STACK_FORMS)))
    broken = False
    for K in ((1, 2, 3) if not light else (2,)):
        for kind in (('hermitian', 'real', 'generic', 'int') if not light else ('hermitian',)):
            j += 1
            if kind == 'hermitian':
                L = [herm_random(shape, r, shift) for _ in range(K)]
            elif kind == 'real':
                L = [even_real(shape, r, shift) for _ in range(K)]
            elif kind == 'generic':
                L = [r.standard_normal(shape) + 1j * r.standard_normal(shape) for _ in range(K)]
            else:
                L = [np.round(even_real(shape, r, shift) * 4).astype(np.int64) - 1 for _ in range(K)]
            d = dict(desc, K=K, tf_kind=kind)
            key = 'C15/atf/form:tfs=ndarray-stack'
            with ctx.guard(key, d):
                a_list = np.asarray(atf(o, None, L, shift=shift))
                a_prod = np.asarray(atf(o, None, [functools.reduce(lambda x, y: x * y, L)], shift=shift))
                sc = max(float(np.abs(a_prod).max()), omax * 1e-3)
                for form in (STACK_FORMS[j % 5], STACK_FORMS[(j + 2) % 5]):      # every form several times per case, rotating
                    S = _stack_form(form, L)
                    keep = np.array(S)
                    got = atf(o, None, S, shift=shift)
                    d2 = dict(d, stack_form=form)
                    if not _law(ctx, 'form.tfs-stack', got, a_list, key, 'transfer functions given as a (K, M, N) ndarray stack give a '
                                'different image than the same transfer functions given as a list', d2, RT, sc):
                        broken = True
                        break
                    _law(ctx, 'atf.list-vs-product', got, a_prod, f'C15/atf/shift={shift}/list-vs-product/ndarray-stack',
                         'apply_transfer_functions(o, stack of t1..tk) != apply_transfer_functions(o, [t1*..*tk])', d2, RT, sc)
                    got2 = atf(o, 0.7, tfs=S, shift=shift)          # same stack object again, keyword form
                    _law(ctx, 'form.tfs-stack', got2, a_list, key + '/second-use', 'second call with the same ndarray stack differs from '
                         'the list form', d2, RT, sc)
                    ctx.require('form.tfs-stack', np.array_equal(keep, S), key + '/stack-modified',
                                'apply_transfer_functions modified the caller\'s stack of transfer functions', d2)
        if light or broken:      # the container form itself is broken: already reported under its own key
            continue
        d = dict(desc, K=K, tf_kind='ones/zeros')
        with ctx.guard('C15/atf/form:tfs=ndarray-stack', d):
            _identity_law(ctx, atf(o, None, np.ones((K,) + shape), shift=shift), o, shift, d,
                          'a (K, M, N) stack of all-ones transfer functions does not return the object')
            Z = np.ones((K,) + shape)
            Z[K - 1] = 0.0
            for tfs, lab in ((Z, 'ndarray-stack'), ([z for z in Z], 'list')):
                _law(ctx, 'special.atf', atf(o, None, tfs, shift=shift), np.zeros(shape), f'C15/atf/shift={shift}/special:tf=all-zero',
                     'an all-zero transfer function in the sequence does not give the zero image', dict(d, container=lab), RT, omax)


def _p3_scale(ctx, conv, atf, otf, RichData, r, shape, shift, desc):
    a = r.standard_normal(shape)
    h = r.random(shape) + 0.01
    with ctx.guard('C15/conv/scale', desc):
        i0 = np.asarray(conv(a, h), dtype=float)
        sc = float(np.abs(a).sum()) * float(h.max())
        for sa, sh in FACTORS:
            d = dict(desc, factors=[sa, sh])
            _law(ctx, 'scale.conv', conv(sa * a, sh * h), (sa * sh) * i0, f'C15/conv/scale:obj={_mag(sa)},psf={_mag(sh)}',
                 f'conv({sa:g} a, {sh:g} h) != {sa * sh:g} conv(a, h)', d, RT, sa * sh * sc)
    dx = [1.0, 0.25, 3.7][int(r.integers(3))]
    T = [herm_random(shape, r, shift), even_real(shape, r, shift)]
    pool = callable_pool(np.random.default_rng(desc['seed']), dx)
    names = list(pool)
    name = names[int(r.integers(len(names)))]
    c = pool[name]
    for tfs_of, label in ((lambda st: [st * T[0], T[1]], 'arrays'), (lambda st: [times_array(c, st), T[1]], 'callable')):
        d0 = dict(desc, tf=label, callable=name, dx=dx)
        with ctx.guard(f'C15/atf/scale/{label}', d0):
            i0 = np.asarray(atf(a, dx, tfs_of(1.0), shift=shift), dtype=float)
            sc = max(float(np.abs(i0).max()), float(np.abs(a).max()) * 1e-3, 1e-300)
            for sa, st in FACTORS:
                d = dict(d0, factors=[sa, st])
                _law(ctx, 'scale.atf', atf(sa * a, dx, tfs_of(st), shift=shift), (sa * st) * i0,
                     f'C15/atf/scale:obj={_mag(sa)},tf={_mag(st)}/{label}',
                     f'apply_transfer_functions({sa:g} o, [{st:g} t1, t2]) != {sa * st:g} apply_transfer_functions(o, [t1, t2])',
                     d, RT, sa * st * sc)
    # a consistent change of units: dx -> k dx, every callable parameter (a length) -> k times itself
    for k in (1e-6, 1e-3, 1e3, 1e9):
        pk = callable_pool(np.random.default_rng(desc['seed']), k * dx)
        mode = GRID_MODES[int(r.integers(3))]
        d = dict(desc, callable=name, dx=dx, unit_factor=k, grid=mode)
        with ctx.guard('C15/atf/scale:units', d):
            i0 = np.asarray(atf(a, dx, [pool[name]], shift=shift, **_grids_for(mode, shape, dx, shift)), dtype=float)
            if np.shape(i0) != shape:        # known: explicit 2-D grids with polar callables
                continue
            ik = atf(a, k * dx, [pk[name]], shift=shift, **_grids_for(mode, shape, k * dx, shift))
            sc = max(float(np.abs(i0).max()), float(np.abs(a).max()) * 1e-3, 1e-300)
            _law(ctx, 'scale.units', ik, i0, f'C15/atf/scale:units/{mode}', 'the image changes under a consistent change of units '
                 '(dx and every length parameter of the transfer function multiplied by the same factor)', d, 1e-9, sc)
    p = r.random(shape) + 0.01
    with ctx.guard('C15/otf/scale', desc):
        m0 = np.asarray(otf.mtf_from_psf(p, 0.5).data)
        O0 = np.asarray(otf.otf_from_psf(p, 0.5).data)
        for s in (1e-12, 1e-9, 1e9, 1e12):
            d = dict(desc, factor=s)
            arg = (RichData(s * p, 0.5, None),) if s in (1e-9, 1e12) else (s * p, 0.5)
            key = f'C15/otf/scale:psf={_mag(s)}'
            _law(ctx, 'scale.otf', np.asarray(otf.mtf_from_psf(*arg).data), m0, key, 'the MTF changes when the PSF is multiplied by a '
                 'constant', d, RT, 1.0)
            Os = np.asarray(otf.otf_from_psf(*arg).data)
            _law(ctx, 'scale.otf', Os, O0, key, 'the OTF changes when the PSF is multiplied by a constant', d, RT, 1.0)
            ph = np.asarray(otf.ptf_from_psf(*arg).data)
            if ph.shape == O0.shape:
                _law(ctx, 'scale.otf', np.abs(O0) * np.exp(1j * ph), O0, key, 'the PTF changes when the PSF is multiplied by a constant',
                     d, RT, 1.0)
            m_dx = np.asarray(otf.mtf_from_psf(s * p, 0.5 * s).data)
            _law(ctx, 'scale.otf', m_dx, m0, key + '/dx', 'the MTF samples change with the sample spacing of the PSF', d, RT, 1.0)


def _edge_positions(shape):
    n0, n1 = shape
    rows = sorted({0, n0 // 2, n0 - 1, max(n0 // 2 - 1, 0), min(n0 // 2 + 1, n0 - 1)})
    cols = sorted({0, n1 // 2, n1 - 1, max(n1 // 2 - 1, 0), min(n1 // 2 + 1, n1 - 1)})
    return [(i0, i1) for i0 in rows for i1 in cols]


def _special_shifts(shape):
    n0, n1 = shape
    out = []
    for k0 in sorted({1, -1, n0 // 2, -(n0 // 2), n0 - 1, n0, -n0}):
        out.append((k0, 0))
    for k1 in sorted({1, -1, n1 // 2, -(n1 // 2), n1 - 1, n1, -n1}):
        out.append((0, k1))
    out += [(n0 // 2, -(n1 // 2)), (-(n0 - 1), n1 - 1)]
    return out


def _p3_special(ctx, conv, atf, otf, r, shape, shift, desc, full=True):
    n0, n1 = shape
    a = r.standard_normal(shape) + 0.25          # dense: everything that crosses a border wraps into non-zero samples
    amax = float(np.abs(a).max())
    pos = _edge_positions(shape)
    if not full:
        pos = [pos[int(j)] for j in r.permutation(len(pos))[:6]]
    with ctx.guard(f'C15/conv/{par2(shape)}', desc):
        for (i0, i1) in pos:
            dlt = np.zeros(shape)
            dlt[i0, i1] = 1.0
            k0, k1 = i0 - n0 // 2, i1 - n1 // 2
            which = 'impulse-identity' if (k0, k1) == (0, 0) else 'impulse-translation'
            d = dict(desc, at=(i0, i1))
            _law(ctx, f'conv.{which}', conv(a, dlt), np.roll(a, (k0, k1), axis=(0, 1)), f'C15/conv/{which}/{par2(shape)}',
                 'conv(a, delta at origin+k) != roll(a, k) [impulse on an edge / corner / next to the origin]', d, RT, amax)
            ctx.observe('special.conv')
        _law(ctx, 'special.conv', conv(a, np.ones(shape)), np.full(shape, a.sum()), 'C15/conv/special:psf=all-ones',
             'conv(a, all-ones) is not sum(a) everywhere', desc, RT, float(np.abs(a).sum()))
        _law(ctx, 'special.conv', conv(a, np.zeros(shape)), np.zeros(shape), 'C15/conv/special:psf=all-zero',
             'conv(a, all-zero) is not zero', desc, RT, amax)
        _law(ctx, 'special.conv', conv(np.ones(shape), a), np.full(shape, a.sum()), 'C15/conv/special:obj=all-ones',
             'conv(all-ones, h) is not sum(h) everywhere', desc, RT, float(np.abs(a).sum()))
    dx = [1.0, 0.25, 3.7][int(r.integers(3))]
    fxd, fyd = doc_grids(shape, dx, shift)
    ks = _special_shifts(shape)
    if not full:
        ks = [ks[int(j)] for j in r.permutation(len(ks))[:5]]
    with ctx.guard(f'C15/atf/shift={shift}/linear-phase-array', desc):
        base = np.asarray(atf(a, dx, [np.ones(shape)], shift=shift))
        for (k0, k1) in ks:
            lp = linear_phase(k0, k1, dx)
            d = dict(desc, k=(k0, k1), dx=dx)
            want = np.roll(base, (k0, k1), axis=(0, 1))
            t = lp(fxd.reshape(1, -1), fyd.reshape(-1, 1))
            # the sampled phase ramp is Hermitian only for integer k, which these are; at k = +-n/2 (even n) the Nyquist sample is real
            _law(ctx, 'atf.linear-phase', atf(a, dx, [t], shift=shift), want, f'C15/atf/shift={shift}/linear-phase-translation/array',
                 'the transfer function exp(-2 pi i f.k dx) does not translate the image by k samples [k with exactly one zero '
                 'component / k = +-n/2, n-1, +-n]', d, RT, amax)
            _law(ctx, 'atf.linear-phase', atf(a, dx, [lp], shift=shift), want, f'C15/atf/shift={shift}/linear-phase-translation/callable/dx',
                 'the callable transfer function exp(-2 pi i f.k dx) does not translate the image by k samples [special k]', d, RT, amax)
            ctx.observe('special.atf')
    with ctx.guard(f'C15/otf/{par2(shape)}', desc):
        # a single-sample PSF anywhere (corners, edges): |OTF| == 1 everywhere; an all-ones PSF: MTF is 1 at the origin sample, 0 elsewhere
        for (i0, i1) in pos[:4] + pos[-2:]:
            dlt = np.zeros(shape)
            dlt[i0, i1] = 2.5
            m = np.asarray(otf.mtf_from_psf(dlt, dx).data)
            _law(ctx, 'special.otf', m, np.ones(shape), 'C15/mtf/special:psf=single-sample', 'the MTF of a single-sample PSF is not 1 '
                 'everywhere', dict(desc, at=(i0, i1)), RT, 1.0)
            O = np.asarray(otf.otf_from_psf(dlt, dx).data)
            ph = np.asarray(otf.ptf_from_psf(dlt, dx).data)
            _mtf_validity(ctx, m, O, ph, shape, dict(desc, at=(i0, i1)), False)
        want = np.zeros(shape)
        want[n0 // 2, n1 // 2] = 1.0
        m = np.asarray(otf.mtf_from_psf(np.ones(shape), dx).data)
        _law(ctx, 'special.otf', m, want, 'C15/mtf/special:psf=all-ones', 'the MTF of a constant PSF is not the unit sample at zero '
             'frequency', desc, RT, 1.0)


def _run_pass3(ctx):
    from prysm import otf
    from prysm._richdata import RichData
    from prysm.convolution import apply_transfer_functions as atf, conv
    rng = ctx.rng('c15-pass3')
    shapes = list(P3_SHAPES)
    for _ in range(ctx.pick(4, 600)):
        shapes.append((int(rng.integers(1, ctx.pick(20, 48) + 1)), int(rng.integers(1, ctx.pick(20, 48) + 1))))
    k = -1
    for shape in shapes:
        for shift in (False, True):
            for part in ('stack', 'scale', 'special'):
                k += 1
                if not ctx.mine(k):
                    continue
                if shape[0] * shape[1] < 2:
                    continue
                sub = ctx.subseed(rng)
                r = np.random.default_rng(sub)
                desc = {'wl': 'pass3:' + part, 'shape': shape, 'shift': shift, 'seed': sub,
                        'class': f'pass3:{part}:{shape_class(shape)}:shift={shift}'}
                ctx.case(desc)
                with driving(ctx, wl='pass3:' + part):
                    if part == 'stack':
                        _p3_stack(ctx, atf, r, shape, shift, desc)
                    elif part == 'scale':
                        _p3_scale(ctx, conv, atf, otf, RichData, r, shape, shift, desc)
                    else:
                        _p3_special(ctx, conv, atf, otf, r, shape, shift, desc)
        k += 1          # 7 enumeration indices per shape: every (shift, part) combination visits every shard
    # class I: prime / awkward sizes >= 64, dense content that wraps around the border
    big = list(AWKWARD_Q) + (list(AWKWARD_T) if not ctx.quick else [])
    for _ in range(ctx.pick(0, 40)):
        n = int(rng.integers(64, 300))
        m = [int(rng.integers(64, 300)), int(rng.integers(1, 4)), n][int(rng.integers(3))]
        big.append((n, m) if rng.integers(2) else (m, n))
    k = -1
    with driving(ctx, wl='pass3:awkward-size'):
        for shape in big:
            k += 1
            if not ctx.mine(k):
                continue
            sub = ctx.subseed(rng)
            r = np.random.default_rng(sub)
            shift = bool(k % 2)
            desc = {'wl': 'pass3:awkward-size', 'shape': shape, 'shift': shift, 'seed': sub, 'class': f'size:awkward:{shape_class(shape)}'}
            ctx.case(desc)
            ctx.observe('size.awkward')
            with ctx.guard(f'C15/conv/{par2(shape)}', desc):
                for cls in ('rand-nonneg', 'delta-anywhere', 'double-delta', 'gauss-offcentre'):
                    _conv_laws(ctx, conv, r, shape, cls, desc)
            _p3_special(ctx, conv, atf, otf, r, shape, shift, desc, full=False)
            for cls in ('arrays-hermitian', 'callables', 'linear-phase-array', 'linear-phase-callable'):
                d2 = dict(desc, tf=cls)
                with ctx.guard(f'C15/atf/shift={shift}/{cls}', d2):
                    _atf_case(ctx, atf, r, shape, cls, shift, 'dx', [1.0, 0.25, 3.7][int(r.integers(3))], d2)
            if shape[0] * shape[1] <= 20000:
                _p3_stack(ctx, atf, r, shape, shift, desc, light=True)


# ------------------------------------------------------------------------------------------- hardening pass 4: class G again
# total energy (= DC term) of the PSF in absolute units, on both sides of every "natural" absolute threshold of its dtype
# (eps, sqrt(eps), eps**2, 1e-20 / 1e-25 style guards, and the mirror images above 1)
P4_SHAPES = [(1, 9), (6, 1), (2, 2), (3, 3), (4, 5), (7, 7), (8, 8), (12, 9), (17, 20), (32, 32), (65, 64), (1, 131)]
ENERGIES = {'float64': [1e-30, 1e-25, 1e-20, 1e-17, 1e-16, 3e-16, 1e-15, 1e-8, 1e8, 1e15, 1e17, 1e20, 1e25, 1e30],
            'float32': [1e-12, 1e-10, 1e-8, 1e-7, 2e-7, 1e-6, 1e-4, 1e4, 1e6, 1e7, 1e8, 1e10, 1e12]}
P4_FACTORS = {'float64': [(1e-30, 1.0), (1.0, 1e-30), (1e-30, 1e-30), (1e-17, 1e-3), (1e30, 1e30), (1e30, 1e-30), (1.0, 1e30)],
              'float32': [(1e-12, 1.0), (1.0, 1e-12), (1e-12, 1e-12), (1e-8, 1.0), (1.0, 1e-8), (1e12, 1e12), (1e12, 1e-12)]}
P4_CONFIGS = [('float64', False), ('float32', False), ('float32', True)]     # (dtype of the PSF, config.precision = 32 during the calls)


def _energy_class(E, dtype):
    """Class label of an absolute magnitude: below the machine epsilon of its dtype / below one / above one / above 1/eps."""
    if E < float(np.finfo(dtype).eps):
        return 'below-eps'
    if E > 1.0 / float(np.finfo(dtype).eps):
        return 'above-inverse-eps'
    return 'tiny' if E < 1 else 'huge'


def _p4_energy(ctx, conv, atf, otf, RichData, r, shape, dtype, cfg32, desc):
    """MTF / OTF / PTF of one non-negative PSF whose total energy runs over ENERGIES[dtype]: each result satisfies the statement's
    laws (MTF(0) == 1 to round-off, <= 1, symmetric, OTF/MTF/PTF consistent), equals the result for the unit-energy float64 PSF,
    and (contract) the DFT-matrix model.  Then conv / apply_transfer_functions bilinearity at the same magnitudes."""
    n0, n1 = shape
    c0, c1 = n0 // 2, n1 // 2
    cls = ['rand-nonneg', 'gauss-offcentre', 'double-delta'][int(r.integers(3))]
    p, _ = make_psf(cls, shape, r)
    if cls == 'rand-nonneg':
        p = p + 0.01
    p = p / p.sum()
    dx = [0.5, 1.0, 6.5][int(r.integers(3))]
    f32 = dtype == 'float32' or cfg32
    rt = 2e-4 if f32 else RT
    dlabel = dtype + ('/precision=32' if cfg32 else '')
    with ctx.guard('C15/otf/scale:energy', desc):
        m0 = np.asarray(otf.mtf_from_psf(p, dx).data)
        O0 = np.asarray(otf.otf_from_psf(p, dx).data)
    for j, E in enumerate(ENERGIES[dtype]):
        ecls = _energy_class(E, dtype)
        q = (E * p).astype(dtype)
        container = ['array', 'RichData'][(j + int(desc['seed'])) % 2]
        d = dict(desc, psf=cls, energy=E, energy_class=ecls, input=container, dx=dx)
        tctx = Tagged(ctx, f'/scale:energy={ecls}/{dlabel}')
        cm = precision(32) if cfg32 else _null()
        with cm, driving(tctx, wl='pass4:energy'), tctx.guard('C15/otf', d):
            arg = (RichData(q.copy(), dx, None),) if container == 'RichData' else (q.copy(), dx)
            m = np.asarray(otf.mtf_from_psf(*arg).data)
            O = np.asarray(otf.otf_from_psf(*arg).data)
            ph = np.asarray(otf.ptf_from_psf(*arg).data)
            ctx.observe('scale.otf-energy')
            _mtf_validity(tctx, m, O, ph, shape, d, f32)
            if O.shape == shape:
                tctx.require('scale.otf-energy', abs(complex(O[c0, c1]) - 1.0) <= (1e-5 if f32 else 1e-12), 'C15/otf/dc-not-1',
                             'OTF at zero frequency (sample n//2) is not 1+0j', d, got=str(complex(O[c0, c1])))
            _law(tctx, 'scale.otf-energy', m, m0, 'C15/mtf', 'the MTF depends on the total energy (absolute units) of the PSF', d, rt, 1.0)
            _law(tctx, 'scale.otf-energy', O, O0, 'C15/otf', 'the OTF depends on the total energy (absolute units) of the PSF', d, rt, 1.0)
            if ph.shape == O0.shape:
                _law(tctx, 'scale.otf-energy', np.abs(O0) * np.exp(1j * ph), O0, 'C15/ptf',
                     'the PTF depends on the total energy (absolute units) of the PSF', d, rt, 1.0)
    # the image-forming routines at the same magnitudes (they do not normalise: bilinear in object and PSF / transfer function)
    a = r.standard_normal(shape)
    h = p * p.size
    shift = bool(int(desc['seed']) % 2)
    T = herm_random(shape, r, shift)
    cm = precision(32) if cfg32 else _null()
    with cm, driving(ctx, wl='pass4:energy'):
        with ctx.guard('C15/conv/scale', desc):
            i0 = np.asarray(conv(a, h), dtype=float)
            sc = float(np.abs(a).sum()) * float(h.max())
            for sa, sh in P4_FACTORS[dtype]:
                d = dict(desc, factors=[sa, sh])
                _law(ctx, 'scale.conv', conv((sa * a).astype(dtype), (sh * h).astype(dtype)), (sa * sh) * i0,
                     f'C15/conv/scale:obj={_mag(sa)},psf={_mag(sh)}/extreme/{dlabel}', f'conv({sa:g} a, {sh:g} h) != {sa * sh:g} conv(a, h)',
                     d, rt, sa * sh * sc)
        with ctx.guard('C15/atf/scale/arrays', desc):
            i0 = np.asarray(atf(a, dx, [T], shift=shift), dtype=float)
            sc = max(float(np.abs(i0).max()), float(np.abs(a).max()) * 1e-3, 1e-300)
            cdt = 'complex64' if dtype == 'float32' else 'complex128'
            for sa, st in P4_FACTORS[dtype]:
                d = dict(desc, factors=[sa, st], shift=shift)
                _law(ctx, 'scale.atf', atf((sa * a).astype(dtype), dx, [(st * T).astype(cdt)], shift=shift), (sa * st) * i0,
                     f'C15/atf/scale:obj={_mag(sa)},tf={_mag(st)}/arrays/extreme/{dlabel}',
                     f'apply_transfer_functions({sa:g} o, [{st:g} t]) != {sa * st:g} apply_transfer_functions(o, [t])', d, rt, sa * st * sc)


def _run_pass4(ctx):
    from prysm import otf
    from prysm._richdata import RichData
    from prysm.convolution import apply_transfer_functions as atf, conv
    rng = ctx.rng('c15-pass4')
    shapes = list(P4_SHAPES)
    for _ in range(ctx.pick(4, 700)):
        shapes.append((int(rng.integers(1, ctx.pick(24, 64) + 1)), int(rng.integers(2, ctx.pick(24, 64) + 1))))
    k = -1
    for shape in shapes:
        for dtype, cfg32 in P4_CONFIGS:
            k += 1
            if not ctx.mine(k):
                continue
            sub = ctx.subseed(rng)
            r = np.random.default_rng(sub)
            desc = {'wl': 'pass4:energy', 'shape': shape, 'dtype': dtype, 'precision32': cfg32, 'seed': sub,
                    'class': f'pass4:energy:{shape_class(shape)}:{dtype}' + (':precision=32' if cfg32 else '')}
            ctx.case(desc)
            _p4_energy(ctx, conv, atf, otf, RichData, r, shape, dtype, cfg32, desc)


# ------------------------------------------------------------------------------------------- class F: foreign traffic
def _run_foreign(ctx):
    """Other public consumers of the helpers apply_transfer_functions builds its grids with (forward_ft_unit,
    optimize_xy_separable, cart_to_polar; make_xy_grid for the RichData containers) run first with hostile arguments, on
    the same (dx, n); grids they hand back are edited in place (the caller owns what it was handed).  Then the callable
    workload is judged as usual."""
    from prysm import coordinates, fttools, geometry, otf
    from prysm._richdata import RichData
    from prysm.convolution import apply_transfer_functions as atf, conv
    rng = ctx.rng('c15-foreign')
    shapes = [(5, 8), (8, 8), (7, 6), (9, 9), (16, 12)]
    for _ in range(ctx.pick(0, 60)):
        shapes.append((int(rng.integers(2, 33)), int(rng.integers(2, 33))))
    sigs = signatures()
    k = -1
    for shape in shapes:
        for hostile in ('helpers-edited-in-place', 'precision-32-consumers', 'other-consumers'):
            k += 1
            if not ctx.mine(k):
                continue
            sub = ctx.subseed(rng)
            r = np.random.default_rng(sub)
            dx = 0.43 + 0.01 * (k % 7)                 # samplings no other workload uses
            desc = {'wl': 'foreign', 'shape': shape, 'prelude': hostile, 'dx': dx, 'seed': sub, 'class': f'foreign:{hostile}'}
            ctx.case(desc)
            ctx.observe('foreign.cases')
            try:
                _foreign_prelude(hostile, shape, dx, r, coordinates, fttools, geometry, otf, RichData)
            except Exception as e:       # the prelude is not what is judged
                ctx.skip(f'foreign prelude raised {type(e).__name__}')
            tctx = Tagged(ctx, f'/after-foreign:{hostile}')
            with driving(tctx, wl='foreign:' + hostile):
                for shift in (False, True):
                    for j in range(ctx.pick(3, 8)):
                        ps = sigs[int(r.integers(len(sigs)))]
                        kind = CALLABLE_KINDS[int(r.integers(len(CALLABLE_KINDS)))]
                        d2 = dict(desc, shift=shift, params=list(ps), kind=kind)
                        with tctx.guard(f'C15/atf/form:tf=callable/{order_class(ps)}/kind={kind}', d2):
                            _form_callable(tctx, atf, r, shape, ps, kind, shift, 'dx', dx, d2, {}, by_kind=False)
                    for cls in ('prysm-fts', 'linear-phase-callable', 'ones-callable'):
                        d2 = dict(desc, shift=shift, tf=cls)
                        with tctx.guard(f'C15/atf/shift={shift}/{cls}', d2):
                            _atf_case(tctx, atf, r, shape, cls, shift, 'dx', dx, d2)
                with tctx.guard(f'C15/otf/{par2(shape)}', desc):
                    _otf_laws(tctx, otf, r, shape, 'rand-nonneg', 'RichData', dx, desc)
                with tctx.guard(f'C15/conv/{par2(shape)}', desc):
                    _conv_laws(tctx, conv, r, shape, 'delta-anywhere', desc)


def _foreign_prelude(hostile, shape, dx, r, coordinates, fttools, geometry, otf, RichData):
    n0, n1 = shape
    if hostile == 'helpers-edited-in-place':
        for n in (n0, n1):
            for shift in (True, False):
                u = fttools.forward_ft_unit(dx, n, shift=shift)
                u *= 0.0
                u += 7.0
                u = fttools.forward_ft_unit(dx, n, shift)
                u[...] = -1.0
        x, y = coordinates.make_xy_grid(shape, dx=dx)
        x[...] = 5.0
        y[...] = -5.0
        x, y = coordinates.make_xy_grid((n1, n0), dx=dx, grid=False)
        x[...] = 5.0
        y[...] = -5.0
        fy, fx = [fttools.forward_ft_unit(dx, n, shift=False) for n in shape]
        X, Y = coordinates.optimize_xy_separable(fx, fy)
        X[...] = 1.0
        Y[...] = 2.0
        fr, ft = coordinates.cart_to_polar(X, Y, vec_to_grid=False)
        fr[...] = 0.0
        ft[...] = 0.0
    elif hostile == 'precision-32-consumers':
        with precision(32):
            for n in (n0, n1):
                for shift in (True, False):
                    fttools.forward_ft_unit(dx, n, shift=shift)
                    fttools.forward_ft_unit(np.float32(dx), n, shift=shift)
            x, y = coordinates.make_xy_grid(shape, dx=dx)
            rr, tt = coordinates.cart_to_polar(x, y)
            geometry.circle(dx * min(shape) / 3, rr)
            c = RichData(r.random(shape).astype(np.float32), dx, None)
            c.x, c.y, c.r, c.t
            otf.mtf_from_psf(c)
            c.exact_xy(np.array([0.0]), np.array([0.0]))
    else:
        from prysm import fttools as ft_
        a = r.random(shape)
        ft_.pad2d(a, Q=2)
        c = RichData(a.copy(), dx, 0.5)
        c.x, c.y, c.r, c.t
        c.x[...] = 3.0
        c.slices().x
        geometry.rectangle(dx * 2, *coordinates.make_xy_grid(shape, dx=dx))
        x, y = coordinates.make_xy_grid(shape, dx=dx, grid=False)
        geometry.rectangle(dx * 2, x, y, angle=30)
        try:
            from prysm.x.dm import DM
            yy, xx = np.mgrid[:n0, :n0] - n0 // 2
            DM(np.exp(-(xx * xx + yy * yy) / 6.0), Nout=n0, Nact=3, sep=max(n0 // 4, 1)).render(wfe=False)
        except Exception:
            pass
        try:
            from prysm.interferogram import psd
            psd(r.random((n1, n1)), dx)
        except Exception:
            pass


def _run_rejections(ctx):
    from prysm import otf
    if ctx.shard != 0:
        return
    desc = {'wl': 'otf-reject', 'class': 'otf:array-without-dx (documented ValueError)'}
    ctx.case(desc, nontrivial=False)
    with ctx.guard('C15/otf/array-without-dx', desc, allow=(ValueError,)):
        otf.mtf_from_psf(np.ones((3, 3)))
        ctx.violation('C15/otf/array-without-dx/accepted', 'mtf_from_psf(array) without dx did not raise the documented ValueError', desc)


# ------------------------------------------------------------------------------------------- prysm-internal traffic
def _run_internal(ctx):
    """x.dm.DM.render calls apply_transfer_functions(shift=False) internally; the contract sees those calls."""
    if ctx.shard != 0:
        return
    try:
        from prysm.x.dm import DM
    except Exception:       # optional module
        ctx.skip('internal: prysm.x.dm not importable')
        return
    rng = ctx.rng('c15-dm')
    with driving(ctx, wl='dm.render'):
        for n, nact, sep in ((32, 4, 4), (33, 3, 5)):
            desc = {'wl': 'dm.render', 'n': n, 'Nact': nact, 'sep': sep, 'class': f'internal:dm.render:{parity(n)}'}
            ctx.case(desc)
            y, x = np.mgrid[:n, :n] - n // 2
            ifn = np.exp(-(x * x + y * y) / 6.0)
            with ctx.guard('C15/internal/dm.render', desc):
                dm = DM(ifn, Nout=n, Nact=nact, sep=sep)
                dm.actuators[:] = rng.standard_normal(dm.actuators.shape)
                dm.render(wfe=False)
                dm.actuators[:] = rng.standard_normal(dm.actuators.shape)      # same DM object, second render
                out = dm.render(wfe=False)
                # render_backprop passes np.conj(self.tf), a (1, M, N) ndarray stack, to apply_transfer_functions
                dm.render_backprop(rng.standard_normal(np.shape(out)), wfe=False)


def install_monitors(ctx):
    """For vp/pytest_monitors.py: attach the call-level contracts to the repository's own test traffic."""
    global CTX
    CTX = ctx
    WL.clear()
    WL['wl'] = 'pytest'
    install()


def replay(ctx, rec):
    run(ctx)
