"""C16 — sensor model: DN in range; binning and mosaicking conserve signal.

Contracts (attached to the real callables, every call is seen):
  Detector.expose    post: dtype is the documented container, shape is (frames,)+image shape (squeezed for one frame),
                     every DN is in [0, 2^bits-1] — also on the noisy calls.
  bindown / tile     post: output shape; sum mode conserves the total, avg mode conserves the level.
  bayer.*            post: colour planes are the native-site samples of the mosaic (independent index arithmetic) for both
                     layouts; Malvar/deinterlace keep raw samples at their native sites; wb_* scale each colour by one
                     constant (the requested gain, or the requested gains times one common limiter in safe mode).
Law / model monitors driven by the workload:
  noise-free exposure (generator swapped through prysm.mathops' public backend shim, restored in finally) equals
  floor(clip(min(s*t*prnu + dark*dcnu + bias, fwc)/gain, 0, 2^bits-1)); DN is non-decreasing along a sorted ramp that
  crosses full well and the ADC ceiling; block-sum / repeat reference models for bindown / tile; the two adjoint pairs;
  recomposite(decomposite(m)) == m.
"""
import contextlib
import itertools

import numpy as np

from ..contracts import attach, detach_all
from ..core import parity
from ..refmodels import sensor as ref

RULE = ('expose: every bit depth 1..32 x exposure classes (sorted ramp crossing full well / ADC ceiling with fwc above and '
        'below the ADC range, uniform saturated, random image with dark current + dcnu map, prnu flat / 2-D, negative bias, '
        'LUT, integer image, 1xN / Nx1, frames 1..4, noisy exposures at three light levels) with random gain, bias, fwc, '
        'exposure time; binning/tiling: N-D arrays (1..5-D) with per-axis and scalar factors dividing the shape, integer-valued '
        'fill; Bayer: even shapes 2..32 (square and not), both layouts, random positive fill, random gains and saturation '
        'levels; non-trivial = array has >= 2 samples; distinct = distinct descriptor')
ASSUMPTIONS = ['noise-free reference: floor(clip(min(s*t*prnu + dark*t*dcnu*prnu + bias, fwc)/gain, 0, 2^bits-1)); cases with a prnu '
               'map use zero dark current so that it does not matter whether prnu also scales the dark signal',
               'DN within 1e-12 relative of an integer boundary may round either way (x*(1/gain) vs x/gain)',
               'the backend shim swap only replaces random.poisson (returns its mean) and random.normal (returns loc)',
               'aerial images are 2-D and non-negative; dcnu/prnu maps have the image shape (prnu also flat 1-D as the code accepts)',
               'white balance: only "each colour is scaled by one constant, safe mode applies one common limiter" is demanded']
REQUIRED = ['expose.contract', 'expose.noise-free-model', 'expose.monotonic', 'bindown.block-sum', 'bindown.contract',
            'tile.reference', 'tile.contract', 'adjoint.pairs', 'bayer.decomposite', 'bayer.recomposite', 'bayer.composite',
            'bayer.roundtrip', 'bayer.malvar', 'bayer.deinterlace', 'wb.prescale', 'wb.postscale']

CTX = None
ADC_KEY = 'C16/expose/adc-ceiling-2^bits'
ADC_WHAT = 'a pixel at or above ADC full scale reads 2^bits (out of range by one, wrapping to 0 when 2^bits does not fit the container)'


# ------------------------------------------------------------------------------------------ noise-free shim
class _FakeRandom:
    def __init__(self, real):
        self._real = real

    def poisson(self, lam=1.0, size=None):
        lam = np.asarray(lam, dtype=float)
        return np.broadcast_to(lam, size).copy() if size is not None else lam.copy()

    def normal(self, loc=0.0, scale=1.0, size=None):
        return np.zeros(size) + loc

    def __getattr__(self, k):
        return getattr(self._real, k)


class _Proxy:
    def __init__(self, src):
        self.__dict__['_src'] = src
        self.__dict__['random'] = _FakeRandom(src.random)

    def __getattr__(self, k):
        return getattr(self._src, k)


@contextlib.contextmanager
def noise_free():
    from prysm import mathops
    real = mathops.np._srcmodule
    mathops.np._srcmodule = _Proxy(real)
    try:
        yield
    finally:
        mathops.np._srcmodule = real


@contextlib.contextmanager
def seeded_numpy(seed):
    state = np.random.get_state()
    np.random.seed(seed)
    try:
        yield
    finally:
        np.random.set_state(state)


# ------------------------------------------------------------------------------------------ contracts
def _wrapped(bits):
    cbits = 8 if bits <= 8 else 16 if bits <= 16 else 32
    return (2 ** bits) % (2 ** cbits)


def post_expose(token, args, kwargs, result):
    self = args[0]
    img = args[1] if len(args) > 1 else kwargs['aerial_img']
    frames = args[2] if len(args) > 2 else kwargs.get('frames', 1)
    bits = int(self.bits)
    desc = {'fn': 'expose', 'bits': bits, 'frames': frames, 'shape': list(np.shape(img)), 'lut': self.lut is not None}
    CTX.observe('expose.contract')
    want_shape = tuple(np.shape(img)) if frames == 1 else (frames,) + tuple(np.shape(img))
    if tuple(result.shape) != want_shape:
        CTX.violation('C16/expose/shape', f'expose returned shape {result.shape}, documented {want_shape}', desc)
        return
    if self.lut is not None:
        return
    if result.dtype != np.dtype(ref.container(bits)):
        CTX.violation('C16/expose/dtype', f'expose returned dtype {result.dtype} for {bits} bits', desc)
        return
    mx = int(result.max()) if result.size else 0
    mn = int(result.min()) if result.size else 0
    if mx > 2 ** bits - 1 or mn < 0:
        if mx == 2 ** bits and mn >= 0:
            CTX.violation(ADC_KEY, ADC_WHAT, desc, max_dn=mx)
        else:
            CTX.violation('C16/expose/range', f'DN outside [0, 2^bits-1]: min {mn}, max {mx}', desc)


def _factor(array, factor):
    import numbers
    if isinstance(factor, numbers.Number):
        return (int(factor),) * array.ndim
    return tuple(int(f) for f in factor)


def post_bindown(token, args, kwargs, result):
    names = ['array', 'factor', 'mode']
    a = dict(zip(names, args))
    a.update(kwargs)
    arr, mode = a['array'], a.get('mode', 'avg').lower()
    f = _factor(arr, a['factor'])
    if len(f) != arr.ndim or any(s % k for s, k in zip(arr.shape, f)):
        return  # documented: every axis must be an integer multiple of its factor
    desc = {'fn': 'bindown', 'shape': list(arr.shape), 'factor': list(f), 'mode': mode}
    CTX.observe('bindown.contract')
    want = tuple(s // k for s, k in zip(arr.shape, f))
    if tuple(result.shape) != want:
        CTX.violation(f'C16/bindown/{mode_class(mode)}/shape', f'bindown returned shape {result.shape}, expected {want}', desc)
        return
    scale = (float(np.abs(arr).sum()) or 1.0) * _rt(arr)
    if mode == 'sum':
        ok = abs(float(result.sum()) - float(arr.sum())) <= scale
        if not ok:
            CTX.violation('C16/bindown/sum/total-not-conserved', 'sum-mode binning does not conserve the total', desc,
                          got=float(result.sum()), want=float(arr.sum()))
    else:
        ok = abs(float(result.mean()) - float(arr.mean())) <= scale / arr.size
        if not ok:
            CTX.violation('C16/bindown/avg/level-not-conserved', 'avg-mode binning does not conserve the mean level', desc,
                          got=float(result.mean()), want=float(arr.mean()))


def _rt(arr):
    """relative tolerance of a conservation contract: 1e-9 in double, 1e-4 for single-precision data (sums of up to ~1e3
    samples carried in float32; real defects are O(1))"""
    return 1e-4 if getattr(arr, 'dtype', None) in (np.dtype('float32'), np.dtype('float16')) else 1e-9


def mode_class(mode):
    return 'sum' if mode == 'sum' else 'avg'


def post_tile(token, args, kwargs, result):
    names = ['array', 'factor', 'scaling']
    a = dict(zip(names, args))
    a.update(kwargs)
    arr, scaling = a['array'], a.get('scaling', 'sum')
    f = _factor(arr, a['factor'])
    if len(f) != arr.ndim:
        return
    desc = {'fn': 'tile', 'shape': list(arr.shape), 'factor': list(f), 'scaling': scaling}
    CTX.observe('tile.contract')
    want = tuple(s * k for s, k in zip(arr.shape, f))
    if tuple(result.shape) != want:
        CTX.violation(f'C16/tile/{mode_class(scaling)}/shape', f'tile returned shape {result.shape}, expected {want}', desc)
        return
    scale = (float(np.abs(arr).sum()) or 1.0) * _rt(arr)
    if scaling == 'sum':
        if abs(float(result.sum()) - float(arr.sum())) > scale:
            CTX.violation('C16/tile/sum/total-not-conserved', 'sum-scaled tiling does not conserve the total', desc)
    else:
        if abs(float(result.mean()) - float(arr.mean())) > scale / arr.size:
            CTX.violation('C16/tile/avg/level-not-conserved', 'avg-scaled tiling does not conserve the level', desc)


def _even2d(img):
    return getattr(img, 'ndim', 0) == 2 and img.shape[0] % 2 == 0 and img.shape[1] % 2 == 0 and img.size > 0


def _cfa(args, kwargs, pos):
    c = args[pos] if len(args) > pos else kwargs.get('cfa', 'rggb')
    return c if c in ('rggb', 'bggr') else None


def post_decomposite(token, args, kwargs, result):
    img = args[0] if args else kwargs['img']
    cfa = _cfa(args, kwargs, 1)
    if cfa is None or not _even2d(img):
        return
    CTX.observe('bayer.decomposite')
    desc = {'fn': 'decomposite_bayer', 'shape': list(img.shape), 'cfa': cfa}
    for name, plane in zip(('r', 'g1', 'g2', 'b'), result):
        want = ref.site(img, cfa, name)
        if plane.shape != want.shape or not np.array_equal(plane, want, equal_nan=True):
            CTX.violation(f'C16/bayer/decomposite/{cfa}/plane-{name}-not-native-site',
                          f'decomposite_bayer({cfa}) plane {name} is not the mosaic sampled at its native site', desc)
            return


def post_recomposite(token, args, kwargs, result):
    names = ['r', 'g1', 'g2', 'b', 'cfa', 'output']
    a = dict(zip(names, args))
    a.update(kwargs)
    cfa = a.get('cfa', 'rggb')
    if cfa not in ('rggb', 'bggr'):
        return
    r = a['r']
    CTX.observe('bayer.recomposite')
    desc = {'fn': 'recomposite_bayer', 'plane_shape': list(r.shape), 'cfa': cfa}
    if result.shape != (2 * r.shape[0], 2 * r.shape[1]):
        CTX.violation(f'C16/bayer/recomposite/{cfa}/shape', 'recomposite_bayer output is not (2m, 2n)', desc)
        return
    for name in ('r', 'g1', 'g2', 'b'):
        if not np.array_equal(ref.site(result, cfa, name), a[name], equal_nan=True):
            CTX.violation(f'C16/bayer/recomposite/{cfa}/plane-{name}-not-at-native-site',
                          f'recomposite_bayer({cfa}) does not put plane {name} at its native site', desc)
            return


def post_composite(token, args, kwargs, result):
    names = ['r', 'g1', 'g2', 'b', 'cfa', 'output']
    a = dict(zip(names, args))
    a.update(kwargs)
    cfa = a.get('cfa', 'rggb')
    if cfa not in ('rggb', 'bggr') or not _even2d(a['r']):
        return
    CTX.observe('bayer.composite')
    desc = {'fn': 'composite_bayer', 'shape': list(a['r'].shape), 'cfa': cfa}
    for name in ('r', 'g1', 'g2', 'b'):
        if result.shape != a[name].shape or not np.array_equal(ref.site(result, cfa, name), ref.site(a[name], cfa, name), equal_nan=True):
            CTX.violation(f'C16/bayer/composite/{cfa}/plane-{name}-not-at-native-site',
                          f'composite_bayer({cfa}) does not take colour {name} from its dense plane at the native site', desc)
            return


def post_malvar(token, args, kwargs, result):
    img = args[0] if args else kwargs['img']
    cfa = _cfa(args, kwargs, 1)
    if cfa is None or not _even2d(img):
        return
    CTX.observe('bayer.malvar')
    desc = {'fn': 'demosaic_malvar', 'shape': list(img.shape), 'cfa': cfa}
    if result.shape != img.shape + (3,):
        CTX.violation(f'C16/bayer/malvar/{cfa}/shape', f'demosaic_malvar output shape {result.shape} is not (m, n, 3)', desc)
        return
    for name, ch in (('r', 0), ('g1', 1), ('g2', 1), ('b', 2)):
        if not np.array_equal(ref.site(result[..., ch], cfa, name), ref.site(img, cfa, name), equal_nan=True):
            col = 'green' if ch == 1 else name
            CTX.violation(f'C16/bayer/malvar/{cfa}/raw-{col}-changed-at-native-site',
                          f'demosaic_malvar({cfa}) changes the raw {name} samples at their native sites', desc)
            return


def post_deinterlace(token, args, kwargs, result):
    img = args[0] if args else kwargs['img']
    cfa = _cfa(args, kwargs, 1)
    if cfa is None or not _even2d(img):
        return
    CTX.observe('bayer.deinterlace')
    desc = {'fn': 'demosaic_deinterlace', 'shape': list(img.shape), 'cfa': cfa}
    if result.shape != (img.shape[0] // 2, img.shape[1] // 2, 3):
        CTX.violation(f'C16/bayer/deinterlace/{cfa}/shape', 'demosaic_deinterlace output is not (m/2, n/2, 3)', desc)
        return
    g = (ref.site(img, cfa, 'g1') + ref.site(img, cfa, 'g2')) / 2
    ok = (np.array_equal(result[..., 0], ref.site(img, cfa, 'r')) and np.array_equal(result[..., 2], ref.site(img, cfa, 'b'))
          and np.allclose(result[..., 1], g, rtol=1e-14, atol=0))
    if not ok:
        CTX.violation(f'C16/bayer/deinterlace/{cfa}/planes', 'demosaic_deinterlace planes are not (R site, mean of the G sites, B site)', desc)


def _gains_by_site(before, after, cfa, names):
    """per-colour constants k with after[site] == k*before[site]; None when a colour is not scaled by one constant."""
    ks = {}
    for name in names:
        b, a = ref.site(before, cfa, name), ref.site(after, cfa, name)
        nz = b != 0
        if not nz.any():
            return None
        k = float(np.median(a[nz] / b[nz]))
        if not np.allclose(a, k * b, rtol=1e-12, atol=0):
            return False
        ks[name] = k
    return ks


def pre_wb_prescale(args, kwargs):
    m = args[0] if args else kwargs['mosaic']
    return np.array(m, copy=True)


def post_wb_prescale(before, args, kwargs, result):
    names = ['mosaic', 'wr', 'wg1', 'wg2', 'wb', 'cfa', 'safe', 'saturation']
    a = dict(zip(names, args))
    a.update(kwargs)
    cfa = a.get('cfa', 'rggb')
    after = a['mosaic']
    if cfa not in ('rggb', 'bggr') or not _even2d(after):
        return
    safe = bool(a.get('safe', False))
    CTX.observe('wb.prescale')
    desc = {'fn': 'wb_prescale', 'shape': list(after.shape), 'cfa': cfa, 'safe': safe}
    want = {'r': a['wr'], 'g1': a['wg1'], 'g2': a['wg2'], 'b': a['wb']}
    ks = _gains_by_site(before, after, cfa, ('r', 'g1', 'g2', 'b'))
    if ks is None:
        CTX.skip('wb_prescale: a colour plane is all zero')
        return
    if ks is False:
        CTX.violation(f'C16/bayer/wb_prescale/{cfa}/not-one-gain-per-colour', 'wb_prescale does not scale each colour site by one constant', desc)
        return
    ratios = np.array([ks[n] / want[n] for n in ('r', 'g1', 'g2', 'b')])
    if not safe:
        ok = np.allclose(ratios, 1.0, rtol=1e-12, atol=0)
        what = 'wb_prescale does not apply the requested gain to each colour at its native site'
    else:
        ok = np.allclose(ratios, ratios[0], rtol=1e-12, atol=0)
        what = 'safe wb_prescale does not limit the four gains by one common factor'
    if not ok:
        CTX.violation(f'C16/bayer/wb_prescale/{cfa}/{"safe" if safe else "plain"}/gain-at-wrong-site', what, desc, gains_applied=ks, requested=want)


def pre_wb_postscale(args, kwargs):
    m = args[0] if args else kwargs['rgb']
    return np.array(m, copy=True)


def post_wb_postscale(before, args, kwargs, result):
    names = ['rgb', 'wr', 'wg', 'wb', 'safe', 'saturation']
    a = dict(zip(names, args))
    a.update(kwargs)
    after = a['rgb']
    safe = bool(a.get('safe', False))
    CTX.observe('wb.postscale')
    desc = {'fn': 'wb_postscale', 'shape': list(after.shape), 'safe': safe}
    ks = []
    for i in range(3):
        b, c = before[..., i], after[..., i]
        nz = b != 0
        if not nz.any():
            CTX.skip('wb_postscale: a colour plane is all zero')
            return
        k = float(np.median(c[nz] / b[nz]))
        if not np.allclose(c, k * b, rtol=1e-12, atol=0):
            CTX.violation('C16/bayer/wb_postscale/not-one-gain-per-colour', 'wb_postscale does not scale each colour plane by one constant', desc)
            return
        ks.append(k)
    ratios = np.array(ks) / np.array([a['wr'], a['wg'], a['wb']], dtype=float)
    ok = np.allclose(ratios, 1.0 if not safe else ratios[0], rtol=1e-12, atol=0)
    if not ok:
        CTX.violation(f'C16/bayer/wb_postscale/{"safe" if safe else "plain"}/gain-on-wrong-plane',
                      'wb_postscale does not apply the requested gains (times one common limiter in safe mode) to R, G, B', desc,
                      gains_applied=ks)


def install():
    from prysm import detector, bayer
    attach(detector.Detector, 'expose', post=post_expose)
    attach(detector, 'bindown', post=post_bindown)
    attach(detector, 'tile', post=post_tile)
    attach(bayer, 'decomposite_bayer', post=post_decomposite)
    attach(bayer, 'recomposite_bayer', post=post_recomposite)
    attach(bayer, 'composite_bayer', post=post_composite)
    attach(bayer, 'demosaic_malvar', post=post_malvar)
    attach(bayer, 'demosaic_deinterlace', post=post_deinterlace)
    attach(bayer, 'wb_prescale', pre=pre_wb_prescale, post=post_wb_prescale)
    attach(bayer, 'wb_postscale', pre=pre_wb_postscale, post=post_wb_postscale)


# ------------------------------------------------------------------------------------------ expose workload
EXPOSE_CLASSES = ['ramp/fwc-above-adc', 'ramp/fwc-below-adc', 'ramp/frames', 'uniform-saturated', 'random/dark+dcnu', 'random/prnu-flat',
                  'random/prnu-2d', 'negative-bias', 'lut', 'int-image', 'line-1xN', 'line-Nx1', 'noisy/dark', 'noisy/mid', 'noisy/saturating']


def expose_case(ctx, bits, cls, rep):
    from prysm import detector
    rng = np.random.default_rng([ctx.seed, 16, bits, EXPOSE_CLASSES.index(cls), rep])
    cap = 2 ** bits - 1
    gain = float(10 ** rng.uniform(-1, np.log10(50)))
    t = float(10 ** rng.uniform(-2, 1))
    sat_e = cap * gain                                   # electrons at ADC full scale
    bias = float(rng.uniform(0, 0.2) * sat_e) if rng.random() < 0.7 else float(rng.uniform(0, 1e4))
    fwc = sat_e * float(rng.uniform(3, 1000)) + 1e3 + bias
    dark, dcnu, prnu, lut, frames = 0.0, None, None, None, 1
    shape = [(2, 4), (3, 3), (4, 4), (2, 5), (5, 3)][int(rng.integers(5))]
    noisy = cls.startswith('noisy')
    read_noise = 0.0
    if cls == 'ramp/fwc-below-adc':
        fwc = bias + max(sat_e - bias, gain) * float(rng.uniform(0.2, 0.9))
    if cls == 'ramp/frames':
        frames = int(rng.integers(2, 5))
    if cls == 'negative-bias':
        bias = -float(rng.uniform(0.5, 50) * gain)
    if cls == 'line-1xN':
        shape = (1, int(rng.integers(2, 9)))
    if cls == 'line-Nx1':
        shape = (int(rng.integers(2, 9)), 1)
    n = shape[0] * shape[1]
    lim = min(fwc, sat_e)                                 # electrons at which the pixel saturates (one way or the other)
    s_sat = max(lim - bias, gain) / t                     # signal [e-/s] that just saturates
    if cls.startswith('ramp') or cls in ('negative-bias', 'lut', 'line-1xN', 'line-Nx1'):
        # priority order: a short line still crosses the ADC ceiling
        special = [0.5 * s_sat, ((cap + 1) * gain - bias) / t * 1.5, 0.0, 100 * s_sat, (cap * gain - bias) / t,
                   ((cap + 1) * gain - bias) / t, 3 * s_sat, (fwc - bias) / t]
        special = [max(0.0, float(q)) for q in special]
        if n <= len(special):
            vals = np.sort(np.array(special[:n]))
        else:
            vals = np.sort(np.array(special + list(rng.uniform(0, 1.3, n - len(special)) * s_sat)))
        img = vals.reshape(shape)
    elif cls == 'uniform-saturated':
        img = np.full(shape, 100 * s_sat)
    elif cls == 'int-image':
        img = rng.integers(0, max(2, int(2 * s_sat) + 2), shape)
    else:
        img = rng.uniform(0, 2.0, shape) * s_sat
        img.flat[0] = 0.0
    if cls == 'random/dark+dcnu':
        dark = float(rng.uniform(0, 0.3) * s_sat)
        dcnu = rng.uniform(0.5, 1.5, shape)
        frames = int(rng.integers(1, 4))
    if cls == 'random/prnu-flat':
        prnu = rng.uniform(0.8, 1.2, n)
    if cls == 'random/prnu-2d':
        shape = shape if shape[0] > 1 else (2, shape[1])
        prnu = rng.uniform(0.8, 1.2, shape)
        frames = int(rng.integers(1, 3))
    if cls == 'lut':
        lut = (np.arange(2 ** bits, dtype=np.uint32) * 3 + 1)
    if noisy:
        read_noise = float(rng.uniform(0.5, 20) * gain)
        dark = float(rng.uniform(0, 0.05) * s_sat)
        frames = int(rng.integers(1, 5))
        level = {'noisy/dark': 0.0, 'noisy/mid': 0.5, 'noisy/saturating': 20.0}[cls]
        img = rng.uniform(0.5, 1.5, shape) * level * s_sat
        if rng.random() < 0.5:
            dcnu = rng.uniform(0.5, 1.5, shape)
    desc = {'wl': 'expose', 'bits': bits, 'cls': cls, 'rep': rep, 'shape': list(shape), 'frames': frames, 'gain': gain, 'bias': bias,
            'fwc': fwc, 't': t, 'dark': dark, 'class': f'expose:{cls}:bits={bits}'}
    ctx.case(desc, nontrivial=n >= 2)
    det = detector.Detector(dark_current=dark, read_noise=read_noise, bias=bias, fwc=fwc, conversion_gain=gain, bits=bits,
                            exposure_time=t, prnu=prnu, dcnu=dcnu, lut=lut)
    gkey = 'C16/expose/prnu-2d' if cls == 'random/prnu-2d' else 'C16/expose'
    if noisy:
        with seeded_numpy(int(rng.integers(2 ** 31 - 1))), ctx.guard(gkey, desc):
            det.expose(img, frames=frames)                # the contract decides
        return
    lo, hi, v, x = ref.expose_ref(img, t, dark, bias, fwc, gain, bits, prnu=prnu, dcnu=dcnu)
    out = None
    with noise_free(), ctx.guard(gkey, desc):
        out = det.expose(img, frames=frames)
    if out is None:
        # an exception was recorded by the guard; with a LUT the documented table has 2^bits entries, so DN = 2^bits indexes past it
        if lut is not None and (v >= cap + 1).any():
            k = [k for k in list(ctx.violations) if k.startswith(gkey + '/raises:IndexError')]
            for kk in k:
                vio = ctx.violations.pop(kk)
                t_ = ctx.violations.setdefault(ADC_KEY, {'what': ADC_WHAT, 'count': 0, 'witnesses': []})
                t_['count'] += vio['count']
                t_['witnesses'] = (t_['witnesses'] + vio['witnesses'])[:ctx.MAX_WITNESS_PER_KEY]
        return
    o = np.asarray(out)
    o = o.reshape((frames,) + tuple(img.shape)) if o.size == frames * img.size else None
    if o is None:
        return  # the contract reported the shape
    ctx.observe('expose.noise-free-model')
    wrapped = _wrapped(bits)
    if lut is not None:
        good = (o == lut[lo][None]) | (o == lut[hi][None])
    else:
        oi = o.astype(np.int64)
        good = (oi >= lo[None]) & (oi <= hi[None])
    if not good.all():
        bad = ~good
        vb = np.broadcast_to(v[None], o.shape)[bad]
        gb = o[bad].astype(np.int64)
        wrapped_dn = wrapped if lut is None else (int(lut[wrapped]) if wrapped < len(lut) else -1)
        if (vb >= cap + 1 - 1e-9 * (cap + 1)).all() and ((gb == wrapped_dn).all() or (bits == 32 and lut is None)):
            ctx.violation(ADC_KEY, ADC_WHAT, desc, got=gb[:3], want=cap)
        else:
            i = int(np.argmin(vb))
            xb = np.broadcast_to(x[None], o.shape)[bad][i]
            region = 'below-zero' if vb[i] < 0 else 'full-well-saturated' if xb > fwc else 'adc-saturated' if vb[i] >= cap else 'linear'
            ctx.violation(f'C16/expose/noise-free-model/{region}', 'noise-free DN differs from floor(clip(min(s*t+dark+bias, fwc)/gain, 0, 2^bits-1)) '
                          f'for a {region} pixel', desc, got=gb[i], want=[int(np.broadcast_to(lo[None], o.shape)[bad][i]),
                                                                          int(np.broadcast_to(hi[None], o.shape)[bad][i])], real_dn=float(vb[i]))
    if cls.startswith('ramp') or cls in ('line-1xN', 'line-Nx1', 'negative-bias'):
        ctx.observe('expose.monotonic')
        flat = o.reshape(frames, -1).astype(np.int64)
        vv = v.ravel()
        if lut is None and (np.diff(vv) >= 0).all():
            drop = np.diff(flat, axis=1) < 0
            if drop.any():
                f_, i_ = np.nonzero(drop)
                tgt = flat[f_, i_ + 1]
                if (vv[i_ + 1] >= cap + 1 - 1e-9 * (cap + 1)).all() and ((tgt == wrapped).all() or bits == 32):
                    ctx.violation(ADC_KEY, ADC_WHAT, desc, brighter_pixel_reads=int(tgt[0]), darker_pixel_reads=int(flat[f_[0], i_[0]]))
                else:
                    ctx.violation('C16/expose/non-monotonic', 'a brighter pixel reads darker in a noise-free exposure', desc,
                                  signal=[float(img.ravel()[i_[0]]), float(img.ravel()[i_[0] + 1])], dn=[int(flat[f_[0], i_[0]]), int(tgt[0])])


def saturated_real_rng_case(ctx, bits, rep):
    """Real generator (no shim): every pixel is driven so far past full well that the Poisson draw cannot matter, so
    the DN is deterministic: floor(min(fwc/gain, 2^bits-1)).  Exercises the code paths the noise-free shim cannot reach
    (integer Poisson counts, integer-typed bias, read_noise == 0, fractional full-well capacity, gain < 1)."""
    from prysm import detector
    rng = np.random.default_rng([ctx.seed, 1616, bits, rep])
    cap = 2 ** bits - 1
    gain = float([0.125, 0.25, 0.5, 0.3, 1.0, 2.0, 7.3][int(rng.integers(7))])
    sat_e = cap * gain
    variant = ['fwc-below-adc/int-bias', 'fwc-below-adc/float-bias', 'fwc-above-adc/int-bias'][int(rng.integers(3))]
    if variant.startswith('fwc-below-adc'):
        fwc = max(2.0, float(np.floor(rng.uniform(0.2, 0.95) * sat_e))) + float([0.75, 0.5, 0.25, 0.9][int(rng.integers(4))])
        if fwc >= sat_e:
            fwc = max(1.5, sat_e - 0.25)
    else:
        fwc = float(np.floor(sat_e * rng.uniform(2, 50))) + 10.5
    bias = int(rng.integers(0, max(1, int(0.2 * min(fwc, sat_e))) + 1))
    if 'float-bias' in variant:
        bias = float(bias) + 0.0
    shape = [(2, 3), (3, 3), (1, 4), (4, 2)][int(rng.integers(4))]
    t = float([1.0, 0.5, 2.0][int(rng.integers(3))])
    level = 1000.0 * (max(fwc, sat_e) + 10.0) / t
    img = np.full(shape, level)
    if rng.random() < 0.3:
        img = img.astype(np.int64)
    frames = int(rng.integers(1, 3))
    want = int(np.floor(min(min(fwc, 1e300) / gain, cap) * (1 + 0)))
    want = int(np.floor(min(fwc / gain, float(cap))))
    desc = {'wl': 'expose-real-rng', 'bits': bits, 'variant': variant, 'gain': gain, 'bias': bias, 'bias_type': type(bias).__name__,
            'fwc': fwc, 't': t, 'shape': list(shape), 'frames': frames, 'img_dtype': str(img.dtype),
            'class': f'expose:saturated/real-rng/{variant}:bits={bits}'}
    ctx.case(desc)
    det = detector.Detector(dark_current=0, read_noise=0, bias=bias, fwc=fwc, conversion_gain=gain, bits=bits, exposure_time=t)
    out = None
    with seeded_numpy(int(rng.integers(2 ** 31 - 1))), ctx.guard('C16/expose', desc):
        out = det.expose(img, frames=frames)
    if out is None:
        return
    ctx.observe('expose.saturated-real-rng')
    o = np.asarray(out).astype(np.int64)
    # fwc/gain within a float ulp of an integer: accept both neighbours
    q = min(fwc / gain, float(cap))
    ok_vals = {want}
    if abs(q - round(q)) < 1e-9 * max(1.0, q):
        ok_vals |= {int(round(q)), int(round(q)) - 1}
    if not np.isin(o, list(ok_vals)).all():
        region = 'full-well-saturated' if fwc < sat_e else 'adc-saturated'
        ctx.violation(f'C16/expose/noise-free-model/{region}', 'a pixel driven far past saturation (read noise off) does not read '
                      f'floor(min(fwc/gain, 2^bits-1)) for a {region} pixel', desc, got=o.ravel()[:3], want=want)


def expose_workload(ctx):
    reps = ctx.pick(3, 60)
    kk = -1
    for rep in range(ctx.pick(4, 80)):
        for bits in range(1, 33):
            kk += 1
            if ctx.mine(kk):
                saturated_real_rng_case(ctx, bits, rep)
    k = -1
    for rep in range(reps):
        for bits in range(1, 33):
            for cls in EXPOSE_CLASSES:
                if cls == 'lut' and bits > 12:
                    continue
                k += 1
                if not ctx.mine(k):
                    continue
                expose_case(ctx, bits, cls, rep)
    ctx.note('expose', f'all bit depths 1..32 x {len(EXPOSE_CLASSES)} exposure classes x {reps} random parameter draws')


# ------------------------------------------------------------------------------------------ binning workload
def bin_workload(ctx):
    from prysm import detector
    cases = []
    for nd in range(1, 6):
        outs = list(itertools.product(range(1, 3 if nd > 2 else 4), repeat=nd))
        facs = list(itertools.product(range(1, 3 if nd > 3 else 4), repeat=nd))
        for o in outs:
            for f in facs:
                cases.append((o, f))
    rs = np.random.default_rng([ctx.seed, 1616])
    if ctx.quick:
        idx = rs.permutation(len(cases))[:500]
        small = [c for c in cases if len(c[0]) <= 2]
        cases = small + [cases[i] for i in sorted(idx)]
    for _ in range(ctx.pick(100, 3000)):
        nd = int(rs.integers(1, 6))
        cases.append((tuple(int(v) for v in rs.integers(1, 6, nd)), tuple(int(v) for v in rs.integers(1, 6 if nd < 4 else 4, nd))))
    modes = ['sum', 'avg', 'average', 'mean']
    for k, (o, f) in enumerate(cases):
        if not ctx.mine(k):
            continue
        rng = np.random.default_rng([ctx.seed, 161, k])
        shape = tuple(a * b for a, b in zip(o, f))
        scalar = len(set(f)) == 1 and k % 2 == 0
        farg = (f[0] if k % 4 == 0 else np.int64(f[0])) if scalar else (list(f) if k % 3 == 0 else f)
        dt = ['float64', 'int64', 'float32'][k % 3] if k % 5 == 0 else 'float64'
        x = rng.integers(-50, 200, shape).astype(dt)
        if k % 7 == 0 and x.ndim >= 2:
            x = np.ascontiguousarray(np.swapaxes(x, 0, 1)).swapaxes(0, 1)      # non-contiguous view, same shape
        y = rng.integers(-20, 50, o).astype(float)
        fcls = 'scalar' if scalar else 'per-axis'
        desc = {'wl': 'bin', 'out': list(o), 'factor': list(f), 'form': fcls, 'dtype': dt, 'k': k, 'class': f'bin:{len(o)}d:{fcls}'}
        ctx.case(desc, nontrivial=x.size >= 2)
        with ctx.guard('C16/bindown-tile', desc):
            want = ref.bin_sum_ref(x, f)
            nblk = int(np.prod(f))
            bs = detector.bindown(x, farg, 'sum')
            ctx.equal('bindown.block-sum', np.asarray(bs, dtype=float), want, 'C16/bindown/sum/block-sum', 'bindown(sum) is not the sum over each block', desc)
            for m in modes[1:][k % 3:k % 3 + 1]:
                ba = detector.bindown(x, farg, m)
                ctx.close('bindown.block-sum', ba, want / nblk, 'C16/bindown/avg/block-mean', 'bindown(avg) is not the mean over each block', desc,
                          rtol=1e-6 if dt == 'float32' else 1e-12, atol=1e-9)
            ta = detector.tile(y, farg, 'avg' if k % 2 else 'mean')
            ctx.equal('tile.reference', ta, ref.tile_ref(y, f), 'C16/tile/avg/not-repeat', 'tile(avg) is not each sample repeated factor times', desc)
            ts = detector.tile(y, farg, 'sum')
            ctx.close('tile.reference', ts, ref.tile_ref(y, f) / nblk, 'C16/tile/sum/not-repeat-over-count', 'tile(sum) is not repeat/prod(factor)', desc,
                      rtol=1e-12)
            # the two adjoint pairs
            xf = x.astype(float)
            l1, r1 = float((detector.bindown(xf, farg, 'avg') * y).sum()), float((xf * ts).sum())
            l2, r2 = float((detector.bindown(xf, farg, 'sum') * y).sum()), float((xf * ta).sum())
            sc = float(np.abs(xf).sum() * np.abs(y).max()) or 1.0
            ctx.require('adjoint.pairs', abs(l1 - r1) <= 1e-10 * sc, 'C16/adjoint/bindown-avg~tile-sum', '<bindown_avg(x), y> != <x, tile_sum(y)>', desc, lhs=l1, rhs=r1)
            ctx.require('adjoint.pairs', abs(l2 - r2) <= 1e-10 * sc, 'C16/adjoint/bindown-sum~tile-avg', '<bindown_sum(x), y> != <x, tile_avg(y)>', desc, lhs=l2, rhs=r2)
            # tiling then binning returns the array
            ctx.close('tile.roundtrip', detector.bindown(ta, farg, 'avg'), y, 'C16/tile/bindown(tile)!=identity/avg', 'bindown_avg(tile_avg(y)) != y', desc, rtol=1e-12)
            ctx.close('tile.roundtrip', detector.bindown(ts, farg, 'sum'), y, 'C16/tile/bindown(tile)!=identity/sum', 'bindown_sum(tile_sum(y)) != y', desc, rtol=1e-12)


# ------------------------------------------------------------------------------------------ Bayer workload
def bayer_workload(ctx):
    from prysm import bayer
    shapes = [(2, 2), (2, 4), (4, 2), (4, 4), (4, 6), (6, 4), (6, 6), (8, 8), (6, 10), (12, 8), (16, 16), (32, 32), (10, 32)]
    rs = np.random.default_rng([ctx.seed, 16160])
    for _ in range(ctx.pick(60, 700)):
        shapes.append((2 * int(rs.integers(1, 17)), 2 * int(rs.integers(1, 17))))
    k = -1
    for shape in shapes:
        for cfa in ('rggb', 'bggr'):
            k += 1
            if not ctx.mine(k):
                continue
            rng = np.random.default_rng([ctx.seed, 162, k])
            fill = ['uniform', 'int', 'marker'][k % 3]
            if fill == 'uniform':
                m = rng.uniform(1, 1000, shape)
            elif fill == 'int':
                m = rng.integers(1, 4096, shape).astype(float)
            else:
                m = np.arange(1, shape[0] * shape[1] + 1, dtype=float).reshape(shape)
            desc = {'wl': 'bayer', 'shape': list(shape), 'cfa': cfa, 'fill': fill, 'k': k,
                    'class': f'bayer:{cfa}:{"sq" if shape[0] == shape[1] else "nonsq"}'}
            ctx.case(desc)
            with ctx.guard(f'C16/bayer/{cfa}', desc):
                m0 = m.copy()
                planes = bayer.decomposite_bayer(m, cfa)
                back = bayer.recomposite_bayer(*planes, cfa=cfa)
                ctx.equal('bayer.roundtrip', back, m0, f'C16/bayer/roundtrip/{cfa}', 'recomposite_bayer(decomposite_bayer(m)) != m', desc)
                out = np.zeros_like(m)
                bayer.recomposite_bayer(*planes, cfa=cfa, output=out)
                ctx.equal('bayer.roundtrip', out, m0, f'C16/bayer/roundtrip/{cfa}/output-arg', 'recomposite into a given output != m', desc)
                dense = [rng.uniform(1, 9, shape) for _ in range(4)]
                bayer.composite_bayer(*dense, cfa=cfa)
                rgb = bayer.demosaic_malvar(m, cfa)
                flat = bayer.demosaic_malvar(np.full(shape, 7.0), cfa)
                ctx.close('bayer.malvar-flat-field', flat, np.full(shape + (3,), 7.0), f'C16/bayer/malvar/{cfa}/flat-field-not-preserved',
                          'demosaic_malvar of a constant mosaic is not constant (kernels not normalised)', desc, rtol=1e-12)
                bayer.demosaic_deinterlace(m, cfa)
                ctx.require('bayer.input-untouched', np.array_equal(m, m0), f'C16/bayer/{cfa}/input-mutated', 'a Bayer routine modified the mosaic it was given', desc)
                # white balance: plain and safe, scalar and per-channel saturation
                g = [float(v) for v in rng.uniform(0.3, 3.0, 4)]
                mm = m.copy()
                bayer.wb_prescale(mm, *g, cfa=cfa)
                sat = float(rng.uniform(0.2, 1.5) * m.max())
                mm = m.copy()
                bayer.wb_prescale(mm, *g, cfa=cfa, safe=True, saturation=sat if k % 2 else [sat, sat * 0.9, sat * 1.1, sat * 0.7])
                c = rgb.copy()
                bayer.wb_postscale(c, *g[:3])
                c = rgb.copy() + 1000.0
                bayer.wb_postscale(c, *g[:3], safe=True, saturation=sat if k % 2 else [sat, sat * 0.9, sat * 1.1])


def run(ctx):
    global CTX
    CTX = ctx
    from prysm import mathops
    real = mathops.np._srcmodule
    install()
    try:
        expose_workload(ctx)
        bin_workload(ctx)
        bayer_workload(ctx)
    finally:
        mathops.np._srcmodule = real
        detach_all()


def replay(ctx, rec):
    run(ctx)
