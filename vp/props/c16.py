"""C16 — sensor model: DN in range; binning and mosaicking conserve signal.

Contracts (attached to the real callables, every call is seen):
  Detector.expose    post: dtype is the documented container, shape is (frames,)+image shape (squeezed for one frame),
                     every DN is in [0, 2^bits-1] — also on the noisy calls.
  bindown / tile     post: output shape; sum mode conserves the total, avg mode conserves the level.
  bayer.*            post: colour planes are the native-site samples of the mosaic (independent index arithmetic) for both
                     layouts; Malvar/deinterlace keep raw samples at their native sites; wb_* scale each colour by one
                     constant (the requested gain, or the requested gains times one common limiter in safe mode).
Law / model monitors driven by the workload:
  noise-free exposure (generator swapped through prysm.mathops' public backend shim, restored in finally) equals
  floor(clip(min(s*t*prnu + dark*dcnu + bias, fwc)/gain, 0, 2^bits-1)); DN is non-decreasing along a sorted ramp that
  crosses full well and the ADC ceiling; block-sum / repeat reference models for bindown / tile; the two adjoint pairs;
  recomposite(decomposite(m)) == m.
Hardening pass 3 (classes G / H / I):
  expose.scale-law        the same exposure in other units (electron unit x 1e-9 .. 1e9: signal, dark current, bias, full well and gain scale
                          together, down to full wells far below one electron; time unit x 1e-9 .. 1e9) against the model and the unscaled twin
  expose.prnu-wide        photo-response maps with entries 0.01 .. 3 under 4x .. 1000x over-exposure (a dim pixel keeps responding until ITS
                          charge reaches full well)
  expose.special-values   exact coincidences in exact arithmetic (gain / exposure time powers of two, gain exactly 1 first; bias 0 or a multiple
                          of the gain; full well exactly at ADC full scale and one / half an LSB either side; bits 1, 8, 16, 24, 25, 32; pixels
                          exactly at 0, half an LSB, the full well, ADC full scale (+ 1 LSB)): DN == floor(clip(min(x, fwc)/gain, 0, 2^bits-1)) exactly
  expose.frames           every frame count 1 .. 8 (thorough 16) x image shapes whose rows / columns equal the frame count, 1 x N, N x 1
  bin.structural          bindown / tile with the factor on an axis exactly 1, exactly the axis length, a proper divisor (axis lengths 1 .. 64, a few
                          >= 500), data scaled by 2^-40 .. 2^40 (block sums / means / repeats are s x the reference of the unscaled data)
  bayer.scale-law         mosaics scaled by 2^-40 .. 2^40 and 1e-12 .. 1e12, shapes 2 x 2 .. >= 500 per axis: round trip, demosaic linear, flat
                          field preserved, white-balance gains 1e-9 .. 1e9, safe white balance invariant under a common rescaling
"""
import contextlib
import itertools

import numpy as np

from ..contracts import attach, detach_all, quiet
from ..core import parity
from ..refmodels import sensor as ref
from ..util import precision

RULE = ('expose: every bit depth 1..32 x exposure classes (sorted ramp crossing full well / ADC ceiling with fwc above and '
        'below the ADC range, uniform saturated, random image with dark current + dcnu map, prnu flat / 2-D, negative bias, '
        'LUT, integer image in int64 / uint8 / uint16 / int32 / uint32 containers, 1xN / Nx1, frames 1..4, noisy exposures at '
        'three light levels) with random gain, bias, fwc, exposure time, each (bit depth, class) in the four configurations '
        'float64 / float32 image x config.precision 64 / 32 and in C / Fortran / strided memory layouts, every second one '
        'exposed twice with the same objects; attribute-change histories on ONE Detector instance (bits up / down / 1 / 25 / 32, '
        'gain, fwc, bias, exposure time, prnu / dcnu set and cleared, precision 64 -> 32 -> 64); binning/tiling: N-D arrays '
        '(1..5-D) with per-axis and scalar factors dividing the shape, integer-valued fill in float64 / float32 / int8..int64 / '
        'uint8..uint32 / bool containers using the whole container range (block sums leave the container), four memory '
        'layouts; frames returned by expose (8..32-bit, single and stacks) fed to bindown / tile; Bayer: even shapes 2..32 '
        '(thorough ..128, square and not), both layouts, float64 / float32 / uint8 / uint16 / int32 mosaics, four memory layouts, '
        'random gains and saturation levels; ARGUMENT FORMS (class E), one argument at a time off its canonical form: bits as numpy '
        'integer scalars of every width / 0-d array, the six Detector scalars as python int / numpy float64 / float32 / int64 / int32 / '
        'uint16 / 0-d arrays, prnu as flat / nested list / tuple / float32 / Fortran / strided / integer / boolean / scalar, dcnu '
        'likewise where accepted, frames keyword / positional / omitted as python and numpy ints, Detector built positionally / by '
        're-ordered keywords / with the optional maps omitted after a detector that had them, bindown / tile factor as numpy scalars / '
        'tuple / list / ndarray / sequences of numpy ints, mode strings in every accepted spelling and letter case, omitted mode / '
        'scaling after an explicit other value, keyword calls; cfa in any letter case and omitted after the other layout, keyword / '
        'positional Bayer calls, white-balance gains and saturation levels as int / numpy scalars / list / tuple / ndarray; '
        'MAGNITUDES (class G): ramp / dark+dcnu / prnu exposures of bits {1, 8, 10, 12, 16, 24, 25, 32} (thorough 1..32) re-expressed with the '
        'electron unit x {1e-9 .. 1e9} and the time unit x {1e-9 .. 1e9}; prnu maps 0.01 .. 3 with 4x .. 1000x over-exposure; bindown / tile data and '
        'Bayer mosaics x 2^-40 .. 2^40 / 1e-12 .. 1e12, white-balance gains 1e-9 .. 1e9; SPECIAL VALUES (class H): bits {1, 8, 16, 24, 25, 32, ..} x gain '
        '{1, 2, 0.5, 0.25, 4} x full well {ADC full scale, +1 LSB, +-half LSB, above, below} x exact pixel values, exact arithmetic; STRUCTURE '
        '(class I): frames 1..8 (thorough 16) x shapes with rows / cols == frames; bin factors 1 / axis length / divisor for axis lengths 1..64 '
        '(+ 500, 512, 997, 1000), 1-D, all 2-D pairs, sampled 3-D; Bayer shapes 2x2, 2xN, Nx2, >= 500 per axis; '
        'RARELY USED ARGUMENTS (class M): wb_prescale safe true / false / 1 / np.True_ x saturation scalar / per-channel (float, int, numpy '
        'scalar, list, tuple, float64 / float32 / int ndarray; four different levels) x both layouts x limiting overshoot in r / g1 / g2 / b / '
        'none / a plane exactly at its level x gains unit / limiting-plane-unit / general x shapes 2x2 .. 16x10 x four memory layouts, '
        'the same saturation object re-used after a call with the other layout; '
        'non-trivial = array has >= 2 samples; distinct = distinct descriptor')
ASSUMPTIONS = ['noise-free reference: floor(clip(min(s*t*prnu + dark*t*dcnu*prnu + bias, fwc)/gain, 0, 2^bits-1)); cases with a prnu '
               'map use zero dark current so that it does not matter whether prnu also scales the dark signal',
               'DN within 1e-12 relative of an integer boundary may round either way (x*(1/gain) vs x/gain); when the aerial image '
               'is float32 or config.precision is 32 the real-valued DN may be off by 1e-4 relative (measured float32 round-off '
               '1.2e-7) — the range [0, 2^bits-1], dtype, shape and monotonicity are demanded exactly in every configuration',
               'block sums / totals of integer and boolean containers are the mathematical sums (taken in double by the reference), '
               'not sums modulo the container',
               'the backend shim swap only replaces random.poisson (returns its mean) and random.normal (returns loc)',
               'aerial images are 2-D and non-negative; dcnu/prnu maps have the image shape (prnu also flat 1-D as the code accepts)',
               'white balance: each colour is scaled by one constant; safe wb_prescale divides the four gains by ONE limiter = max(1, largest '
               'overshoot max(plane_c) / level_c of a colour plane over its own saturation level; levels in r, g1, g2, b order), as established '
               'on the current tree (the docstring lists neither safe nor saturation); whether the overshoot is taken on the raw or on the '
               'gain-scaled planes is left open: either limiter is accepted (counted as an event when they differ); saturation that is not '
               'one or four positive finite levels, non-positive gains and non-finite samples are excluded and counted; wb_postscale: only '
               '"one constant per plane, one common limiter" is demanded',
               'unit invariance: DN depends only on (signal x time + dark x time + bias) / gain and fwc / gain, so rescaling the electron unit '
               '(signal, dark, bias, fwc, gain together) or the time unit (time up, rates down) must not change it; compared with the unscaled twin only '
               'where the reference says the real-valued DN is not within 1e-9 relative of an integer',
               'exact arithmetic (special values): gain and exposure time powers of two and dyadic pixel values make every product / quotient of the '
               'model exact in binary64, so no boundary allowance applies there; float64 images under precision 64 only',
               'bindown / tile / Bayer demosaicking are linear: scaling the data by a power of two is exact, by a decade to 1e-12 relative',
               'argument forms: the tables in the module (SCALAR_FORMS, BITS_FORMS, FRAME_FORMS, PRNU_FORMS, DCNU_FORMS, FACTOR_FORMS, '
               'BIN_MODES, TILE_SCALINGS, CFA_ANYCASE) list the forms the current tree accepts and treats as the same input; forms for '
               'which it raises (dcnu as a list, float / 0-d factors, upper-case tile scaling, upper-case cfa in decomposite_bayer / '
               'demosaic_deinterlace / safe wb_prescale, float or bool frames) are outside the domain']
REQUIRED = ['expose.contract', 'expose.noise-free-model', 'expose.monotonic', 'bindown.block-sum', 'bindown.contract',
            'tile.reference', 'tile.contract', 'adjoint.pairs', 'bayer.decomposite', 'bayer.recomposite', 'bayer.composite',
            'bayer.roundtrip', 'bayer.malvar', 'bayer.deinterlace', 'wb.prescale', 'wb.postscale',
            'expose.history', 'expose.repeat', 'expose.saturated-real-rng', 'expose->bindown', 'bindown.integer-containers',
            'forms.expose', 'forms.bindown', 'forms.tile', 'forms.bayer',
            'expose.scale-law', 'expose.prnu-wide', 'expose.special-values', 'expose.frames', 'bin.structural', 'bayer.scale-law',
            'wb.prescale-safe-model']

CTX = None
ADC_KEY = 'C16/expose/adc-ceiling-2^bits'
ADC_WHAT = 'a pixel at or above ADC full scale reads 2^bits (out of range by one, wrapping to 0 when 2^bits does not fit the container)'


# ------------------------------------------------------------------------------------------ noise-free shim
class _FakeRandom:
    def __init__(self, real):
        self._real = real

    def poisson(self, lam=1.0, size=None):
        lam = np.asarray(lam, dtype=float)
        return np.broadcast_to(lam, size).copy() if size is not None else lam.copy()

    def normal(self, loc=0.0, scale=1.0, size=None):
        return np.zeros(size) + loc

    def __getattr__(self, k):
        return getattr(self._real, k)


class _Proxy:
    def __init__(self, src):
        self.__dict__['_src'] = src
        self.__dict__['random'] = _FakeRandom(src.random)

    def __getattr__(self, k):
        return getattr(self._src, k)


@contextlib.contextmanager
def noise_free():
    from prysm import mathops
    real = mathops.np._srcmodule
    mathops.np._srcmodule = _Proxy(real)
    try:
        yield
    finally:
        mathops.np._srcmodule = real


@contextlib.contextmanager
def seeded_numpy(seed):
    state = np.random.get_state()
    np.random.seed(seed)
    try:
        yield
    finally:
        np.random.set_state(state)


# ------------------------------------------------------------------------------------------ contracts
def _is32():
    from prysm.conf import config
    return config.precision is np.float32


def cfg_key(base, img=None):
    """`base` when the call is in the default configuration or when `base` was already observed in this process in the
    default configuration (the failure is then not specific to single precision); otherwise `base` + a label of the
    non-default ingredients (config.precision = 32, a float32 aerial image)."""
    parts = []
    if _is32():
        parts.append('precision32')
    if getattr(img, 'dtype', None) == np.dtype('float32'):
        parts.append('float32-image')
    if not parts or base in CTX.violations:
        return base
    return base + '/' + '+'.join(parts)


_DEFER = [False]
_PENDING = []


def resolve(base, img, reproduces_in_default):
    """Key of a failure seen in a non-default configuration: `base` when the same case also fails in the default
    configuration (float64 data, precision 64; `reproduces_in_default()` re-runs it, only ever called on a failure),
    else `base` + the configuration label."""
    k = cfg_key(base, img)
    if k == base:
        return base
    try:
        with quiet():
            if reproduces_in_default():
                return base
    except Exception:  # noqa
        pass
    return k


@contextlib.contextmanager
def deferred(ctx, img, reproduces_in_default):
    """Contract violations raised inside are keyed after the call, once it is known whether they are configuration specific."""
    _DEFER[0] = True
    del _PENDING[:]
    try:
        yield
    finally:
        _DEFER[0] = False
        pend = list(_PENDING)
        del _PENDING[:]
        for base, what, desc, detail in pend:
            ctx.violation(resolve(base, img, reproduces_in_default), what, desc, **detail)


def _emit(base, what, desc, img, **detail):
    if _DEFER[0]:
        _PENDING.append((base, what, desc, detail))
    else:
        CTX.violation(cfg_key(base, img), what, desc, **detail)


def _wrapped(bits):
    cbits = 8 if bits <= 8 else 16 if bits <= 16 else 32
    return (2 ** bits) % (2 ** cbits)


def bits_form(b):
    """'' for a python int; 'numpy-int' for a numpy integer scalar / 0-d array that can hold 2^bits;
    'numpy-int-narrower-than-2^bits' when it cannot (2 ** bits is then evaluated in that type); None for anything else."""
    if isinstance(b, (bool, np.bool_)):
        return None
    if isinstance(b, int):
        return ''
    dt = getattr(b, 'dtype', None)
    if dt is not None and dt.kind in 'iu' and np.ndim(b) == 0:
        return 'numpy-int' if 2 ** int(b) <= int(np.iinfo(dt).max) else 'numpy-int-narrower-than-2^bits'
    return None


def post_expose(token, args, kwargs, result):
    self = args[0]
    img = args[1] if len(args) > 1 else kwargs['aerial_img']
    frames = args[2] if len(args) > 2 else kwargs.get('frames', 1)
    frames = int(frames) if np.ndim(frames) == 0 and not isinstance(frames, (bool, float)) else frames
    bits = int(self.bits)
    desc = {'fn': 'expose', 'bits': bits, 'frames': frames, 'shape': list(np.shape(img)), 'lut': self.lut is not None}
    CTX.observe('expose.contract')
    want_shape = tuple(np.shape(img)) if frames == 1 else (frames,) + tuple(np.shape(img))
    if tuple(result.shape) != want_shape:
        CTX.violation('C16/expose/shape', f'expose returned shape {result.shape}, documented {want_shape}', desc)
        return
    if self.lut is not None:
        return
    if result.dtype != np.dtype(ref.container(bits)):
        CTX.violation('C16/expose/dtype', f'expose returned dtype {result.dtype} for {bits} bits', desc)
        return
    mx = int(result.max()) if result.size else 0
    mn = int(result.min()) if result.size else 0
    desc['precision'] = 32 if _is32() else 64
    desc['img_dtype'] = str(getattr(img, 'dtype', type(img).__name__))
    bf = bits_form(self.bits)
    if (mx > 2 ** bits - 1 or mn < 0) and bf:
        # class E: the bit depth was handed over as a numpy integer; one key per form class
        CTX.violation(f'C16/expose/form:bits={bf}', f'DN outside [0, 2^bits-1] (min {mn}, max {mx}) with bits given as {type(self.bits).__name__}'
                      f'({bits})', desc)
    elif mx > 2 ** bits - 1 or mn < 0:
        if mx == 2 ** bits and mn >= 0:
            _emit(ADC_KEY, ADC_WHAT, desc, img, max_dn=mx)
        else:
            _emit('C16/expose/range', f'DN outside [0, 2^bits-1]: min {mn}, max {mx}', desc, img)


def _factor(array, factor):
    import numbers
    if isinstance(factor, numbers.Number):
        return (int(factor),) * array.ndim
    return tuple(int(f) for f in factor)


def post_bindown(token, args, kwargs, result):
    names = ['array', 'factor', 'mode']
    a = dict(zip(names, args))
    a.update(kwargs)
    arr, mode = a['array'], a.get('mode', 'avg').lower()
    f = _factor(arr, a['factor'])
    if len(f) != arr.ndim or any(s % k for s, k in zip(arr.shape, f)):
        return  # documented: every axis must be an integer multiple of its factor
    desc = {'fn': 'bindown', 'shape': list(arr.shape), 'factor': list(f), 'mode': mode}
    CTX.observe('bindown.contract')
    want = tuple(s // k for s, k in zip(arr.shape, f))
    if tuple(result.shape) != want:
        CTX.violation(f'C16/bindown/{mode_class(mode)}/shape', f'bindown returned shape {result.shape}, expected {want}', desc)
        return
    if arr.size == 0 or arr.dtype.kind not in 'biuf':
        return
    desc['dtype'] = str(arr.dtype)
    af = arr.astype(float) if arr.dtype.kind in 'biu' else arr       # totals of narrow containers are taken in double
    scale = (float(np.abs(af).sum()) or 1.0) * _rt(arr)
    rs = np.asarray(result)
    rf = rs.astype(float) if rs.dtype.kind in 'biu' else rs
    if mode == 'sum':
        ok = abs(float(rf.sum()) - float(af.sum())) <= scale
        if not ok:
            def dbl():
                from prysm import detector
                r2 = detector.bindown(af, a['factor'], 'sum')
                return abs(float(r2.sum()) - float(af.sum())) > scale
            CTX.violation(container_key('C16/bindown/sum/total-not-conserved', arr, dbl), 'sum-mode binning does not conserve the total', desc,
                          got=float(rf.sum()), want=float(af.sum()))
    else:
        ok = abs(float(rf.mean()) - float(af.mean())) <= scale / arr.size
        if not ok:
            def dbl():
                from prysm import detector
                r2 = detector.bindown(af, a['factor'], 'avg')
                return abs(float(r2.mean()) - float(af.mean())) > scale / arr.size
            CTX.violation(container_key('C16/bindown/avg/level-not-conserved', arr, dbl), 'avg-mode binning does not conserve the mean level', desc,
                          got=float(rf.mean()), want=float(af.mean()))


def _rt(arr):
    """relative tolerance of a conservation contract: 1e-9 in double, 1e-3 for single-precision data (sums of blocks of up to
    3^5 samples carried in float32: measured 1.0e-6; real defects are O(1))"""
    return 1e-3 if getattr(arr, 'dtype', None) in (np.dtype('float32'), np.dtype('float16')) else 1e-9


def mode_class(mode):
    return 'sum' if mode == 'sum' else 'avg'


def _container(arr):
    """'' for floating-point data, else a label of the container class (the float workloads decide the plain key)."""
    k = getattr(arr, 'dtype', np.dtype(float)).kind
    return '/boolean-input' if k == 'b' else '/integer-input' if k in 'iu' else ''


def container_key(base, arr, fails_in_double=None):
    """`base` for floating-point data or when the same call on the array cast to double fails too, else base + container label."""
    sfx = _container(arr)
    if not sfx or base in CTX.violations:
        return base
    try:
        if fails_in_double is not None and fails_in_double():
            return base
    except Exception:  # noqa
        pass
    return base + sfx


def post_tile(token, args, kwargs, result):
    names = ['array', 'factor', 'scaling']
    a = dict(zip(names, args))
    a.update(kwargs)
    arr, scaling = a['array'], a.get('scaling', 'sum')
    f = _factor(arr, a['factor'])
    if len(f) != arr.ndim:
        return
    desc = {'fn': 'tile', 'shape': list(arr.shape), 'factor': list(f), 'scaling': scaling}
    CTX.observe('tile.contract')
    want = tuple(s * k for s, k in zip(arr.shape, f))
    if tuple(result.shape) != want:
        CTX.violation(f'C16/tile/{mode_class(scaling)}/shape', f'tile returned shape {result.shape}, expected {want}', desc)
        return
    if arr.size == 0 or arr.dtype.kind not in 'biuf':
        return
    desc['dtype'] = str(arr.dtype)
    af = arr.astype(float) if arr.dtype.kind in 'biu' else arr
    rs = np.asarray(result)
    rf = rs.astype(float) if rs.dtype.kind in 'biu' else rs
    scale = (float(np.abs(af).sum()) or 1.0) * _rt(arr)
    if scaling == 'sum':
        if abs(float(rf.sum()) - float(af.sum())) > scale:
            def dbl():
                from prysm import detector
                return abs(float(detector.tile(af, a['factor'], 'sum').sum()) - float(af.sum())) > scale
            CTX.violation(container_key('C16/tile/sum/total-not-conserved', arr, dbl), 'sum-scaled tiling does not conserve the total', desc)
    else:
        if abs(float(rf.mean()) - float(af.mean())) > scale / arr.size:
            def dbl():
                from prysm import detector
                return abs(float(detector.tile(af, a['factor'], scaling).mean()) - float(af.mean())) > scale / arr.size
            CTX.violation(container_key('C16/tile/avg/level-not-conserved', arr, dbl), 'avg-scaled tiling does not conserve the level', desc)


def _even2d(img):
    return getattr(img, 'ndim', 0) == 2 and img.shape[0] % 2 == 0 and img.shape[1] % 2 == 0 and img.size > 0


def _cfa(args, kwargs, pos):
    c = args[pos] if len(args) > pos else kwargs.get('cfa', 'rggb')
    c = c.lower() if isinstance(c, str) else c          # the routines that get this far accept any letter case today
    return c if c in ('rggb', 'bggr') else None


def post_decomposite(token, args, kwargs, result):
    img = args[0] if args else kwargs['img']
    cfa = _cfa(args, kwargs, 1)
    if cfa is None or not _even2d(img):
        return
    CTX.observe('bayer.decomposite')
    desc = {'fn': 'decomposite_bayer', 'shape': list(img.shape), 'cfa': cfa}
    for name, plane in zip(('r', 'g1', 'g2', 'b'), result):
        want = ref.site(img, cfa, name)
        if plane.shape != want.shape or not np.array_equal(plane, want, equal_nan=True):
            CTX.violation(f'C16/bayer/decomposite/{cfa}/plane-{name}-not-native-site',
                          f'decomposite_bayer({cfa}) plane {name} is not the mosaic sampled at its native site', desc)
            return


def post_recomposite(token, args, kwargs, result):
    names = ['r', 'g1', 'g2', 'b', 'cfa', 'output']
    a = dict(zip(names, args))
    a.update(kwargs)
    cfa = a.get('cfa', 'rggb')
    cfa = cfa.lower() if isinstance(cfa, str) else cfa
    if cfa not in ('rggb', 'bggr'):
        return
    r = a['r']
    CTX.observe('bayer.recomposite')
    desc = {'fn': 'recomposite_bayer', 'plane_shape': list(r.shape), 'cfa': cfa}
    if result.shape != (2 * r.shape[0], 2 * r.shape[1]):
        CTX.violation(f'C16/bayer/recomposite/{cfa}/shape', 'recomposite_bayer output is not (2m, 2n)', desc)
        return
    for name in ('r', 'g1', 'g2', 'b'):
        if not np.array_equal(ref.site(result, cfa, name), a[name], equal_nan=True):
            CTX.violation(f'C16/bayer/recomposite/{cfa}/plane-{name}-not-at-native-site',
                          f'recomposite_bayer({cfa}) does not put plane {name} at its native site', desc)
            return


def post_composite(token, args, kwargs, result):
    names = ['r', 'g1', 'g2', 'b', 'cfa', 'output']
    a = dict(zip(names, args))
    a.update(kwargs)
    cfa = a.get('cfa', 'rggb')
    cfa = cfa.lower() if isinstance(cfa, str) else cfa
    if cfa not in ('rggb', 'bggr') or not _even2d(a['r']):
        return
    CTX.observe('bayer.composite')
    desc = {'fn': 'composite_bayer', 'shape': list(a['r'].shape), 'cfa': cfa}
    for name in ('r', 'g1', 'g2', 'b'):
        if result.shape != a[name].shape or not np.array_equal(ref.site(result, cfa, name), ref.site(a[name], cfa, name), equal_nan=True):
            CTX.violation(f'C16/bayer/composite/{cfa}/plane-{name}-not-at-native-site',
                          f'composite_bayer({cfa}) does not take colour {name} from its dense plane at the native site', desc)
            return


def post_malvar(token, args, kwargs, result):
    img = args[0] if args else kwargs['img']
    cfa = _cfa(args, kwargs, 1)
    if cfa is None or not _even2d(img):
        return
    CTX.observe('bayer.malvar')
    desc = {'fn': 'demosaic_malvar', 'shape': list(img.shape), 'cfa': cfa}
    if result.shape != img.shape + (3,):
        CTX.violation(f'C16/bayer/malvar/{cfa}/shape', f'demosaic_malvar output shape {result.shape} is not (m, n, 3)', desc)
        return
    for name, ch in (('r', 0), ('g1', 1), ('g2', 1), ('b', 2)):
        if not np.array_equal(ref.site(result[..., ch], cfa, name), ref.site(img, cfa, name), equal_nan=True):
            col = 'green' if ch == 1 else name
            CTX.violation(f'C16/bayer/malvar/{cfa}/raw-{col}-changed-at-native-site',
                          f'demosaic_malvar({cfa}) changes the raw {name} samples at their native sites', desc)
            return


def post_deinterlace(token, args, kwargs, result):
    img = args[0] if args else kwargs['img']
    cfa = _cfa(args, kwargs, 1)
    if cfa is None or not _even2d(img):
        return
    CTX.observe('bayer.deinterlace')
    desc = {'fn': 'demosaic_deinterlace', 'shape': list(img.shape), 'cfa': cfa}
    if result.shape != (img.shape[0] // 2, img.shape[1] // 2, 3):
        CTX.violation(f'C16/bayer/deinterlace/{cfa}/shape', 'demosaic_deinterlace output is not (m/2, n/2, 3)', desc)
        return
    g = (ref.site(img, cfa, 'g1') + ref.site(img, cfa, 'g2')) / 2
    ok = (np.array_equal(result[..., 0], ref.site(img, cfa, 'r')) and np.array_equal(result[..., 2], ref.site(img, cfa, 'b'))
          and np.allclose(result[..., 1], g, rtol=1e-14, atol=0))
    if not ok:
        CTX.violation(f'C16/bayer/deinterlace/{cfa}/planes', 'demosaic_deinterlace planes are not (R site, mean of the G sites, B site)', desc)


def _gains_by_site(before, after, cfa, names):
    """per-colour constants k with after[site] == k*before[site]; None when a colour is not scaled by one constant."""
    ks = {}
    for name in names:
        b, a = ref.site(before, cfa, name), ref.site(after, cfa, name)
        nz = b != 0
        if not nz.any():
            return None
        k = float(np.median(a[nz] / b[nz]))
        if not np.allclose(a, k * b, rtol=1e-12, atol=0):
            return False
        ks[name] = k
    return ks


def pre_wb_prescale(args, kwargs):
    m = args[0] if args else kwargs['mosaic']
    return np.array(m, copy=True)


def post_wb_prescale(before, args, kwargs, result):
    names = ['mosaic', 'wr', 'wg1', 'wg2', 'wb', 'cfa', 'safe', 'saturation']
    a = dict(zip(names, args))
    a.update(kwargs)
    cfa = a.get('cfa', 'rggb')
    cfa = cfa.lower() if isinstance(cfa, str) else cfa
    after = a['mosaic']
    if cfa not in ('rggb', 'bggr') or not _even2d(after):
        return
    safe = bool(a.get('safe', False))
    CTX.observe('wb.prescale')
    desc = {'fn': 'wb_prescale', 'shape': list(after.shape), 'cfa': cfa, 'safe': safe}
    want = {'r': a['wr'], 'g1': a['wg1'], 'g2': a['wg2'], 'b': a['wb']}
    ks = _gains_by_site(before, after, cfa, ('r', 'g1', 'g2', 'b'))
    if ks is None:
        CTX.skip('wb_prescale: a colour plane is all zero')
        return
    if ks is False:
        CTX.violation(f'C16/bayer/wb_prescale/{cfa}/not-one-gain-per-colour', 'wb_prescale does not scale each colour site by one constant', desc)
        return
    ratios = np.array([ks[n] / want[n] for n in ('r', 'g1', 'g2', 'b')])
    if not safe:
        ok = np.allclose(ratios, 1.0, rtol=1e-12, atol=0)
        what = 'wb_prescale does not apply the requested gain to each colour at its native site'
    else:
        ok = np.allclose(ratios, ratios[0], rtol=1e-12, atol=0)
        what = 'safe wb_prescale does not limit the four gains by one common factor'
    if not ok:
        CTX.violation(f'C16/bayer/wb_prescale/{cfa}/{"safe" if safe else "plain"}/gain-at-wrong-site', what, desc, gains_applied=ks, requested=want)
        return
    if safe:
        _judge_safe_limiter(before, cfa, want, ks, a.get('saturation'), desc)


def _judge_safe_limiter(before, cfa, want, ks, saturation, desc):
    """Reference model of the safe mode (hardening pass 4, class M): the one common limiter is the largest overshoot of any colour
    plane over ITS OWN saturation level (levels in r, g1, g2, b order like the gains and like decomposite_bayer's planes), and 1
    when no plane overshoots.  The docstring does not say whether the overshoot is measured on the raw planes (what the tree
    does) or on the gain-scaled planes: either reading is accepted; they coincide for unit gains and whenever the limiting
    plane has unit gain and no other plane overshoots more after its gain."""
    names = ('r', 'g1', 'g2', 'b')
    form = 'per-channel' if hasattr(saturation, '__iter__') else 'scalar'
    try:
        sats = [float(v) for v in saturation] if form == 'per-channel' else [float(saturation)] * 4
        gains = [float(want[n]) for n in names]
    except Exception:  # noqa  (a consumed generator, non-numeric levels)
        CTX.skip('safe wb_prescale: saturation levels cannot be read back by the monitor')
        return
    if len(sats) != 4 or not all(np.isfinite(s) and s > 0 for s in sats):
        CTX.skip('safe wb_prescale: saturation is not four positive finite levels (left open by the docstring)')
        return
    if not all(np.isfinite(g) and g > 0 for g in gains) or not np.all(np.isfinite(before)):
        CTX.skip('safe wb_prescale: non-positive / non-finite gains or samples (limiter left open by the docstring)')
        return
    over = [float(ref.site(before, cfa, n).max()) / s for n, s in zip(names, sats)]
    pre = max([1.0] + over)
    post = max([1.0] + [o * g for o, g in zip(over, gains)])
    applied = np.array([want[n] / ks[n] for n in names], dtype=float)
    CTX.observe('wb.prescale-safe-model')
    if abs(pre - post) > 1e-12 * pre:
        CTX.event('safe wb_prescale: overshoot before / after the gains differ (either reading accepted)')
    ok = np.allclose(applied, pre, rtol=1e-12, atol=0) or np.allclose(applied, post, rtol=1e-12, atol=0)
    if not ok:
        CTX.violation(f'C16/bayer/wb_prescale/{cfa}/safe/arg:saturation={form}/limiter-not-largest-own-overshoot',
                      'safe wb_prescale does not divide the gains by the largest overshoot of a colour plane over its own saturation level '
                      '(1 when no plane overshoots)', desc, limiter_applied=float(np.median(applied)), limiter_raw_planes=pre,
                      limiter_scaled_planes=post, overshoot_by_plane=dict(zip(names, over)))


def pre_wb_postscale(args, kwargs):
    m = args[0] if args else kwargs['rgb']
    return np.array(m, copy=True)


def post_wb_postscale(before, args, kwargs, result):
    names = ['rgb', 'wr', 'wg', 'wb', 'safe', 'saturation']
    a = dict(zip(names, args))
    a.update(kwargs)
    after = a['rgb']
    safe = bool(a.get('safe', False))
    CTX.observe('wb.postscale')
    desc = {'fn': 'wb_postscale', 'shape': list(after.shape), 'safe': safe}
    ks = []
    for i in range(3):
        b, c = before[..., i], after[..., i]
        nz = b != 0
        if not nz.any():
            CTX.skip('wb_postscale: a colour plane is all zero')
            return
        k = float(np.median(c[nz] / b[nz]))
        if not np.allclose(c, k * b, rtol=1e-12, atol=0):
            CTX.violation('C16/bayer/wb_postscale/not-one-gain-per-colour', 'wb_postscale does not scale each colour plane by one constant', desc)
            return
        ks.append(k)
    ratios = np.array(ks) / np.array([a['wr'], a['wg'], a['wb']], dtype=float)
    ok = np.allclose(ratios, 1.0 if not safe else ratios[0], rtol=1e-12, atol=0)
    if not ok:
        CTX.violation(f'C16/bayer/wb_postscale/{"safe" if safe else "plain"}/gain-on-wrong-plane',
                      'wb_postscale does not apply the requested gains (times one common limiter in safe mode) to R, G, B', desc,
                      gains_applied=ks)


def install_monitors(ctx):
    global CTX
    CTX = ctx
    install()


def install():
    from prysm import detector, bayer
    attach(detector.Detector, 'expose', post=post_expose)
    attach(detector, 'bindown', post=post_bindown)
    attach(detector, 'tile', post=post_tile)
    attach(bayer, 'decomposite_bayer', post=post_decomposite)
    attach(bayer, 'recomposite_bayer', post=post_recomposite)
    attach(bayer, 'composite_bayer', post=post_composite)
    attach(bayer, 'demosaic_malvar', post=post_malvar)
    attach(bayer, 'demosaic_deinterlace', post=post_deinterlace)
    attach(bayer, 'wb_prescale', pre=pre_wb_prescale, post=post_wb_prescale)
    attach(bayer, 'wb_postscale', pre=pre_wb_postscale, post=post_wb_postscale)


# ------------------------------------------------------------------------------------------ expose workload
EXPOSE_CLASSES = ['ramp/fwc-above-adc', 'ramp/fwc-below-adc', 'ramp/frames', 'uniform-saturated', 'random/dark+dcnu', 'random/prnu-flat',
                  'random/prnu-2d', 'negative-bias', 'lut', 'int-image', 'line-1xN', 'line-Nx1', 'noisy/dark', 'noisy/mid', 'noisy/saturating']
# (dtype of the aerial image and of the non-uniformity maps, config.precision); index 0 is the default configuration
EXPOSE_CFGS = [('float64', 64), ('float64', 32), ('float32', 32), ('float32', 64)]
INT_IMG_DTYPES = ['int64', 'uint8', 'uint16', 'int32', 'uint32']
LAYOUTS = ['C', 'F', 'S', 'T']
LOW_DELTA = 1e-4       # single-precision allowance on the real-valued DN (measured round-off of img*t + dark in float32: 1.2e-7)


def as_layout(a, layout):
    """The same N-D array in another memory layout: Fortran order, a strided slice of a larger block, a transposed view."""
    if a.ndim < 2 or layout == 'C':
        if layout == 'S' and a.ndim == 1 and a.size:
            big = np.zeros(2 * a.size + 1, dtype=a.dtype)
            v = big[1::2]
            v[...] = a
            return v
        return a
    if layout == 'F':
        return np.asfortranarray(a)
    if layout == 'T':
        return np.ascontiguousarray(a.T).T
    big = np.zeros(tuple(2 * n + 1 for n in a.shape), dtype=a.dtype)
    v = big[tuple(slice(1, None, 2) for _ in a.shape)]
    v[...] = a
    return v


def judge_model(ctx, desc, out, img, frames, lo, hi, v, x, bits, fwc, lut, keyf, monotonic):
    """Noise-free exposure against the reference bounds lo <= DN <= hi, and monotonicity along a sorted ramp."""
    cap = 2 ** bits - 1
    o = np.asarray(out)
    o = o.reshape((frames,) + tuple(img.shape)) if o.size == frames * img.size else None
    if o is None:
        return  # the contract reported the shape
    ctx.observe('expose.noise-free-model')
    wrapped = _wrapped(bits)
    if lut is not None:
        good = (o == lut[lo][None]) | (o == lut[hi][None])
    else:
        oi = o.astype(np.int64)
        good = (oi >= lo[None]) & (oi <= hi[None])
    if not good.all():
        bad = ~good
        vb = np.broadcast_to(v[None], o.shape)[bad]
        gb = o[bad].astype(np.int64)
        wrapped_dn = wrapped if lut is None else (int(lut[wrapped]) if wrapped < len(lut) else -1)
        if (vb >= cap + 1 - 1e-9 * (cap + 1)).all() and ((gb == wrapped_dn).all() or (bits == 32 and lut is None)):
            ctx.violation(keyf(ADC_KEY), ADC_WHAT, desc, got=gb[:3], want=cap)
        else:
            i = int(np.argmin(vb))
            xb = np.broadcast_to(x[None], o.shape)[bad][i]
            region = 'below-zero' if vb[i] < 0 else 'full-well-saturated' if xb > fwc else 'adc-saturated' if vb[i] >= cap else 'linear'
            ctx.violation(keyf(f'C16/expose/noise-free-model/{region}'), 'noise-free DN differs from floor(clip(min(s*t+dark+bias, fwc)/gain, 0, 2^bits-1)) '
                          f'for a {region} pixel', desc, got=gb[i], want=[int(np.broadcast_to(lo[None], o.shape)[bad][i]),
                                                                          int(np.broadcast_to(hi[None], o.shape)[bad][i])], real_dn=float(vb[i]))
    if monotonic:
        ctx.observe('expose.monotonic')
        flat = o.reshape(frames, -1).astype(np.int64)
        vv = v.ravel()
        if lut is None and (np.diff(vv) >= 0).all():
            drop = np.diff(flat, axis=1) < 0
            if drop.any():
                f_, i_ = np.nonzero(drop)
                tgt = flat[f_, i_ + 1]
                if (vv[i_ + 1] >= cap + 1 - 1e-9 * (cap + 1)).all() and ((tgt == wrapped).all() or bits == 32):
                    ctx.violation(keyf(ADC_KEY), ADC_WHAT, desc, brighter_pixel_reads=int(tgt[0]), darker_pixel_reads=int(flat[f_[0], i_[0]]))
                else:
                    ctx.violation(keyf('C16/expose/non-monotonic'), 'a brighter pixel reads darker in a noise-free exposure', desc,
                                  signal=[float(np.ravel(img)[i_[0]]), float(np.ravel(img)[i_[0] + 1])], dn=[int(flat[f_[0], i_[0]]), int(tgt[0])])


def expose_case(ctx, bits, cls, rep):
    from prysm import detector
    rng = np.random.default_rng([ctx.seed, 16, bits, EXPOSE_CLASSES.index(cls), rep])
    imgdt, prec = EXPOSE_CFGS[rep % 4]
    layout = LAYOUTS[(rep + bits + EXPOSE_CLASSES.index(cls)) % 3] if rep else 'C'
    cap = 2 ** bits - 1
    gain = float(10 ** rng.uniform(-1, np.log10(50)))
    t = float(10 ** rng.uniform(-2, 1))
    sat_e = cap * gain                                   # electrons at ADC full scale
    bias = float(rng.uniform(0, 0.2) * sat_e) if rng.random() < 0.7 else float(rng.uniform(0, 1e4))
    fwc = sat_e * float(rng.uniform(3, 1000)) + 1e3 + bias
    dark, dcnu, prnu, lut, frames = 0.0, None, None, None, 1
    shape = [(2, 4), (3, 3), (4, 4), (2, 5), (5, 3)][int(rng.integers(5))]
    noisy = cls.startswith('noisy')
    read_noise = 0.0
    if cls == 'ramp/fwc-below-adc':
        fwc = bias + max(sat_e - bias, gain) * float(rng.uniform(0.2, 0.9))
    if cls == 'ramp/frames':
        frames = int(rng.integers(2, 5))
    if cls == 'negative-bias':
        bias = -float(rng.uniform(0.5, 50) * gain)
    if cls == 'line-1xN':
        shape = (1, int(rng.integers(2, 9)))
    if cls == 'line-Nx1':
        shape = (int(rng.integers(2, 9)), 1)
    n = shape[0] * shape[1]
    lim = min(fwc, sat_e)                                 # electrons at which the pixel saturates (one way or the other)
    s_sat = max(lim - bias, gain) / t                     # signal [e-/s] that just saturates
    if cls.startswith('ramp') or cls in ('negative-bias', 'lut', 'line-1xN', 'line-Nx1'):
        # priority order: a short line still crosses the ADC ceiling
        special = [0.5 * s_sat, ((cap + 1) * gain - bias) / t * 1.5, 0.0, 100 * s_sat, (cap * gain - bias) / t,
                   ((cap + 1) * gain - bias) / t, 3 * s_sat, (fwc - bias) / t]
        special = [max(0.0, float(q)) for q in special]
        if n <= len(special):
            vals = np.sort(np.array(special[:n]))
        else:
            vals = np.sort(np.array(special + list(rng.uniform(0, 1.3, n - len(special)) * s_sat)))
        img = vals.reshape(shape)
    elif cls == 'uniform-saturated':
        img = np.full(shape, 100 * s_sat)
    elif cls == 'int-image':
        idt = INT_IMG_DTYPES[rep % len(INT_IMG_DTYPES)]
        top = min(max(2, int(2 * s_sat) + 2), int(np.iinfo(idt).max))
        img = rng.integers(0, top, shape).astype(idt)
        if idt != 'int64':
            img.flat[0] = min(int(np.iinfo(idt).max), max(1, int(3 * s_sat)))      # a bright pixel in a narrow container
    else:
        img = rng.uniform(0, 2.0, shape) * s_sat
        img.flat[0] = 0.0
    if cls == 'random/dark+dcnu':
        dark = float(rng.uniform(0, 0.3) * s_sat)
        dcnu = rng.uniform(0.5, 1.5, shape)
        frames = int(rng.integers(1, 4))
    if cls == 'random/prnu-flat':
        prnu = rng.uniform(0.8, 1.2, n)
    if cls == 'random/prnu-2d':
        shape = shape if shape[0] > 1 else (2, shape[1])
        prnu = rng.uniform(0.8, 1.2, shape)
        frames = int(rng.integers(1, 3))
    if cls == 'lut':
        lut = (np.arange(2 ** bits, dtype=np.uint32) * 3 + 1)
    if noisy:
        read_noise = float(rng.uniform(0.5, 20) * gain)
        dark = float(rng.uniform(0, 0.05) * s_sat)
        frames = int(rng.integers(1, 5))
        level = {'noisy/dark': 0.0, 'noisy/mid': 0.5, 'noisy/saturating': 20.0}[cls]
        img = rng.uniform(0.5, 1.5, shape) * level * s_sat
        if rng.random() < 0.5:
            dcnu = rng.uniform(0.5, 1.5, shape)
    # configuration: single-precision image / maps, memory layout (the values the library sees are the reference's input)
    if img.dtype.kind == 'f' and imgdt == 'float32':
        img = img.astype(np.float32)
        dcnu = None if dcnu is None else dcnu.astype(np.float32)
        prnu = None if prnu is None else prnu.astype(np.float32)
    img = as_layout(img, layout)
    if dcnu is not None and layout == 'F':
        dcnu = np.asfortranarray(dcnu)
    low = prec == 32 or img.dtype == np.float32
    cfgname = f'{img.dtype}/p{prec}'
    desc = {'wl': 'expose', 'bits': bits, 'cls': cls, 'rep': rep, 'shape': list(shape), 'frames': frames, 'gain': gain, 'bias': bias,
            'fwc': fwc, 't': t, 'dark': dark, 'img_dtype': str(img.dtype), 'precision': prec, 'layout': layout,
            'class': f'expose:{cls}:bits={bits}:{cfgname}'}
    ctx.case(desc, nontrivial=n >= 2)
    det = detector.Detector(dark_current=dark, read_noise=read_noise, bias=bias, fwc=fwc, conversion_gain=gain, bits=bits,
                            exposure_time=t, prnu=prnu, dcnu=dcnu, lut=lut)
    gkey = 'C16/expose/prnu-2d' if cls == 'random/prnu-2d' else 'C16/expose'
    keep = np.array(img, copy=True)
    mono = cls.startswith('ramp') or cls in ('line-1xN', 'line-Nx1', 'negative-bias')
    nseed = int(rng.integers(2 ** 31 - 1))

    def default_fails():
        """The same case as float64 C-ordered data under precision 64: does it break the statement there too?"""
        f64 = lambda a: None if a is None else np.ascontiguousarray(np.asarray(a, dtype=float))     # noqa: E731
        img64 = f64(img) if img.dtype.kind == 'f' else np.ascontiguousarray(img)
        d2 = detector.Detector(dark_current=dark, read_noise=read_noise, bias=bias, fwc=fwc, conversion_gain=gain, bits=bits,
                               exposure_time=t, prnu=f64(prnu), dcnu=f64(dcnu), lut=lut)
        if noisy:
            with precision(64), seeded_numpy(nseed):
                o = np.asarray(d2.expose(img64, frames=frames)).astype(np.int64)
            return bool(o.max() > cap or o.min() < 0)
        lo2, hi2, v2, _ = ref.expose_ref(np.asarray(img64, dtype=float), t, dark, bias, fwc, gain, bits, prnu=prnu, dcnu=dcnu)
        with precision(64), noise_free():
            o = np.asarray(d2.expose(img64, frames=frames)).reshape((frames,) + tuple(img.shape))
        if lut is not None:
            return not bool(((o == lut[lo2][None]) | (o == lut[hi2][None])).all())
        o = o.astype(np.int64)
        bad = not bool(((o >= lo2[None]) & (o <= hi2[None])).all()) or o.max() > cap
        if mono and (np.diff(v2.ravel()) >= 0).all():
            bad = bad or bool((np.diff(o.reshape(frames, -1), axis=1) < 0).any())
        return bad

    if noisy:
        with precision(prec), deferred(ctx, img, default_fails), seeded_numpy(nseed), ctx.guard(gkey, desc):
            det.expose(img, frames=frames)                # the contract decides
        return
    lo, hi, v, x = ref.expose_ref(np.asarray(img, dtype=float), t, dark, bias, fwc, gain, bits, prnu=prnu, dcnu=dcnu,
                                  delta=LOW_DELTA if low else 1e-12)
    out = None
    with precision(prec), deferred(ctx, img, default_fails), noise_free(), ctx.guard(gkey, desc):
        out = det.expose(img, frames=frames)
        if rep % 2:
            # class A: the same detector and the same image object once more; the later call is judged
            out2 = det.expose(img, frames=frames)
            ctx.require('expose.repeat', np.array_equal(out, out2), 'C16/expose/repeat-call-differs',
                        'two noise-free exposures of the same image object by the same detector differ', desc)
            out = out2
    ctx.require('expose.input-untouched', np.array_equal(img, keep), 'C16/expose/input-mutated', 'expose modified the aerial image it was given', desc)
    if out is None:
        # an exception was recorded by the guard; with a LUT the documented table has 2^bits entries, so DN = 2^bits indexes past it
        if lut is not None and (v >= cap + 1).any():
            k = [k for k in list(ctx.violations) if k.startswith(gkey + '/raises:IndexError')]
            for kk in k:
                vio = ctx.violations.pop(kk)
                t_ = ctx.violations.setdefault(ADC_KEY, {'what': ADC_WHAT, 'count': 0, 'witnesses': []})
                t_['count'] += vio['count']
                t_['witnesses'] = (t_['witnesses'] + vio['witnesses'])[:ctx.MAX_WITNESS_PER_KEY]
        return
    with precision(prec):       # cfg_key reads the configuration of the failing call
        judge_model(ctx, desc, out, img, frames, lo, hi, v, x, bits, fwc, lut, lambda b: resolve(b, img, default_fails), mono)


def saturated_real_rng_case(ctx, bits, rep):
    """Real generator (no shim): every pixel is driven so far past full well that the Poisson draw cannot matter, so
    the DN is deterministic: floor(min(fwc/gain, 2^bits-1)).  Exercises the code paths the noise-free shim cannot reach
    (integer Poisson counts, integer-typed bias, read_noise == 0, fractional full-well capacity, gain < 1)."""
    from prysm import detector
    rng = np.random.default_rng([ctx.seed, 1616, bits, rep])
    imgdt, prec = EXPOSE_CFGS[rep % 4]
    cap = 2 ** bits - 1
    gain = float([0.125, 0.25, 0.5, 0.3, 1.0, 2.0, 7.3][int(rng.integers(7))])
    sat_e = cap * gain
    variant = ['fwc-below-adc/int-bias', 'fwc-below-adc/float-bias', 'fwc-above-adc/int-bias'][int(rng.integers(3))]
    if variant.startswith('fwc-below-adc'):
        fwc = max(2.0, float(np.floor(rng.uniform(0.2, 0.95) * sat_e))) + float([0.75, 0.5, 0.25, 0.9][int(rng.integers(4))])
        if fwc >= sat_e:
            fwc = max(1.5, sat_e - 0.25)
    else:
        fwc = float(np.floor(sat_e * rng.uniform(2, 50))) + 10.5
    bias = int(rng.integers(0, max(1, int(0.2 * min(fwc, sat_e))) + 1))
    if 'float-bias' in variant:
        bias = float(bias) + 0.0
    shape = [(2, 3), (3, 3), (1, 4), (4, 2)][int(rng.integers(4))]
    t = float([1.0, 0.5, 2.0][int(rng.integers(3))])
    level = 1000.0 * (max(fwc, sat_e) + 10.0) / t
    img = np.full(shape, level)
    if rng.random() < 0.3:
        img = img.astype(np.int64)
    elif imgdt == 'float32':
        img = img.astype(np.float32)
    frames = int(rng.integers(1, 3))
    want = int(np.floor(min(fwc / gain, float(cap))))
    low = prec == 32 or img.dtype == np.float32
    desc = {'wl': 'expose-real-rng', 'bits': bits, 'variant': variant, 'gain': gain, 'bias': bias, 'bias_type': type(bias).__name__,
            'fwc': fwc, 't': t, 'shape': list(shape), 'frames': frames, 'img_dtype': str(img.dtype), 'precision': prec,
            'class': f'expose:saturated/real-rng/{variant}:bits={bits}:{img.dtype}/p{prec}'}
    ctx.case(desc)
    det = detector.Detector(dark_current=0, read_noise=0, bias=bias, fwc=fwc, conversion_gain=gain, bits=bits, exposure_time=t)
    out = None
    nseed = int(rng.integers(2 ** 31 - 1))
    # fwc/gain within a float ulp of an integer: accept both neighbours
    q = min(fwc / gain, float(cap))
    ok_vals = {want}
    if abs(q - round(q)) < 1e-9 * max(1.0, q):
        ok_vals |= {int(round(q)), int(round(q)) - 1}

    def default_fails():
        img64 = np.asarray(img, dtype=float) if img.dtype.kind == 'f' else img
        with precision(64), seeded_numpy(nseed):
            o2 = np.asarray(det.expose(img64, frames=frames)).astype(np.int64)
        return not bool(np.isin(o2, list(ok_vals)).all())

    with precision(prec), deferred(ctx, img, lambda: default_fails()), seeded_numpy(nseed), ctx.guard('C16/expose', desc):
        out = det.expose(img, frames=frames)
    if out is None:
        return
    ctx.observe('expose.saturated-real-rng')
    o = np.asarray(out).astype(np.int64)
    if low:
        good = (np.abs(o - want) <= LOW_DELTA * want + (1 if ok_vals != {want} else 0)).all()
    else:
        good = np.isin(o, list(ok_vals)).all()
    if not good:
        region = 'full-well-saturated' if fwc < sat_e else 'adc-saturated'
        base = ADC_KEY if region == 'adc-saturated' and (o == _wrapped(bits)).all() else f'C16/expose/noise-free-model/{region}'
        with precision(prec):
            key = resolve(base, img, default_fails)
        ctx.violation(key, 'a pixel driven far past saturation (read noise off) does not read '
                      f'floor(min(fwc/gain, 2^bits-1)) for a {region} pixel', desc, got=o.ravel()[:3], want=want)


HISTORY_STEPS = ['fresh', 'bits-down', 'gain', 'bits-up', 'fwc-below-adc', 'bias', 'exposure-time', 'prnu-set', 'prnu-cleared', 'dcnu-set',
                 'dark-current', 'bits-32', 'precision-32', 'precision-64', 'bits-1', 'fwc-above-adc', 'frames', 'bits-25']


def expose_history(ctx, hi):
    """Class B: ONE Detector instance whose public attributes are changed between exposures (and the configuration
    switched 64 -> 32 -> 64); the same image object throughout.  Every exposure is judged against the reference model of
    the *current* attribute values, i.e. against what a freshly built detector must return."""
    from prysm import detector
    rng = np.random.default_rng([ctx.seed, 16161, hi])
    shape = [(3, 4), (4, 4), (2, 6)][hi % 3]
    n = shape[0] * shape[1]
    p = {'bits': int([12, 16, 8, 14][hi % 4]), 'gain': float(10 ** rng.uniform(-0.5, 1)), 't': 1.0, 'dark': 0.0, 'bias': 0.0}
    p['fwc'] = (2 ** p['bits'] - 1) * p['gain'] * 5 + 50
    p['bias'] = 0.05 * (2 ** p['bits'] - 1) * p['gain']
    det = detector.Detector(dark_current=p['dark'], read_noise=0.0, bias=p['bias'], fwc=p['fwc'], conversion_gain=p['gain'], bits=p['bits'],
                            exposure_time=p['t'])
    prnu = dcnu = None
    prec = 32 if hi % 2 else 64          # odd histories warm the instance up in single precision, then switch to 64
    frames = 1
    if hi == 0:
        steps = list(HISTORY_STEPS)
    elif hi == 1:
        steps = ['fresh', 'bits-25', 'bits-32', 'precision-64', 'frames', 'bits-25', 'bits-down', 'bits-32', 'fwc-below-adc', 'precision-32',
                 'bits-up', 'precision-64', 'gain', 'bits-32']
    else:
        steps = ['fresh'] + [HISTORY_STEPS[1 + int(i)] for i in rng.integers(0, len(HISTORY_STEPS) - 1, ctx.pick(10, 40))]
    base_img = None
    first_fail = [None]
    for si, step in enumerate(steps):
        if step == 'bits-down':
            p['bits'] = max(1, p['bits'] - int(rng.integers(2, 6)))
        elif step == 'bits-up':
            p['bits'] = min(32, p['bits'] + int(rng.integers(3, 9)))
        elif step in ('bits-32', 'bits-1', 'bits-25'):
            p['bits'] = int(step.split('-')[1])
        elif step == 'gain':
            p['gain'] = float(10 ** rng.uniform(-1, 1.5))
        elif step == 'fwc-below-adc':
            p['fwc'] = p['bias'] + max((2 ** p['bits'] - 1) * p['gain'] - p['bias'], p['gain']) * float(rng.uniform(0.3, 0.8))
        elif step == 'fwc-above-adc':
            p['fwc'] = (2 ** p['bits'] - 1) * p['gain'] * float(rng.uniform(3, 30)) + abs(p['bias']) + 10
        elif step == 'bias':
            p['bias'] = float(rng.uniform(0, 0.1) * (2 ** p['bits'] - 1) * p['gain'])
        elif step == 'exposure-time':
            p['t'] = float(10 ** rng.uniform(-1, 0.7))
        elif step == 'prnu-set':
            prnu, p['dark'] = rng.uniform(0.8, 1.2, shape), 0.0
        elif step == 'prnu-cleared':
            prnu = None
        elif step == 'dcnu-set':
            dcnu = rng.uniform(0.5, 1.5, shape)
        elif step == 'dark-current':
            p['dark'] = 0.0 if prnu is not None else float(rng.uniform(0, 0.2) * (2 ** p['bits'] - 1) * p['gain'] / p['t'])
        elif step == 'precision-32':
            prec = 32
        elif step == 'precision-64':
            prec = 64
        elif step == 'frames':
            frames = int(rng.integers(1, 4))
        det.bits, det.conversion_gain, det.fwc, det.bias = p['bits'], p['gain'], p['fwc'], p['bias']
        det.exposure_time, det.dark_current, det.prnu, det.dcnu = p['t'], p['dark'], prnu, dcnu
        cap = 2 ** p['bits'] - 1
        s_sat = max(min(p['fwc'], cap * p['gain']) - p['bias'], p['gain']) / p['t']
        if base_img is None:
            base_img = np.sort(rng.uniform(0, 1, n)).reshape(shape)
            base_img.flat[0], base_img.flat[-1] = 0.0, 1.0
        # the SAME image object for the whole history while the level still spans the range, else a rescaled one
        img = base_img * (3.0 * s_sat)
        desc = {'wl': 'expose-history', 'history': hi, 'step': si, 'changed': step, 'bits': p['bits'], 'gain': p['gain'], 'fwc': p['fwc'],
                'bias': p['bias'], 't': p['t'], 'dark': p['dark'], 'prnu': prnu is not None, 'dcnu': dcnu is not None, 'precision': prec,
                'frames': frames, 'steps': steps[:si + 1][-6:], 'class': f'expose-history:{step}'}
        ctx.case(desc)
        low = prec == 32
        lo, hi_, v, x = ref.expose_ref(img, p['t'], p['dark'], p['bias'], p['fwc'], p['gain'], p['bits'], prnu=prnu, dcnu=dcnu,
                                       delta=LOW_DELTA if low else 1e-12)
        out = None
        keep = img.copy()
        with precision(prec), deferred(ctx, img, lambda: True), noise_free(), ctx.guard('C16/expose/history', desc):
            out = det.expose(img, frames=frames)
        if out is None:
            continue
        ctx.observe('expose.history')

        def fresh_fails(pr, p=dict(p), prnu=prnu, dcnu=dcnu, img=img, frames=frames):
            """A freshly built detector with the current attribute values: does it break the statement under precision pr?"""
            d2 = detector.Detector(dark_current=p['dark'], read_noise=0.0, bias=p['bias'], fwc=p['fwc'], conversion_gain=p['gain'],
                                   bits=p['bits'], exposure_time=p['t'], prnu=prnu, dcnu=dcnu)
            lo2, hi2, _, _ = ref.expose_ref(img, p['t'], p['dark'], p['bias'], p['fwc'], p['gain'], p['bits'], prnu=prnu, dcnu=dcnu,
                                            delta=LOW_DELTA if pr == 32 else 1e-12)
            with quiet(), precision(pr), noise_free():
                o2 = np.asarray(d2.expose(img, frames=frames)).reshape((frames,) + tuple(img.shape)).astype(np.int64)
            return not bool(((o2 >= lo2[None]) & (o2 <= hi2[None])).all()) or o2.max() > 2 ** p['bits'] - 1

        def keyf(b, step=step, prec=prec):
            """plain key when a fresh detector fails too (not a history effect), else the key names the attribute that was changed"""
            try:
                if fresh_fails(64):
                    return b
                if prec == 32 and fresh_fails(32):
                    return cfg_key(b, img)
            except Exception:  # noqa
                pass
            first_fail[0] = first_fail[0] or step       # later steps of this history inherit the label of the first failing change
            return b.replace('C16/expose/', f'C16/expose/history:{first_fail[0]}/', 1)
        with precision(prec):
            judge_model(ctx, desc, out, img, frames, lo, hi_, v, x, p['bits'], p['fwc'], None, keyf, prnu is None and dcnu is None)
        ctx.require('expose.input-untouched', np.array_equal(img, keep), 'C16/expose/input-mutated', 'expose modified the aerial image it was given', desc)


def expose_workload(ctx):
    reps = ctx.pick(8, 2000)
    kk = -1
    for rep in range(ctx.pick(8, 2500)):
        for bits in range(1, 33):
            kk += 1
            if ctx.mine(kk):
                saturated_real_rng_case(ctx, bits, rep)
    k = -1
    for rep in range(reps):
        for bits in range(1, 33):
            for cls in EXPOSE_CLASSES:
                if cls == 'lut' and bits > 12:
                    continue
                k += 1
                if not ctx.mine(k):
                    continue
                expose_case(ctx, bits, cls, rep)
    nh = ctx.pick(24, 6000)
    for h in range(nh):
        if ctx.mine(h):
            expose_history(ctx, h)
    ctx.note('expose', f'all bit depths 1..32 x {len(EXPOSE_CLASSES)} exposure classes x {reps} random parameter draws, rotating through '
             f'{len(EXPOSE_CFGS)} configurations (float64/float32 image x config.precision 64/32), integer image containers and memory '
             f'layouts; {nh} attribute-change histories on one Detector instance')


# ------------------------------------------------------------------------------------------ binning workload
LOW_BIN = 1e-3        # float32 data or config.precision = 32: measured round-off of block sums of 3^5 float32 samples 1.0e-6
BIN_DTYPES = ['float64', 'float32', 'int64', 'int32', 'int16', 'int8', 'uint8', 'uint16', 'uint32', 'bool']


def fill(rng, shape, dt, bright=True):
    """Integer-valued fill that uses the whole range of a narrow container (so block sums do not fit the container)."""
    d = np.dtype(dt)
    if d.kind == 'b':
        return rng.random(shape) < 0.7
    if d.kind == 'f':
        return rng.integers(-50, 200, shape).astype(dt)
    info = np.iinfo(d)
    if d.itemsize == 8:
        return rng.integers(-2 ** 40, 2 ** 40, shape).astype(dt)
    lo_, hi_ = (int(info.min), int(info.max)) if bright else (0, min(int(info.max), 50))
    x = rng.integers(lo_, hi_ + 1, shape).astype(dt)
    if bright and x.size:
        x.flat[0] = info.max           # a saturated sample
        x.flat[-1] = info.max
    return x


def bin_workload(ctx):
    from prysm import detector
    cases = []
    for nd in range(1, 6):
        outs = list(itertools.product(range(1, 3 if nd > 2 else 4), repeat=nd))
        facs = list(itertools.product(range(1, 3 if nd > 3 else 4), repeat=nd))
        for o in outs:
            for f in facs:
                cases.append((o, f))
    rs = np.random.default_rng([ctx.seed, 1616])
    if ctx.quick:
        idx = rs.permutation(len(cases))[:500]
        small = [c for c in cases if len(c[0]) <= 2]
        cases = small + [cases[i] for i in sorted(idx)]
    for _ in range(ctx.pick(600, 250000)):
        nd = int(rs.integers(1, 6))
        top = ctx.pick(6, 9) if nd < 4 else 4
        cases.append((tuple(int(v) for v in rs.integers(1, ctx.pick(6, 12) if nd < 3 else 6, nd)), tuple(int(v) for v in rs.integers(1, top, nd))))
    modes = ['sum', 'avg', 'average', 'mean']
    for k, (o, f) in enumerate(cases):
        if not ctx.mine(k):
            continue
        rng = np.random.default_rng([ctx.seed, 161, k])
        shape = tuple(a * b for a, b in zip(o, f))
        scalar = len(set(f)) == 1 and k % 2 == 0
        farg = (f[0] if k % 4 == 0 else np.int64(f[0])) if scalar else (list(f) if k % 3 == 0 else f)
        dt = BIN_DTYPES[(k // 2) % len(BIN_DTYPES)] if k % 2 else 'float64'
        x = fill(rng, shape, dt)
        layout = LAYOUTS[(k // 3) % 4] if k % 3 == 0 else 'C'
        x = as_layout(x, layout)
        ydt = ['float64', 'uint8', 'int16', 'bool', 'float32', 'uint16'][(k // 5) % 6] if k % 5 == 0 else 'float64'
        y = fill(rng, o, ydt, bright=True) if ydt != 'float64' else rng.integers(-20, 50, o).astype(float)
        yf = y.astype(float)
        fcls = 'scalar' if scalar else 'per-axis'
        kind = np.dtype(dt).kind
        ccls = {'f': 'float', 'i': 'integer', 'u': 'integer', 'b': 'boolean'}[kind]
        csfx = '' if kind == 'f' else f'/{ccls}-input'
        prec = 32 if k % 4 == 3 else 64
        lowp = prec == 32 or 'float32' in (dt, ydt)
        desc = {'wl': 'bin', 'out': list(o), 'factor': list(f), 'form': fcls, 'dtype': dt, 'tile_dtype': ydt, 'layout': layout, 'k': k,
                'precision': prec, 'class': f'bin:{len(o)}d:{fcls}:{ccls}:p{prec}'}
        ctx.case(desc, nontrivial=x.size >= 2)

        def key(base, sfx=csfx, x=x, y=y, f=f, farg=farg):
            """container label only when the same arrays cast to double satisfy the block-sum / repeat models"""
            if not sfx or base in ctx.violations:
                return base
            try:
                with quiet():
                    ok = (np.array_equal(detector.bindown(x.astype(float), farg, 'sum'), ref.bin_sum_ref(x.astype(float), f))
                          and np.array_equal(detector.tile(y.astype(float), farg, 'avg'), ref.tile_ref(y.astype(float), f)))
                if not ok:
                    return base
            except Exception:  # noqa
                pass
            return base + sfx
        with precision(prec), ctx.guard('C16/bindown-tile', desc):
            want = ref.bin_sum_ref(x, f)
            nblk = int(np.prod(f))
            x0 = np.array(x, copy=True)
            bs = detector.bindown(x, farg, 'sum')
            if k % 4 == 1:
                bs = detector.bindown(x, farg, 'sum')       # class A: same argument objects again, the later call is judged
            if kind != 'f':
                ctx.observe('bindown.integer-containers')
            if prec == 32:      # single-precision configuration: the total need only be conserved to float32 round-off
                ctx.close('bindown.block-sum', np.asarray(bs, dtype=float), want, key('C16/bindown/sum/block-sum'),
                          'bindown(sum) is not the sum over each block', desc, rtol=LOW_BIN, result_dtype=str(np.asarray(bs).dtype))
            else:
                ctx.equal('bindown.block-sum', np.asarray(bs, dtype=float), want, key('C16/bindown/sum/block-sum'),
                          'bindown(sum) is not the sum over each block', desc, result_dtype=str(np.asarray(bs).dtype))
            for m in modes[1:][k % 3:k % 3 + 1]:
                ba = detector.bindown(x, farg, m)
                ctx.close('bindown.block-sum', np.asarray(ba, dtype=float), want / nblk, key('C16/bindown/avg/block-mean'),
                          'bindown(avg) is not the mean over each block', desc, rtol=LOW_BIN if lowp else 1e-12,
                          atol=1e-9)
            ctx.require('bindown.input-untouched', np.array_equal(x, x0), 'C16/bindown/input-mutated', 'bindown modified the array it was given', desc)
            y0 = np.array(y, copy=True)
            ysfx = '' if y.dtype.kind == 'f' else '/integer-input' if y.dtype.kind in 'iu' else '/boolean-input'
            ta = detector.tile(y, farg, 'avg' if k % 2 else 'mean')
            ctx.equal('tile.reference', np.asarray(ta, dtype=float), ref.tile_ref(yf, f), key('C16/tile/avg/not-repeat', ysfx),
                      'tile(avg) is not each sample repeated factor times', desc)
            ts = detector.tile(y, farg, 'sum')
            ctx.close('tile.reference', np.asarray(ts, dtype=float), ref.tile_ref(yf, f) / nblk, key('C16/tile/sum/not-repeat-over-count', ysfx),
                      'tile(sum) is not repeat/prod(factor)', desc, rtol=LOW_BIN if lowp else 1e-12)
            ctx.require('tile.input-untouched', np.array_equal(y, y0), 'C16/tile/input-mutated', 'tile modified the array it was given', desc)
            # the two adjoint pairs (in double: x as handed in for the sum pair when it is an integer container)
            xf = x.astype(float)
            ta_f, ts_f = np.asarray(ta, dtype=float), np.asarray(ts, dtype=float)
            l1, r1 = float((detector.bindown(xf, farg, 'avg') * yf).sum()), float((xf * ts_f).sum())
            l2, r2 = float((np.asarray(detector.bindown(x if kind != 'f' else xf, farg, 'sum'), dtype=float) * yf).sum()), float((xf * ta_f).sum())
            sc = float(np.abs(xf).sum() * np.abs(yf).max()) or 1.0
            at = LOW_BIN if lowp else 1e-10
            ctx.require('adjoint.pairs', abs(l1 - r1) <= at * sc, 'C16/adjoint/bindown-avg~tile-sum', '<bindown_avg(x), y> != <x, tile_sum(y)>', desc, lhs=l1, rhs=r1)
            ctx.require('adjoint.pairs', abs(l2 - r2) <= at * sc, key('C16/adjoint/bindown-sum~tile-avg'), '<bindown_sum(x), y> != <x, tile_avg(y)>', desc, lhs=l2, rhs=r2)
            # tiling then binning returns the array
            ctx.close('tile.roundtrip', np.asarray(detector.bindown(ta, farg, 'avg'), dtype=float), yf, key('C16/tile/bindown(tile)!=identity/avg', ysfx),
                      'bindown_avg(tile_avg(y)) != y', desc, rtol=LOW_BIN if lowp else 1e-12)
            ctx.close('tile.roundtrip', np.asarray(detector.bindown(ts, farg, 'sum'), dtype=float), yf, 'C16/tile/bindown(tile)!=identity/sum',
                      'bindown_sum(tile_sum(y)) != y', desc, rtol=LOW_BIN if lowp else 1e-12)
            if y.dtype.kind != 'f' and nblk > 1:
                # the other order on a narrow container: bin the repeated frame by summing (block sums leave the container)
                ctx.observe('bindown.integer-containers')
                ctx.equal('bindown.block-sum', np.asarray(detector.bindown(ta, farg, 'sum'), dtype=float), yf * nblk,
                          key('C16/bindown/sum/block-sum', ysfx), 'bindown_sum(tile_avg(y)) != prod(factor) * y', desc, tile_dtype=ydt)


def expose_bin_workload(ctx):
    """The expose -> bindown / tile interaction: frames as expose returns them (uint8 / uint16 / uint32 containers, single
    frames and stacks) are binned and tiled; totals and block sums are taken in double by the reference."""
    from prysm import detector
    combos = []
    for bits in (8, 10, 12, 14, 16, 24, 32, 1, 5):
        for level in ('saturating', 'mid'):
            for factor in (2, 4, 8, (2, 4), 'stack'):
                combos.append((bits, level, factor))
    reps = ctx.pick(2, 400)
    k = -1
    for rep in range(reps):
        for bits, level, factor in combos:
            k += 1
            if not ctx.mine(k):
                continue
            rng = np.random.default_rng([ctx.seed, 16016, k])
            cap = 2 ** bits - 1
            gain = float(10 ** rng.uniform(-0.5, 1))
            shape = [(16, 24), (32, 32), (8, 40)][int(rng.integers(3))] if rep else (16, 24)
            frames = int(rng.integers(2, 4)) if factor == 'stack' else 1
            f = (1, 8, 8) if factor == 'stack' else ((factor, factor) if isinstance(factor, int) else factor)
            lvl = {'saturating': 3.0, 'mid': 0.6}[level]
            img = rng.uniform(0.7, 1.3, shape) * lvl * cap * gain
            prec = 32 if rep % 2 else 64
            det = detector.Detector(dark_current=0.0, read_noise=float(2 * gain), bias=float(0.01 * cap * gain), fwc=cap * gain * 10 + 100,
                                    conversion_gain=gain, bits=bits, exposure_time=1.0)
            desc = {'wl': 'expose->bin', 'bits': bits, 'level': level, 'factor': list(f), 'frames': frames, 'shape': list(shape), 'precision': prec,
                    'k': k, 'class': f'expose->bin:bits={bits}:{level}:{"stack" if factor == "stack" else "frame"}'}
            ctx.case(desc)
            with precision(prec), seeded_numpy(int(rng.integers(2 ** 31 - 1))), ctx.guard('C16/expose->bindown', desc):
                fr = det.expose(img, frames=frames)
                fr0 = np.array(fr, copy=True)
                want = ref.bin_sum_ref(fr, f)
                nblk = int(np.prod(f))
                bs = detector.bindown(fr, f if k % 2 else list(f), 'sum')
                ctx.observe('expose->bindown')
                ctx.equal('expose->bindown', np.asarray(bs, dtype=float), want,
                          'C16/bindown/sum/block-sum' if 'C16/bindown/sum/block-sum' in ctx.violations else 'C16/bindown/sum/block-sum/integer-input',
                          'bindown(sum) of an exposed frame is not the sum of the DN over each block', desc, frame_dtype=str(fr.dtype),
                          result_dtype=str(np.asarray(bs).dtype))
                ba = detector.bindown(fr, f, 'avg')
                ctx.close('expose->bindown', np.asarray(ba, dtype=float), want / nblk,
                          'C16/bindown/avg/block-mean' if 'C16/bindown/avg/block-mean' in ctx.violations else 'C16/bindown/avg/block-mean/integer-input',
                          'bindown(avg) of an exposed frame is not the mean DN over each block', desc, rtol=1e-12, atol=1e-9)
                tl = detector.tile(fr, f, 'avg')
                ctx.equal('expose->bindown', np.asarray(tl, dtype=float), ref.tile_ref(fr.astype(float), f),
                          'C16/tile/avg/not-repeat' if 'C16/tile/avg/not-repeat' in ctx.violations else 'C16/tile/avg/not-repeat/integer-input',
                          'tile(avg) of an exposed frame is not each DN repeated', desc)
                ctx.require('bindown.input-untouched', np.array_equal(fr, fr0), 'C16/bindown/input-mutated', 'bindown / tile modified the frame', desc)


# ------------------------------------------------------------------------------------------ Bayer workload
def bayer_workload(ctx):
    from prysm import bayer
    shapes = [(2, 2), (2, 4), (4, 2), (4, 4), (4, 6), (6, 4), (6, 6), (8, 8), (6, 10), (12, 8), (16, 16), (32, 32), (10, 32)]
    rs = np.random.default_rng([ctx.seed, 16160])
    for i in range(ctx.pick(200, 40000)):
        top = 17 if i < 700 else 65
        shapes.append((2 * int(rs.integers(1, top)), 2 * int(rs.integers(1, top))))
    k = -1
    for shape in shapes:
        for cfa in ('rggb', 'bggr'):
            k += 1
            if not ctx.mine(k):
                continue
            rng = np.random.default_rng([ctx.seed, 162, k])
            fill_ = ['uniform', 'int', 'marker'][k % 3]
            if fill_ == 'uniform':
                m = rng.uniform(1, 1000, shape)
            elif fill_ == 'int':
                m = rng.integers(1, 4096, shape).astype(float)
            else:
                m = np.arange(1, shape[0] * shape[1] + 1, dtype=float).reshape(shape)
            # container / layout / configuration classes (float64 C-order under precision 64 is the default)
            dt = ['float64', 'float32', 'uint16', 'float64', 'uint8', 'float64', 'int32'][(k // 2) % 7]
            if np.dtype(dt).kind in 'iu':
                m = np.clip(np.rint(m), 0, np.iinfo(dt).max).astype(dt) if fill_ != 'marker' else (m % (int(np.iinfo(dt).max) + 1)).astype(dt)
                m.flat[0] = np.iinfo(dt).max if dt != 'int32' else 2 ** 20
            else:
                m = m.astype(dt)
            layout = LAYOUTS[(k // 3) % 4] if k % 3 == 1 else 'C'
            m = as_layout(m, layout)
            prec = 32 if (k // 4) % 3 == 2 else 64
            isf = m.dtype.kind == 'f'
            desc = {'wl': 'bayer', 'shape': list(shape), 'cfa': cfa, 'fill': fill_, 'k': k, 'dtype': dt, 'layout': layout, 'precision': prec,
                    'class': f'bayer:{cfa}:{"sq" if shape[0] == shape[1] else "nonsq"}:{dt}'}
            ctx.case(desc)
            with precision(prec), ctx.guard(f'C16/bayer/{cfa}', desc):
                m0 = m.copy()
                planes = bayer.decomposite_bayer(m, cfa)
                back = bayer.recomposite_bayer(*planes, cfa=cfa)
                ctx.equal('bayer.roundtrip', back, m0, f'C16/bayer/roundtrip/{cfa}', 'recomposite_bayer(decomposite_bayer(m)) != m', desc)
                out = np.zeros_like(m0)
                bayer.recomposite_bayer(*planes, cfa=cfa, output=out)
                ctx.equal('bayer.roundtrip', out, m0, f'C16/bayer/roundtrip/{cfa}/output-arg', 'recomposite into a given output != m', desc)
                if k % 4 == 1:
                    # class A: the same plane objects once more (and the planes may be views of the mosaic)
                    back2 = bayer.recomposite_bayer(*planes, cfa=cfa)
                    ctx.equal('bayer.roundtrip', back2, m0, f'C16/bayer/roundtrip/{cfa}', 'recomposite_bayer(decomposite_bayer(m)) != m', desc)
                if k % 2 == 0:
                    # class A: results handed out earlier are the caller's; a later call on OTHER data must not change them
                    other = np.ascontiguousarray(m0[::-1, ::-1]) + (1 if not isf else 0.5)
                    p2 = bayer.decomposite_bayer(other, cfa)
                    p2c = [np.array(q, copy=True) for q in planes]
                    bayer.recomposite_bayer(*p2, cfa=cfa)
                    bayer.demosaic_deinterlace(other, cfa)
                    ok = np.array_equal(back, m0) and all(np.array_equal(a_, b_) for a_, b_ in zip(planes, p2c))
                    ctx.require('bayer.earlier-result-untouched', ok, f'C16/bayer/{cfa}/earlier-result-overwritten',
                                'a later Bayer call on other data changed an array an earlier call had returned', desc)
                dense = [as_layout(rng.uniform(1, 9, shape).astype(dt if isf else 'float64'), layout) for _ in range(4)]
                bayer.composite_bayer(*dense, cfa=cfa)
                rgb = bayer.demosaic_malvar(m, cfa)
                if isf:
                    flat = bayer.demosaic_malvar(np.full(shape, 7.0, dtype=dt), cfa)
                    ctx.close('bayer.malvar-flat-field', flat, np.full(shape + (3,), 7.0), f'C16/bayer/malvar/{cfa}/flat-field-not-preserved',
                              'demosaic_malvar of a constant mosaic is not constant (kernels not normalised)', desc,
                              rtol=1e-4 if dt == 'float32' else 1e-12)
                bayer.demosaic_deinterlace(m, cfa)
                ctx.require('bayer.input-untouched', np.array_equal(m, m0), f'C16/bayer/{cfa}/input-mutated', 'a Bayer routine modified the mosaic it was given', desc)
                if dt != 'float64':
                    continue          # white balance is documented for float mosaics; its contract tolerances are double precision
                # white balance: plain and safe, scalar and per-channel saturation
                g = [float(v) for v in rng.uniform(0.3, 3.0, 4)]
                mm = m.copy()
                bayer.wb_prescale(mm, *g, cfa=cfa)
                sat = float(rng.uniform(0.2, 1.5) * m.max())
                mm = m.copy()
                bayer.wb_prescale(mm, *g, cfa=cfa, safe=True, saturation=sat if k % 2 else [sat, sat * 0.9, sat * 1.1, sat * 0.7])
                c = rgb.copy()
                bayer.wb_postscale(c, *g[:3])
                c = rgb.copy() + 1000.0
                bayer.wb_postscale(c, *g[:3], safe=True, saturation=sat if k % 2 else [sat, sat * 0.9, sat * 1.1])


# ------------------------------------------------------------------------------------------ argument forms (class E)
# Forms the sensor model accepts today and treats as the same input.  Established on /repo@faa8443 (numpy 2.5) by running one
# noise-free exposure / one 4x6 binning / one 4x6 mosaic per form and comparing with the canonical form (python int bits,
# python float scalars, float64 C-ordered maps, keyword `frames`, python int / tuple factors, lower-case strings):
#   Detector scalars (dark_current, read_noise, bias, fwc, conversion_gain, exposure_time): python int / float, numpy.float64 /
#     float32 / int64 / int32 / uint16 scalars, 0-d float and int arrays -> identical DN;
#   bits: numpy.int64 / intp / uint64 / uint32 and 0-d int64 -> identical; a numpy integer type that cannot hold 2^bits
#     (int8 / uint8 / int16 / uint16, int32 for 32 bits) makes `2 ** self.bits` overflow -> wrong ADC ceiling: accepted, not
#     documented as unsupported, wrong -> a finding of the current tree (ledger key C16/expose/form:bits=numpy-int-narrower-than-2^bits);
#   frames: keyword or positional, python int / numpy.int64 / int32 / uint8 / 0-d int (python float, bool raise: out of domain);
#   prnu: 2-D map, flat 1-D, nested / flat lists, tuple of tuples, float32, Fortran order, integer map, python / numpy scalar;
#   dcnu: 2-D map, float32, Fortran order, integer map, python / numpy scalar (flat and list forms raise: out of domain);
#   bindown / tile factor: python int, numpy.int64 / int32 / intp scalars, tuple, list, int64 / int32 ndarray, sequences of
#     numpy integers (0-d arrays and floats raise; 8 / 16-bit integer types are out of domain as ruled for indices);
#   bindown mode: avg / average / mean / sum in any letter case, omitted = 'avg'; tile scaling: lower case only (upper case
#     raises ValueError), omitted = 'sum'; positional or keyword;
#   cfa: any letter case for recomposite_bayer, composite_bayer, demosaic_malvar, wb_prescale(safe=False); lower case only for
#     decomposite_bayer, demosaic_deinterlace, wb_prescale(safe=True) (upper case raises UnboundLocalError there); omitted = 'rggb'.
SCALAR_FORMS = {
    'int': lambda v: int(v), 'np.float64': lambda v: np.float64(v), 'np.float32': lambda v: np.float32(v), 'np.int64': lambda v: np.int64(v),
    'np.int32': lambda v: np.int32(v), 'np.uint16': lambda v: np.uint16(v), '0d-float': lambda v: np.array(float(v)), '0d-int': lambda v: np.array(int(v)),
}
BITS_FORMS = {
    'np.int64': np.int64, 'np.intp': np.intp, 'np.uint64': np.uint64, 'np.uint32': np.uint32, 'np.int32': np.int32, 'np.int16': np.int16,
    'np.uint16': np.uint16, 'np.uint8': np.uint8, 'np.int8': np.int8, '0d-int64': lambda v: np.array(v, dtype=np.int64),
}
FRAME_FORMS = {'np.int64': np.int64, 'np.int32': np.int32, 'np.uint8': np.uint8, '0d-int': lambda v: np.array(v)}
PRNU_FORMS = {
    'flat-1d': lambda a: a.ravel().copy(), 'nested-list': lambda a: a.tolist(), 'flat-list': lambda a: a.ravel().tolist(),
    'tuple-of-tuples': lambda a: tuple(map(tuple, a.tolist())), 'float32': lambda a: a.astype(np.float32), 'fortran': np.asfortranarray,
    'strided': lambda a: as_layout(a, 'S'),
}
DCNU_FORMS = {'float32': lambda a: a.astype(np.float32), 'fortran': np.asfortranarray, 'strided': lambda a: as_layout(a, 'S')}
DET_ARGS = ['dark_current', 'read_noise', 'bias', 'fwc', 'conversion_gain', 'bits', 'exposure_time']


def forms_expose(ctx):
    from prysm import detector
    kinds = ['bits'] * 3 + ['dark_current', 'bias', 'fwc', 'conversion_gain', 'exposure_time', 'read_noise', 'prnu', 'dcnu', 'frames', 'construct',
                            'int-maps', 'scalar-maps']
    n_cases = ctx.pick(2400, 60000)
    for it in range(n_cases):
        if not ctx.mine(it):
            continue
        rng = np.random.default_rng([ctx.seed, 16500, it])
        which = kinds[it % len(kinds)]
        bits = 1 + (it // len(kinds)) % 32
        cap = 2 ** bits - 1
        # integral parameter values, so that every scalar form (also the integer ones) denotes the same number
        gain = float([1, 2, 3, 5][int(rng.integers(4))])
        t = float([1, 2, 3][int(rng.integers(3))])
        sat_e = cap * gain
        bias = float(int(rng.integers(0, max(1, min(40, int(0.2 * sat_e))) + 1)))
        above = rng.random() < 0.5
        fwc = float(int(sat_e * rng.uniform(2, 20)) + 7 + bias) if above else float(max(2, int(bias + max(sat_e - bias, gain) * rng.uniform(0.3, 0.9))))
        dark = float(int(rng.integers(0, 3)))
        shape = [(3, 4), (2, 5), (4, 4), (5, 3)][int(rng.integers(4))]
        n = shape[0] * shape[1]
        s_sat = max(min(fwc, sat_e) - bias, gain) / t
        img = np.sort(rng.uniform(0, 1.0, n)).reshape(shape) * 2.5 * s_sat
        img.flat[0], img.flat[-1] = 0.0, max(3.0 * s_sat, ((cap + 1) * gain - bias) / t * 1.5)
        prnu = dcnu = None
        frames = 1
        p = dict(dark_current=dark, read_noise=0.0, bias=bias, fwc=fwc, conversion_gain=gain, bits=bits, exposure_time=t)
        args = dict(p)
        low = False
        fcls = flabel = None
        frames_arg, frames_pos, construct = 1, False, 'keywords'
        if which == 'bits':
            flabel = list(BITS_FORMS)[(it // len(kinds)) % len(BITS_FORMS) if it % 3 else (it // 7) % len(BITS_FORMS)]
            try:
                args['bits'] = BITS_FORMS[flabel](bits)
            except OverflowError:
                ctx.skip('forms: bit depth does not fit the integer type of the form')
                continue
            fcls = bits_form(args['bits'])
        elif which in ('dark_current', 'read_noise', 'bias', 'fwc', 'conversion_gain', 'exposure_time'):
            flabel = list(SCALAR_FORMS)[(it // len(kinds)) % len(SCALAR_FORMS)]
            v = p[which]
            if flabel == 'np.uint16' and not (0 <= v < 65536) or flabel == 'np.int32' and not abs(v) < 2 ** 31 or \
                    flabel == 'np.float32' and float(np.float32(v)) != v:
                flabel = 'np.float64'
            args[which] = SCALAR_FORMS[flabel](v)
            low = flabel == 'np.float32'
            fcls = 'integer' if flabel in ('int', 'np.int64', 'np.int32', 'np.uint16', '0d-int') else flabel
        elif which == 'prnu':
            prnu = rng.uniform(0.8, 1.2, shape)
            dark = p['dark_current'] = args['dark_current'] = 0.0
            flabel = list(PRNU_FORMS)[(it // len(kinds)) % len(PRNU_FORMS)]
            args['prnu'] = PRNU_FORMS[flabel](prnu)
            low = flabel == 'float32'
            prnu = prnu.astype(np.float32).astype(float) if low else prnu
            fcls = 'python-sequence' if flabel in ('nested-list', 'flat-list', 'tuple-of-tuples') else flabel
        elif which == 'dcnu':
            dcnu = rng.uniform(0.5, 1.5, shape)
            dark = p['dark_current'] = args['dark_current'] = float(int(rng.integers(1, 4)))
            flabel = list(DCNU_FORMS)[(it // len(kinds)) % len(DCNU_FORMS)]
            args['dcnu'] = DCNU_FORMS[flabel](dcnu)
            low = flabel == 'float32'
            dcnu = dcnu.astype(np.float32).astype(float) if low else dcnu
            fcls = flabel
        elif which == 'int-maps':
            # integer-typed non-uniformity maps (values 1 and 2): the same maps as their float copies
            m = rng.integers(1, 3, shape)
            dt = ['int64', 'int32', 'uint8', 'bool'][(it // len(kinds)) % 4]
            if (it // len(kinds)) % 2:
                prnu = m.astype(float) if dt != 'bool' else np.ones(shape)
                dark = p['dark_current'] = args['dark_current'] = 0.0
                args['prnu'] = m.astype(dt) if dt != 'bool' else np.ones(shape, dtype=bool)
                flabel, which_arg = dt, 'prnu'
            else:
                dcnu = m.astype(float) if dt != 'bool' else np.ones(shape)
                args['dcnu'] = m.astype(dt) if dt != 'bool' else np.ones(shape, dtype=bool)
                flabel, which_arg = dt, 'dcnu'
            fcls = 'integer-map' if dt != 'bool' else 'boolean-map'
        elif which == 'scalar-maps':
            v = [1, 1.0, np.float64(1.0), 2, np.int64(2), 0.5][(it // len(kinds)) % 6]
            if (it // len(kinds)) % 2:
                prnu = np.full(shape, float(v))
                dark = p['dark_current'] = args['dark_current'] = 0.0
                args['prnu'], which_arg = v, 'prnu'
            else:
                dcnu = np.full(shape, float(v))
                args['dcnu'], which_arg = v, 'dcnu'
            flabel = type(v).__name__
            fcls = 'scalar'
        elif which == 'frames':
            frames = int(rng.integers(1, 4))
            flabel = ['int', 'np.int64', 'np.int32', 'np.uint8', '0d-int'][(it // len(kinds)) % 5]
            frames_arg = frames if flabel == 'int' else FRAME_FORMS[flabel](frames)
            frames_pos = (it // (5 * len(kinds))) % 2 == 0
            flabel = flabel + ('/positional' if frames_pos else '/keyword')
            fcls = ('numpy-int' if not flabel.startswith('int') else 'int') + ('/positional' if frames_pos else '/keyword')
        elif which == 'construct':
            construct = ['positional', 'keywords-reordered', 'optional-omitted-after-explicit', 'optional-explicit-None'][(it // len(kinds)) % 4]
            flabel = fcls = construct
        if which in ('int-maps', 'scalar-maps'):
            which = which_arg
        desc = {'wl': 'forms-expose', 'argument': which, 'form': flabel, 'bits': bits, 'gain': gain, 'bias': bias, 'fwc': fwc, 't': t, 'dark': dark,
                'shape': list(shape), 'frames': frames, 'class': f'forms:expose:{which}={flabel}'}
        ctx.case(desc)
        key = f'C16/expose/form:{which}={fcls}'
        lo, hi, v_, x_ = ref.expose_ref(img, t, dark, bias, fwc, gain, bits, prnu=prnu, dcnu=dcnu, delta=LOW_DELTA if low else 1e-12)
        out = None
        with noise_free(), ctx.guard(key, desc):
            if construct == 'positional':
                det = detector.Detector(args['dark_current'], args['read_noise'], args['bias'], args['fwc'], args['conversion_gain'], args['bits'],
                                        args['exposure_time'], args.get('prnu'), args.get('dcnu'), None)
            elif construct == 'keywords-reordered':
                det = detector.Detector(lut=None, exposure_time=t, bits=bits, conversion_gain=gain, fwc=fwc, bias=bias, read_noise=0.0, dark_current=dark)
            elif construct == 'optional-omitted-after-explicit':
                # a detector WITH maps and a LUT is built and used first; the next one omits them and must be plain
                d0 = detector.Detector(dark_current=dark + 1, read_noise=0.0, bias=bias, fwc=fwc, conversion_gain=gain, bits=min(bits, 10), exposure_time=t,
                                       prnu=np.full(shape, 0.5), dcnu=np.full(shape, 3.0), lut=np.arange(2 ** min(bits, 10), dtype=np.uint32)[::-1].copy())
                with quiet():
                    d0.expose(img)
                det = detector.Detector(dark_current=dark, read_noise=0.0, bias=bias, fwc=fwc, conversion_gain=gain, bits=bits, exposure_time=t)
            elif construct == 'optional-explicit-None':
                det = detector.Detector(dark_current=dark, read_noise=0.0, bias=bias, fwc=fwc, conversion_gain=gain, bits=bits, exposure_time=t,
                                        prnu=None, dcnu=None, lut=None)
            else:
                det = detector.Detector(**args)
            if frames_pos:
                out = det.expose(img, frames_arg)
            elif which == 'frames':
                out = det.expose(img, frames=frames_arg)
            elif it % 2:
                out = det.expose(img)                      # `frames` omitted == frames=1
            else:
                out = det.expose(aerial_img=img, frames=1)
        if out is None:
            continue
        ctx.observe('forms.expose')
        o = np.asarray(out)
        want_shape = tuple(shape) if frames == 1 else (frames,) + tuple(shape)
        ok = o.shape == want_shape and o.dtype == np.dtype(ref.container(bits))
        if ok:
            oi = o.reshape((frames,) + tuple(shape)).astype(np.int64)
            ok = bool(((oi >= lo[None]) & (oi <= hi[None])).all())
        if not ok:
            # the same case in the canonical forms: when that fails too it is not a form effect (the other workloads key it)
            with quiet(), noise_free():
                d2 = detector.Detector(dark_current=dark, read_noise=0.0, bias=bias, fwc=fwc, conversion_gain=gain, bits=bits, exposure_time=t,
                                       prnu=prnu, dcnu=dcnu)
                try:
                    c = np.asarray(d2.expose(img, frames=frames)).reshape((frames,) + tuple(shape)).astype(np.int64)
                    canon_bad = not bool(((c >= lo[None]) & (c <= hi[None])).all())
                except Exception:  # noqa
                    canon_bad = True
            if canon_bad:
                ctx.event('forms.expose: canonical form fails too (keyed by the expose workload)')
                continue
            ctx.violation(key, f'noise-free exposure with {which} given as {flabel} differs from floor(clip(min(s*t+dark+bias, fwc)/gain, 0, 2^bits-1))',
                          desc, got_dtype=str(o.dtype), got_shape=list(o.shape), got=o.ravel()[-4:], want=hi.ravel()[-4:])


FACTOR_FORMS = {
    'np.int64': lambda f: np.int64(f[0]), 'np.int32': lambda f: np.int32(f[0]), 'np.intp': lambda f: np.intp(f[0]),
    'tuple': lambda f: tuple(f), 'list': lambda f: list(f), 'ndarray-int64': lambda f: np.array(f, dtype=np.int64),
    'ndarray-int32': lambda f: np.array(f, dtype=np.int32), 'tuple-of-np.int64': lambda f: tuple(np.int64(v) for v in f),
    'list-of-mixed-ints': lambda f: [np.int32(v) if i % 2 else int(v) for i, v in enumerate(f)],
}
SCALAR_FACTOR_FORMS = ('np.int64', 'np.int32', 'np.intp')
BIN_MODES = {'avg': ['avg', 'average', 'mean', 'AVG', 'Average', 'MEAN', 'Avg'], 'sum': ['sum', 'SUM', 'Sum']}
TILE_SCALINGS = {'avg': ['avg', 'average', 'mean'], 'sum': ['sum']}


def forms_bin(ctx):
    from prysm import detector
    n_cases = ctx.pick(1200, 40000)
    flabels = list(FACTOR_FORMS)
    for it in range(n_cases):
        if not ctx.mine(it):
            continue
        rng = np.random.default_rng([ctx.seed, 16600, it])
        nd = 1 + it % 3
        which = ['factor', 'factor', 'mode', 'call'][(it // 3) % 4]
        flabel = flabels[(it // 12) % len(flabels)]
        scalar = flabel in SCALAR_FACTOR_FORMS
        f = tuple([int(rng.integers(1, 4))] * nd) if scalar else tuple(int(v) for v in rng.integers(1, 4, nd))
        o = tuple(int(v) for v in rng.integers(1, 5, nd))
        shape = tuple(a * b for a, b in zip(o, f))
        x = rng.integers(-50, 200, shape).astype(float)
        y = rng.integers(-20, 50, o).astype(float)
        nblk = int(np.prod(f))
        farg = FACTOR_FORMS[flabel](f) if which == 'factor' else (f[0] if len(set(f)) == 1 and it % 2 else f)
        red = 'sum' if it % 2 else 'avg'
        mlabel = BIN_MODES[red][(it // 24) % len(BIN_MODES[red])] if which == 'mode' else red
        slabel = TILE_SCALINGS[red][(it // 24) % len(TILE_SCALINGS[red])] if which == 'mode' else red
        call = ['positional', 'keywords', 'omitted-default'][(it // 24) % 3] if which == 'call' else 'positional'
        fcls = {'factor': flabel, 'mode': 'letter-case/synonym', 'call': call}[which]
        desc = {'wl': 'forms-bin', 'argument': which, 'form': {'factor': flabel, 'mode': [mlabel, slabel], 'call': call}[which], 'out': list(o),
                'factor': list(f), 'reduce': red, 'class': f'forms:bin:{which}={fcls}'}
        ctx.case(desc, nontrivial=x.size >= 2)
        want_b = ref.bin_sum_ref(x, f) / (1 if red == 'sum' else nblk)
        want_t = ref.tile_ref(y, f) / (nblk if red == 'sum' else 1)
        kb = f'C16/bindown/form:{which}={fcls}'
        kt = f'C16/tile/form:{which}={fcls}'
        with ctx.guard(kb, desc):
            if call == 'keywords':
                b = detector.bindown(array=x, factor=farg, mode=mlabel)
            elif call == 'omitted-default':
                detector.bindown(x, farg, 'sum')                      # an explicit non-default value first
                b = detector.bindown(x, farg)                         # documented default: 'avg'
                want_b = ref.bin_sum_ref(x, f) / nblk
            else:
                b = detector.bindown(x, farg, mlabel)
            ctx.close('forms.bindown', np.asarray(b, dtype=float), want_b, kb, f'bindown with {which} given as {desc["form"]} is not the block '
                      f'{"sum" if red == "sum" and call != "omitted-default" else "mean"}', desc, rtol=1e-12, atol=1e-9)
        with ctx.guard(kt, desc):
            if call == 'keywords':
                tl = detector.tile(array=y, factor=farg, scaling=slabel)
            elif call == 'omitted-default':
                detector.tile(y, farg, 'avg')
                tl = detector.tile(y, farg)                           # documented default: 'sum'
                want_t = ref.tile_ref(y, f) / nblk
            else:
                tl = detector.tile(y, farg, slabel)
            ctx.close('forms.tile', np.asarray(tl, dtype=float), want_t, kt, f'tile with {which} given as {desc["form"]} is not the repeated array'
                      ' (over prod(factor) in sum scaling)', desc, rtol=1e-12, atol=1e-12)


CFA_ANYCASE = {'rggb': ['RGGB', 'Rggb', 'rGgB'], 'bggr': ['BGGR', 'Bggr', 'bGGr']}


def forms_bayer(ctx):
    from prysm import bayer
    n_cases = ctx.pick(600, 20000)
    for it in range(n_cases):
        if not ctx.mine(it):
            continue
        rng = np.random.default_rng([ctx.seed, 16700, it])
        cfa = ('rggb', 'bggr')[it % 2]
        which = ['cfa-case', 'cfa-omitted', 'call', 'gains', 'saturation'][(it // 2) % 5]
        if which == 'cfa-omitted':
            cfa = 'rggb'
        shape = (2 * int(rng.integers(1, 6)), 2 * int(rng.integers(1, 6)))
        m = rng.uniform(1, 1000, shape)
        m0 = m.copy()
        cfa_arg = CFA_ANYCASE[cfa][(it // 10) % 3] if which == 'cfa-case' else cfa
        desc = {'wl': 'forms-bayer', 'argument': which, 'shape': list(shape), 'cfa': cfa, 'cfa_arg': cfa_arg, 'class': f'forms:bayer:{which}'}
        ctx.case(desc)
        planes = [np.array(ref.site(m, cfa, c_)) for c_ in ('r', 'g1', 'g2', 'b')]
        dense = [rng.uniform(1, 9, shape) for _ in range(4)]
        g = [float(v) for v in rng.uniform(0.3, 3.0, 4)]
        key = f'C16/bayer/form:{which}'
        with ctx.guard(key, desc):
            ctx.observe('forms.bayer')
            if which in ('cfa-case', 'cfa-omitted'):
                kw = {} if which == 'cfa-omitted' else {'cfa': cfa_arg}
                # an explicit other layout first: a default resolved from module state would now be stale
                other = 'bggr' if cfa == 'rggb' else 'rggb'
                bayer.recomposite_bayer(*planes, cfa=other)
                bayer.demosaic_malvar(m, other)
                back = bayer.recomposite_bayer(*planes, **kw)
                ctx.equal('forms.bayer', back, m0, key + '/recomposite_bayer', f'recomposite_bayer with cfa {cfa_arg if kw else "omitted"} does not put '
                          'the planes at their native sites', desc)
                comp = bayer.composite_bayer(*dense, **kw)
                wantc = np.empty(shape)
                for c_, dn in zip(('r', 'g1', 'g2', 'b'), dense):
                    r0, c0 = ref.SITES[cfa][c_]
                    wantc[r0::2, c0::2] = dn[r0::2, c0::2]
                ctx.equal('forms.bayer', comp, wantc, key + '/composite_bayer', 'composite_bayer does not take each colour from its plane at the '
                          'native site', desc)
                rgb = bayer.demosaic_malvar(m, **kw)                 # the contract decides (native sites unchanged)
                ok = all(np.array_equal(ref.site(rgb[..., ch], cfa, c_), ref.site(m0, cfa, c_)) for c_, ch in (('r', 0), ('g1', 1), ('g2', 1), ('b', 2)))
                ctx.require('forms.bayer', ok, key + '/demosaic_malvar', 'demosaic_malvar changes raw samples at their native sites', desc)
                mm = m.copy()
                bayer.wb_prescale(mm, *g, **kw)
                wantw = m0.copy()
                for c_, gg in zip(('r', 'g1', 'g2', 'b'), g):
                    r0, c0 = ref.SITES[cfa][c_]
                    wantw[r0::2, c0::2] *= gg
                ctx.close('forms.bayer', mm, wantw, key + '/wb_prescale', 'wb_prescale does not apply each gain at its native site', desc, rtol=1e-14)
                if which == 'cfa-omitted':
                    pl = bayer.decomposite_bayer(m)
                    ok = all(np.array_equal(a_, b_) for a_, b_ in zip(pl, planes))
                    ctx.require('forms.bayer', ok, key + '/decomposite_bayer', 'decomposite_bayer with cfa omitted is not the rggb decomposition', desc)
                    di = bayer.demosaic_deinterlace(m)
                    ok = np.array_equal(di[..., 0], planes[0]) and np.array_equal(di[..., 2], planes[3])
                    ctx.require('forms.bayer', ok, key + '/demosaic_deinterlace', 'demosaic_deinterlace with cfa omitted is not the rggb result', desc)
            elif which == 'call':
                pl = bayer.decomposite_bayer(img=m, cfa=cfa)
                ok = all(np.array_equal(a_, b_) for a_, b_ in zip(pl, planes))
                ctx.require('forms.bayer', ok, key + '/decomposite_bayer', 'decomposite_bayer by keyword is not the native-site decomposition', desc)
                back = bayer.recomposite_bayer(planes[0], planes[1], planes[2], planes[3], cfa)
                back2 = bayer.recomposite_bayer(b=planes[3], g2=planes[2], g1=planes[1], r=planes[0], cfa=cfa, output=None)
                ctx.equal('forms.bayer', back, m0, key + '/recomposite_bayer', 'recomposite_bayer (positional cfa) != mosaic', desc)
                ctx.equal('forms.bayer', back2, m0, key + '/recomposite_bayer', 'recomposite_bayer (all keywords) != mosaic', desc)
                r1 = bayer.demosaic_malvar(img=m, cfa=cfa)
                r2 = bayer.demosaic_malvar(m, cfa)
                ctx.equal('forms.bayer', r1, r2, key + '/demosaic_malvar', 'demosaic_malvar keyword form != positional form', desc)
                d1 = bayer.demosaic_deinterlace(img=m, cfa=cfa)
                d2 = bayer.demosaic_deinterlace(m, cfa)
                ctx.equal('forms.bayer', d1, d2, key + '/demosaic_deinterlace', 'demosaic_deinterlace keyword form != positional form', desc)
                ma, mb = m.copy(), m.copy()
                bayer.wb_prescale(ma, g[0], g[1], g[2], g[3], cfa, False, None)
                bayer.wb_prescale(mosaic=mb, wb=g[3], wg2=g[2], wg1=g[1], wr=g[0], cfa=cfa)
                ctx.equal('forms.bayer', ma, mb, key + '/wb_prescale', 'wb_prescale positional form != keyword form', desc)
            elif which == 'gains':
                # white-balance gains as python int / numpy scalars: the same numbers
                gi = [float(int(rng.integers(1, 4))) for _ in range(4)]
                form = ['int', 'np.float64', 'np.int64', 'np.float32'][(it // 10) % 4]
                conv = {'int': int, 'np.float64': np.float64, 'np.int64': np.int64, 'np.float32': np.float32}[form]
                ma, mb = m.copy(), m.copy()
                bayer.wb_prescale(ma, *gi, cfa=cfa)
                bayer.wb_prescale(mb, *[conv(v) for v in gi], cfa=cfa)
                ctx.close('forms.bayer', mb, ma, key + '/wb_prescale', f'wb_prescale with gains given as {form} differs from python floats', desc, rtol=1e-14)
                ra = np.stack([m, m * 0.5, m * 2], axis=-1)
                rb = ra.copy()
                bayer.wb_postscale(ra, *gi[:3])
                bayer.wb_postscale(rb, *[conv(v) for v in gi[:3]])
                ctx.close('forms.bayer', rb, ra, key + '/wb_postscale', f'wb_postscale with gains given as {form} differs from python floats', desc, rtol=1e-14)
            else:
                # saturation level: scalar (python / numpy) or per-channel sequence (list / tuple / ndarray)
                sat = float(rng.uniform(0.2, 0.9) * m.max())
                form = ['np.float64', 'int', 'list', 'tuple', 'ndarray'][(it // 10) % 5]
                if form == 'int':
                    sat = float(int(sat) + 1)
                sarg4 = {'np.float64': np.float64(sat), 'int': int(sat), 'list': [sat] * 4, 'tuple': (sat,) * 4, 'ndarray': np.full(4, sat)}[form]
                sarg3 = {'np.float64': np.float64(sat), 'int': int(sat), 'list': [sat] * 3, 'tuple': (sat,) * 3, 'ndarray': np.full(3, sat)}[form]
                ma, mb = m.copy(), m.copy()
                bayer.wb_prescale(ma, *g, cfa=cfa, safe=True, saturation=sat)
                bayer.wb_prescale(mb, *g, cfa=cfa, safe=True, saturation=sarg4)
                ctx.close('forms.bayer', mb, ma, key + '/wb_prescale', f'safe wb_prescale with the saturation given as {form} differs from a python float',
                          desc, rtol=1e-14)
                ra = np.stack([m, m * 0.5, m * 2], axis=-1)
                rb = ra.copy()
                bayer.wb_postscale(ra, *g[:3], safe=True, saturation=sat)
                bayer.wb_postscale(rb, *g[:3], safe=True, saturation=sarg3)
                ctx.close('forms.bayer', rb, ra, key + '/wb_postscale', f'safe wb_postscale with the saturation given as {form} differs from a python float',
                          desc, rtol=1e-14)
            ctx.require('bayer.input-untouched', np.array_equal(m, m0), f'C16/bayer/{cfa}/input-mutated', 'a Bayer routine modified the mosaic it was given', desc)


def foreign_traffic(ctx):
    """Class F prelude: other public consumers of what the sensor routines share (the module-level colour-site slices of
    prysm.bayer through assemble_superresolved, apply_lut, the analytic pixel / OLPF transfer functions, the random generator
    behind the mathops shim, config.precision) with non-default arguments.  Nothing is judged; a failure is only counted."""
    from prysm import bayer, detector
    rng = np.random.default_rng([ctx.seed, 16800, ctx.shard])
    with quiet():
        for prec in (32, 64):
            with precision(prec):
                try:
                    m = rng.uniform(1, 9, (6, 8)).astype(np.float32 if prec == 32 else float)
                    pl = bayer.decomposite_bayer(m, 'rggb')
                    bayer.assemble_superresolved(*pl, zoomfactor=2, cfa='rggb')
                    detector.apply_lut(rng.integers(0, 16, (3, 4)).astype(np.uint8), np.arange(16, dtype=np.uint16)[::-1])
                    fx = np.linspace(-1, 1, 8)
                    detector.pixel_ft(fx, fx[:, None], 2.0, 3.0)
                    detector.olpf_ft(fx, fx[:, None], 1.0, 0.5)
                    detector.Detector(5.0, 3.0, 100, 1e4, 0.5, 12, 0.1, prnu=np.full((3, 4), 0.9), dcnu=np.full((3, 4), 1.1)).expose(
                        rng.uniform(0, 1e5, (3, 4)), 3)
                    detector.tile(detector.bindown(m, (3, 2), 'sum'), (3, 2), 'avg')
                    ctx.event('foreign-traffic prelude completed')
                except Exception as e:  # noqa
                    ctx.event(f'foreign-traffic prelude: {type(e).__name__} (not judged)')


def forms_workload(ctx):
    foreign_traffic(ctx)
    forms_expose(ctx)
    forms_bin(ctx)
    forms_bayer(ctx)
    ctx.note('forms', 'class E: Detector construction / expose / bindown / tile / Bayer argument forms (tables SCALAR_FORMS, BITS_FORMS, FRAME_FORMS, '
             'PRNU_FORMS, DCNU_FORMS, FACTOR_FORMS, BIN_MODES, TILE_SCALINGS, CFA_ANYCASE), one argument at a time off its canonical form')


# ------------------------------------------------------------------------------------------ magnitudes / special values / sizes
# (hardening pass 3: classes G, H, I)
DECADES = [1e-9, 1e-6, 1e-3, 1.0, 1e3, 1e6, 1e9]


def regime(s):
    return 'tiny' if s < 1e-2 else 'huge' if s > 1e2 else 'unit'


def _nf_run(p, img, frames, prnu=None, dcnu=None, delta=1e-12, monotonic=False, prec=64):
    """One noise-free exposure by a fresh Detector(**p) -> (out or None, bad?) judged against the reference model."""
    from prysm import detector
    det = detector.Detector(dark_current=p['dark'], read_noise=0.0, bias=p['bias'], fwc=p['fwc'], conversion_gain=p['gain'], bits=p['bits'],
                            exposure_time=p['t'], prnu=prnu, dcnu=dcnu)
    lo, hi, v, x = ref.expose_ref(np.asarray(img, dtype=float), p['t'], p['dark'], p['bias'], p['fwc'], p['gain'], p['bits'], prnu=prnu, dcnu=dcnu,
                                  delta=delta)
    with precision(prec), noise_free():
        o = np.asarray(det.expose(img, frames=frames))
    if o.size != frames * np.size(img):
        return o, True
    oi = o.reshape((frames,) + tuple(np.shape(img))).astype(np.int64)
    bad = not bool(((oi >= lo[None]) & (oi <= hi[None])).all())
    if monotonic and (np.diff(v.ravel()) >= 0).all():
        bad = bad or bool((np.diff(oi.reshape(frames, -1), axis=1) < 0).any())
    return o, bad


def scaled_params(p, s, tau):
    """The same exposure in other units: electrons counted in units of 1/s (signal, dark, bias, full well and gain all scale by s),
    time in units of 1/tau (exposure time scales by tau, the rates by 1/tau).  The DN must not change."""
    return {'bits': p['bits'], 'gain': p['gain'] * s, 'bias': p['bias'] * s, 'fwc': p['fwc'] * s, 't': p['t'] * tau, 'dark': p['dark'] * s / tau}


def expose_magnitudes(ctx):
    """Class G.  (a) unit-rescaled twins of the ramp / dark / prnu exposure classes: the electron unit scaled by 1e-9 .. 1e9
    (fractional electrons: full wells and signals far below one electron; huge: 1e15 e-) and the time unit by 1e-9 .. 1e9, judged
    by the noise-free model of the scaled parameters and against the DN of the unscaled twin; (b) wide photo-response maps
    (entries 0.01 .. 3) under 4x .. 1000x over-exposure: a dim pixel must keep responding until ITS charge reaches full well."""
    bits_list = ctx.pick([1, 8, 10, 12, 16, 24, 25, 32], list(range(1, 33)))
    reps = ctx.pick(2, 240)
    k = -1
    for rep in range(reps):
        for bits in bits_list:
            for si, s in enumerate(DECADES):
                for cls in ('ramp/fwc-above-adc', 'ramp/fwc-below-adc', 'dark+dcnu', 'prnu-2d'):
                    k += 1
                    if not ctx.mine(k):
                        continue
                    rng = np.random.default_rng([ctx.seed, 16900, k])
                    tau = DECADES[(si + rep + bits + k // 7) % len(DECADES)]
                    if s == 1.0 and tau == 1.0:
                        tau = 1e-6
                    imgdt, prec = EXPOSE_CFGS[(rep + si) % 4] if k % 3 == 0 else EXPOSE_CFGS[0]
                    cap = 2 ** bits - 1
                    gain = float(10 ** rng.uniform(-1, np.log10(50)))
                    t = float(10 ** rng.uniform(-1, 1))
                    sat_e = cap * gain
                    bias = float(rng.uniform(0, 0.2) * sat_e)
                    fwc = sat_e * float(rng.uniform(3, 100)) + 1e3 + bias
                    if cls == 'ramp/fwc-below-adc':
                        fwc = bias + max(sat_e - bias, gain) * float(rng.uniform(0.2, 0.9))
                    shape = [(2, 4), (3, 3), (4, 4), (1, 6), (5, 1)][int(rng.integers(5))]
                    n = shape[0] * shape[1]
                    s_sat = max(min(fwc, sat_e) - bias, gain) / t
                    frames = 1 + (k // 5) % 3
                    dark, dcnu, prnu = 0.0, None, None
                    if cls.startswith('ramp'):
                        vals = [0.0, 0.5 * s_sat, (cap * gain - bias) / t, ((cap + 1) * gain - bias) / t * 1.5, 100 * s_sat, (fwc - bias) / t]
                        vals = [max(0.0, float(q)) for q in vals][:n]
                        img = np.sort(np.array(vals + list(rng.uniform(0, 1.3, n - len(vals)) * s_sat))).reshape(shape)
                    else:
                        img = rng.uniform(0, 2.0, shape) * s_sat
                        img.flat[0] = 0.0
                    if cls == 'dark+dcnu':
                        dark = float(rng.uniform(0, 0.3) * s_sat)
                        dcnu = rng.uniform(0.5, 1.5, shape)
                    if cls == 'prnu-2d':
                        prnu = rng.uniform(0.8, 1.2, shape)
                    p0 = {'bits': bits, 'gain': gain, 'bias': bias, 'fwc': fwc, 't': t, 'dark': dark}
                    p1 = scaled_params(p0, s, tau)
                    img1 = img * (s / tau)
                    if imgdt == 'float32':
                        img1 = img1.astype(np.float32)
                        dcnu = None if dcnu is None else dcnu.astype(np.float32)
                        prnu = None if prnu is None else prnu.astype(np.float32)
                    low = prec == 32 or imgdt == 'float32'
                    delta = LOW_DELTA if low else 1e-11
                    mono = cls.startswith('ramp')
                    desc = {'wl': 'expose-magnitudes', 'bits': bits, 'cls': cls, 'electron_unit': s, 'time_unit': tau, 'gain': p1['gain'], 'bias': p1['bias'],
                            'fwc': p1['fwc'], 't': p1['t'], 'dark': p1['dark'], 'frames': frames, 'shape': list(shape), 'img_dtype': imgdt, 'precision': prec,
                            'class': f'expose-scale:{cls}:electrons-{regime(s)}:time-{regime(tau)}:bits={bits}'}
                    ctx.case(desc, nontrivial=n >= 2)
                    out = bad = None

                    def label(p0=p0, img=img, s=s, tau=tau, frames=frames, prnu=prnu, dcnu=dcnu, mono=mono, imgdt=imgdt, prec=prec, delta=delta, img1=img1):
                        """key of a failure (only called on one): the unscaled twin in the SAME configuration fails too -> the ordinary model key
                        (with the configuration label when it is configuration specific); else the unit change that alone reproduces it"""
                        cast = (lambda a: a.astype(np.float32)) if imgdt == 'float32' else (lambda a: a)
                        try:
                            with quiet():
                                if _nf_run(p0, cast(img), frames, prnu, dcnu, delta, mono, prec)[1]:
                                    with precision(prec):
                                        return cfg_key('C16/expose/noise-free-model', img1)
                                if s != 1.0 and _nf_run(scaled_params(p0, s, 1.0), cast(img * s), frames, prnu, dcnu, delta, mono, prec)[1]:
                                    return f'C16/expose/scale:electrons-{regime(s)}/noise-free-model'
                                if tau != 1.0 and _nf_run(scaled_params(p0, 1.0, tau), cast(img / tau), frames, prnu, dcnu, delta, mono, prec)[1]:
                                    return f'C16/expose/scale:time-{regime(tau)}/noise-free-model'
                        except Exception:  # noqa
                            pass
                        return f'C16/expose/scale:electrons-{regime(s)}+time-{regime(tau)}/noise-free-model'
                    with ctx.guard('C16/expose/scale', desc):
                        with deferred(ctx, img1, lambda: True):
                            out, bad = _nf_run(p1, img1, frames, prnu, dcnu, delta, mono, prec)
                        ctx.observe('expose.scale-law')
                        if bad:
                            ctx.violation(label(), 'noise-free exposure in rescaled units (electron unit x s, time unit x tau: '
                                          'signal, dark current, bias, full well, gain and exposure time rescaled together) differs from '
                                          'floor(clip(min(s*t+dark+bias, fwc)/gain, 0, 2^bits-1))', desc)
                            continue
                        # the unscaled twin must give the same DN wherever neither is within round-off of an integer boundary
                        o0, bad0 = _nf_run(p0, img if imgdt == 'float64' else img.astype(np.float32), frames,
                                           prnu, dcnu, delta, mono, prec)
                        if not bad0:
                            lo0, hi0, _, _ = ref.expose_ref(img, t, dark, bias, fwc, gain, bits, prnu=prnu, dcnu=dcnu, delta=max(delta, 1e-9))
                            sure = (lo0 == hi0)[None] if frames > 1 else (lo0 == hi0)
                            same = np.array_equal(np.asarray(out)[np.broadcast_to(sure, np.shape(out))], np.asarray(o0)[np.broadcast_to(sure, np.shape(o0))])
                            ctx.require('expose.scale-law', same or low, f'C16/expose/scale:electrons-{regime(s)}+time-{regime(tau)}/dn-depends-on-units',
                                        'the DN of the same exposure expressed in other units (electrons x s, seconds x tau) differ', desc)
    # (b) wide prnu under gross over-exposure
    k = -1
    for rep in range(ctx.pick(6, 2000)):
        for bits in bits_list:
            k += 1
            if not ctx.mine(k):
                continue
            rng = np.random.default_rng([ctx.seed, 16901, k])
            cap = 2 ** bits - 1
            gain = float(10 ** rng.uniform(-1, 1.5))
            t = float(10 ** rng.uniform(-1, 1))
            sat_e = cap * gain
            bias = float(rng.uniform(0, 0.1) * sat_e)
            below = k % 2 == 0
            fwc = bias + max(sat_e - bias, gain) * float(rng.uniform(0.3, 0.9)) if below else sat_e * float(rng.uniform(2, 50)) + bias + 10
            shape = [(3, 4), (4, 4), (2, 6), (1, 8)][int(rng.integers(4))]
            n = shape[0] * shape[1]
            prnu = 10 ** rng.uniform(-2, np.log10(3.0), shape)
            prnu.flat[0], prnu.flat[1], prnu.flat[-1] = 0.01, 0.02, 3.0
            # charge before the response map, in units of the full well above the bias: 0 .. 1000 x (so that prnu * over covers both sides of saturation)
            over = 10 ** rng.uniform(-1, 3, shape)
            over.flat[0], over.flat[1], over.flat[2] = 50.0, 30.0, 4.0 + 1e-3
            img = over * max(fwc - bias, gain) / t
            flat = k % 3 == 1
            parg = prnu.ravel().copy() if flat else prnu
            frames = 1 + k % 2
            imgdt, prec = EXPOSE_CFGS[(k // 2) % 4] if k % 4 == 3 else EXPOSE_CFGS[0]
            if imgdt == 'float32':
                img, parg, prnu = img.astype(np.float32), parg.astype(np.float32), prnu.astype(np.float32)
            low = prec == 32 or imgdt == 'float32'
            p = {'bits': bits, 'gain': gain, 'bias': bias, 'fwc': fwc, 't': t, 'dark': 0.0}
            desc = {'wl': 'expose-prnu-wide', 'bits': bits, 'gain': gain, 'bias': bias, 'fwc': fwc, 't': t, 'frames': frames, 'shape': list(shape),
                    'prnu_range': [float(prnu.min()), float(prnu.max())], 'over_exposure_max': float(over.max()), 'prnu_form': 'flat' if flat else '2d',
                    'img_dtype': imgdt, 'precision': prec, 'class': f'expose-scale:prnu-wide/over-exposed:{"fwc-below-adc" if below else "fwc-above-adc"}:bits={bits}'}
            ctx.case(desc)
            with ctx.guard('C16/expose/scale:prnu-wide+over-exposed', desc):
                with deferred(ctx, img, lambda: True):
                    out, bad = _nf_run(p, img, frames, parg, None, LOW_DELTA if low else 1e-11, False, prec)
                ctx.observe('expose.prnu-wide')
                if bad:
                    # the same exposure with a mild map and without over-exposure: if that fails too it is not this regime
                    try:
                        with quiet():
                            mild = _nf_run(p, np.minimum(np.asarray(img, dtype=float), 2.0 * max(fwc - bias, gain) / t), frames,
                                           np.clip(np.asarray(prnu, dtype=float), 0.8, 1.2), None, 1e-11)[1]
                    except Exception:  # noqa
                        mild = False
                    ctx.violation('C16/expose/noise-free-model' if mild else 'C16/expose/scale:prnu-wide+over-exposed/noise-free-model',
                                  'noise-free exposure with a wide photo-response map (0.01 .. 3) under 4x .. 1000x over-exposure differs from '
                                  'floor(clip(min(s*t*prnu+bias, fwc)/gain, 0, 2^bits-1)): a dim pixel stops responding before its own charge reaches full well, '
                                  'or a bright one is not limited', desc)
    ctx.note('expose_magnitudes', {'electron_units': DECADES, 'time_units': DECADES, 'bits': bits_list, 'prnu': '0.01 .. 3 with over-exposure up to 1000 x'})


SPECIAL_BITS = [1, 8, 16, 24, 25, 32]
SPECIAL_FWC = ['adc-full-scale', 'adc-full-scale+1lsb', 'adc-full-scale+half-lsb', 'adc-full-scale-half-lsb', 'above-adc', 'below-adc']


def expose_specials(ctx):
    """Class H.  Exact coincidences, in exact arithmetic: gain and exposure time powers of two (gain exactly 1 first), bias 0 or a
    multiple of the gain, full well exactly at ADC full scale (and one / half an LSB either side), pixels exactly at 0, at half an
    LSB, at the full well, at ADC full scale and one LSB above it.  Every product and quotient the model needs is exact in binary
    floating point, so the noise-free DN must equal floor(clip(min(x, fwc)/gain, 0, 2^bits-1)) exactly -- no boundary allowance."""
    bits_list = SPECIAL_BITS + ctx.pick([2, 12], [b for b in range(1, 33) if b not in SPECIAL_BITS])
    k = -1
    for rep in range(ctx.pick(1, 40)):
        for bits in bits_list:
            for gain in (1.0, 2.0, 0.5, 0.25, 4.0):
                for fcls in SPECIAL_FWC:
                    k += 1
                    if not ctx.mine(k):
                        continue
                    rng = np.random.default_rng([ctx.seed, 16902, k])
                    cap = 2 ** bits - 1
                    t = [1.0, 2.0, 0.5][(k // 3) % 3] if rep or gain != 1.0 else 1.0
                    bias = [0.0, gain, 3 * gain][(k // 2) % 3] if cap > 8 else 0.0
                    fs = cap * gain                                       # electrons at ADC full scale
                    if fcls == 'below-adc' and cap < 4:
                        fcls = 'adc-full-scale'
                    fwc = {'adc-full-scale': fs, 'adc-full-scale+1lsb': fs + gain, 'adc-full-scale+half-lsb': fs + gain / 2,
                           'adc-full-scale-half-lsb': fs - gain / 2, 'above-adc': 4 * fs + gain / 2,
                           'below-adc': bias + gain * (max(1, (cap - int(bias / gain)) // 2) + 0.5)}[fcls]
                    # electrons x (dyadic, exactly representable) and what each pixel is
                    pix = [('x=0', bias), ('x=half-lsb', bias + gain / 2), ('x=1lsb', bias + gain), ('x=fwc', fwc), ('x=fwc-half-lsb', fwc - gain / 2),
                           ('x=fwc+half-lsb', fwc + gain / 2), ('x=adc-full-scale', fs), ('x=adc-full-scale+1lsb', fs + gain),
                           ('x=adc-full-scale+half-lsb', fs + gain / 2), ('x=adc-full-scale-half-lsb', fs - gain / 2), ('x=2*adc-full-scale', 2 * fs + gain),
                           ('x=mid', bias + gain * (cap // 2) + gain / 4)]
                    pix = [(l_, x_) for l_, x_ in pix if x_ >= bias]
                    order = np.argsort([x_ for _, x_ in pix], kind='stable')
                    pix = [pix[i] for i in order]
                    xs = np.array([x_ for _, x_ in pix])
                    img = (xs - bias) / t
                    shape = (1, len(pix)) if k % 2 else (len(pix), 1)
                    if len(pix) % 2 == 0 and k % 4 == 0:
                        shape = (2, len(pix) // 2)
                    img = img.reshape(shape)
                    integer_img = k % 5 == 0 and t == 1.0 and gain >= 1 and bool((img == np.floor(img)).all()) and img.max() < 2 ** 62
                    imgarg = img.astype(np.int64) if integer_img else img
                    frames = 1 + (k // 7) % 2
                    want = np.floor(np.clip(np.minimum(xs, fwc) / gain, 0, cap)).astype(np.int64).reshape(shape)
                    exact = bool((((xs - bias) / t) * t + bias == xs).all())        # sanity of the construction (always true for dyadic values)
                    desc = {'wl': 'expose-special', 'bits': bits, 'gain': gain, 't': t, 'bias': bias, 'fwc': fwc, 'fwc_class': fcls, 'frames': frames,
                            'shape': list(shape), 'img_dtype': str(imgarg.dtype), 'class': f'expose-special:{fcls}:gain={gain}:bits={bits}'}
                    ctx.case(desc)
                    if not exact:
                        ctx.skip('expose-special: construction not exact in binary floating point')
                        continue
                    p = {'bits': bits, 'gain': gain, 'bias': bias, 'fwc': fwc, 't': t, 'dark': 0.0}
                    with ctx.guard('C16/expose/special', desc):
                        with deferred(ctx, imgarg, lambda: True):
                            out, bad = _nf_run(p, imgarg, frames, None, None, 1e-12, True)
                        ctx.observe('expose.special-values')
                        if bad:
                            # outside even the boundary allowance: the ordinary model key unless only the special values show it
                            r2 = np.random.default_rng(k)
                            try:
                                with quiet():
                                    generic = _nf_run(dict(p, gain=gain * 1.37, fwc=fwc * 1.11 + 0.3, bias=bias + 0.21),
                                                      np.sort(r2.uniform(0, 3 * fs / t + 1, 12)).reshape(3, 4), frames, None, None, 1e-12, True)[1]
                            except Exception:  # noqa
                                generic = False
                            ctx.violation('C16/expose/noise-free-model' if generic else f'C16/expose/special:fwc={fcls}/noise-free-model',
                                          'noise-free exposure at exact coincidences (gain / time powers of two, full well at ADC full scale +- an LSB, pixels '
                                          'exactly at 0 / full well / ADC full scale) differs from the model by more than the boundary allowance', desc)
                            continue
                        o = np.asarray(out).reshape((frames,) + shape).astype(np.int64)
                        neq = (o != want[None])
                        if neq.any():
                            i = int(np.argmax(neq.any(axis=0).ravel()))
                            ctx.violation(f'C16/expose/special:{pix[i][0]}/exact-dn', f'with exact arithmetic (gain, exposure time powers of two) the pixel {pix[i][0]} '
                                          'does not read floor(clip(min(x, fwc)/gain, 0, 2^bits-1))', desc, got=int(o[0].ravel()[i]), want=int(want.ravel()[i]),
                                          pixel=pix[i][0])
    ctx.note('expose_specials', {'bits': bits_list, 'gain': [1.0, 2.0, 0.5, 0.25, 4.0], 'fwc': SPECIAL_FWC})


def expose_frames(ctx):
    """Class I.  Every frame count 1 .. 8 (thorough .. 16) with image shapes whose rows / columns equal the frame count (a (3, 3, 3)
    stack is ambiguous with a transposed one), 1 x N and N x 1 lines: noise-free stacks judged by the model frame by frame, all
    frames of one noise-free stack equal, the documented shape (contract), and noisy stacks through the range contract."""
    from prysm import detector
    k = -1
    for frames in range(1, ctx.pick(8, 16) + 1):
        for shape in [(frames, frames), (frames, 5), (4, frames), (1, max(frames, 2)), (max(frames, 2), 1), (2, 2), (3, 3), (8, 8), (frames + 1, frames)]:
            for cls in ('ramp', 'dark+dcnu', 'prnu-flat', 'prnu-2d', 'noisy'):
                k += 1
                if not ctx.mine(k):
                    continue
                rng = np.random.default_rng([ctx.seed, 16903, k])
                bits = int([8, 12, 16, 24, 1, 32][k % 6])
                cap = 2 ** bits - 1
                gain = float(10 ** rng.uniform(-0.5, 1))
                bias = float(rng.uniform(0, 0.1) * cap * gain)
                fwc = cap * gain * float(rng.uniform(2, 9)) + 10 if k % 2 else bias + max(cap * gain - bias, gain) * 0.7
                t = float(10 ** rng.uniform(-1, 0.5))
                n = shape[0] * shape[1]
                s_sat = max(min(fwc, cap * gain) - bias, gain) / t
                img = np.sort(rng.uniform(0, 2.5, n)).reshape(shape) * s_sat
                img.flat[0] = 0.0
                dark, dcnu, prnu = 0.0, None, None
                if cls == 'dark+dcnu':
                    dark, dcnu = float(rng.uniform(0, 0.2) * s_sat), rng.uniform(0.5, 1.5, shape)
                if cls == 'prnu-flat':
                    prnu = rng.uniform(0.7, 1.3, n)
                if cls == 'prnu-2d':
                    prnu = rng.uniform(0.7, 1.3, shape)
                scls = 'frames=1' if frames == 1 else 'frames=rows=cols' if shape == (frames, frames) else 'frames=rows' if shape[0] == frames else \
                    'frames=cols' if shape[1] == frames else 'frames>1'
                desc = {'wl': 'expose-frames', 'frames': frames, 'shape': list(shape), 'cls': cls, 'bits': bits, 'gain': gain, 'bias': bias, 'fwc': fwc, 't': t,
                        'dark': dark, 'class': f'expose-frames:{cls}:{scls}'}
                ctx.case(desc, nontrivial=n >= 2)
                p = {'bits': bits, 'gain': gain, 'bias': bias, 'fwc': fwc, 't': t, 'dark': dark}
                farg = [frames, np.int64(frames)][k % 2]
                with ctx.guard(f'C16/expose/size:{scls}', desc):
                    if cls == 'noisy':
                        det = detector.Detector(dark_current=0.01 * s_sat, read_noise=3 * gain, bias=bias, fwc=fwc, conversion_gain=gain, bits=bits, exposure_time=t)
                        with seeded_numpy(int(rng.integers(2 ** 31 - 1))):
                            det.expose(img * 0.4, farg) if k % 4 < 2 else det.expose(img * 0.4, frames=farg)     # the contract decides
                        ctx.observe('expose.frames')
                        continue
                    with deferred(ctx, img, lambda: True):
                        out, bad = _nf_run(p, img, farg, prnu, dcnu, 1e-12, cls == 'ramp')
                    ctx.observe('expose.frames')
                    if bad:
                        try:
                            with quiet():
                                one = _nf_run(p, np.sort(img.ravel()).reshape(1, -1) if n > 1 else img, 1, None if prnu is None else np.ravel(prnu),
                                              None if dcnu is None else dcnu.reshape(1, -1), 1e-12)[1]
                        except Exception:  # noqa
                            one = False
                        ctx.violation('C16/expose/noise-free-model' if one else f'C16/expose/size:{scls}/noise-free-model',
                                      f'noise-free stack of {frames} frames of a {shape} image differs from the model (frame count vs image shape)', desc)
                        continue
                    o = np.asarray(out).reshape((frames,) + shape)
                    ctx.require('expose.frames', bool((o == o[:1]).all()), f'C16/expose/size:{scls}/frames-differ',
                                'the frames of one noise-free stack are not all equal', desc)
    ctx.note('expose_frames', f'frame counts 1..{ctx.pick(8, 16)} x shapes with rows / columns equal to the frame count x 5 exposure classes')


def bin_structural(ctx):
    """Classes I and G for bindown / tile.  Structure: every axis length L in a table (1 .. 64, thorough also 128, 500, 512, 997) with the
    factor on that axis exactly 1, exactly L (the axis collapses to one sample) and a proper divisor, in 1-D, all pairs in 2-D, sampled
    in 3-D; tile with factor 1 and large factors.  Magnitude: the data are integer-valued samples times s, s = 1e-12 .. 1e12 (powers of
    two near those decades, so the scaling is exact): block sums / means / repeats must be s times the reference of the unscaled data."""
    from prysm import detector
    lengths = [1, 2, 3, 4, 6, 7, 8, 12, 13, 16, 64] + ctx.pick([], [128, 500, 512, 997])
    s_list = [2.0 ** e for e in (-40, -30, -20, -10, 0, 10, 20, 30, 40)]          # 9e-13 .. 1.1e12

    def facs(L):
        out = [1, L]
        d = next((q for q in range(2, L) if L % q == 0), None)
        if d:
            out += [d, L // d] if L // d != d else [d]
        return list(dict.fromkeys(out))
    cases = [((L,), (f,)) for L in lengths for f in facs(L)]
    cases += [((a, b), (fa, fb)) for a in lengths for b in lengths if a * b <= ctx.pick(4096, 70000) for fa in facs(a) for fb in facs(b)]
    rs = np.random.default_rng([ctx.seed, 16904])
    small = [L for L in lengths if L <= 16]
    for _ in range(ctx.pick(150, 30000)):
        sh = tuple(int(small[int(i)]) for i in rs.integers(0, len(small), 3))
        cases.append((sh, tuple(int(facs(L)[int(rs.integers(len(facs(L))))]) for L in sh)))
    if ctx.quick:
        cases += [((500, 6), (500, 1)), ((4, 512), (1, 512)), ((997,), (997,)), ((1000,), (8,))]      # a few sizes >= 500
    for k, (shape, f) in enumerate(cases):
        if not ctx.mine(k):
            continue
        rng = np.random.default_rng([ctx.seed, 16905, k])
        s = s_list[k % len(s_list)]
        dt = 'float32' if k % 7 == 3 else 'float64'
        x0 = rng.integers(-50, 200, shape).astype(float)
        x = (x0 * s).astype(dt)
        o = tuple(a // b for a, b in zip(shape, f))
        nblk = int(np.prod(f))
        y0 = rng.integers(-20, 50, o).astype(float)
        y = (y0 * s).astype(dt)
        fcls = 'factor=1' if all(q == 1 for q in f) else 'factor=axis-length' if all(q in (1, L) for q, L in zip(f, shape)) else 'factor=divisor'
        reg = regime(s)
        desc = {'wl': 'bin-structural', 'shape': list(shape), 'factor': list(f), 'scale': s, 'dtype': dt, 'k': k,
                'class': f'bin-struct:{len(shape)}d:{fcls}:scale-{reg}:{dt}'}
        ctx.case(desc, nontrivial=x.size >= 2)
        farg = f if k % 3 else (list(f) if len(set(f)) > 1 or k % 2 else f[0])
        rt = LOW_BIN if dt == 'float32' else 1e-12

        def key(base, tag, x0=x0, y0=y0, farg=farg, f=f, nblk=nblk):
            """plain key when the unscaled double twin fails as well, else the size / scale label of the case"""
            if base in ctx.violations:
                return base
            try:
                with quiet():
                    ok = (np.array_equal(detector.bindown(x0, farg, 'sum'), ref.bin_sum_ref(x0, f))
                          and np.array_equal(detector.tile(y0, farg, 'avg'), ref.tile_ref(y0, f)))
                part = f'size:{fcls}' if not ok else f'scale:{reg}'
                if not ok and fcls == 'factor=divisor' and len(shape) <= 2 and max(shape) < 64:
                    return base
            except Exception:  # noqa
                part = f'size:{fcls}'
            head, tail = base.rsplit('/', 1)
            return f'{head}/{part}/{tail}'
        with ctx.guard('C16/bindown-tile/structural', desc):
            want = ref.bin_sum_ref(x0, f) * s
            sc = float(np.abs(want).max()) if want.size else 0.0
            ctx.observe('bin.structural')
            ctx.close('bindown.block-sum', np.asarray(detector.bindown(x, farg, 'sum'), dtype=float), want, key('C16/bindown/sum/block-sum', 's'),
                      'bindown(sum) is not the sum over each block', desc, rtol=rt, scale=sc)
            ctx.close('bindown.block-sum', np.asarray(detector.bindown(x, farg, ['avg', 'mean', 'average'][k % 3]), dtype=float), want / nblk,
                      key('C16/bindown/avg/block-mean', 'a'), 'bindown(avg) is not the mean over each block', desc, rtol=rt, scale=sc / nblk)
            ta = detector.tile(y, farg, 'avg')
            wt = ref.tile_ref(y0, f) * s
            ctx.close('tile.reference', np.asarray(ta, dtype=float), wt, key('C16/tile/avg/not-repeat', 't'), 'tile(avg) is not each sample repeated', desc,
                      rtol=rt if dt == 'float32' else 0.0)
            ts = detector.tile(y, farg, 'sum')
            ctx.close('tile.reference', np.asarray(ts, dtype=float), wt / nblk, key('C16/tile/sum/not-repeat-over-count', 't'),
                      'tile(sum) is not repeat/prod(factor)', desc, rtol=rt)
            ctx.close('tile.roundtrip', np.asarray(detector.bindown(ts, farg, 'sum'), dtype=float), y0 * s, key('C16/tile/bindown(tile)!=identity/sum', 'r'),
                      'bindown_sum(tile_sum(y)) != y', desc, rtol=rt)
    ctx.note('bin_structural', {'axis_lengths': lengths, 'factors': '1, the axis length, proper divisors', 'scales': s_list, 'cases': len(cases)})


def bayer_magnitudes(ctx):
    """Classes G / I for the Bayer routines: mosaics scaled by 2^-40 .. 2^40 (exact scaling) and by decades 1e-12 .. 1e12, shapes from
    2 x 2 over 2 x N / N x 2 lines to >= 500 samples per axis: decomposite / recomposite round trip bit for bit, demosaic_malvar
    linear in the mosaic (and flat fields preserved at every magnitude), white balance gains 1e-9 .. 1e9, safe white balance
    invariant under rescaling mosaic and saturation level together."""
    from prysm import bayer
    shapes = [(2, 2), (2, 4), (4, 2), (2, 16), (16, 2), (6, 8), (8, 8), (10, 6), (2, 514), (502, 2), (64, 66)] + ctx.pick([], [(500, 502), (130, 258)])
    scales = [2.0 ** -40, 1e-12, 1e-9, 1e-6, 2.0 ** -10, 1e3, 2.0 ** 20, 1e9, 1e12, 2.0 ** 40]
    rs = np.random.default_rng([ctx.seed, 16906])
    for _ in range(ctx.pick(0, 6000)):
        shapes.append((2 * int(rs.integers(1, 40)), 2 * int(rs.integers(1, 40))))
    k = -1
    for shape in shapes:
        for cfa in ('rggb', 'bggr'):
            for s in scales:
                k += 1
                if not ctx.mine(k):
                    continue
                if not ctx.quick and len(shapes) > 13 and shape not in shapes[:13] and k % 3:
                    continue
                rng = np.random.default_rng([ctx.seed, 16907, k])
                dt = 'float32' if k % 5 == 2 else 'float64'
                m1 = rng.integers(1, 4096, shape).astype(float)
                m = (m1 * s).astype(dt)
                m1 = m1.astype(dt)
                pow2 = float(np.log2(s)).is_integer()
                reg = regime(s)
                rt = 1e-4 if dt == 'float32' else 1e-12
                desc = {'wl': 'bayer-magnitudes', 'shape': list(shape), 'cfa': cfa, 'scale': s, 'dtype': dt, 'k': k,
                        'class': f'bayer-scale:{cfa}:{reg}:{dt}:{"line" if min(shape) == 2 else "big" if max(shape) >= 500 else "area"}'}
                ctx.case(desc)
                with ctx.guard(f'C16/bayer/{cfa}/scale:{reg}', desc):
                    ctx.observe('bayer.scale-law')
                    m0 = m.copy()
                    back = bayer.recomposite_bayer(*bayer.decomposite_bayer(m, cfa), cfa=cfa)
                    ctx.equal('bayer.roundtrip', back, m0, f'C16/bayer/roundtrip/{cfa}', 'recomposite_bayer(decomposite_bayer(m)) != m', desc)
                    rgb, rgb1 = bayer.demosaic_malvar(m, cfa), bayer.demosaic_malvar(m1, cfa)
                    ctx.close('bayer.scale-law', np.asarray(rgb, dtype=float), np.asarray(rgb1, dtype=float) * s,
                              f'C16/bayer/malvar/{cfa}/scale:{reg}/not-linear', 'demosaic_malvar(s * m) != s * demosaic_malvar(m)', desc,
                              rtol=0.0 if (pow2 and dt == 'float64') else rt)
                    flat = bayer.demosaic_malvar(np.full(shape, 7.0 * s, dtype=dt), cfa)
                    ctx.close('bayer.malvar-flat-field', np.asarray(flat, dtype=float), np.full(shape + (3,), float(np.asarray(7.0 * s, dtype=dt))),
                              f'C16/bayer/malvar/{cfa}/scale:{reg}/flat-field-not-preserved',
                              'demosaic_malvar of a constant mosaic is not constant at this magnitude', desc, rtol=rt)
                    di, di1 = bayer.demosaic_deinterlace(m, cfa), bayer.demosaic_deinterlace(m1, cfa)
                    ctx.close('bayer.scale-law', np.asarray(di, dtype=float), np.asarray(di1, dtype=float) * s, f'C16/bayer/deinterlace/{cfa}/scale:{reg}/not-linear',
                              'demosaic_deinterlace(s * m) != s * demosaic_deinterlace(m)', desc, rtol=0.0 if (pow2 and dt == 'float64') else rt)
                    ctx.require('bayer.input-untouched', np.array_equal(m, m0), f'C16/bayer/{cfa}/input-mutated', 'a Bayer routine modified the mosaic it was given', desc)
                    if dt != 'float64':
                        continue
                    # white balance: gains over many decades (the contract judges site and constancy); safe mode in rescaled units
                    g = [float(v) for v in 10 ** rng.uniform(-9, 9, 4)]
                    mm = m.copy()
                    bayer.wb_prescale(mm, *g, cfa=cfa)
                    wantw = m0.copy()
                    for c_, gg in zip(('r', 'g1', 'g2', 'b'), g):
                        r0, c0 = ref.SITES[cfa][c_]
                        wantw[r0::2, c0::2] *= gg
                    ctx.close('bayer.scale-law', mm, wantw, f'C16/bayer/wb_prescale/{cfa}/scale:gains/gain-not-applied',
                              'wb_prescale does not multiply each colour site by its gain (gains 1e-9 .. 1e9)', desc, rtol=1e-14)
                    gs = [float(v) for v in rng.uniform(0.3, 3.0, 4)]
                    sat1 = float(rng.uniform(0.2, 1.5) * m1.max())
                    ma, mb = m.copy(), m1.copy()
                    bayer.wb_prescale(ma, *gs, cfa=cfa, safe=True, saturation=sat1 * s)
                    bayer.wb_prescale(mb, *gs, cfa=cfa, safe=True, saturation=sat1)
                    ctx.close('bayer.scale-law', ma, mb * s, f'C16/bayer/wb_prescale/{cfa}/scale:{reg}/safe-not-unit-invariant',
                              'safe wb_prescale of (s * mosaic, s * saturation) != s * safe wb_prescale(mosaic, saturation)', desc, rtol=1e-12)
                    ra, rb = rgb.copy(), rgb1.copy()
                    bayer.wb_postscale(ra, *gs[:3], safe=True, saturation=sat1 * s)
                    bayer.wb_postscale(rb, *gs[:3], safe=True, saturation=sat1)
                    ctx.close('bayer.scale-law', ra, rb * s, f'C16/bayer/wb_postscale/scale:{reg}/safe-not-unit-invariant',
                              'safe wb_postscale of (s * rgb, s * saturation) != s * safe wb_postscale(rgb, saturation)', desc, rtol=1e-12)
    ctx.note('bayer_magnitudes', {'scales': scales, 'shapes': len(shapes)})


# ------------------------------------------------------------------------------------------ rarely used arguments (hardening pass 4, class M)
# wb_prescale(safe=, saturation=): the docstring lists neither argument; established on /repo@66c5405: safe falsy -> saturation is
# ignored; safe truthy -> saturation must not be None (ValueError); an object with __iter__ is read as four levels in r, g1, g2, b order
# (list / tuple / float or int ndarray; a 0-d array raises; other lengths are cut by zip: out of domain), anything else is one level
# common to the four planes; the four gains are divided by max(1, max_c max(plane_c) / level_c), plane_c the RAW samples of colour c
# at its native sites for the given cfa (lower case only in safe mode).
WB_SAT_FORMS = {
    'scalar:float': lambda s: float(s[0]), 'scalar:np.float64': lambda s: np.float64(s[0]), 'scalar:int': lambda s: int(s[0]),
    'per-channel:list': lambda s: [float(v) for v in s], 'per-channel:tuple': lambda s: tuple(float(v) for v in s),
    'per-channel:ndarray': lambda s: np.array(s, dtype=float), 'per-channel:float32': lambda s: np.array(s, dtype=np.float32),
    'per-channel:int-ndarray': lambda s: np.array(s, dtype=np.int64),
}
WB_LIMITING = ['r', 'g1', 'g2', 'b', 'none', 'at-level']
WB_GAIN_CLASSES = ['unit', 'limiting-plane-unit', 'general']
WB_SAFE_FORMS = {'True': True, 'False': False, '1': 1, 'np.True_': np.True_}


def wb_safe_workload(ctx):
    """wb_prescale with safe true / false x scalar / per-channel saturation (every accepted container) x both layouts x the limiting
    overshoot in each of the four planes (or in none, or a plane exactly at its level) x gain classes; the contract's reference
    model (_judge_safe_limiter) decides.  Every plane has its own level, its own overshoot and its own gain, other planes may
    overshoot less than the limiting one, so reading a level against another plane changes the limiter."""
    from prysm import bayer
    names = ('r', 'g1', 'g2', 'b')
    shapes = [(2, 2), (2, 6), (4, 2), (6, 8), (16, 10)]
    forms = list(WB_SAT_FORMS)
    k = -1
    for rep in range(ctx.pick(1, 60)):
        for cfa, lim, gcls, shape in itertools.product(('rggb', 'bggr'), WB_LIMITING, WB_GAIN_CLASSES, shapes):
            k += 1
            if not ctx.mine(k):
                continue
            rng = np.random.default_rng([ctx.seed, 16950, k])
            form = forms[(k + k // len(forms)) % len(forms)]
            per_channel = form.startswith('per-channel')
            # levels: integers >= 50 so that every container holds them exactly; all different when per channel
            base = float(rng.integers(200, 4000))
            if per_channel:
                mult = rng.permutation([1.0, 0.55, 1.7, 2.9]) * rng.uniform(0.9, 1.1, 4)
                sats = [float(np.rint(base * v)) for v in mult]
            else:
                sats = [float(np.rint(base))] * 4
            # overshoot of each plane over its own level
            if lim in names:
                top = float(rng.uniform(1.2, 4.0))
                over = {n: top if n == lim else float(rng.uniform(0.3, 0.97) * top) for n in names}
            elif lim == 'none':
                over = {n: float(rng.uniform(0.2, 0.99)) for n in names}
            else:
                at = names[int(rng.integers(4))]
                over = {n: 1.0 if n == at else float(rng.uniform(0.2, 0.99)) for n in names}
            if gcls == 'unit':
                g = [1.0] * 4
            elif gcls == 'general':
                g = [float(v) for v in rng.uniform(0.3, 3.0, 4)]
            else:
                # the limiting plane keeps gain 1, no other plane overshoots more after its gain: both readings of the docstring agree
                cap = max(1.0, max(over.values()))
                g = [1.0 if (n == lim or over[n] == cap) else float(rng.uniform(0.3, min(3.0, 0.98 * cap / over[n]))) for n in names]
            planes = []
            for n, s in zip(names, sats):
                p = over[n] * s * rng.uniform(0.05, 0.999, (shape[0] // 2, shape[1] // 2))
                if p.size > 2 and k % 3 == 0:
                    p.flat[int(rng.integers(p.size))] *= -1.0           # bias-subtracted raw data may be negative
                p.flat[int(rng.integers(p.size))] = over[n] * s         # the plane's maximum, exactly
                planes.append(p)
            m = np.empty(shape)
            for n, p in zip(names, planes):
                r0, c0 = ref.SITES[cfa][n]
                m[r0::2, c0::2] = p
            layout = LAYOUTS[(k // 7) % 4]
            sform = list(WB_SAFE_FORMS)[(k // 5) % 4] if k % 5 == 0 else 'True'
            desc = {'wl': 'wb-safe', 'shape': list(shape), 'cfa': cfa, 'limiting': lim, 'gains': gcls, 'saturation': form, 'safe': sform,
                    'layout': layout, 'k': k, 'class': f'wb-safe:{cfa}:{lim}:{gcls}:{form.split(":")[0]}:safe={sform}'}
            ctx.case(desc)
            with ctx.guard(f'C16/bayer/wb_prescale/{cfa}/arg:safe={sform}', desc):
                sarg = WB_SAT_FORMS[form](sats)
                keep = np.array(sarg, dtype=float, copy=True)
                mm = as_layout(m.copy(), layout)
                if k % 4 == 3:
                    # history: the other layout first with the same saturation object, and a plain call in between
                    other = 'bggr' if cfa == 'rggb' else 'rggb'
                    bayer.wb_prescale(as_layout(m.copy(), layout), *g, cfa=other, safe=True, saturation=sarg)
                    bayer.wb_prescale(m.copy(), *g, cfa=cfa)
                bayer.wb_prescale(mm, *g, cfa=cfa, safe=WB_SAFE_FORMS[sform], saturation=sarg)
                ctx.require('wb.prescale-safe-model', np.array_equal(np.array(sarg, dtype=float), keep),
                            f'C16/bayer/wb_prescale/{cfa}/arg:saturation={form.split(":")[0]}/levels-overwritten',
                            'wb_prescale changed the saturation levels it was given', desc)
                if not WB_SAFE_FORMS[sform]:
                    continue
                if gcls != 'general':
                    # direct statement of what safe mode is for, where both readings agree: every native sample is its raw value
                    # times gain / limiter, no plane ends above its own level, and the limiting plane ends exactly at it
                    cap = max(1.0, max(over.values()))
                    want = np.empty(shape)
                    for n, p, gg in zip(names, planes, g):
                        r0, c0 = ref.SITES[cfa][n]
                        want[r0::2, c0::2] = p * (gg / cap)
                    ctx.close('wb.prescale-safe-model', np.asarray(mm), want, f'C16/bayer/wb_prescale/{cfa}/safe/arg:saturation={form.split(":")[0]}/'
                              'limiter-not-largest-own-overshoot', 'safe wb_prescale: a native sample is not raw x gain / (largest overshoot of a plane '
                              'over its own saturation level)', desc, rtol=1e-12)
    ctx.note('wb_safe', {'saturation_forms': forms, 'limiting': WB_LIMITING, 'gain_classes': WB_GAIN_CLASSES, 'safe_forms': list(WB_SAFE_FORMS)})


def hardening4_workload(ctx):
    wb_safe_workload(ctx)


def hardening3_workload(ctx):
    expose_magnitudes(ctx)
    expose_specials(ctx)
    expose_frames(ctx)
    bin_structural(ctx)
    bayer_magnitudes(ctx)


def run(ctx):
    global CTX
    CTX = ctx
    from prysm import mathops
    from prysm.conf import config
    real = mathops.np._srcmodule
    old = 32 if config.precision is np.float32 else 64
    install()
    try:
        expose_workload(ctx)
        bin_workload(ctx)
        expose_bin_workload(ctx)
        bayer_workload(ctx)
        forms_workload(ctx)
        hardening3_workload(ctx)
        hardening4_workload(ctx)
    finally:
        mathops.np._srcmodule = real
        config.precision = old
        detach_all()


def replay(ctx, rec):
    run(ctx)
