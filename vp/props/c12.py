"""C12 — Interferogram data, mask and coordinates stay coherent over any history.

History-driven.  A generated sequence of public operations is applied to a real `prysm.interferogram.Interferogram`
and after EVERY operation the following are evaluated:

  M1   cache-coherence invariant on the private fields `_x,_y,_r,_t` only (non-perturbing: the lazy properties of the
       live object are never touched): every non-None cache has data.shape, `_x`/`_y` are spaced by the current dx,
       a cached `_r,_t` is the polar form of the current Cartesian grid (`_x,_y` if cached, else the grid the lazy
       property would build);
  M1'  the same assertions through the public `x,y,r,t` of `copy.deepcopy(obj)` — what a user would read *now* —
       so the original's caches are never populated by the monitor;
  M2   a sequential shadow model of the data / NaN set (mask -> union, fill -> empty, spike_clip -> union of the
       model's own |z|>k*sigma set, crop -> bounding box, pad -> rigid placement (+ border when the fill is NaN),
       everything else -> unchanged, filter -> stays empty);
  M3   laws: zero mean after remove_piston; re-fitting the removed plane / power term finds nothing and a second
       call changes nothing; crop idempotent, keeps every valid sample, leaves no all-NaN border; statistics are
       those of the finite samples and satisfy rms^2 = std^2 + mean^2, Sa <= std <= PV.

When M1/M1' fails after an operation the violation is recorded (keyed by that operation) and the stale polar caches
are then dropped (`_r = _t = None`, the only perturbation the monitor ever makes, made only after a recorded
violation) so that the rest of the history can still be monitored instead of re-reporting the same staleness.

Hardening pass (HARDENING.md classes A-D):
  A  the data array handed to the constructor is C-ordered, Fortran-ordered, a transposed view or a strided view; mask
     arrays are drawn from a small pool so that the SAME mask object (C- or F-ordered) is passed again later in the
     history and the later call is judged by the shadow model against a pristine copy; fill / latcal / spike_clip
     arguments come as python or numpy scalars;
  B  `copy` (the history continues on the deep copy, caches included) and `read-slices` (slices() populates x, y) join the
     alphabet;
  C  a share of the histories runs under `config.precision = 32` with float32 data (float32 thresholds, measured round-off
     reported in the evidence notes), under precision 32 with float64 data and under precision 64 with float32 data; the
     precision-32 run of a history comes immediately BEFORE the float64 run of the same history (same shapes, same dx),
     which is judged at the full float64 tolerance (32 -> 64 switch in one process);
  D  1xN, Nx1, 3x40 and 40x3 base objects (the first and third also in the quick tier).

Hardening pass 2 (HARDENING2.md classes E, F):
  E  `forms_workload`: for every base object, data dtype kind (float64, float32, and int64 / int32 for the operations that take integer
     data today) and cache-population state before the call (fresh, x/y read, r/t read, after latcal + r, after crop + x), every accepted
     form of every argument of the constructor (dx as python / numpy scalars / 0-d array / positional / omitted-then-latcal, wavelength
     omitted / None / number / from meta, intensity, all positional) and of fill, pad (samples= | shape= in every container, value omitted
     / positional / keyword), latcal, spike_clip, mask (C / F / strided / transposed-view boolean arrays, keyword), filter (typ omitted /
     short / long names, keywords) must leave the state the canonical call leaves — data exactly, dx, x, y, r, t and the statistics of a deep
     copy — right after the call AND after a short canonical continuation (latcal + read r | read x, crop, read t | pad, recenter), and
     that state must be coherent (M1').  Keys `C12/<op>/form:<argument>=<form>/...`.  The table of accepted forms is the comment above
     CTOR_FORMS (integer / float / list masks are NOT the same input on the current tree: out of domain).  The history alphabet draws
     the same forms (pad containers, default fill omitted, fill / spike_clip / latcal by keyword / 0-d array / numpy int, masks as strided
     views or by keyword, long filter names) and half of the histories construct the object through a non-canonical constructor form.
  F  `foreign` joins the alphabet (19 classes) and a prelude runs before one history in sixteen: vp/foreign.py drives the other consumers
     of make_xy_grid / fftrange / forward_ft_unit (shifted matrix-DFT / chirp-Z propagations, psd, render_synthetic_surface, other
     Interferograms' latcal / recenter / pad, in-place edits of returned grids, precision 32) on the axis lengths of the object; the
     invariants after it are those of a read.

Hardening pass 3 (HARDENING3.md classes G, H, J):
  G  one history in four runs IN OTHER UNITS: heights * s (s in 1e-12 .. 1e12) and lateral unit * K (K in 1e-9 .. 1e9), fill / pad values and
     plate scales converted with them, two in five of those on top of a LARGE PISTON (1e6 / 1e9 in units of the base data: |mean| / std of
     1e5 .. 1e8, where one-pass variance formulas lose every digit), judged by every monitor above at that scale (all thresholds are relative); one in eight of the plain
     float64 ones runs as a LOCKSTEP TWIN of the reference-unit history (`run_twin`): after every step the scaled object must have the same
     valid set, data / s, dx / K (1 after strip_latcal) and statistics / s as the reference object.
     Keys `C12/scale:<heights regime>,<dx regime>/<what>-not-scale-invariant[/after:<op>]`.
  H  fill(NaN) (a legal no-op, own shadow-model branch), fill(0); pad by ZERO samples / to the same shape in every container and keyword
     form; crop of an already tight array; masks that are all-true, all-false or leave a SINGLE valid sample (drawn by the history alphabet
     with probability 0.15 and driven by ten explicit sequences `DEGENERATE` on every base, also in other units and under precision 32).
     crop, mask and remove_piston are now in domain from ONE valid sample on (fits / clip / filter still need three); with NO valid sample
     statistics, crop and piston removal are out of domain, everything else must keep the object coherent.
  J  bases `split` (a full NaN row AND a full NaN column inside the bounding box, an all-NaN leading column, an isolated valid sample in the
     far corner), `split-tall` and `checker` (isolated valid samples only) join the base objects (`split` also in the quick tier).
"""
import copy
import itertools

import numpy as np

from ..foreign import foreign_traffic

RULE = ('planned operation sequences over an 18-class alphabet (read-x/y/r/t, read-slices, crop, pad, mask, fill, spike_clip, '
        'remove_piston/tiptilt/power, recenter, latcal, strip_latcal, filter, copy): ALL sequences up to a depth plus seeded '
        'random longer ones (deduplicated globally, partitioned over shards by sequence index), each run on base object '
        'classes (square even/odd, non-square, 1xN, 3x40, and Nx1 / 40x3 in the thorough tier; NaN-free / circular aperture / '
        'ragged edge / interior dropouts) and dx in {1, 0.37, 12.5}; data layout in {C, F, transposed view, strided view}; '
        'configuration in {precision 64 / float64 data, precision 32 / float32 data followed by the float64 run of the same '
        'history, precision 64 / float32 data, precision 32 / float64 data followed by the float64 run}; op variants (pad samples/shape x NaN/finite fill, mask circle/random/edge, latcal scale, clip level, filter '
        'type) drawn from a per-history seeded rng and written into the descriptor. A history is non-trivial when it '
        'contains at least one state-changing operation; distinct = distinct (base, dx, fully-specified op list). '
        'events list every (cache-population-state x operation) pair executed; argument forms (class E): every accepted form of every '
        'constructor / method argument x base object x data dtype kind x five cache-population states x four canonical continuations, '
        'against the canonical call; foreign traffic (class F) as a 19th operation class and as a prelude before 1 history in 16; unit regimes (class G): '
        '1 history in 4 with heights * s and lateral unit * K (s, K over 24 decades), 1 in 8 of the float64 ones as a lockstep twin of the reference units; '
        'special values (classes H, J): fill NaN / 0, pad by zero samples, all-true / all-false / single-valid-sample masks in the alphabet and in ten explicit '
        'sequences on every base; bases with NaN rows / columns / isolated samples inside the bounding box')
ASSUMPTIONS = ['deepcopy of an Interferogram is a faithful snapshot of what the user would read (M1\')',
               'the polar form of a grid is (hypot(x,y), arctan2(y,x)); angles compared modulo 2 pi and not at r=0',
               'pad may place the old block anywhere as long as it is moved rigidly (placement itself is C04)',
               '"power" is the rho^2 term on the array-normalised [-1,1] grid, "tilt" the x,y plane in the object\'s own '
               'coordinates (what the removed term is in prysm); idempotence through the public call is also checked',
               'rank-deficient fits, |z| within 1e-9 of the clip level, filter on data with NaNs and objects with < 3 '
               'valid samples are out of domain (skipped and counted)',
               'after a recorded M1 violation the stale polar caches are dropped (through the public r / t setters) so monitoring can continue',
               'M1 reads the private fields _x,_y,_r,_t only when the implementation has them; otherwise it is skipped and counted, is not a '
               'required monitor, and the decision rests on M1\' / M2 / M3, which use the public API only',
               'tilt / power refit and idempotence laws: relative threshold max(1e-9 | float32 regime 1e-3, 100 * cond(design matrix on the valid '
               'samples, columns as prysm builds them) * eps(float32 in the float32 regime, else float64)); when that bound exceeds 1e-2 the law '
               'cannot decide on that support and the step is excluded and counted; the piston law has a design of condition number 1 '
               '(100 * eps32 = 1.2e-5 is below its 1e-4 threshold); measured (residual / (cond * eps32)) is reported in the notes',
               'float32 thresholds (coordinates built under precision 32: 1e-4 relative; statistics / piston / refit laws on '
               'float32 data: 1e-4 .. 1e-3 relative) are >= 3 decades above the measured round-off, which is reported in the notes',
               'a mask array is not modified by mask(): the shadow model predicts from a pristine copy of every mask in the pool',
               'the set of argument forms treated as the same mathematical input was fixed from the current tree (/repo @ faa8443, table in the '
               'module above CTOR_FORMS); a form for which the canonical call itself raises or leaves incoherent coordinates is not compared '
               '(skipped and counted: the history workload judges the canonical call)',
               'fill() == fill(0), spike_clip() == spike_clip(3), pad(samples=s) == pad(nan, samples=s), filter(fc) == filter(fc, "lowpass"): '
               'the documented defaults',
               'a history in other units (heights * s, lateral unit * K, fill / pad values * s, plate scales * K) is the same physical history: every operation is '
               'homogeneous in the heights and unit-consistent on the current tree; strip_latcal resets dx to 1 in every unit system; twin tolerances 1e-7 of the '
               'largest magnitude the reference history has seen (data, statistics), 1e-6 (dx); a twin ends (counted) when a rank / validity decision or a '
               'spike_clip level is borderline in one unit system, or when spike_clip is applied to data that are numerical zeros (<= 1e-6 of the largest '
               'magnitude the history has seen); float32 data keep (piston + 30) * s <= 1e16 so that their squares stay inside float32',
               'with no valid sample left the statistics, the bounding box and the mean are undefined (out of domain, counted); a mask may leave any number '
               'of valid samples; fill(NaN) changes nothing']
REQUIRED = ['M1.cache-coherence(private)', 'M1\'.user-view(deepcopy)', 'M2.shadow-nan-set', 'M3.piston-zero-mean',
            'M3.tilt-refit', 'M3.power-refit', 'M3.crop-laws', 'M3.statistics', 'forms.construct', 'forms.operations', 'G.scaled-twin']

OPS = ['read-x', 'read-y', 'read-r', 'read-t', 'crop', 'pad', 'mask', 'fill', 'spike_clip', 'remove_piston',
       'remove_tiptilt', 'remove_power', 'recenter', 'latcal', 'strip_latcal', 'filter', 'copy', 'read-slices', 'foreign']
READS = {'read-x', 'read-y', 'read-r', 'read-t', 'read-slices', 'foreign'}

FORM_BASES_Q = ['sq-even', 'sq-odd-circ', 'nonsq', 'ragged', 'line', 'wide']
BASES_Q = FORM_BASES_Q + ['split']
BASES_T = BASES_Q + ['nonsq-circ', 'dropouts', 'col', 'tall', 'sq-big', 'split-tall', 'checker']
BASE_SHAPE = {'sq-even': (10, 10), 'sq-odd-circ': (11, 11), 'nonsq': (8, 11), 'ragged': (11, 8),
              'nonsq-circ': (9, 12), 'dropouts': (12, 12), 'line': (1, 9), 'col': (9, 1), 'wide': (3, 40), 'tall': (40, 3),
              'sq-big': (24, 24), 'split': (9, 12), 'split-tall': (13, 8), 'checker': (10, 11)}
LAYOUTS = ['C', 'C', 'F', 'T', 'strided']
RO = {}     # measured float32 round-off per monitor (max err / scale), reported as a note


def ro(name, val):
    v = float(val)
    if v == v and v > RO.get(name, 0.0):
        RO[name] = v


def relayout(a, layout):
    a = np.array(a, order='C', copy=True)
    if layout == 'F':
        return np.asfortranarray(a)
    if layout == 'T':
        return np.ascontiguousarray(a.T).T
    if layout == 'strided':
        big = np.full((2 * a.shape[0] + 1, 3 * a.shape[1] + 2), 7.0, dtype=a.dtype)
        v = big[1::2, 2::3][:a.shape[0], :a.shape[1]]
        v[...] = a
        return v
    return a


# ------------------------------------------------------------------------------------------ model helpers
def make_base(name, bseed):
    rng = np.random.default_rng([int(bseed), sum(map(ord, name))])
    n0, n1 = BASE_SHAPE[name]
    j, i = np.meshgrid(np.arange(n1) - n1 // 2, np.arange(n0) - n0 // 2)
    xn = j / max(1, n1 // 2)
    yn = i / max(1, n0 // 2)
    z = 10.0 + 5.0 * xn - 3.0 * yn + 4.0 * (xn * xn + yn * yn) + rng.standard_normal((n0, n1))
    for _ in range(2):   # spikes so that spike_clip has something to do
        z[int(rng.integers(0, n0)), int(rng.integers(1, n1 - 1)) if n1 > 2 else 0] += float(rng.choice([-15.0, 15.0]))
    rr = np.hypot(i, j)
    if name == 'col':
        z[0, 0] = np.nan
        z[5, 0] = np.nan
    if name == 'wide':
        z[:, :3] = np.nan
        z[1, 20] = np.nan
        z[0, 33:] = np.nan
    if name == 'tall':
        z[-4:, :] = np.nan
        z[7, 1] = np.nan
    if name == 'sq-big':
        z[rr > 11.3] = np.nan
        z[3:6, 12] = np.nan
    if name in ('sq-odd-circ', 'nonsq-circ'):
        z[rr > min(n0, n1) / 2 - 0.5] = np.nan
    if name == 'ragged':
        z[0, :] = np.nan
        z[:, -1] = np.nan
        z[1, : n1 // 2] = np.nan
        z[-1, n1 // 3:] = np.nan
        z[n0 // 2, n1 // 2] = np.nan
        z[n0 // 2 + 1, 2] = np.nan
    if name == 'line':
        z[0, 0] = np.nan
        z[0, 5] = np.nan
    if name == 'split':          # class J: a full NaN row AND a full NaN column INSIDE the bounding box, an all-NaN leading column, and a far
        z[4, :] = np.nan         # corner whose only valid sample is isolated (the bounding box must still reach it)
        z[:, 7] = np.nan
        z[:, 0] = np.nan
        z[8, :11] = np.nan
        z[7, 11] = np.nan
    if name == 'split-tall':     # two NaN rows and one NaN column inside, trailing NaN rows, an isolated valid sample in the first row
        z[3, :] = np.nan
        z[8, :] = np.nan
        z[:, 2] = np.nan
        z[11:, :] = np.nan
        z[0, :] = np.nan
        z[0, 5] = 4.25
        z[1, 5] = np.nan
    if name == 'checker':        # isolated valid samples only (every valid sample has invalid 4-neighbours), first / last column invalid
        z[(i + j) % 2 == 1] = np.nan
        z[:, 0] = np.nan
        z[:, -1] = np.nan
    if name == 'dropouts':
        for _ in range(7):
            z[int(rng.integers(1, n0 - 1)), int(rng.integers(1, n1 - 1))] = np.nan
    return z


def grid(shape, dx):
    n0, n1 = shape
    x = (np.arange(n1) - n1 // 2) * float(dx)
    y = (np.arange(n0) - n0 // 2) * float(dx)
    X, Y = np.meshgrid(x, y)
    return X, Y


def ang_err(t, tref, r):
    d = np.abs((t - tref + np.pi) % (2 * np.pi) - np.pi)
    d = d[r > 0]
    return float(d.max()) if d.size else 0.0


PRIVATE = ('_x', '_y', '_r', '_t')
M1 = 'M1.cache-coherence(private)'


def has_private_caches(o):
    """The four lazily filled cache fields this monitor knows by name.  They are an implementation detail: when an
    implementation stores its caches differently, M1 (the invariant on those fields) cannot be evaluated and is skipped and
    counted; M1' (public view of a deep copy), M2 and M3 use the public API only."""
    return all(hasattr(o, n) for n in PRIVATE)


def cache_state(o, inferred=None):
    """Label of the cache-population state of the object (evidence only).  From the private fields when they exist, else
    inferred from which public coordinate properties the history has read / which operations rebuilt or dropped them."""
    if not has_private_caches(o):
        return (inferred or 'fresh') + '~'
    px, py, pr, pt = (getattr(o, n, None) for n in PRIVATE)
    xy = px is not None or py is not None
    rt = pr is not None or pt is not None
    if not xy and not rt:
        return 'fresh'
    s = ('xy' if xy else '') + ('+rt' if rt else '')
    x = px
    if xy and x is not None and x.shape == o.data.shape and x.ndim == 2 and x.size:
        c = tuple(n // 2 for n in x.shape)
        if x[c] != 0 or (py is not None and py.shape == x.shape and py[c] != 0):
            s += '/offcentre'
    return s


def coords_problems(shape, dx, x, y, r, t, rt=1e-9):
    """Problems of a coordinate set (any of which may be None = not cached) against data shape and dx.
    `rt` is the relative threshold (1e-9 for float64 grids, 1e-4 for grids built under precision 32).
    Returns list of (kind, detail)."""
    out = []
    ok = {}
    for nm, a in (('x', x), ('y', y), ('r', r), ('t', t)):
        ok[nm] = a is not None and tuple(a.shape) == tuple(shape)
        if a is not None and not ok[nm]:
            out.append((f'{nm}:shape', f'{nm}.shape {tuple(a.shape)} != data.shape {tuple(shape)}'))
    x, y, r, t = (a if ok[nm] else None for nm, a in (('x', x), ('y', y), ('r', r), ('t', t)))
    dx = float(dx)
    if x is not None and shape[1] > 1:
        sc = max(float(np.abs(x).max()), abs(dx))
        e = float(np.abs(np.diff(x, axis=1).astype(float) - dx).max())
        if rt > 1e-9:
            ro('coords.spacing', e / sc)
        if not e <= rt * sc:
            out.append(('x:spacing', f'x spacing differs from dx={dx} by {e:.3g}'))
    if y is not None and shape[0] > 1:
        sc = max(float(np.abs(y).max()), abs(dx))
        e = float(np.abs(np.diff(y, axis=0).astype(float) - dx).max())
        if rt > 1e-9:
            ro('coords.spacing', e / sc)
        if not e <= rt * sc:
            out.append(('y:spacing', f'y spacing differs from dx={dx} by {e:.3g}'))
    if r is not None or t is not None:
        if x is not None and y is not None:
            X, Y = np.asarray(x, dtype=float), np.asarray(y, dtype=float)
        else:
            X, Y = grid(shape, dx)
        R = np.hypot(X, Y)
        sc = max(float(R.max()), abs(dx))
        if r is not None:
            e = float(np.abs(r - R).max())
            if rt > 1e-9:
                ro('coords.polar-r', e / sc)
            if not e <= rt * sc:
                out.append(('r:stale', f'r differs from hypot(x,y) of the current grid by {e:.3g} (scale {sc:.3g})'))
        if t is not None:
            e = ang_err(t, np.arctan2(Y, X), R)
            if rt > 1e-9:
                ro('coords.polar-t', e)
            if not e <= rt:
                out.append(('t:stale', f't differs from arctan2(y,x) of the current grid by {e:.3g} rad'))
    return out


def finite_stats(d):
    v = d[np.isfinite(d)].astype(float)
    n = v.size
    m = float(v.sum() / n)
    dev = v - m
    return {'n': n, 'mean': m, 'std': float(np.sqrt((dev * dev).sum() / n)), 'rms': float(np.sqrt((v * v).sum() / n)),
            'pv': float(v.max() - v.min()), 'Sa': float(np.abs(dev).sum() / n), 'scale': float(np.abs(v).max())}


def bbox(valid):
    rows = np.where(valid.any(axis=1))[0]
    cols = np.where(valid.any(axis=0))[0]
    return slice(rows[0], rows[-1] + 1), slice(cols[0], cols[-1] + 1)


def same(a, b):
    return a.shape == b.shape and np.array_equal(a, b, equal_nan=True)


# ------------------------------------------------------------------------------------------ plan generation
def draw_variant(op, rng):
    if op == 'pad':
        kind = ['samples', 'samples2', 'shape2', 'shape', 'samples2@list', 'samples2@ndarray', 'samples2@np-ints', 'shape2@list', 'shape2@ndarray',
                'shape2@np-ints', 'samples@default-value', 'shape2@value-kw'][int(rng.integers(12))]
        val = ['nan', '0', '1.5'][int(rng.integers(3))]
        if kind == 'samples@default-value':
            val = 'nan'
        k0, k1 = int(rng.integers(0, 4)), int(rng.integers(1, 4))
        if rng.random() < 0.12:      # class H: pad by ZERO samples / to the same shape (draws made after the ordinary ones: the other variants keep theirs)
            kind = ['samples', 'samples2', 'shape2', 'samples2@list', 'shape2@value-kw', 'samples@default-value'][int(rng.integers(6))]
            k0 = k1 = 0
            if kind == 'samples@default-value':
                val = 'nan'
        return f'pad:{kind}:{k0},{k1}:{val}'
    if op == 'mask':
        kind = ['circle', 'random', 'edge'][int(rng.integers(3))]
        # a small pool of seeds per history, so that the SAME mask object is passed again later in the history
        out = f'mask:{kind}:{int(rng.integers(1, 4))}{["", "F", "S", "K"][int(rng.integers(4))]}'
        if rng.random() < 0.15:      # class H / J: all-true, all-false, a single valid sample left
            out = f'mask:{["all-true", "all-false", "single"][int(rng.integers(3))]}:{int(rng.integers(1, 4))}{["", "F", "K"][int(rng.integers(3))]}'
        return out
    if op == 'fill':
        out = 'fill:' + ['0', '2.5', '2.5@np32', '0@np64', '0@omitted', '2.5@kw', '2@int', '2.5@0d'][int(rng.integers(8))]
        if rng.random() < 0.12:      # class H: fill with NaN (a legal no-op)
            out = 'fill:' + ['nan', 'nan@kw', 'nan@np64'][int(rng.integers(3))]
        return out
    if op == 'spike_clip':
        return 'spike_clip:' + ['3', '2', '1.5', '2@int', '3@omitted', '2@kw', '1.5@np64', '2@0d'][int(rng.integers(8))]
    if op == 'latcal':
        return 'latcal:' + ['2.0', '0.1', '3.3', '2@int', '0.5@np32', '3.3@np64', '3.3@kw', '0.1@0d', '2@npint'][int(rng.integers(9))]
    if op == 'filter':
        return ('filter:' + ['lp', 'hp', 'lowpass', 'highpass', 'lowpass@omitted', 'lp@kw'][int(rng.integers(6))] + ':'
                + ['0.3', '0.6'][int(rng.integers(2))])
    return op


def op_class(opv):
    return opv.split(':', 1)[0]


def scalar_arg(txt):
    """'2.5' -> 2.5 ; '2@int' -> 2 (python int) ; '0.5@np32' -> numpy.float32(0.5) ; '3.3@np64' -> numpy.float64(3.3) ; '2@npint' ->
    numpy.int64(2) ; '0.1@0d' -> 0-d float64 array ; '@kw' / '@omitted' only say HOW the value is passed."""
    v, _, c = txt.partition('@')
    if c == 'int':
        return int(v)
    if c == 'npint':
        return np.int64(int(v))
    if c == 'np32':
        return np.float32(v)
    if c == 'np64':
        return np.float64(v)
    if c == '0d':
        return np.array(float(v))
    return float(v)


def shape_container(kind, shp):
    if kind == 'list':
        return [int(v) for v in shp]
    if kind == 'ndarray':
        return np.array(shp, dtype=np.int64)
    if kind == 'np-ints':
        return (np.int32(shp[0]), np.int64(shp[1]))
    return tuple(int(v) for v in shp)


def make_mask(kind, seed, shape):
    n0, n1 = shape
    rng = np.random.default_rng(int(seed))
    i, j = np.indices(shape)
    if kind == 'circle':
        c0 = (n0 - 1) / 2 + float(rng.uniform(-1, 1))
        c1 = (n1 - 1) / 2 + float(rng.uniform(-1, 1))
        rad = float(rng.uniform(0.32, 0.55)) * min(n0, n1)
        return np.hypot(i - c0, j - c1) <= max(rad, 1.2)
    if kind == 'random':
        return rng.random(shape) > 0.15
    if kind == 'all-true':
        return np.ones(shape, dtype=bool)
    if kind == 'all-false':
        return np.zeros(shape, dtype=bool)
    m = np.ones(shape, dtype=bool)   # 'edge': drop some leading/trailing rows and columns (asymmetric crop later)
    a, b, c, d = (int(v) for v in rng.integers(0, 3, 4))
    if a + b < n0 - 2:
        m[:a, :] = False
        if b:
            m[-b:, :] = False
    if c + d < n1 - 2:
        m[:, :c] = False
        if d:
            m[:, -d:] = False
    return m


# ------------------------------------------------------------------------------------------ one history
class History:
    def __init__(self, ctx, desc):
        from prysm.interferogram import Interferogram
        self.ctx = ctx
        self.desc = desc
        # class G: the same object in other units — heights times `scale`, lateral unit times `dxscale`; fill / pad values and plate scales
        # of the operations are converted with it, so a scaled history is the SAME physical history
        self.s = float(desc.get('scale', 1.0))
        self.K = float(desc.get('dxscale', 1.0))
        # `piston`: a constant (in units of the base data, whose own variation is ~10) added before scaling — |mean| / std of 1e5 .. 1e8
        z = ((make_base(desc['base'], desc['bseed']) + float(desc.get('piston', 0.0))) * self.s).astype(desc.get('dtype', 'float64'))
        self.prec = int(desc.get('prec', 64))
        self.lowp = self.prec == 32 or desc.get('dtype', 'float64') == 'float32'
        self.rt = 1e-9 if self.prec == 64 else 1e-4            # coordinates are built in the configured precision
        ctor = desc.get('ctor', 'dx=py')
        if self.K != 1.0 and ctor in CTOR_FORMS_INTDX:
            ctor = 'dx=py'
        self.obj = construct(Interferogram, relayout(z, desc.get('layout', 'C')), desc['dx'] * self.K, ctor)
        self.borderline = False      # a spike_clip level fell within round-off of a sample (the clipped set is then not comparable between units)
        fin0 = z[np.isfinite(z)]
        self.scale_hi = float(np.abs(fin0).max()) if fin0.size else 1.0     # largest data magnitude this history has seen
        self.populated = set()   # inferred cache population ('xy', 'rt') from the public reads / rebuilding ops of this history
        self.masks = {}      # (variant, shape) -> (mask object handed to prysm, pristine copy the model predicts from)
        self.executed = []
        self.skipped_ops = 0
        self.dead = False

    def tol(self, f64, f32):
        return f32 if self.lowp else f64

    def floor(self, scale):
        """Scale a relative threshold is applied to: the magnitude of the current data, but never below the round-off level of the
        data this history started from (after an exact fit has been removed the samples are numerical zeros; their float32 squares
        underflow, so statistics / laws of such data are only meaningful relative to that level)."""
        self.scale_hi = max(self.scale_hi, float(scale) if scale == scale and scale != float('inf') else 0.0)
        eps = 1.2e-7 if self.lowp else 2.3e-16
        return max(float(scale), eps * self.scale_hi, 1e-300)

    def pooled_mask(self, opv, shape, valid=None):
        _, kind, seed = opv.split(':')
        lay = seed[-1] if seed[-1] in 'FSK' else ''
        key = (kind, seed, tuple(shape))
        if key not in self.masks:
            if kind == 'single':         # keeps exactly one of the currently valid samples (chosen by the seed)
                m = np.zeros(shape, dtype=bool)
                idx = np.flatnonzero(valid.ravel()) if valid is not None else np.arange(0)
                if idx.size:
                    m.flat[int(idx[(7 * int(seed.rstrip('FSK')) + 3) % idx.size])] = True
            else:
                m = make_mask(kind, seed.rstrip('FSK'), shape)
            self.masks[key] = (np.asfortranarray(m) if lay == 'F' else relayout(m, 'strided') if lay == 'S' else m, m.copy())
        else:
            self.ctx.event('mask.same-object-passed-again')
        return self.masks[key]

    # -- monitors evaluated after every step ---------------------------------------------------------------
    def invariant(self, opc, pos):
        ctx, o, desc = self.ctx, self.obj, self.desc
        shape = o.data.shape
        if has_private_caches(o):
            ctx.observe(M1)
            p1 = coords_problems(shape, o.dx, *(getattr(o, n, None) for n in PRIVATE), self.rt)
        else:
            ctx.skip('M1: private cache fields not present in this implementation')
            p1 = []
        ctx.observe("M1'.user-view(deepcopy)")
        c = copy.deepcopy(o)
        p2 = coords_problems(shape, c.dx, c.x, c.y, c.r, c.t, self.rt)
        if c.dx != o.dx or not same(c.data, o.data):
            p2.append(('copy', 'deepcopy differs from the object'))
        if p1 or p2:
            kinds = sorted(set(k for k, _ in (p1 or p2)))
            if any(k[0] in 'xy' for k in kinds):    # polar problems next to Cartesian ones are consequences: key on x,y only
                kinds = [k for k in kinds if k[0] in 'xy']
            polar_only = all(k[0] in 'rt' for k, _ in p1 + p2)
            if polar_only:
                key = f'C12/polar-cache-stale/after:{opc}'
                what = (f'after reading r/t, {opc} leaves the cached polar coordinates stale: ' + '; '.join(d for _, d in (p1 or p2)))
            elif p1:
                key = f'C12/coords-incoherent/after:{opc}/{"+".join(k.replace(":", "-") for k in kinds)}'
                what = f'after {opc} the cached coordinates are incoherent with data/dx: ' + '; '.join(d for _, d in p1)
            else:
                key = f'C12/public-coords-incoherent/after:{opc}/{"+".join(k.replace(":", "-") for k in kinds)}'
                what = f'after {opc} the public x/y/r/t are incoherent with data/dx: ' + '; '.join(d for _, d in p2)
            ctx.violation(key, what, desc, step=pos, executed=self.executed, private=[k for k, _ in p1], public=[k for k, _ in p2])
            if polar_only:
                o.r = None      # through the public setters: "not computed", whatever the storage is
                o.t = None
                self.populated.discard('rt')
                ctx.event('monitor.dropped-stale-polar-cache-after-recorded-violation')
            else:
                self.dead = True

    def statistics(self, opc, pos):
        ctx, o, desc = self.ctx, self.obj, self.desc
        d = o.data
        if int(np.isfinite(d).sum()) < 1:
            ctx.skip('statistics: no valid sample')
            return
        s = finite_stats(d)
        ctx.observe('M3.statistics')
        with ctx.guard('C12/statistics', desc):
            got = {'pv': o.pv, 'rms': o.rms, 'Sa': o.Sa, 'std': o.std}
            fsc = self.floor(s['scale'])
            tol = self.tol(1e-10, 1e-4) * fsc
            if self.lowp:
                ro('statistics.value', max(abs(float(got[k]) - s[k]) for k in got) / fsc)
            bad = [k for k in got if not abs(float(got[k]) - s[k]) <= tol]
            if bad:
                nan = 'has-nan' if np.isnan(d).any() else 'nan-free'
                ctx.violation(f'C12/statistics/{"+".join(sorted(bad))}!=finite-sample-value/{nan}',
                              f'{"/".join(sorted(bad))} differ from the statistic of the finite samples', desc, step=pos,
                              got={k: got[k] for k in bad}, ref={k: s[k] for k in bad})
                return
            r2 = float(got['rms']) ** 2
            if self.lowp:
                ro('statistics.identity', abs(r2 - (float(got['std']) ** 2 + s['mean'] ** 2)) / max(r2, fsc ** 2, 1e-300))
            ok = abs(r2 - (float(got['std']) ** 2 + s['mean'] ** 2)) <= (1e-10 * max(r2, 1e-300) if not self.lowp else 1e-3 * max(r2, fsc ** 2))
            ok = ok and float(got['Sa']) <= float(got['std']) * (1 + 1e-12) + tol and float(got['std']) <= float(got['pv']) * (1 + 1e-12) + tol
            if not ok:
                ctx.violation('C12/statistics/identities', 'rms^2 != std^2 + mean^2 or not Sa <= std <= PV', desc, step=pos, got=got)

    # -- one operation -------------------------------------------------------------------------------------
    def step(self, opv, pos):
        ctx, o, desc = self.ctx, self.obj, self.desc
        opc = op_class(opv)
        before = o.data.copy()
        bnan = ~np.isfinite(before)
        nvalid = int((~bnan).sum())
        shape = before.shape
        state = cache_state(o, '+'.join(k for k in ('xy', 'rt') if k in self.populated))
        arg = None

        # ---- domain -------------------------------------------------------------------------------------
        # fits, clipping and filtering need >= 3 valid samples; crop, mask and piston removal are defined from one valid sample on (class J:
        # a single valid sample); with NO valid sample the statistics, the bounding box and the mean are undefined (out of domain)
        needs_valid = opc in ('spike_clip', 'remove_tiptilt', 'remove_power', 'filter')
        if needs_valid and nvalid < 3:
            ctx.skip(f'{opc}: fewer than 3 valid samples')
            return False
        if opc in ('crop', 'mask', 'remove_piston') and nvalid < 1:
            ctx.skip(f'{opc}: no valid sample')
            return False
        if opc == 'filter' and bnan.any():
            ctx.skip('filter: data has NaNs (out of domain)')
            return False
        marg = None
        if opc == 'mask':
            marg, arg = self.pooled_mask(opv, shape, ~bnan)     # marg: the object prysm gets; arg: pristine copy for the model
            special = opv.split(':')[1] in ('all-true', 'all-false', 'single')
            if int((arg & ~bnan).sum()) < 3 and not special:
                ctx.skip('mask: would leave fewer than 3 valid samples')
                return False
            if special:
                ctx.event(f'mask.{opv.split(":")[1]}->{min(int((arg & ~bnan).sum()), 3)}{"+" if int((arg & ~bnan).sum()) >= 3 else ""}-valid-left')
        if opc == 'remove_tiptilt':
            c = copy.deepcopy(o)
            A = np.stack([c.x[~bnan], c.y[~bnan]], axis=1).astype(float)
            sv = np.linalg.svd(A, compute_uv=False)
            if not (sv[-1] > 1e-4 * sv[0]):
                ctx.skip('remove_tiptilt: plane fit rank-deficient on the valid samples')
                return False
        if opc == 'remove_power':
            A = self._power_design(shape, ~bnan)
            sv = np.linalg.svd(A, compute_uv=False)
            if not (sv[-1] > 1e-4 * sv[0]):
                ctx.skip('remove_power: power fit rank-deficient on the valid samples')
                return False

        ctx.event(f'{state}|{opc}')
        nviol0 = sum(v['count'] for v in ctx.violations.values())
        # ---- the real call ------------------------------------------------------------------------------
        try:
            if opc == 'read-slices':
                o.slices()
            elif opc in READS and opc != 'foreign':
                getattr(o, opc[-1])
            elif opc == 'copy':
                self.obj = o = o.copy()
            elif opc == 'crop':
                o.crop()
            elif opc == 'foreign':
                foreign_traffic(ctx, list(shape), heavy='mini')     # class F: other consumers of the shared grid / frequency helpers
            elif opc == 'pad':
                _, kind, ks, val = opv.split(':')
                kind, _, cont = kind.partition('@')
                k0, k1 = (int(v) for v in ks.split(','))
                value = float('nan') if val == 'nan' else float(val) * self.s
                if kind == 'samples' and cont == 'default-value':
                    o.pad(samples=k1)                                   # the documented default fill (NaN), omitted
                    arg = (shape[0] + k1, shape[1] + k1)
                elif kind == 'samples':
                    o.pad(value, samples=k1)
                    arg = (shape[0] + k1, shape[1] + k1)
                elif kind == 'samples2':
                    o.pad(value, samples=shape_container(cont, (k0, k1)))
                    arg = (shape[0] + k0, shape[1] + k1)
                elif kind == 'shape2':
                    arg = (shape[0] + k1, shape[1] + k0)
                    if cont == 'value-kw':
                        o.pad(value=value, shape=arg)
                    else:
                        o.pad(value, shape=shape_container(cont, arg))
                else:
                    n = max(shape) + k1
                    arg = (n, n)
                    o.pad(value, shape=n)
            elif opc == 'mask':
                if opv.endswith('K'):
                    o.mask(mask=marg)
                else:
                    o.mask(marg)
            elif opc == 'fill':
                a_ = scalar_arg(opv.split(':')[1])
                if self.s != 1.0:
                    a_ = a_ * self.s
                arg = float(a_)
                how = opv.split('@')[-1]
                o.fill() if how == 'omitted' else o.fill(_with=a_) if how == 'kw' else o.fill(a_)
            elif opc == 'spike_clip':
                a_ = scalar_arg(opv.split(':')[1])
                arg = float(a_)
                how = opv.split('@')[-1]
                o.spike_clip() if how == 'omitted' else o.spike_clip(nsigma=a_) if how == 'kw' else o.spike_clip(a_)
            elif opc == 'latcal':
                a_ = scalar_arg(opv.split(':')[1])
                if self.K != 1.0:
                    a_ = a_ * self.K
                arg = float(a_)
                o.latcal(plate_scale=a_) if opv.endswith('@kw') else o.latcal(a_)
            elif opc == 'filter':
                _, typ, frac = opv.split(':')
                typ, _, how = typ.partition('@')
                fc = float(frac) / (2 * float(o.dx))
                o.filter(fc) if how == 'omitted' else o.filter(fc=np.float64(fc), typ=typ) if how == 'kw' else o.filter(fc, typ)
            else:
                getattr(o, opc)()
        except Exception as e:   # an exception on an in-domain step
            import traceback
            tb = traceback.extract_tb(e.__traceback__)
            where = [f'{f.filename.split("/prysm/")[-1]}:{f.lineno}:{f.name}' for f in tb if '/prysm/' in f.filename][-3:]
            ctx.violation(f'C12/{opc}/raises:{type(e).__name__}', f'{opc} on a {state} object raises {type(e).__name__}: {str(e)[:160]}',
                          desc, step=pos, executed=self.executed, where=where)
            self.dead = True
            return True
        self.executed.append(opv)
        if opc in ('read-x', 'read-y', 'read-slices', 'remove_tiptilt', 'recenter', 'latcal', 'strip_latcal', 'pad'):
            self.populated.add('xy')
        if opc in ('read-r', 'read-t', 'filter'):
            self.populated.update(('xy', 'rt'))
        if opc in ('recenter', 'latcal', 'strip_latcal', 'pad'):
            self.populated.discard('rt')

        # ---- M2 shadow model of data / NaN set ----------------------------------------------------------
        after = o.data
        anan = ~np.isfinite(after)
        ctx.observe('M2.shadow-nan-set')
        key = f'C12/shadow/{opc}'
        if opc in READS or opc in ('recenter', 'latcal', 'strip_latcal', 'copy'):
            if not same(after, before):
                ctx.violation(key + '/data-changed', f'{opc} changed the data', desc, step=pos)
        elif opc in ('remove_piston', 'remove_tiptilt', 'remove_power'):
            if after.shape != shape or not np.array_equal(anan, bnan):
                ctx.violation(key + '/nan-set-changed', f'{opc} changed the set of invalid samples', desc, step=pos)
        elif opc == 'mask':
            exp = bnan | ~arg
            if after.shape != shape or not np.array_equal(anan, exp):
                ctx.violation(key + '/nan-set', 'mask(m): invalid set is not old | ~m', desc, step=pos)
            elif not np.array_equal(after[~exp], before[~exp]):
                ctx.violation(key + '/values', 'mask(m) changed kept samples', desc, step=pos)
        elif opc == 'fill' and arg != arg:            # fill(NaN): a legal no-op on data and validity
            if not same(after, before):
                ctx.violation(key + '/values', 'fill(NaN) changed the data or the set of invalid samples', desc, step=pos)
        elif opc == 'fill':
            if after.shape != shape or anan.any():
                ctx.violation(key + '/nan-set', 'fill(v) left invalid samples', desc, step=pos, remaining=int(anan.sum()))
            elif not (np.array_equal(after[~bnan], before[~bnan]) and (after[bnan] == np.asarray(arg).astype(after.dtype)).all()):
                ctx.violation(key + '/values', 'fill(v) changed valid samples or did not write v into the invalid ones', desc, step=pos)
        elif opc == 'spike_clip':
            s = finite_stats(before)
            lvl = arg * s['std']
            mag = np.abs(np.where(bnan, 0.0, before))
            band = np.abs(mag - lvl) <= self.tol(1e-9, 1e-4) * self.floor(max(lvl, s['scale']))
            exp = bnan | (mag > lvl)
            if band.any():
                self.borderline = True
                ctx.skip('spike_clip: samples within 1e-9 (float32: 1e-4) of the clip level not compared', int(band.sum()))
            if after.shape != shape or not np.array_equal(anan[~band], exp[~band]):
                ctx.violation(key + '/nan-set', 'spike_clip(k): invalid set is not old | {|z| > k*std(valid)}', desc, step=pos)
            elif not np.array_equal(after[~exp & ~band], before[~exp & ~band]):
                ctx.violation(key + '/values', 'spike_clip changed kept samples', desc, step=pos)
        elif opc == 'pad':
            self._check_pad(before, bnan, after, anan, arg, opv, pos)
        elif opc == 'filter':
            if after.shape != shape or anan.any():
                ctx.violation(key + '/nan-set', 'filter on NaN-free data produced invalid samples or changed the shape', desc, step=pos)
        elif opc == 'crop':
            self._check_crop(before, bnan, after, pos)

        if o.data.size == 0:      # nothing further can be monitored on an empty array (the op that emptied it has been judged above)
            if before.size and sum(v['count'] for v in ctx.violations.values()) == nviol0:
                ctx.violation(f'C12/shadow/{opc}/empty-data', f'{opc} left an array without samples (shape {o.data.shape})', desc, step=pos,
                              executed=self.executed)
            self.dead = True
            return True

        # ---- M3 laws for this op ------------------------------------------------------------------------
        if opc == 'remove_piston':
            s = finite_stats(after)
            sc = self.floor(float(np.abs(before[~bnan]).max()))
            ctx.observe('M3.piston-zero-mean')
            if self.lowp:
                ro('piston.mean', abs(s['mean']) / max(sc, 1e-300))
            if not abs(s['mean']) <= self.tol(1e-9, 1e-4) * max(sc, 1e-300):
                ctx.violation('C12/remove_piston/mean-not-zero', 'mean of the valid samples after remove_piston is not 0', desc,
                              step=pos, mean=s['mean'], scale=sc)
        elif opc == 'remove_tiptilt' and not self.dead:
            self._check_refit('tilt', before, bnan, pos)
        elif opc == 'remove_power' and not self.dead:
            self._check_refit('power', before, bnan, pos)

        # ---- invariants after every op ------------------------------------------------------------------
        self.invariant(opc, pos)
        self.statistics(opc, pos)
        return True

    @staticmethod
    def _power_design(shape, valid):
        x, y = np.linspace(-1, 1, shape[1]), np.linspace(-1, 1, shape[0])
        xx, yy = np.meshgrid(x, y)
        rho2 = (xx * xx + yy * yy)[valid]
        return np.stack([rho2, np.ones_like(rho2)], axis=1)

    def _check_refit(self, which, before, bnan, pos):
        ctx, o, desc = self.ctx, self.obj, self.desc
        after = o.data
        valid = ~bnan
        # scale: the data before AND after (on an ill-conditioned support the removed term, and so the result, can be much larger than the input)
        sc = self.floor(max(float(np.abs(before[valid]).max()), float(np.abs(after[valid]).max()) if after.shape == before.shape else 0.0))
        c = copy.deepcopy(o)
        if which == 'tilt':
            A = np.stack([c.x[valid], c.y[valid]], axis=1).astype(float)
        else:
            A = self._power_design(after.shape, valid)
        # conditioning-aware threshold: prysm fits and subtracts in the floating point type of the data / coordinates, so what a re-fit can
        # still find is round-off amplified by the condition number of the design matrix on the valid samples (columns as prysm builds
        # them: x, y in the object's coordinates for the plane; rho^2, 1 on the [-1, 1] grid for the power term).  tol = max(fixed
        # threshold, 100 * cond * eps); where that bound exceeds 1e-2 the law cannot decide: excluded and counted.
        sv = np.linalg.svd(A, compute_uv=False)
        cond = float(sv[0] / sv[-1]) if sv[-1] > 0 else float('inf')
        bound = 100.0 * cond * (1.2e-7 if self.lowp else 2.3e-16)
        name = 'remove_tiptilt' if which == 'tilt' else 'remove_power'
        if not bound <= 1e-2:
            ctx.skip(f'{name}: refit law undecidable, 100 * cond(design on the valid samples) * eps(dtype) exceeds 1e-2 (ill-conditioned support)')
            return
        rtol = max(self.tol(1e-9, 1e-3), bound)
        coef = np.linalg.lstsq(A, after[valid].astype(float), rcond=None)[0]
        ncoef = 2 if which == 'tilt' else 1    # the constant of the power fit is not removed by remove_power
        term = float(np.abs(A[:, :ncoef] @ coef[:ncoef]).max())
        mon = f'M3.{which}-refit'
        ctx.observe(mon)
        if self.lowp:
            ro(f'{which}.refit-term', term / sc)
            ro(f'{which}.refit-term/(cond*eps32)', term / sc / (cond * 1.2e-7))
        if not term <= rtol * sc:
            ctx.violation(f'C12/{name}/refit-finds-residual-term', f're-fitting the {which} term after {name} finds a term of size {term:.3g} (data scale {sc:.3g})',
                          desc, step=pos, executed=self.executed)
            return
        getattr(c, name)()
        e = float(np.abs(c.data[valid] - after[valid]).max()) if c.data.shape == after.shape else float('inf')
        if self.lowp:
            ro(f'{which}.second-call', e / sc)
            ro(f'{which}.second-call/(cond*eps32)', e / sc / (cond * 1.2e-7))
        if not e <= rtol * sc:
            ctx.violation(f'C12/{name}/not-idempotent', f'a second {name} changes the data by {e:.3g} (data scale {sc:.3g})', desc, step=pos,
                          executed=self.executed)

    def _check_crop(self, before, bnan, after, pos):
        ctx, o, desc = self.ctx, self.obj, self.desc
        ctx.observe('M3.crop-laws')
        lr, tb = bbox(~bnan)
        exp = before[lr, tb]
        if not same(after, exp):
            lost = int((~bnan).sum()) - int(np.isfinite(after).sum())
            kind = 'loses-valid-samples' if lost > 0 else 'not-bounding-box'
            ctx.violation(f'C12/crop/{kind}', f'crop() is not the bounding box of the finite region: got shape {after.shape}, expected {exp.shape}, '
                          f'{lost} valid samples lost', desc, step=pos, executed=self.executed)
            return
        c = copy.deepcopy(o)
        c.crop()
        if not same(c.data, after):
            ctx.violation('C12/crop/not-idempotent', 'crop(crop(i)) != crop(i)', desc, step=pos, executed=self.executed)

    def _check_pad(self, before, bnan, after, anan, oshape, opv, pos):
        ctx, desc = self.ctx, self.desc
        key = 'C12/shadow/pad'
        val = opv.split(':')[3]
        if tuple(after.shape) != tuple(oshape):
            ctx.violation(key + '/shape', f'pad produced shape {after.shape}, requested {oshape}', desc, step=pos)
            return
        i0, i1 = before.shape
        o0, o1 = oshape
        cands = [(o0 // 2 - i0 // 2, o1 // 2 - i1 // 2)] + [(a, b) for a in range(o0 - i0 + 1) for b in range(o1 - i1 + 1)]
        hit = None
        for a, b in cands:
            if same(after[a:a + i0, b:b + i1], before):
                border = np.ones(oshape, dtype=bool)
                border[a:a + i0, b:b + i1] = False
                bv = after[border]
                okb = np.isnan(bv).all() if val == 'nan' else (bv == np.asarray(float(val) * self.s).astype(after.dtype)).all()
                if okb:
                    hit = (a, b)
                    break
        if hit is None:
            ctx.violation(key + f'/nan-set/value={"nan" if val == "nan" else "finite"}',
                          'pad: the result is not the old data moved rigidly into a border of the fill value '
                          '(invalid set must be the old one, plus the border when the fill is NaN)', desc, step=pos)

    def run(self):
        from ..util import precision
        with precision(self.prec):
            try:
                return self._run()
            except Exception as e:      # the MONITOR failed on an object state it cannot handle (never a verdict): counted, visible in the evidence
                self.ctx.skip(f'monitor aborted a history ({type(e).__name__}) - rest of that history not monitored')
                return False

    def _run(self):
        ctx = self.ctx
        # the fresh object must already satisfy everything
        self.invariant('construct', -1)
        self.statistics('construct', -1)
        full = True
        for pos, opv in enumerate(self.desc['ops']):
            if self.dead:
                full = False
                break
            did = self.step(opv, pos)
            if not did:
                full = False
                self.skipped_ops += 1
        return full



# ------------------------------------------------------------------------------------------ class E: argument forms
# Forms the CURRENT tree (/repo @ faa8443) accepts and treats as the same mathematical input (established by calling every public
# method with every candidate form and comparing data / dx / x / y / r / t / statistics with the canonical call):
#   constructor: dx as python float / int, numpy float32 / float64 / int64, 0-d array, positional or keyword, or omitted and followed by
#       latcal(dx); wavelength omitted (HeNe) / None / a number / 0 with meta {'wavelength' | 'Wavelength'}; intensity None / array;
#       data of dtype float64 / float32 for every operation, int64 / int32 for the operations that take integer data today (coordinate
#       reads, fill, pad with a finite fill, crop, recenter, latcal, strip_latcal, filter, statistics) — mask / spike_clip / pad(NaN) /
#       remove_* RAISE on integer data (cannot hold NaN / cannot subtract in place): out of domain; a nested list as data raises;
#   mask: boolean ndarray, C / F ordered or a strided view, positional or keyword.  An INTEGER mask is accepted today but means something
#       else (`~mask` is bitwise: rows -1 / -2 are selected), uint8 raises IndexError, float and list masks raise TypeError: out of domain;
#   fill: omitted == 0, python float / int, numpy float32 / float64, 0-d array, keyword `_with=`;
#   pad: samples = int | tuple | list | int ndarray | tuple of numpy ints | range; shape = int | tuple | list | int ndarray | tuple of numpy
#       ints; value omitted == NaN, positional or keyword (bare numpy integers, floats and 0-d arrays for samples / shape raise TypeError);
#   latcal: python float / int, numpy float32 / float64 / int64, 0-d array, keyword `plate_scale=`;  spike_clip: omitted == 3, keyword `nsigma=`;
#   filter: typ omitted == 'lowpass' == 'lp', 'highpass' == 'hp'; fc python / numpy float, keyword.
CTOR_FORMS = ['dx=py', 'dx=positional', 'dx=np64', 'dx=0d', 'dx=np32', 'dx=omitted+latcal', 'wavelength=None', 'wavelength=number', 'wavelength=meta',
              'wavelength=meta-Wavelength', 'intensity=array', 'all-positional']
CTOR_FORMS_INTDX = ['dx=int', 'dx=npint']


def construct(Interferogram, z, dx, form='dx=py'):
    dx = float(dx)
    if form == 'dx=positional':
        return Interferogram(z, dx)
    if form == 'dx=np64':
        return Interferogram(z, dx=np.float64(dx))
    if form == 'dx=0d':
        return Interferogram(z, dx=np.array(dx))
    if form == 'dx=np32':
        return Interferogram(z, dx=np.float32(dx))
    if form == 'dx=int':
        return Interferogram(z, dx=int(dx))
    if form == 'dx=npint':
        return Interferogram(z, dx=np.int64(int(dx)))
    if form == 'dx=omitted+latcal':
        return Interferogram(z).latcal(dx)
    if form == 'wavelength=None':
        return Interferogram(z, dx=dx, wavelength=None)
    if form == 'wavelength=number':
        return Interferogram(z, dx, 0.55)
    if form == 'wavelength=meta':
        return Interferogram(z, dx=dx, wavelength=0, meta={'wavelength': 0.5e-6})
    if form == 'wavelength=meta-Wavelength':
        return Interferogram(z, dx=dx, wavelength=None, meta={'Wavelength': 0.5e-6})
    if form == 'intensity=array':
        return Interferogram(z, dx=dx, intensity=np.ones(np.shape(z)), meta={'note': 1})
    if form == 'all-positional':
        return Interferogram(z, dx, 0.6328, None, None)
    return Interferogram(z, dx=dx)


def op_forms(shape, pool):
    """{op: [(form label, callable(obj)), ...]}; the first entry of each list is the canonical call."""
    n0, n1 = shape
    m = pool['mask']
    nan = float('nan')
    F = {}
    F['fill'] = [('canonical', lambda o: o.fill(0.0)), ('_with=omitted', lambda o: o.fill()), ('_with=int', lambda o: o.fill(0)),
                 ('_with=np64', lambda o: o.fill(np.float64(0))), ('_with=np32', lambda o: o.fill(np.float32(0))),
                 ('_with=0d', lambda o: o.fill(np.array(0.0))), ('_with=keyword', lambda o: o.fill(_with=0.0))]
    F['fill2.5'] = [('canonical', lambda o: o.fill(2.5)), ('_with=np32', lambda o: o.fill(np.float32(2.5))), ('_with=0d', lambda o: o.fill(np.array(2.5))),
                    ('_with=keyword-np64', lambda o: o.fill(_with=np.float64(2.5)))]
    for nm, val in (('pad-nan', nan), ('pad-finite', pool.get('finite', 1.5))):
        k0, k1 = pool['k']
        L = [('canonical', lambda o, v=val: o.pad(v, samples=(k0, k1))),
             ('samples=list', lambda o, v=val: o.pad(v, samples=[k0, k1])),
             ('samples=ndarray', lambda o, v=val: o.pad(v, samples=np.array([k0, k1]))),
             ('samples=np-ints', lambda o, v=val: o.pad(v, samples=(np.int64(k0), np.int32(k1)))),
             ('shape=tuple', lambda o, v=val: o.pad(v, shape=(o.data.shape[0] + k0, o.data.shape[1] + k1))),
             ('shape=list', lambda o, v=val: o.pad(v, shape=[o.data.shape[0] + k0, o.data.shape[1] + k1])),
             ('shape=ndarray', lambda o, v=val: o.pad(v, shape=np.array([o.data.shape[0] + k0, o.data.shape[1] + k1]))),
             ('shape=np-ints', lambda o, v=val: o.pad(v, shape=(np.int32(o.data.shape[0] + k0), np.int64(o.data.shape[1] + k1)))),
             ('value=keyword', lambda o, v=val: o.pad(value=v, samples=(k0, k1)))]
        if k1 == k0 + 1:
            L.append(('samples=range', lambda o, v=val: o.pad(v, samples=range(k0, k0 + 2))))
        if k0 == k1:
            L.append(('samples=int', lambda o, v=val: o.pad(v, samples=k0)))
        # shape=int only means the same when the target is square: decided at call time, else the tuple form is used
        L.append(('shape=int-when-square', lambda o, v=val: o.pad(v, shape=o.data.shape[0] + k0) if o.data.shape[0] + k0 == o.data.shape[1] + k1
                  else o.pad(v, shape=(o.data.shape[0] + k0, o.data.shape[1] + k1))))
        if nm == 'pad-nan':
            L.append(('value=omitted', lambda o: o.pad(samples=(k0, k1))))
            L.append(('value=omitted,shape=list', lambda o: o.pad(shape=[o.data.shape[0] + k0, o.data.shape[1] + k1])))
        F[nm] = L
    F['latcal'] = [('canonical', lambda o: o.latcal(2.0)), ('plate_scale=int', lambda o: o.latcal(2)), ('plate_scale=np64', lambda o: o.latcal(np.float64(2))),
                   ('plate_scale=np32', lambda o: o.latcal(np.float32(2))), ('plate_scale=npint', lambda o: o.latcal(np.int64(2))),
                   ('plate_scale=0d', lambda o: o.latcal(np.array(2.0))), ('plate_scale=keyword', lambda o: o.latcal(plate_scale=2.0))]
    F['spike_clip'] = [('canonical', lambda o: o.spike_clip(3.0)), ('nsigma=omitted', lambda o: o.spike_clip()), ('nsigma=int', lambda o: o.spike_clip(3)),
                       ('nsigma=np64', lambda o: o.spike_clip(np.float64(3))), ('nsigma=0d', lambda o: o.spike_clip(np.array(3.0))),
                       ('nsigma=keyword', lambda o: o.spike_clip(nsigma=3.0))]
    F['spike_clip1.5'] = [('canonical', lambda o: o.spike_clip(1.5)), ('nsigma=np32', lambda o: o.spike_clip(np.float32(1.5))),
                          ('nsigma=keyword-np64', lambda o: o.spike_clip(nsigma=np.float64(1.5)))]
    def mk(o):      # a mask of the object's CURRENT shape (the state before the call may have cropped it)
        return m.copy() if o.data.shape == m.shape else make_mask(pool['mask-kind'], pool['mask-seed'], o.data.shape)

    F['mask'] = [('canonical', lambda o: o.mask(mk(o))), ('mask=F-order', lambda o: o.mask(np.asfortranarray(mk(o)))),
                 ('mask=strided-view', lambda o: o.mask(relayout(mk(o), 'strided'))), ('mask=keyword', lambda o: o.mask(mask=mk(o))),
                 ('mask=transposed-view', lambda o: o.mask(np.ascontiguousarray(mk(o).T).T))]
    F['filter-lp'] = [('canonical', lambda o: o.filter(0.3 / (2 * float(o.dx)), 'lowpass')), ('typ=omitted', lambda o: o.filter(0.3 / (2 * float(o.dx)))),
                      ('typ=lp', lambda o: o.filter(0.3 / (2 * float(o.dx)), 'lp')),
                      ('fc=np64,keywords', lambda o: o.filter(fc=np.float64(0.3 / (2 * float(o.dx))), typ='lowpass'))]
    F['filter-hp'] = [('canonical', lambda o: o.filter(0.6 / (2 * float(o.dx)), 'highpass')), ('typ=hp', lambda o: o.filter(0.6 / (2 * float(o.dx)), 'hp')),
                      ('typ=keyword', lambda o: o.filter(0.6 / (2 * float(o.dx)), typ='hp'))]
    return F


def snapshot(o):
    """What a user reads from the object now (through a deep copy: the live object's caches are not populated)."""
    c = copy.deepcopy(o)
    d = c.data
    st = None
    if d.dtype.kind == 'f' and int(np.isfinite(d).sum()) >= 1:
        st = (float(c.pv), float(c.rms), float(c.Sa), float(c.std))
    return {'data': d, 'dx': float(c.dx), 'x': c.x, 'y': c.y, 'r': c.r, 't': c.t, 'stats': st}


def snap_diff(a, b, rt):
    """Names of the parts in which two snapshots differ (data exactly, coordinates / statistics to `rt`)."""
    out = []
    if not (a['data'].shape == b['data'].shape and np.array_equal(a['data'], b['data'], equal_nan=a['data'].dtype.kind == 'f')):
        da, db = np.asarray(a['data'], dtype=float), np.asarray(b['data'], dtype=float)
        if not (da.shape == db.shape and np.array_equal(np.isnan(da), np.isnan(db))
                and float(np.abs(np.nan_to_num(da) - np.nan_to_num(db)).max(initial=0)) <= rt * max(float(np.abs(np.nan_to_num(da)).max(initial=0)), 1e-300)):
            out.append('data')
    if not abs(a['dx'] - b['dx']) <= rt * abs(a['dx']):
        out.append('dx')
    for nm in ('x', 'y', 'r'):
        u, v = a[nm], b[nm]
        if not (np.shape(u) == np.shape(v) and float(np.abs(np.asarray(u, dtype=float) - np.asarray(v, dtype=float)).max(initial=0))
                <= rt * max(float(np.abs(u).max(initial=0)), abs(a['dx']))):
            out.append(nm)
    if np.shape(a['t']) != np.shape(b['t']) or (np.size(a['t']) and ang_err(np.asarray(b['t'], dtype=float), np.asarray(a['t'], dtype=float),
                                                                           np.asarray(a['r'], dtype=float)) > max(rt, 1e-12)):
        out.append('t')
    if (a['stats'] is None) != (b['stats'] is None):
        out.append('statistics')
    elif a['stats'] is not None:
        sc = max(abs(v) for v in a['stats']) or 1.0
        if not all(abs(u - v) <= max(rt, 1e-12) * sc for u, v in zip(a['stats'], b['stats'])):
            out.append('statistics')
    return out


PRESTATES = ['fresh', 'xy-read', 'r-read', 'after-latcal+r', 'after-crop+x']
TAILS = [(), ('latcal', 'read-r'), ('read-x', 'crop', 'read-t'), ('pad', 'recenter')]


def _prestate(o, name):
    if name == 'xy-read':
        o.x, o.y
    elif name == 'r-read':
        o.r, o.t
    elif name == 'after-latcal+r':
        o.latcal(0.5)
        o.r
    elif name == 'after-crop+x':
        o.crop()
        o.x, o.t
    return o


def _tail(o, tail):
    for t in tail:
        if t == 'latcal':
            o.latcal(3.3)
        elif t == 'pad':
            o.pad(0.0, samples=(1, 2))
        elif t.startswith('read-'):
            getattr(o, t[-1])
        else:
            getattr(o, t)()
    return o


def forms_workload(ctx):
    """Class E: every accepted form of every argument gives the state the canonical call gives (and a coherent one), on every base,
    for several cache-population states before the call and short canonical continuations after it."""
    from prysm.interferogram import Interferogram
    bases = FORM_BASES_Q if ctx.quick else BASES_T
    dxs = [1.0, 0.37, 12.5]
    k = -1
    for bi, b, rep in [(bi, b, rep) for rep in range(ctx.pick(1, 9)) for bi, b in enumerate(bases)]:
        z0 = make_base(b, ctx.seed + 7 * rep)          # thorough: nine content seeds per base, every dx
        shape = z0.shape
        for ci, dtype in enumerate(('float64', 'float32', 'int64', 'int32')):
            k += 1
            if not ctx.mine(k):
                continue
            dx = dxs[(bi + ci + rep) % 3]
            if bi % 3 == 1 and ci == 0:
                foreign_traffic(ctx, list(shape), heavy=True)
            isint = dtype.startswith('int')
            zz = np.nan_to_num(np.round(z0), nan=0.0).astype(dtype) if isint else z0.astype(dtype)
            rt = 1e-12
            # ---- constructor forms
            canon = snapshot(Interferogram(zz.copy(), dx=dx))
            for form in CTOR_FORMS + (CTOR_FORMS_INTDX if dx == 1.0 else []):
                desc = {'wl': 'forms', 'base': b, 'dtype': dtype, 'dx': dx, 'op': 'construct', 'form': form, 'class': f'forms:construct|{form}|{dtype}'}
                ctx.case(desc)
                try:
                    o = construct(Interferogram, zz.copy(), dx, form)
                    snap = snapshot(o)
                except Exception as e:
                    ctx.violation(f'C12/construct/form:{form}/raises:{type(e).__name__}', f'constructor form {form} raises {type(e).__name__}: {str(e)[:120]}', desc)
                    continue
                ctx.observe('forms.construct')
                diff = snap_diff(canon, snap, 1e-4 if form == 'dx=np32' else rt)
                probs = coords_problems(shape, o.dx, snap['x'], snap['y'], snap['r'], snap['t'], 1e-9)
                if diff or probs:
                    ctx.violation(f'C12/construct/form:{form}/' + ('differs-from-canonical' if diff else 'coords-incoherent'),
                                  f'Interferogram constructed with {form} differs from Interferogram(data, dx=python float) in {diff} / {[p[0] for p in probs]}', desc,
                                  differs=diff)
            # ---- operation forms
            mkind = ['circle', 'random', 'edge'][(bi + ci) % 3]
            pool = {'mask': make_mask(mkind, 1 + bi, shape), 'mask-kind': mkind, 'mask-seed': 1 + bi,
                    'k': [(1, 2), (2, 2), (3, 1), (0, 3), (1, 1)][(bi + ci) % 5], 'finite': 2 if isint else 1.5}
            if pool['k'][0] + shape[0] == pool['k'][1] + shape[1] + 1:
                pool['k'] = (pool['k'][0], pool['k'][1] + 1)        # a square target now and then
            OF = op_forms(shape, pool)
            for opn, forms in OF.items():
                if isint and opn in ('pad-nan', 'mask', 'spike_clip', 'spike_clip1.5'):
                    ctx.skip('forms: operation raises on integer data on the current tree (cannot hold NaN): out of domain')
                    continue
                if opn.startswith('filter') and (not np.isfinite(zz.astype(float)).all() or min(shape) < 3):
                    ctx.skip('forms: filter on data with NaNs / fewer than 3 rows or columns (out of domain)')
                    continue
                if opn.startswith('spike_clip') or opn == 'mask':
                    if int(np.isfinite(zz.astype(float)).sum()) < 3:
                        continue
                for pi, pre in enumerate(PRESTATES):
                    if ctx.quick and pre != 'fresh' and (pi + bi + len(opn)) % 2:
                        continue            # quick tier: the fresh state always, the other states alternately
                    tail = TAILS[(pi + bi + len(opn)) % len(TAILS)]
                    ref = None
                    for form, call in forms:
                        desc = {'wl': 'forms', 'base': b, 'dtype': dtype, 'dx': dx, 'op': opn, 'form': form, 'before': pre, 'then': list(tail),
                                'class': f'forms:{opn}|{form}|{dtype}'}
                        ctx.case(desc, nontrivial=form != 'canonical')
                        try:
                            o = _prestate(Interferogram(zz.copy(), dx=dx), pre)
                            call(o)
                            s1 = snapshot(o)
                            _tail(o, tail)
                            s2 = snapshot(o)
                        except Exception as e:
                            if form == 'canonical':
                                ctx.skip(f'forms: canonical {opn} raised {type(e).__name__} in this state (judged by the history workload)')
                                break
                            ctx.violation(f'C12/{opn.split("-")[0].rstrip("0123456789.")}/form:{form}/raises:{type(e).__name__}',
                                          f'{opn} called as {form} raises {type(e).__name__} where the canonical call does not: {str(e)[:120]}', desc)
                            continue
                        if form == 'canonical':
                            ref = (s1, s2)
                            if any(coords_problems(q['data'].shape, q['dx'], q['x'], q['y'], q['r'], q['t'], 1e-9) for q in ref):
                                ctx.skip('forms: the canonical call itself leaves incoherent coordinates (judged by the history workload), forms not compared')
                                break
                            continue
                        ctx.observe('forms.operations')
                        lowrt = 1e-4 if 'np32' in form else rt
                        d1, d2 = snap_diff(ref[0], s1, lowrt), snap_diff(ref[1], s2, lowrt)
                        probs = coords_problems(s2['data'].shape, s2['dx'], s2['x'], s2['y'], s2['r'], s2['t'], 1e-9)
                        if d1 or d2 or probs:
                            where = 'differs-from-canonical' if d1 else 'later-steps-differ' if d2 else 'coords-incoherent'
                            ctx.violation(f'C12/{opn.split("-")[0].rstrip("0123456789.")}/form:{form}/{where}',
                                          f'{opn} called as {form} (object {pre}) leaves another state than the canonical call: right after {d1}, after {list(tail)} {d2}, '
                                          f'coordinate problems {[p[0] for p in probs]}', desc)

# ------------------------------------------------------------------------------------------ classes G / H / J (HARDENING3.md)
# Established on the current tree (/repo @ c2c1d7f) first: every operation is homogeneous of degree one in the heights and consistent under a
# change of lateral unit (nothing in Interferogram is absolute; the plane fit has columns x, y — both scale with dx — and the power fit works
# on a normalised grid), fill(NaN) is a no-op, pad by zero samples / to the same shape rebuilds the coordinates and leaves the data alone,
# a mask may leave a single valid sample or none (then statistics / crop / piston are undefined: out of domain; coordinate reads, pad, fill,
# recenter, latcal, strip_latcal, mask and copy still work and must keep the object coherent).
SCALES = [1e-12, 1e-9, 1e-6, 1e6, 1e9, 1e12]
DXSCALES = [1e-9, 1e-6, 1e-3, 1e3, 1e6, 1e9]


def cap_piston(piston, sv, dtype):
    """float32 data must keep their squares (and the sum of a few thousand of them) inside float32: magnitudes above ~1e16 make rms / std
    overflow in the data's own type — that is the type's range, not the property.  Such a piston is dropped for float32 data."""
    if piston and dtype == 'float32' and (piston + 30.0) * sv > 1e16:
        return 0.0
    return piston


def scale_regime(sv, K):
    return (('heights-tiny' if sv < 1 else 'heights-huge') if sv != 1 else 'heights-1') + ',' + (('dx-tiny' if K < 1 else 'dx-huge') if K != 1 else 'dx-1')


def run_twin(ctx, dref, dsc):
    """Class G: the reference history and the same physical history in other units (heights * s, lateral unit * K, fill / pad values and
    plate scales converted) in lockstep.  Each is judged by every monitor of History at its own scale; after every step the scaled object
    must be the reference object in the other units: same valid set, data / s equal, dx / K equal, statistics / s equal."""
    from ..util import precision
    with precision(64):
        try:
            A, B = History(ctx, dref), History(ctx, dsc)
            sv, K = B.s, B.K
            regime = scale_regime(sv, K)
            for h in (A, B):
                h.invariant('construct', -1)
                h.statistics('construct', -1)
            Kcur = K        # strip_latcal resets the lateral unit to pixels (dx = 1) in both unit systems; latcal(K * plate scale) restores the ratio
            for pos, opv in enumerate(dref['ops']):
                if A.dead or B.dead:
                    break
                if op_class(opv) == 'spike_clip':
                    va = A.obj.data[np.isfinite(A.obj.data)]
                    if va.size and float(np.abs(va).max()) <= 1e-6 * A.scale_hi:
                        # the data are what round-off left of an exactly removed term: which of them exceed k * std is decided by that round-off
                        ctx.skip('scaled twin: spike_clip on numerical zeros (round-off residue of a removed term), twin comparison ended')
                        break
                ra, rb = A.step(opv, pos), B.step(opv, pos)
                if ra != rb:
                    ctx.skip('scaled twin: a step is in domain in one unit system only (borderline rank / validity decision), twin comparison ended')
                    break
                if A.borderline or B.borderline:
                    ctx.skip('scaled twin: a spike_clip level within round-off of a sample, twin comparison ended')
                    break
                if not ra or A.dead or B.dead:
                    continue
                opc = op_class(opv)
                Kcur = 1.0 if opc == 'strip_latcal' else K if opc == 'latcal' else Kcur
                ctx.observe('G.scaled-twin')
                da, db = A.obj.data, B.obj.data
                sc = max(A.scale_hi, 1e-300)
                what = None
                if da.shape != db.shape or not np.array_equal(np.isfinite(da), np.isfinite(db)):
                    what = 'valid-set'
                else:
                    fin = np.isfinite(da)
                    if fin.any() and not float(np.abs(db[fin].astype(float) / sv - da[fin].astype(float)).max()) <= 1e-7 * sc:
                        what = 'data'
                    elif not abs(float(B.obj.dx) / Kcur - float(A.obj.dx)) <= 1e-6 * abs(float(A.obj.dx)):     # 1e-6: plate scales also come as float32
                        what = 'dx'
                    elif fin.any():
                        sa = (A.obj.pv, A.obj.rms, A.obj.Sa, A.obj.std)
                        sb = (B.obj.pv, B.obj.rms, B.obj.Sa, B.obj.std)
                        if not all(abs(float(v) / sv - float(u)) <= 1e-7 * sc for u, v in zip(sa, sb)):
                            what = 'statistics'
                if what:
                    # the statistics are functions of the data alone: when only they differ no operation is to blame
                    ctx.violation(f'C12/scale:{regime}/{what}-not-scale-invariant' + ('' if what == 'statistics' else f'/after:{opc}'),
                                  f'after {opc} the object in other units (heights * {sv:g}, lateral unit * {K:g}) is not the reference object in those units: '
                                  f'{what} differ', dsc, step=pos, executed=B.executed)
                    break
        except Exception as e:      # the MONITOR failed on an object state it cannot handle (never a verdict): counted
            ctx.skip(f'monitor aborted a scaled-twin history ({type(e).__name__}) - rest of that history not monitored')


DEGENERATE = [
    ['mask:all-false:1', 'read-x', 'read-r', 'pad:samples2:1,2:nan', 'recenter', 'latcal:2.0', 'fill:0', 'crop'],
    ['read-r', 'mask:all-false:1', 'latcal:0.1', 'read-t', 'pad:shape2:0,0:0', 'strip_latcal', 'fill:2.5', 'remove_piston'],
    ['mask:all-false:2K', 'copy', 'fill:nan', 'pad:samples:0,0:nan', 'mask:all-true:1', 'read-slices', 'fill:0@omitted', 'crop', 'crop'],
    ['mask:single:1', 'crop', 'read-x', 'read-t', 'remove_piston', 'pad:samples2:2,1:nan', 'crop', 'recenter', 'latcal:3.3'],
    ['read-x', 'mask:single:2', 'remove_piston', 'crop', 'crop', 'pad:shape2:1,0:0', 'fill:nan', 'crop'],
    ['mask:single:3F', 'read-r', 'crop', 'latcal:2.0', 'read-r', 'pad:samples:0,0:1.5', 'mask:all-true:1', 'fill:2.5@kw', 'crop'],
    ['mask:all-true:1', 'crop', 'crop', 'fill:nan@kw', 'pad:samples2:0,0:nan', 'crop', 'pad:shape2@value-kw:0,0:1.5', 'remove_piston'],
    ['fill:nan', 'crop', 'pad:samples@default-value:0,0:nan', 'crop', 'fill:0', 'crop', 'pad:samples:0,0:0', 'spike_clip:3', 'crop'],
    ['crop', 'pad:samples2@list:0,0:nan', 'read-r', 'pad:shape2:0,0:nan', 'crop', 'mask:single:1K', 'crop', 'pad:samples:0,1:nan', 'crop'],
    ['mask:single:2', 'fill:0', 'crop', 'remove_tiptilt', 'mask:all-false:1', 'fill:1.5@np64', 'crop', 'remove_power'],
]


def special_workload(ctx):
    """Classes H / J / G: explicit short histories through the special values (fill 0 / NaN, pad by zero samples, crop of an already tight
    array, mask all-true / all-false / single valid sample) on every base, at the reference scale and in extreme units."""
    bases = BASES_Q if ctx.quick else BASES_T
    dxs = [1.0, 0.37, 12.5]
    k = -1
    for rep in range(ctx.pick(1, 6)):
        for bi, b in enumerate(bases):
            for qi, ops in enumerate(DEGENERATE):
                k += 1
                if not ctx.mine(k):
                    continue
                cfgs = [(64, 'float64', 1.0, 1.0)]
                if (k // ctx.nshards) % 2 == 0:
                    cfgs.append((64, 'float64', SCALES[(k + rep) % 6], DXSCALES[(k // 3 + rep) % 6]))
                if (k // ctx.nshards) % 3 == 1:
                    cfgs.insert(0, (32, 'float32', 1.0, 1.0))
                if (k // ctx.nshards) % 5 == 2:
                    cfgs.append((64, 'float32', SCALES[(k + 2) % 6], DXSCALES[(k + 1) % 6]))
                for prec, dtype, sv, K in cfgs:
                    desc = {'class': f'special|{b}|seq{qi}|p{prec}/{dtype}|{scale_regime(sv, K)}', 'base': b, 'bseed': ctx.seed + 3 * rep, 'dx': dxs[(bi + qi + rep) % 3],
                            'ops': ops, 'layout': LAYOUTS[(k + rep) % len(LAYOUTS)], 'prec': prec, 'dtype': dtype, 'ctor': 'dx=py'}
                    if (k // ctx.nshards) % 4 == 3 and cap_piston([1e6, 1e9][(k // ctx.nshards // 4) % 2], sv, dtype):
                        desc['piston'] = [1e6, 1e9][(k // ctx.nshards // 4) % 2]
                    if sv != 1.0 or K != 1.0:
                        desc['scale'], desc['dxscale'] = sv, K
                    ctx.case(desc)
                    History(ctx, desc).run()


# ------------------------------------------------------------------------------------------ workload
def plan_sequences(ctx):
    """Global (shard-independent) list of planned op-class sequences: exhaustive to a depth, then random, deduplicated."""
    depth = ctx.pick(2, 3)
    seqs = []
    for L in range(1, depth + 1):
        seqs.extend(itertools.product(range(len(OPS)), repeat=L))
    nexh = len(seqs)
    seen = set(seqs)
    rng = np.random.default_rng([ctx.seed, 12, 0xC12])
    nrand = ctx.pick(1200, 60000)
    lo, hi = depth + 1, ctx.pick(8, 18)
    tries = 0
    while len(seqs) < nexh + nrand and tries < 20 * nrand:
        tries += 1
        L = int(rng.integers(lo, hi + 1))
        s = tuple(int(v) for v in rng.integers(0, len(OPS), L))
        if s not in seen:
            seen.add(s)
            seqs.append(s)
    return seqs, nexh, depth


CONFIGS = {0: [(32, 'float32'), (64, 'float64')],      # float32 warm-up of the same history, then the float64 run (32 -> 64 switch)
           1: [(64, 'float32')],                         # mixed: float32 data under precision 64
           2: [(32, 'float64'), (64, 'float64')]}        # mixed: float64 data under precision 32, then the float64 run


def _probe_private(ctx):
    """M1 is required only when the implementation has the private cache fields it inspects."""
    from prysm.interferogram import Interferogram
    o = Interferogram(np.zeros((2, 2)), dx=1.0)
    ok = has_private_caches(o)
    if not ok and M1 in REQUIRED:
        REQUIRED.remove(M1)
    if ok and M1 not in REQUIRED:
        REQUIRED.insert(0, M1)
    ctx.note('M1.private-cache-fields', 'present: M1 evaluated on _x,_y,_r,_t' if ok else
             'NOT present in this implementation: M1 skipped (counted), cache-population states in the events are inferred (suffix ~); '
             "M1' (public view of a deep copy), M2 and M3 decide")
    return ok


def _run(ctx):
    RO.clear()
    _probe_private(ctx)
    seqs, nexh, depth = plan_sequences(ctx)
    bases = BASES_Q if ctx.quick else BASES_T
    dxs = [1.0, 0.37, 12.5]
    pairs = set()
    nfull = 0
    nplanned = 0
    hcount = 0
    nsmall = sum(len(OPS) ** L for L in (1, 2))   # the shortest histories all run on shard 0, first => near-minimal witnesses
    for j, s in enumerate(seqs):
        if (ctx.shard != 0) if j < nsmall else (not ctx.mine(j)):
            continue
        nplanned += 1
        exhaustive_part = j < nexh
        if ctx.quick:
            combos = [(b, dxs[(j + k) % 3]) for k, b in enumerate(bases)]
        elif exhaustive_part:
            combos = [(b, dx) for b in bases for dx in dxs]
        else:
            combos = [(bases[(j + k) % len(bases)], dxs[(j + k) % 3]) for k in range(4)]
        any_full = False
        for b, dx in combos:
            hcount += 1
            vr = np.random.default_rng([ctx.seed, j, sum(map(ord, b)), int(dx * 100)])
            ops = [draw_variant(OPS[i], vr) for i in s]
            layout = LAYOUTS[hcount % len(LAYOUTS)]
            cforms = CTOR_FORMS + (CTOR_FORMS_INTDX if dx == 1.0 else [])
            ctor = cforms[(hcount // 2) % len(cforms)] if hcount % 2 else 'dx=py'           # class E: constructor argument forms
            if hcount % 16 == 7:
                foreign_traffic(ctx, list(BASE_SHAPE[b]), heavy=(hcount % 64 == 7))        # class F prelude, same axis lengths
            # class G: one history in four runs in other units (heights * s, lateral unit * K); one in eight of the plain float64 ones as a
            # lockstep twin of the reference-unit history (the scale laws), the others on their own (the ordinary monitors at that scale)
            sv, K = (SCALES[(hcount // 4) % 6], DXSCALES[(hcount // 24 + hcount // 4) % 6]) if hcount % 4 == 3 else (1.0, 1.0)
            piston = [0.0, 0.0, 1e6, 0.0, 1e9][(hcount // 4) % 5] if hcount % 4 == 3 else 0.0
            cfgs = CONFIGS.get(hcount % 6, [(64, 'float64')])
            for prec, dtype in cfgs:
                desc = {'class': f'{b}|len={len(s)}|p{prec}/{dtype}', 'base': b, 'bseed': ctx.seed, 'dx': dx, 'ops': ops, 'layout': layout,
                        'prec': prec, 'dtype': dtype, 'ctor': ctor}
                if cap_piston(piston, sv, dtype):
                    desc['piston'] = piston
                    desc['class'] += '|piston'
                if sv != 1.0 and hcount % 8 == 3 and cfgs == [(64, 'float64')]:
                    dsc = dict(desc, scale=sv, dxscale=K, **{'class': desc['class'] + '|' + scale_regime(sv, K) + '|twin'})
                    ctx.case(desc, nontrivial=any(op_class(o) not in READS for o in ops))
                    ctx.case(dsc, nontrivial=any(op_class(o) not in READS for o in ops))
                    run_twin(ctx, desc, dsc)
                    continue
                if sv != 1.0:
                    desc.update(scale=sv, dxscale=K)
                    desc['class'] += '|' + scale_regime(sv, K)
                ctx.case(desc, nontrivial=any(op_class(o) not in READS for o in ops))
                h = History(ctx, desc)
                full = h.run()
                any_full = any_full or full
        nfull += 1 if any_full else 0
    ctx.event('histories.distinct-planned-op-class-sequences', nplanned)
    ctx.event('histories.distinct-op-class-sequences-executed-in-full-on-some-base', nfull)
    npairs = sum(1 for k in ctx.events if '|' in k)
    ctx.note(f'shard{ctx.shard}.distinct-(cache-state x op)-pairs', npairs)
    ctx.note(f'shard{ctx.shard}.float32-roundoff-max(err/scale) [thresholds: coords 1e-4, statistics 1e-4, identity 1e-3, piston 1e-4, refit 1e-3]',
             {k: float(f'{v:.3g}') for k, v in sorted(RO.items())})
    ctx.note('alphabet', OPS)
    ctx.note('exhaustive-part', f'all {nexh} op-class sequences of length <= {depth} over the {len(OPS)}-class alphabet, on every base object'
             + ('' if ctx.quick else ' and every dx in {1, 0.37, 12.5}') + f'; plus {len(seqs) - nexh} distinct random sequences of length {depth + 1}..{ctx.pick(8, 18)}')
    ctx.note('events-legend', "'<cache-population-state>|<op>' = op executed on an object in that state (fresh = nothing cached; xy = _x,_y cached; "
             "xy+rt = all four cached; /offcentre = cached x,y not origin-centred, i.e. after a crop)")


def run(ctx):
    _run(ctx)
    special_workload(ctx)
    forms_workload(ctx)


def replay(ctx, rec):
    _probe_private(ctx)
    ws = rec.get('witnesses') or []
    done = False
    for w in ws:
        d = w.get('desc')
        if isinstance(d, dict) and 'ops' in d and 'base' in d:
            ctx.case(d)
            History(ctx, d).run()
            done = True
    if not done:
        run(ctx)
